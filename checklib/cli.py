"""Explorations that run the real anthem CLI (built from /repo's working tree)."""
import os
import random
import shutil
import subprocess
import sys
import tempfile
import time
from pathlib import Path

VERIF = Path(__file__).resolve().parent.parent
# VERIF_COV_DIR (set by tools/coverage.sh only): build the binary with coverage instrumentation into that scratch
# directory and let every run of it leave a profile there - a supporting measurement, never part of a check.
COV_DIR = os.environ.get("VERIF_COV_DIR")
CLI_TARGET = Path(COV_DIR) / "cli" if COV_DIR else VERIF / "harness" / "target" / "cli"
ANTHEM = CLI_TARGET / "debug" / "anthem"


def build_cli():
    """cargo build of /repo's binary into the harness target dir; returns (ok, log)."""
    env = dict(os.environ, CARGO_NET_OFFLINE="true")
    cargo = ["cargo"]
    if COV_DIR:
        cargo = ["cargo", "+nightly"]
        env["RUSTFLAGS"] = "-C instrument-coverage"
        os.environ["LLVM_PROFILE_FILE"] = str(Path(COV_DIR) / "prof" / "cli-%p-%m.profraw")
        env["LLVM_PROFILE_FILE"] = str(Path(COV_DIR) / "build-%p-%m.profraw")  # build scripts are instrumented too
    p = subprocess.run(cargo + ["build", "--offline", "--features", "verif", "--manifest-path", "/repo/Cargo.toml",
                                "--target-dir", str(CLI_TARGET)], stdout=subprocess.PIPE, stderr=subprocess.STDOUT, text=True, env=env, timeout=3600)
    return p.returncode == 0 and ANTHEM.exists(), p.stdout[-3000:]


FAKE_VAMPIRE = r'''#!/usr/bin/env python3
import fcntl, json, os, sys, time
d = os.environ["FAKE_VAMPIRE_DIR"]
data = sys.stdin.buffer.read()
with open(os.path.join(d, "counter"), "a+") as f:
    fcntl.flock(f, fcntl.LOCK_EX)
    f.seek(0)
    idx = len(f.read())
    f.write("x")
    f.flush()
    fcntl.flock(f, fcntl.LOCK_UN)
with open(os.path.join(d, "stdin_%d" % idx), "wb") as f:
    f.write(data)
plan = json.load(open(os.path.join(d, "plan.json")))
kind, delay = plan[idx % len(plan)]
time.sleep(delay)
out = sys.stdout.buffer
def status(w): out.write(("%% SZS status %s for problem\n" % w).encode())
rc = 0
if kind in ("Theorem", "CounterSatisfiable", "ContradictoryAxioms", "Timeout", "MemoryOut", "GaveUp", "Error"):
    out.write(b"% some banner\n"); status(kind)
elif kind == "unknown-word":
    status("Proved")
elif kind == "no-status":
    out.write(b"% Refutation not found\n")
elif kind == "non-utf8":
    out.write(b"\xff\xfe garbage\n"); status("Theorem")
elif kind == "theorem-then-nonzero":
    status("Theorem"); rc = 3
elif kind == "second-line-theorem":
    status("GaveUp"); status("Theorem")
elif kind == "crash":
    out.write(b"% about to crash\n"); out.flush(); os.kill(os.getpid(), 9)
elif kind == "status-on-stderr":
    out.write(b"% Refutation not found\n"); sys.stderr.write("% SZS status Theorem for problem\n"); sys.stderr.flush()
elif kind == "late-countersat":
    status("CounterSatisfiable")
elif kind == "huge-theorem":
    # more than a pipe buffer on both streams, the status line in the middle
    out.write(b"% proof search log line\n" * 6000); status("Theorem"); out.write(b"% more log\n" * 6000)
    sys.stderr.write("% warning line\n" * 8000); sys.stderr.flush()
elif kind == "huge-gaveup":
    sys.stderr.write("% warning line\n" * 8000); sys.stderr.flush()
    out.write(b"% proof search log line\n" * 9000); status("GaveUp")
elif kind == "unknown-then-theorem":
    status("Satisfiable"); status("Theorem")
elif kind == "lowercase-theorem":
    out.write(b"% SZS status theorem for problem\n")
elif kind == "theoremx":
    out.write(b"% SZS status TheoremX for problem\n")
out.flush()
sys.exit(rc)
'''

# outcome kind -> does the run count as "printed SZS status Theorem" (first status line)
PROVEN = {"Theorem": True, "theorem-then-nonzero": True, "huge-theorem": True}
KINDS = ["Theorem", "CounterSatisfiable", "ContradictoryAxioms", "Timeout", "MemoryOut", "GaveUp", "Error", "unknown-word",
         "no-status", "non-utf8", "theorem-then-nonzero", "second-line-theorem", "crash", "status-on-stderr",
         "huge-theorem", "huge-gaveup", "unknown-then-theorem", "lowercase-theorem", "theoremx"]

PROGRAM_PAIRS = [
    ("p(X) :- q(X).\nq(1..3).\nr :- not s.\n", "p(X) :- q(X), X = X.\nq(1). q(2). q(3).\nr :- not s, not not r.\n"),
    ("{p(X)} :- q(X).\n:- p(1), not q(2).\n", "p(X) :- q(X), not not p(X).\n:- p(1), not q(2).\n"),
    ("a :- b.\nb :- c.\n", "a :- c.\nb :- c.\n"),
    # tasks with very few or no problems in one direction (an empty program has no conjectures to offer)
    ("p.\n", ""),
    ("", "p.\n"),
    ("", ""),
    ("p :- q.\n", "p :- q.\nq :- p, q.\nr(X) :- p, X = 1..2.\n"),
    # a program against a verbatim copy: the forward and the backward problems consist of the same formulas
    ("p :- q.\nr(X) :- p, s(X).\n", "p :- q.\nr(X) :- p, s(X).\n"),
    ("{p}.\n", "{p}.\n"),
]


def prover_exploration(runs, seed):
    """Runs `anthem verify` with a stand-in vampire answering per plan. Returns (stats, failures)."""
    rng = random.Random(seed)
    failures, samples = [], []
    n_ok = hung = 0
    # a --save-problems directory that is re-used by several runs (a larger task first): the files of a run must be
    # exactly what the prover received in that run, whatever the directory held before
    shared_save = Path(tempfile.mkdtemp(prefix="c10_save_", dir=str(VERIF / "work")))
    # runs k < 0 are a fixed matrix (every fault kind once with one prover instance and once with three: a fault the
    # pool loses - an answer that never arrives counting as success - shows whatever the seed); runs k >= 0 are drawn
    for k in range(-2 * len(KINDS), runs):
        matrix = k < 0
        work = Path(tempfile.mkdtemp(prefix="c10_", dir=str(VERIF / "work")))
        try:
            bindir = work / "bin"
            bindir.mkdir()
            fake = bindir / "vampire"
            missing = (k % 11 == 10) and not matrix
            if not missing:
                fake.write_text(FAKE_VAMPIRE)
                fake.chmod(0o755)
            reuse = (k % 5 in (1, 2)) and not matrix
            # re-used directory: a larger task in run k%5==1, a smaller one right after it
            left, right = (PROGRAM_PAIRS[0] if k % 5 == 1 else PROGRAM_PAIRS[2]) if reuse else PROGRAM_PAIRS[rng.randrange(len(PROGRAM_PAIRS))]
            if matrix:
                left, right = PROGRAM_PAIRS[0]
            # every ninth run: an external-equivalence task, a program against a verbatim copy without private predicates -
            # its forward and backward problems consist of the same formulas under different names, and each of them must
            # still reach the prover
            ext = (k % 9 == 5) and not reuse
            if ext:
                left = right = rng.choice(["p(X) :- q(X).\nr :- p(1).\n", "p(X) :- q(X), not q(X+1).\n", "{p(X)} :- q(X).\nr :- p(X), X > 2.\n"])
            (work / "left.lp").write_text(left)
            (work / "right.lp").write_text(right)
            if ext:
                (work / "guide.ug").write_text("input: q/1.\noutput: p/1.\noutput: r/0.\n")
            fdir = work / "fake"
            fdir.mkdir()
            # plan: mostly all-Theorem or exactly one deviating outcome, sometimes fully random
            nplan = 12
            mode = rng.randrange(3)
            if mode == 0:
                plan = [["Theorem", rng.random() * 0.05] for _ in range(nplan)]
            elif mode == 1:
                plan = [["Theorem", rng.random() * 0.05] for _ in range(nplan)]
                plan[rng.randrange(4)] = [rng.choice(KINDS), rng.random() * 0.05]
            else:
                plan = [[rng.choice(KINDS), rng.random() * 0.05] for _ in range(nplan)]
            # every seventh run: a time limit of one second and one answer (CounterSatisfiable) that arrives well after twice the
            # limit - the stand-in ignores the limit, and a late result is still a result
            late = (k % 7 == 3) and not missing and not matrix
            if late:
                plan = [["Theorem", 0.0] for _ in range(nplan)]
                plan[rng.randrange(2)] = ["late-countersat", 2.6]
            (fdir / "plan.json").write_text(__import__("json").dumps(plan))
            save = shared_save if reuse else work / "problems"
            save.mkdir(exist_ok=True)
            before = {f.name: f.stat().st_mtime_ns for f in save.glob("*.p")}
            instances = rng.choice([1, 1, 2, 3, 4, 8])
            decomposition = "sequential" if reuse else rng.choice(["independent", "sequential"])
            direction = rng.choice(["universal", "universal", "forward", "backward"])
            env = dict(os.environ, PATH=str(bindir) + ":/usr/bin:/bin", FAKE_VAMPIRE_DIR=str(fdir), RUST_BACKTRACE="0")
            if late:
                instances = rng.choice([2, 3, 4])
            if matrix:
                # exactly one deviating outcome of this kind, all other answers Theorem; one prover instance, then three
                kind = KINDS[(k + 2 * len(KINDS)) % len(KINDS)]
                plan = [["Theorem", 0.01 * (j % 3)] for j in range(nplan)]
                plan[k % 2] = [kind, 0.02]
                (fdir / "plan.json").write_text(__import__("json").dumps(plan))
                instances = 1 if k < -len(KINDS) else 3
            # every sixth run prints the timings too (the verdict does not depend on them)
            timed = (k % 6 == 4)
            cmd = [str(ANTHEM), "verify", "--equivalence", "external" if ext else "strong", "--decomposition", decomposition, "--direction", direction] + ([] if timed else ["--no-timing"]) + [
                   "-n", str(instances), "--save-problems", str(save)] + (["-t", "1"] if late else []) + [str(work / "left.lp"), str(work / "right.lp")] + ([str(work / "guide.ug")] if ext else [])
            try:
                p = subprocess.run(cmd, stdout=subprocess.PIPE, stderr=subprocess.PIPE, env=env, timeout=90)
            except subprocess.TimeoutExpired:
                failures.append({"run": k, "instances": instances, "decomposition": decomposition, "direction": direction, "programs": [left, right],
                                 "plan": plan, "what": "verify did not finish within 90 s (every stand-in answer arrives within 3 s)"})
                hung += 1
                if hung >= 3:
                    break
                continue
            out = p.stdout.decode("utf-8", "replace")
            # the files written by this run (a re-used directory may hold older ones)
            saved = sorted(f for f in save.glob("*.p") if before.get(f.name) != f.stat().st_mtime_ns)
            nprob = len(saved)
            stdins = sorted(fdir.glob("stdin_*"))
            case = {"run": k, "instances": instances, "decomposition": decomposition, "direction": direction, "programs": [left, right], "external_task": ext,
                    "reused_save_directory": reuse, "plan": plan[:nprob], "missing_executable": missing, "time_limit_1s_with_late_answer": late}
            if p.returncode != 0 and "panicked at" in p.stderr.decode("utf-8", "replace"):
                failures.append(dict(case, what="verify panicked", stderr=p.stderr.decode("utf-8", "replace")[-600:]))
                continue
            success = "> Success!" in out
            failure = "> Failure!" in out
            if missing:
                expected = (nprob == 0)
            else:
                # invocation i gets plan[i]; every problem is handed over exactly once
                expected = all(PROVEN.get(plan[i % nplan][0], False) for i in range(nprob))
                if len(stdins) != nprob:
                    failures.append(dict(case, what=f"{len(stdins)} prover runs for {nprob} problems"))
                    continue
                texts = sorted(f.read_bytes() for f in stdins)
                files = sorted(f.read_bytes() for f in saved)
                if texts != files:
                    failures.append(dict(case, what="prover stdin differs from the --save-problems files"))
                    continue
                if len(set(f.name for f in saved)) != nprob:
                    failures.append(dict(case, what="problem names not distinct"))
                    continue
            if success == failure:
                failures.append(dict(case, what="neither/both verdict lines", stdout=out[-1500:], rc=p.returncode))
            elif success != expected:
                failures.append(dict(case, what=f"verdict success={success}, expected {expected}", stdout=out[-1500:]))
            else:
                n_ok += 1
                if len(samples) < 3:
                    samples.append(f"-n {instances} {decomposition}: outcomes {[x[0] for x in plan[:nprob]]}{' (no vampire in PATH)' if missing else ''} -> {'Success' if success else 'Failure'}")
        finally:
            shutil.rmtree(work, ignore_errors=True)
    shutil.rmtree(shared_save, ignore_errors=True)
    total = runs + 2 * len(KINDS)
    return {"evaluations": total, "distinct_nontrivial": n_ok, "samples": samples, "cli_runs": total, "cli_runs_agreeing": n_ok, "fault_matrix_runs": 2 * len(KINDS)}, failures


# ------------------------------------------------------------------ C16: crash exploration

import re as _re

TOKEN = _re.compile(r"\s+|[A-Za-z_][A-Za-z0-9_]*|\d+|<->|->|<-|:-|\.\.|!=|<=|>=|[^\sA-Za-z0-9_]")
SOUP = ["+", "-", "*", "/", "\\", "..", "(", ")", ",", ".", ":-", "not", "forall", "exists", "and", "or", "->", "<-", "<->", "=", "!=", "<", ">",
        "#inf", "#sup", "#true", "#false", "$i", "$g", "$s", "{", "}", "[", "]", ":", ";", "%", "\n", "X", "p", "1", "0", "-1", "input", "output", "assumption", "spec", "lemma",
        "definition", "inductive-lemma", "(forward)", "(backward)", "/", "é", "\x00", "\t"]
BIG = ["9223372036854775807", "9223372036854775808", "-9223372036854775808", "-9223372036854775809", "18446744073709551615", "18446744073709551616",
       "99999999999999999999999999", "0000000000000000000000001", "4294967296"]


def seed_texts():
    texts = {"lp": [], "spec": [], "ug": [], "po": []}
    for f in sorted(Path("/repo/res/examples").rglob("*")):
        if f.is_file() and f.suffix[1:] in texts:
            try:
                texts[f.suffix[1:]].append(f.read_text())
            except Exception:
                pass
    texts["lp"] += ["p(X/2) :- q(X,I,J).\n{q(V+1)} :- p(V), not q(X).\n", ":- .\n", "", "% only a comment", "p(1..3).\n:- p(X), not not q(X), X != Q.\n",
                    "p(V18446744073709551615).\n", "p(-9223372036854775808).\n", "p(V18446744073709551615, V, V99999999999999999999) :- q(V0, V00).\n"]
    texts["spec"] += ["assumption: forall X (p(X) -> exists Y$i (Y$i > 0 and q(X, Y$i))).\nspec(forward)[s1]: p(a) <-> not not q.\n", "lemma: d(1).\ndefinition: forall X (d(X) <-> X = 1).\n",
                      "spec: forall X (Y = 3).\n", ""]
    texts["ug"] += ["input: p/1.\noutput: q/2.\ninput: n -> integer.\nassumption: forall X (p(X) -> X > n).\n", "input: p/99999999999999999999999.\n", ""]
    texts["po"] += ["inductive-lemma: forall N$i (N$i >= 0 -> p(N$i)).\nlemma(forward): forall X (p(X) -> q(X)).\n", ""]
    return texts


def mutate(text, rng):
    toks = TOKEN.findall(text)
    if not toks:
        toks = [""]
    k = rng.randrange(10)
    for _ in range(1 + rng.randrange(3)):
        i = rng.randrange(len(toks))
        if k in (7, 8):
            # a run of repeated word / operator tokens (`not not not`, `forall forall`, `- - -`, `..  ..`)
            words = [n for n, t in enumerate(toks) if not t.isspace() and (t.isalpha() or t in ("-", "..", "not", "$"))]
            kw = [n for n in words if toks[n] in ("not", "forall", "exists", "and", "or", "-")]
            pool = kw if (kw and rng.random() < 0.7) else words
            if pool:
                j = rng.choice(pool)
                toks[j:j + 1] = [toks[j], " "] * (1 + rng.randrange(4)) + [toks[j]]
        elif k == 0:
            del toks[i]
            if not toks:
                toks = [""]
        elif k == 1:
            toks.insert(i, toks[i])
        elif k == 2:
            j = rng.randrange(len(toks))
            toks[i], toks[j] = toks[j], toks[i]
        elif k == 3:
            nums = [n for n, t in enumerate(toks) if t.isdigit()]
            if nums:
                toks[rng.choice(nums)] = rng.choice(BIG)
            else:
                toks.insert(i, rng.choice(BIG))
        elif k == 4:
            toks[i:i] = [rng.choice(SOUP) for _ in range(1 + rng.randrange(6))]
        elif k == 5:
            toks.insert(i, rng.choice(["(", ")", "((", "))", "(" * 50, ")" * 50]))
        elif k == 6:
            toks[i] = rng.choice(SOUP)
        else:
            pass  # unmutated
    return "".join(toks)


COMMANDS = {
    "lp": [["parse", "--as", "program", "--output", "default"], ["translate", "--with", "tau-star"], ["translate", "--with", "natural"], ["translate", "--with", "mu"],
           ["analyze", "--property", "tightness"], ["analyze", "--property", "regularity"]],
    "spec": [["parse", "--as", "specification", "--output", "default"], ["parse", "--as", "theory", "--output", "default"], ["translate", "--with", "gamma"], ["translate", "--with", "completion"],
             ["simplify", "--portfolio", "classic", "--strategy", "fixpoint"], ["simplify", "--portfolio", "intuitionistic", "--strategy", "shallow"], ["simplify", "--portfolio", "ht", "--strategy", "recursive"]],
    "ug": [["parse", "--as", "user-guide", "--output", "default"]],
    "po": [["parse", "--as", "specification", "--output", "default"]],
}


def classify_known(text, stderr):
    """known crash classes of the unchanged tree: the input feature AND the panic message must both match"""
    cls = []
    big = any(len(m.group().lstrip("0")) >= 19 and int(m.group()) > 9223372036854775807 for m in _re.finditer(r"\d+", text))
    if big and "ParseIntError" in stderr:
        cls.append("numeral-overflow")
    if _re.search(r"V0*1844674407370955\d{4}", text) and "attempt to add with overflow" in stderr:
        cls.append("global-index-overflow")
    # an output predicate declared with an arity that no formula can have (>= a million arguments): its empty definition
    # (fix 82641ae) cannot be built
    if _re.search(r"output\s*:\s*[A-Za-z_][A-Za-z0-9_]*\s*/\s*\d{7,}", text) and \
            ("capacity overflow" in stderr or "memory allocation of" in stderr or stderr == ""):
        cls.append("absurd-output-arity")
    return cls


def run_cli_case(cmd, work):
    """one CLI run -> (outcome, stderr); a command that ends in ("<stdin", text) gets text on its standard input"""
    stdin_text = b""
    if cmd and isinstance(cmd[-1], tuple):
        stdin_text = cmd[-1][1].encode()
        cmd = cmd[:-1]
    try:
        p = subprocess.run([str(ANTHEM)] + cmd, stdout=subprocess.PIPE, stderr=subprocess.PIPE, timeout=20, env=dict(os.environ, RUST_BACKTRACE="0"), input=stdin_text)
        err = p.stderr.decode("utf-8", "replace")
        if p.returncode == 0:
            return "ok", err
        if p.returncode < 0:
            return "signal", err
        if "panicked at" in err:
            return "panic", err
        return "error", err
    except subprocess.TimeoutExpired:
        return "timeout", ""


def _nest(n, open_, close, core):
    return open_ * n + core + close * n


def _quant_nest(n):
    s = "p(X1)"
    for k in range(n, 0, -1):
        s = f"{'forall' if k % 2 else 'exists'} X{k} ({s})"
    return s + ".\n"


EDGE_TEXTS = {
    "lp": ["", "% only a comment\n", "p.\n", "p(X) :- q(X).\n", ":- p.\n", "{p(1..3)}.\nq(X) :- p(X), not r.\n",
           "p(" + _nest(60, "(", ")", "1") + ").\n", "p(" + _nest(40, "-(", ")", "X") + ") :- q(X).\n",
           "p(9223372036854775807, -9223372036854775808).\n", "p(9223372036854775808).\n", "p(-9223372036854775809).\n", "p(X) :- q(X), X < 9999999999999999999.\n"],
    "spec": ["", "% only a comment\n", "p.\n", "forall X (p(X) <-> q(X)).\n",
             # deep nesting (a few hundred bytes): quantifiers, negations, parentheses, arithmetic
             _quant_nest(30), _nest(40, "not ", "", "p") + ".\n", _nest(60, "(", ")", "p") + ".\n",
             "p(" + _nest(40, "-(", ")", "1") + ").\n", _nest(25, "forall X (p(X) and ", ")", "q") + ".\n"],
    "ug": ["", "% only a comment\n", "input: q/1.\noutput: p/1.\n", "input: n -> integer.\noutput: p/0.\nassumption: n > 0.\n",
           # arities and numerals at the limits of usize / isize (accepted ones must survive every later stage)
           "input: q/9223372036854775807.\noutput: p/1.\n", "input: q/9223372036854775808.\noutput: p/1.\n", "input: q/18446744073709551615.\noutput: p/1.\n",
           "input: q/18446744073709551616.\noutput: p/1.\n", "input: q/1.\noutput: p/1.\nassumption: forall X (q(X) -> X > -9223372036854775808 and X < 9223372036854775807).\n",
           "input: q/1.\noutput: p/1.\nassumption: forall X (q(X) -> X < 9223372036854775808).\n"],
    "po": ["", "% only a comment\n", "lemma: forall X (p(X) -> p(X)).\n", "inductive-lemma: forall N$i (N$i >= 0 -> N$i >= 0).\n"],
}


def edge_matrix(work):
    """The deterministic part of the crash exploration: every command on the degenerate files of its kind, and the verify
    pipeline (problem construction only) on every combination of degenerate specification / program / user guide / proof
    outline x decomposition x direction.  Yields (cmd, files-text)."""
    for kind, cmds in COMMANDS.items():
        for t in EDGE_TEXTS[kind]:
            f = work / f"edge.{kind}"
            for c in cmds:
                f.write_text(t)
                yield c + [str(f)], t
    # every output format of `parse`, input from a file and from standard input
    for kind, what in (("lp", "program"), ("spec", "specification"), ("spec", "theory"), ("ug", "user-guide")):
        for t in EDGE_TEXTS[kind][:6]:
            f = work / f"edge.{kind}"
            f.write_text(t)
            yield ["parse", "--as", what, "--output", "debug", str(f)], t
            yield ["parse", "--as", what, "--output", "default", ("<stdin", t)], t
    for t in EDGE_TEXTS["lp"][:6]:
        yield ["translate", "--with", "tau-star", ("<stdin", t)], t
        yield ["analyze", "--property", "tightness", ("<stdin", t)], t
    for t in EDGE_TEXTS["spec"][:4]:
        yield ["simplify", "--portfolio", "classic", "--strategy", "fixpoint", ("<stdin", t)], t
        yield ["translate", "--with", "completion", ("<stdin", t)], t
    # command lines that cannot be served: each must end in an error message, not in a panic
    miss = work / "edge_missing"
    shutil.rmtree(miss, ignore_errors=True); miss.mkdir()
    (miss / "a.lp").write_text("p(X) :- q(X).\n"); (miss / "b.lp").write_text("p(X) :- q(X), X = X.\n"); (miss / "c.lp").write_text("r.\n")
    (miss / "g.ug").write_text("input: q/1.\noutput: p/1.\n"); (miss / "h.ug").write_text("input: q/1.\noutput: p/1.\n")
    (miss / "s.spec").write_text("spec: forall X (p(X) <-> q(X)).\n"); (miss / "t.spec").write_text("spec: forall X (p(X) <-> q(X)).\n")
    (miss / "o.po").write_text("lemma: forall X (p(X) -> q(X)).\n"); (miss / "o2.po").write_text("lemma: forall X (p(X) -> q(X)).\n")
    (miss / "noext").write_text("p.\n"); (miss / "x.txt").write_text("p.\n")
    (miss / "emptydir").mkdir(); (miss / "onlyug").mkdir(); (miss / "onlyug" / "g.ug").write_text("input: q/1.\noutput: p/1.\n")
    (miss / "full").mkdir()
    for n in ("a.lp", "b.lp", "g.ug"):
        (miss / "full" / n).write_text((miss / n).read_text())
    (miss / "afile").write_text("")
    m = lambda n: str(miss / n)
    nps = ["--no-proof-search"]
    for eq in ("strong", "external"):
        v = ["verify", "--equivalence", eq] + nps
        for files in ([], [m("a.lp")], [m("a.lp"), m("b.lp"), m("c.lp")], [m("g.ug")], [m("a.lp"), m("g.ug")], [m("s.spec"), m("g.ug")], [m("s.spec"), m("a.lp")],
                      [m("s.spec"), m("t.spec"), m("a.lp"), m("g.ug")], [m("a.lp"), m("b.lp"), m("g.ug"), m("h.ug")], [m("a.lp"), m("b.lp"), m("g.ug"), m("o.po"), m("o2.po")],
                      [m("a.lp"), m("a.lp")], [m("a.lp"), m("a.lp"), m("g.ug")], [m("noext"), m("a.lp")], [m("x.txt"), m("a.lp"), m("g.ug")], [m("nonexistent.lp"), m("a.lp")],
                      [m("emptydir")], [m("onlyug")], [m("full")], [m("full"), m("a.lp")], [m("nonexistent_dir")], [m("emptydir"), m("a.lp"), m("b.lp")],
                      [m("s.spec"), m("a.lp"), m("g.ug"), m("o.po")], [m("o.po"), m("a.lp"), m("g.ug")], [str(miss)]):
            yield v + files, " ".join(Path(x).name for x in files)
        yield v + ["--save-problems", m("nonexistent_dir/deeper"), m("a.lp"), m("b.lp"), m("g.ug")], "save into a missing directory"
        yield v + ["--save-problems", m("afile"), m("a.lp"), m("b.lp"), m("g.ug")], "save into a file"
        yield v + ["--formula-representation", "mu", m("a.lp"), m("b.lp"), m("g.ug")], "mu"
        yield v + ["--bypass-tightness", "--no-simplify", "--no-eq-break", m("a.lp"), m("b.lp"), m("g.ug")], "flags"
    for c in (["translate", "--with", "tau-star", m("nonexistent.lp")], ["translate", "--with", "tau-star", m("emptydir")], ["parse", "--as", "program", m("emptydir")],
              ["analyze", "--property", "tightness", m("nonexistent.lp")], ["simplify", "--portfolio", "classic", "--strategy", "fixpoint", m("emptydir")],
              ["translate", "--with", "gamma", m("a.lp")], ["translate", "--with", "tau-star", m("s.spec")], ["translate", "--with", "natural", m("g.ug")]):
        yield c, "unservable " + " ".join(c[:3])
    # the correspondence corpus through the real command line: every program (translations, strong equivalence with
    # its neighbour) and every external-equivalence task (problem construction only)
    cdir = VERIF / "corpus"
    progs = [l.strip() for l in (cdir / "programs.txt").read_text().splitlines() if l.strip() and not l.startswith("#")]
    cout = work / "corpus_out"
    for i, t in enumerate(progs):
        f = work / "corpus_a.lp"
        f.write_text(t + "\n")
        for c in (["translate", "--with", "tau-star"], ["translate", "--with", "natural"], ["translate", "--with", "mu"]):
            yield c + [str(f)], t
        if i % 2 == 1:
            g = work / "corpus_b.lp"
            g.write_text(progs[i - 1] + "\n")
            shutil.rmtree(cout, ignore_errors=True); cout.mkdir()
            yield ["verify", "--equivalence", "strong", "--no-proof-search", "--save-problems", str(cout), str(g), str(f)], progs[i - 1] + "|" + t
    for l in (cdir / "external.txt").read_text().splitlines():
        parts = [x.strip() for x in l.split(";;")]
        if len(parts) != 6 or l.startswith("#"):
            continue
        fl = parts[5].split()
        if len(fl) != 4:
            continue
        for x in work.glob("cx_*"):
            x.unlink()
        kind, text = parts[1].split(":", 1)
        fs = work / ("cx_a.lp" if kind.strip() == "prog" else "cx_a.spec")
        fs.write_text(text.strip() + "\n")
        (work / "cx_b.lp").write_text(parts[2] + "\n"); (work / "cx_c.ug").write_text(parts[3] + "\n")
        files = [str(fs), str(work / "cx_b.lp"), str(work / "cx_c.ug")]
        if parts[4]:
            (work / "cx_d.po").write_text(parts[4] + "\n"); files.append(str(work / "cx_d.po"))
        shutil.rmtree(cout, ignore_errors=True); cout.mkdir()
        yield ["verify", "--equivalence", "external", "--no-proof-search", "--decomposition", fl[0], "--direction", fl[1], "--save-problems", str(cout)] + \
              ([] if fl[2] == "true" else ["--no-simplify"]) + ([] if fl[3] == "true" else ["--no-eq-break"]) + files, "|".join(parts[1:5])
    # proof search switched ON: tasks without any problem (nothing to prove, whatever the number of prover instances,
    # cores or the time limit) and small tasks whose prover cannot be started (no `vampire` is installed here): a verdict or
    # an error message, never a panic
    (miss / "e1.lp").write_text(""); (miss / "e2.lp").write_text("% nothing\n"); (miss / "e.ug").write_text(""); (miss / "e.spec").write_text("")
    for extra in ([], ["-n", "0"], ["-n", "2"], ["-n", "3"], ["-n", "8"], ["-m", "0"], ["-t", "0"], ["-n", "3", "-m", "0", "-t", "0"], ["--decomposition", "independent", "-n", "4"]):
        yield ["verify", "--equivalence", "strong", "--no-timing"] + extra + [m("e1.lp"), m("e2.lp")], "two empty programs " + " ".join(extra)
        yield ["verify", "--equivalence", "external", "--no-timing"] + extra + [m("e1.lp"), m("e2.lp"), m("e.ug")], "empty external task " + " ".join(extra)
        yield ["verify", "--equivalence", "external", "--no-timing"] + extra + [m("e.spec"), m("e2.lp"), m("e.ug")], "empty specification " + " ".join(extra)
        yield ["verify", "--equivalence", "strong", "--no-timing", "--direction", "forward"] + extra + [m("a.lp"), m("e1.lp")], "forward, empty right program " + " ".join(extra)
    for extra in ([], ["-n", "3"], ["-n", "0"]):
        yield ["verify", "--equivalence", "strong", "--no-timing", "-t", "1"] + extra + [m("a.lp"), m("b.lp")], "prover cannot be started " + " ".join(extra)
        yield ["verify", "--equivalence", "external", "--no-timing", "-t", "1"] + extra + [m("a.lp"), m("b.lp"), m("g.ug")], "prover cannot be started " + " ".join(extra)
    # user guides with arities / numerals at the limits through the whole pipeline
    for k, u in enumerate(EDGE_TEXTS["ug"][4:]):
        fu = miss / f"limit{k}.ug"
        fu.write_text(u)
        yield ["verify", "--equivalence", "external", "--no-proof-search", m("a.lp"), m("b.lp"), str(fu)], u
        yield ["verify", "--equivalence", "external", "--no-proof-search", m("s.spec"), m("a.lp"), str(fu)], u
    out = work / "edge_out"
    for dec in ("independent", "sequential"):
        for dirn in ("universal", "forward", "backward"):
            base = ["--no-proof-search", "--decomposition", dec, "--direction", dirn, "--save-problems", str(out)]
            for a in EDGE_TEXTS["lp"][:4]:
                for b in EDGE_TEXTS["lp"][:4]:
                    shutil.rmtree(out, ignore_errors=True); out.mkdir()
                    fa, fb = work / "ea.lp", work / "eb.lp"
                    fa.write_text(a); fb.write_text(b)
                    yield ["verify", "--equivalence", "strong"] + base + [str(fa), str(fb)], a + "|" + b
            for sk, st in [("spec", x) for x in EDGE_TEXTS["spec"]] + [("lp", x) for x in EDGE_TEXTS["lp"][:4]]:
                for b in EDGE_TEXTS["lp"][:4]:
                    for u in EDGE_TEXTS["ug"][:3]:
                        for o in (None, EDGE_TEXTS["po"][2]):
                            shutil.rmtree(out, ignore_errors=True); out.mkdir()
                            # file names chosen so that the specification sorts first (Files::sort is by file name)
                            fs, fb, fu, fo = work / f"ea.{sk}", work / "eb.lp", work / "ec.ug", work / "ed.po"
                            for x in (work / "ea.spec", work / "ea.lp"):
                                x.unlink(missing_ok=True)
                            fs.write_text(st); fb.write_text(b); fu.write_text(u)
                            files = [str(fs), str(fb), str(fu)]
                            if o is not None:
                                fo.write_text(o); files.append(str(fo))
                            yield ["verify", "--equivalence", "external"] + base + files, "|".join([st, b, u, o or ""])


def crash_exploration(runs, seed):
    rng = random.Random(seed)
    texts = seed_texts()
    work = Path(tempfile.mkdtemp(prefix="c16_", dir=str(VERIF / "work")))
    failures, known_seen, outcomes, samples = [], {}, {"ok": 0, "error": 0, "panic": 0, "signal": 0, "timeout": 0}, []
    edge_runs = 0
    try:
        for cmd, text in edge_matrix(work):
            o, err = run_cli_case(cmd, work)
            outcomes[o] += 1
            edge_runs += 1
            if o in ("panic", "signal", "timeout"):
                cls = classify_known(text, err)
                if cls:
                    for c in cls:
                        known_seen[c] = known_seen.get(c, 0) + 1
                else:
                    failures.append({"command": [("<stdin" if isinstance(c, tuple) else c if not c.startswith(str(work)) else Path(c).name) for c in cmd], "input": text[:3000],
                                     "outcome": o, "stderr": err[-800:], "from": "edge matrix (files separated by |)"})
        for k in range(runs):
            kind = rng.choice(["lp", "lp", "spec", "spec", "ug", "po"])
            base = rng.choice(texts[kind])
            text = mutate(base, rng)
            f = work / f"in.{kind}"
            f.write_text(text, errors="replace")
            if rng.random() < 0.15:
                # verify pipeline (no proof search): needs two programs or program+spec+ug
                out = work / "out"
                shutil.rmtree(out, ignore_errors=True)
                out.mkdir()
                other = work / "other.lp"
                other.write_text(mutate(rng.choice(texts["lp"]), rng) if rng.random() < 0.5 else "p(X) :- q(X).\n", errors="replace")
                if kind == "lp":
                    cmd = ["verify", "--equivalence", "strong", "--no-proof-search", "--save-problems", str(out), str(f), str(other)]
                else:
                    ug = work / "g.ug"
                    ug.write_text(mutate(rng.choice(texts["ug"]), rng) if kind != "ug" else text, errors="replace")
                    spec = work / "s.spec"
                    spec.write_text(text if kind in ("spec", "po") else rng.choice(texts["spec"]), errors="replace")
                    cmd = ["verify", "--equivalence", "external", "--no-proof-search", "--save-problems", str(out), str(spec), str(other), str(ug)]
            else:
                cmd = rng.choice(COMMANDS[kind]) + [str(f)]
            try:
                p = subprocess.run([str(ANTHEM)] + cmd, stdout=subprocess.PIPE, stderr=subprocess.PIPE, timeout=20, env=dict(os.environ, RUST_BACKTRACE="0"))
                err = p.stderr.decode("utf-8", "replace")
                if p.returncode == 0:
                    o = "ok"
                elif p.returncode < 0:
                    o = "signal"
                elif "panicked at" in err:
                    o = "panic"
                elif err.strip():
                    o = "error"
                else:
                    o = "error" if p.returncode != 0 else "ok"
            except subprocess.TimeoutExpired:
                o, err = "timeout", ""
            outcomes[o] += 1
            if len(samples) < 3 and o in ("ok", "error") and k % 7 == 0:
                samples.append(f"{' '.join(cmd[:4])} on {len(text)} bytes ({kind}) -> {o}")
            if o in ("panic", "signal", "timeout"):
                alltext = text + "".join(x.read_text(errors="replace") for x in work.glob("*.*") if x.is_file() and x != f)
                cls = classify_known(alltext if cmd[0] == "verify" else text, err)
                if cls:
                    for c in cls:
                        known_seen[c] = known_seen.get(c, 0) + 1
                else:
                    failures.append({"command": cmd[:6], "input": text[:3000], "outcome": o, "stderr": err[-800:],
                                     "all_files": {x.name: x.read_text(errors="replace")[:2000] for x in work.glob("*.*") if x.is_file()} if cmd[0] == "verify" else {}})
    finally:
        shutil.rmtree(work, ignore_errors=True)
    return {"evaluations": runs + edge_runs, "edge_matrix_runs": edge_runs, "distinct_nontrivial": outcomes["ok"] + outcomes["error"], "samples": samples, "outcomes": outcomes,
            "known_crash_classes_seen": known_seen}, failures, known_seen


# ------------------------------------------------------------------ C18: a large theory keeps its order

def _ask_driver(requests, timeout=600):
    drv = VERIF / "lean" / ".lake" / "build" / "bin" / "anthem_model"
    p = subprocess.run([str(drv)], input="\n".join(requests) + "\n", stdout=subprocess.PIPE, text=True, timeout=timeout)
    return p.stdout.splitlines()


def _chain(n):
    s = f"p(X{n}$i)"
    for k in range(n, 1, -1):
        s = f"exists X{k}$i ((X{k-1}$i = {k-1} -> X{k}$i = {k}) and {s})"
    return f"exists X1$i (X1$i = 1 and {s})"


def simplify_order_check(seed):
    """`anthem simplify` on theories of 5..200 formulas (the first one expensive): the output is the model's simplification of
    every formula, in input order. Returns (stats, failures)."""
    import sexp as sx
    rng = random.Random(seed)
    failures, checked = [], 0
    work = Path(tempfile.mkdtemp(prefix="c18o_", dir=str(VERIF / "work")))
    try:
        for m in (5, 63, 64, 65, 130):
            fs = [_chain(20 + rng.randrange(8))]
            for k in range(2, m + 1):
                fs.append(f"exists X (X = {k} and r(X))" if k % 10 == 0 else (f"q({k}) and #true" if k % 7 == 0 else f"q({k})"))
            text = "".join(f + ".\n" for f in fs)
            f = work / "big.spec"
            f.write_text(text)
            portfolio = rng.choice(["classic", "classic", "ht", "intuitionistic"])
            p = subprocess.run([str(ANTHEM), "simplify", "--portfolio", portfolio, "--strategy", "fixpoint", str(f)],
                               stdout=subprocess.PIPE, stderr=subprocess.PIPE, timeout=300)
            got = p.stdout.decode("utf-8", "replace")
            a = _ask_driver([sx.dump(["fol_parse", "theory", ("s", text)])])
            try:
                parsed = sx.parse(a[0])
                trees = parsed[1]
                b = _ask_driver([sx.dump(["simplify", portfolio, "fixpoint", "256", t]) for t in trees])
                outs = [sx.parse(x)[1] for x in b]
                c = _ask_driver([sx.dump(["print_formula", t]) for t in outs])
                expected = "".join(sx.parse(x)[1] + ".\n" for x in c)
            except Exception as e:
                failures.append({"what": f"model side failed on a theory of {m} formulas: {e}"})
                continue
            checked += 1
            if p.returncode != 0 or got != expected:
                gl, el = got.splitlines(), expected.splitlines()
                first = next((i for i in range(min(len(gl), len(el))) if gl[i] != el[i]), min(len(gl), len(el)))
                failures.append({"what": f"simplify --portfolio {portfolio} --strategy fixpoint on a theory of {m} formulas: output differs from the model's "
                                         f"simplification in input order (first difference at line {first + 1})", "input": text[:1500],
                                 "got_line": gl[first][:300] if first < len(gl) else None, "expected_line": el[first][:300] if first < len(el) else None,
                                 "rc": p.returncode})
    finally:
        shutil.rmtree(work, ignore_errors=True)
    return {"large_theories_checked": checked}, failures


# ------------------------------------------------------------------ C18: determinism across fresh processes

def determinism_exploration(runs, seed):
    """Same command, several fresh processes (different hash seeds): stdout and saved problems must be byte-identical.
    Inputs: seed texts, the repository's example tasks, and generated external tasks (harness dump_ext: several
    placeholders, input/output/private predicates, proof outlines)."""
    rng = random.Random(seed)
    texts = seed_texts()
    ex = Path("/repo/res/examples")
    ext_dirs = sorted({f.parent for f in ex.rglob("*.ug")})
    strong_dirs = sorted({f.parent for f in (ex / "strong_equivalence").rglob("*.lp")})
    work = Path(tempfile.mkdtemp(prefix="c18_", dir=str(VERIF / "work")))
    failures, samples, ok = [], [], 0
    kinds = {}
    try:
        gen_dirs = []
        hb = VERIF / "harness" / "target" / "release" / "verif-harness"
        if hb.exists():
            subprocess.run([str(hb), "dump_ext", "--seed", str(seed), "--n", str(max(20, runs)), "--out", str(work / "gen")], check=False, timeout=120)
            gen_dirs = sorted((work / "gen").glob("ext*"))
        witness_dirs = sorted(d for d in (VERIF / "corpus" / "determinism").glob("*") if d.is_dir())
        for k in range(-len(witness_dirs), runs):
            kind = rng.randrange(6) if k >= 0 else 6
            outs = []
            if kind == 6:
                # fixed witnesses (hash-order dependence needs several independent processes): six runs each
                cmd = ["verify", "--equivalence", "external", "--no-proof-search", "--no-timing", "--save-problems", "OUT", str(witness_dirs[k + len(witness_dirs)])]
            elif kind == 0:
                f = work / "in.lp"; f.write_text(rng.choice(texts["lp"]))
                cmd = ["translate", "--with", rng.choice(["tau-star", "mu", "natural"]), str(f)]
            elif kind == 1:
                f = work / "in.spec"; f.write_text(rng.choice(texts["spec"]))
                cmd = rng.choice([["simplify", "--portfolio", rng.choice(["classic", "ht", "intuitionistic"]), "--strategy", rng.choice(["shallow", "recursive", "fixpoint"])],
                                  ["translate", "--with", "gamma"], ["parse", "--as", "theory", "--output", "default"]]) + [str(f)]
            elif kind in (2, 4) and (ext_dirs or gen_dirs):
                pool = gen_dirs if (kind == 4 and gen_dirs) else ext_dirs
                cmd = ["verify", "--equivalence", "external", "--no-proof-search", "--no-timing", "--save-problems", "OUT"]
                if rng.random() < 0.3:
                    cmd += ["--no-simplify"]
                if rng.random() < 0.3:
                    cmd += ["--decomposition", rng.choice(["independent", "sequential"])]
                cmd += [str(rng.choice(pool))]
            else:
                if kind == 5 and gen_dirs:
                    d = rng.choice(gen_dirs)
                    lps = sorted(d.glob("*.lp"))[:2]
                else:
                    d = rng.choice(strong_dirs) if strong_dirs else None
                    if d is None:
                        continue
                    lps = sorted(d.glob("*.lp"))[:2]
                if len(lps) < 2:
                    continue
                cmd = ["verify", "--equivalence", "strong", "--no-proof-search", "--no-timing", "--save-problems", "OUT",
                       "--decomposition", rng.choice(["independent", "sequential"])] + [str(x) for x in lps]
            kinds[kind] = kinds.get(kind, 0) + 1
            for rep in range(6 if kind == 6 else 3):
                out = work / f"out{rep}"
                shutil.rmtree(out, ignore_errors=True)
                out.mkdir()
                c = [str(out) if x == "OUT" else x for x in cmd]
                p = subprocess.run([str(ANTHEM)] + c, stdout=subprocess.PIPE, stderr=subprocess.PIPE, timeout=120, env=dict(os.environ, RUST_BACKTRACE="0"))
                files = {f.name: f.read_bytes() for f in sorted(out.glob("*"))}
                outs.append((p.returncode, p.stdout, files))
            if any(o != outs[0] for o in outs[1:]):
                inputs = {}
                for a in cmd:
                    pa = Path(a)
                    if pa.is_dir() and str(pa).startswith(str(work)):
                        inputs.update({f.name: f.read_text() for f in sorted(pa.glob("*"))})
                    elif pa.is_file() and str(pa).startswith(str(work)):
                        inputs[pa.name] = pa.read_text()
                diff = sorted(n for n in set(outs[0][2]) | set(outs[1][2]) | set(outs[2][2]) if len({o[2].get(n) for o in outs}) > 1)
                failures.append({"command": [x.replace(str(work), "<work>") for x in cmd], "inputs": inputs, "differing_files": diff,
                                 "stdout_differs": len({o[1] for o in outs}) > 1,
                                 "what": "three fresh processes produced different output / problem files"})
            else:
                ok += 1
                if len(samples) < 2:
                    samples.append(f"{' '.join(cmd[:5])}: three fresh processes byte-identical ({len(outs[0][2])} files, {len(outs[0][1])} bytes stdout)")
    finally:
        shutil.rmtree(work, ignore_errors=True)
    return {"evaluations": runs, "distinct_nontrivial": ok, "samples": samples, "process_triples_identical": ok,
            "command_kinds": {str(k): v for k, v in sorted(kinds.items())}}, failures

def long_fixpoint_check():
    """A formula whose fixpoint simplification needs many passes (one link of a chain per pass) and noticeable time:
    the CLI must print the hand-computed normal form p(1, .., n), and simplifying that again must not change it."""
    n = 220
    items = ["X1 = 1"] + [f"X{i - 1} = {i - 1} -> X{i} = {i}" for i in range(2, n + 1)] + ["p(" + ", ".join(f"X{i}" for i in range(1, n + 1)) + ")"]

    def conj(lo, hi):
        if lo == hi:
            return items[lo]
        mid = (lo + hi) // 2
        return "(" + conj(lo, mid) + ") and (" + conj(mid + 1, hi) + ")"
    text = "exists " + " ".join(f"X{i}" for i in range(1, n + 1)) + " (" + conj(0, n) + ").\n"
    expected = "p(" + ", ".join(str(i) for i in range(1, n + 1)) + ").\n"
    work = Path(tempfile.mkdtemp(prefix="c18long_", dir=str(VERIF / "work")))
    failures = []
    try:
        f = work / "in.spec"
        f.write_text(text)
        t0 = time.time()
        p1 = subprocess.run([str(ANTHEM), "simplify", "--portfolio", "classic", "--strategy", "fixpoint", str(f)], stdout=subprocess.PIPE, stderr=subprocess.PIPE,
                            timeout=600, env=dict(os.environ, RUST_BACKTRACE="0"))
        secs = time.time() - t0
        out1 = p1.stdout.decode("utf-8", "replace")
        if out1 != expected:
            failures.append({"input": f"chain({n}): exists X1..X{n} (X1 = 1 and (X1 = 1 -> X2 = 2) and ... and p(X1, .., X{n})), balanced conjunction",
                             "expected": expected[:120], "cli_output": out1[:400], "note": "the fixpoint simplification did not reach the normal form"})
        else:
            g = work / "out1.spec"
            g.write_text(out1)
            p2 = subprocess.run([str(ANTHEM), "simplify", "--portfolio", "classic", "--strategy", "fixpoint", str(g)], stdout=subprocess.PIPE, stderr=subprocess.PIPE,
                                timeout=600, env=dict(os.environ, RUST_BACKTRACE="0"))
            if p2.stdout.decode("utf-8", "replace") != out1:
                failures.append({"input": f"chain({n})", "note": "the printed result is not a fixpoint: simplifying it again changes it", "cli_output": p2.stdout.decode("utf-8", "replace")[:400]})
    finally:
        shutil.rmtree(work, ignore_errors=True)
    return {"long_fixpoint_chain": n, "long_fixpoint_seconds": round(secs, 2)}, failures


# ------------------------------------------------------------------ glue: the command line vs the model, problem files

def glue_correspondence(kind, n, seed):
    """The whole command `anthem verify --no-proof-search --save-problems DIR ...` against the model: task directories (the
    correspondence corpus and generated tasks, written as files), every combination of --direction / --decomposition /
    --no-simplify / --no-eq-break / --bypass-tightness / --formula-representation drawn per task, the files given as a
    directory or one by one. The problem files the command writes must be, name by name and byte for byte, the problems the
    model computes for the task that the real parsers read from those files with those flags; a refused task must be refused
    by both. This ties the glue the in-process suites bypass (argument handling in procedures.rs, file roles, parsing of each
    role, `Problem::to_file`) to the model.  kind = "external" | "strong".  Returns (stats, failures)."""
    import sexp as sx
    rng = random.Random(seed * 7919 + (1 if kind == "strong" else 2))
    hb = VERIF / "harness" / "target" / "debug" / "verif-harness"
    work = Path(tempfile.mkdtemp(prefix=f"glue_{kind}_", dir=str(VERIF / "work")))
    failures, samples = [], []
    n_ok = n_refused = n_unreadable = 0
    try:
        dirs = []
        if kind == "external":
            for i, l in enumerate((VERIF / "corpus" / "external.txt").read_text().splitlines()):
                parts = [x.strip() for x in l.split(";;")]
                if len(parts) != 6 or l.startswith("#"):
                    continue
                d = work / f"c{i}"
                d.mkdir()
                k, text = parts[1].split(":", 1)
                (d / ("a_left.lp" if k.strip() == "prog" else "a_left.spec")).write_text(text.strip() + "\n")
                (d / "b_right.lp").write_text(parts[2] + "\n")
                (d / "c.ug").write_text(parts[3] + "\n")
                if parts[4]:
                    (d / "d.po").write_text(parts[4] + "\n")
                dirs.append((d, "corpus:" + parts[0]))
            subprocess.run([str(hb), "dump_ext", "--seed", str(seed), "--n", str(n), "--out", str(work / "gen")], check=False, timeout=300)
            dirs += [(d, "generated:" + d.name) for d in sorted((work / "gen").glob("ext*"))]
        else:
            progs = [l.strip() for l in (VERIF / "corpus" / "programs.txt").read_text().splitlines() if l.strip() and not l.startswith("#")]
            for i in range(0, len(progs) - 1, 2):
                d = work / f"s{i}"
                d.mkdir()
                (d / "a_left.lp").write_text(progs[i] + "\n")
                (d / "b_right.lp").write_text(progs[i + 1] + "\n")
                dirs.append((d, "corpus:" + progs[i]))
            subprocess.run([str(hb), "dump_ext", "--seed", str(seed + 1), "--n", str(n), "--out", str(work / "gen")], check=False, timeout=300)
            for d in sorted((work / "gen").glob("ext*")):
                # two programs of a generated task (a specification on the left is replaced by the right program)
                if not (d / "a_left.lp").exists():
                    (d / "a_left.lp").write_text((d / "b_right.lp").read_text())
                for x in ("a_left.spec", "c.ug", "d.po"):
                    (d / x).unlink(missing_ok=True)
                dirs.append((d, "generated:" + d.name))
        p = subprocess.run([str(hb), "task_sexp"] + [str(d) for d, _ in dirs], stdout=subprocess.PIPE, text=True, timeout=600)
        sexps = p.stdout.splitlines()
        if len(sexps) != len(dirs):
            return {"evaluations": 0, "distinct_nontrivial": 0}, [{"what": "the harness could not read the task directories", "stdout": p.stdout[-500:]}]
        reqs, runs = [], []
        # every corpus task runs twice: with drawn flags and with the complementary ones (each boolean flipped, the other
        # decomposition, another direction), so that every flag is seen in both positions on every hand-written task
        todo = []
        for (d, origin), s in zip(dirs, sexps):
            todo.append((d, origin, s, False))
            if origin.startswith("corpus:"):
                todo.append((d, origin, s, True))
        last = None
        for d, origin, s, complement in todo:
            if not s.startswith("(" + ("ext " if kind == "external" else "strong ")):
                n_unreadable += 1
                continue
            if complement and last:
                dec, dirn, rep, simplify, brk, bypass = last
                dec = "independent" if dec == "sequential" else "sequential"
                dirn = {"universal": "forward", "forward": "backward", "backward": "universal"}[dirn]
                simplify, brk, bypass = not simplify, not brk, (kind == "external" and not bypass)
            else:
                dec = rng.choice(["independent", "sequential"])
                dirn = rng.choice(["universal", "universal", "forward", "backward"])
                rep = "mu" if rng.random() < (0.5 if kind == "strong" else 0.05) else "tau-star"
                simplify, brk, bypass = rng.random() < 0.5, rng.random() < 0.5, (kind == "external" and rng.random() < 0.25)
            last = (dec, dirn, rep, simplify, brk, bypass)
            out = d / ("out2" if complement else "out")
            out.mkdir()
            if complement or rng.random() < 0.5:
                # the files one by one, under names whose path order is the REVERSE of the order given (roles follow the order
                # of the arguments, not the names)
                rev = d / ("rev2" if complement else "rev")
                rev.mkdir()
                given = []
                for src, dst in (("a_left.lp", "z_first.lp"), ("a_left.spec", "z_first.spec"), ("b_right.lp", "m_second.lp"), ("c.ug", "c_guide.ug"), ("d.po", "a_outline.po")):
                    if (d / src).exists():
                        (rev / dst).write_text((d / src).read_text())
                        given.append(str(rev / dst))
                files = given
            else:
                files = [str(d)]
            # explicit defaults are left out now and then (the default must be what the model is asked for)
            cmd = ["verify", "--equivalence", kind, "--no-proof-search", "--save-problems", str(out)]
            if not (dec == "sequential" and rng.random() < 0.3):
                cmd += ["--decomposition", dec]
            if not (dirn == "universal" and rng.random() < 0.3):
                cmd += ["--direction", dirn]
            if not (rep == "tau-star" and rng.random() < 0.5):
                cmd += ["--formula-representation", rep]
            cmd += ([] if simplify else ["--no-simplify"]) + ([] if brk else ["--no-eq-break"]) + (["--bypass-tightness"] if bypass else [])
            cmd += files
            b = lambda x: "true" if x else "false"
            body = s[len("(ext "):-1] if kind == "external" else s[len("(strong "):-1]
            if kind == "external":
                reqs.append(f"(external_text {body} {dec} {dirn} {rep.replace('-', '_')} {b(bypass)} {b(simplify)} {b(brk)} 256)")
            else:
                reqs.append(f"(strong_text {body} {dec} {dirn} {rep.replace('-', '_')} {b(simplify)} {b(brk)} 256)")
            runs.append((d, origin, cmd, out))
        answers = _ask_driver(reqs)
        for (d, origin, cmd, out), req, ans in zip(runs, reqs, answers):
            pr = subprocess.run([str(ANTHEM)] + cmd, stdout=subprocess.PIPE, stderr=subprocess.PIPE, timeout=120, env=dict(os.environ, RUST_BACKTRACE="0"))
            got = {f.stem: f.read_text(errors="replace") for f in sorted(out.glob("*.p"))}
            shown = [c if not c.startswith(str(work)) else Path(c).name for c in cmd]
            case = {"origin": origin, "command": shown, "files": {Path(c).name: Path(c).read_text(errors="replace") for c in cmd if c.startswith(str(work)) and Path(c).is_file()} or
                    {f.name: f.read_text(errors="replace") for f in sorted(d.iterdir()) if f.is_file()}}
            try:
                v = sx.parse(ans)
            except Exception:
                failures.append(dict(case, what="the model's answer does not parse", model=ans[:300]))
                continue
            if isinstance(v, list) and v and v[0] == "error" or v == ["error"]:
                if pr.returncode == 0 or got:
                    failures.append(dict(case, what="the model refuses this task, the command line accepted it", model=ans[:200], problems=sorted(got)))
                else:
                    n_refused += 1
                continue
            want = {}
            for prob in v if isinstance(v, list) else []:
                if isinstance(prob, list) and len(prob) == 2:
                    want[prob[0][1]] = prob[1][1]
            if pr.returncode != 0:
                failures.append(dict(case, what="the command line refuses a task the model accepts", stderr=pr.stderr.decode("utf-8", "replace")[-600:], model_problems=sorted(want)))
            elif sorted(got) != sorted(want):
                failures.append(dict(case, what="problem names differ", command_line=sorted(got), model=sorted(want)))
            else:
                bad = [k for k in want if want[k] != got[k]]
                if bad:
                    failures.append(dict(case, what=f"problem {bad[0]} differs", command_line=got[bad[0]][:3000], model=want[bad[0]][:3000]))
                else:
                    n_ok += 1
                    if len(samples) < 3:
                        samples.append(f"{' '.join(shown[2:])} -> {len(got)} problem files identical to the model's")
    finally:
        shutil.rmtree(work, ignore_errors=True)
    total = n_ok + n_refused + len(failures)
    return {"evaluations": total, "distinct_nontrivial": n_ok, "samples": samples, "cli_tasks": total, "cli_tasks_with_identical_problems": n_ok,
            "cli_tasks_refused_by_both": n_refused, "task_directories_unreadable": n_unreadable}, failures


def glue_translate(withs, analyses, n, seed):
    """`anthem translate --with W FILE` and `anthem analyze --property P FILE` on program files (the correspondence corpus
    and the right-hand programs of generated tasks) against the model: the printed theory must be, byte for byte, the
    model's translation printed by the model's printer (text -> model parser -> translation -> printer), a program the
    model's `natural` refuses must be refused, the verdicts of the analyses must be the model's.  Ties the Translate and
    Analyze arms of procedures.rs (which translation a flag selects, input from a file, the printing of a theory) to the
    model.  Returns (stats, failures)."""
    import sexp as sx
    hb = VERIF / "harness" / "target" / "debug" / "verif-harness"
    work = Path(tempfile.mkdtemp(prefix="glue_tr_", dir=str(VERIF / "work")))
    failures, samples, n_ok = [], [], 0
    try:
        texts = [l.strip() for l in (VERIF / "corpus" / "programs.txt").read_text().splitlines() if l.strip() and not l.startswith("#")]
        subprocess.run([str(hb), "dump_ext", "--seed", str(seed + 2), "--n", str(n), "--out", str(work / "gen")], check=False, timeout=300)
        texts += [f.read_text() for f in sorted((work / "gen").glob("ext*/b_right.lp"))]
        parsed = _ask_driver([sx.dump(["asp_parse", ("s", t)]) for t in texts])
        progs = []
        for t, a in zip(texts, parsed):
            if a.startswith("(ok "):
                progs.append((t, a[4:-1]))
        ops = {"tau-star": "tau_star", "mu": "mu", "natural": "natural"}
        reqs = [f"({ops[w]} {p})" for _, p in progs for w in withs] + [f"({'is_tight' if a == 'tightness' else 'is_regular'} {p})" for _, p in progs for a in analyses]
        answers = _ask_driver(reqs) if reqs else []
        k = 0
        theories = []   # (text, with, list of formula sexps or None)
        for t, p in progs:
            for w in withs:
                a = answers[k]; k += 1
                if a.startswith("(some "):
                    a = a[6:-1]
                if a in ("none", "(none)"):
                    theories.append((t, w, None))
                else:
                    v = sx.parse(a)
                    theories.append((t, w, [sx.dump(f) for f in v] if isinstance(v, list) else None))
        verdicts = []
        for t, p in progs:
            for an in analyses:
                verdicts.append((t, an, answers[k].strip())); k += 1
        flat = [f for _, _, fs in theories if fs for f in fs]
        printed = _ask_driver([f"(print_formula {f})" for f in flat]) if flat else []
        pi = 0
        f_in = work / "in.lp"
        for t, w, fs in theories:
            f_in.write_text(t if t.endswith("\n") else t + "\n")
            pr = subprocess.run([str(ANTHEM), "translate", "--with", w, str(f_in)], stdout=subprocess.PIPE, stderr=subprocess.PIPE, timeout=120, env=dict(os.environ, RUST_BACKTRACE="0"))
            got = pr.stdout.decode("utf-8", "replace")
            if fs is None:
                if pr.returncode == 0:
                    failures.append({"what": f"translate --with {w}: the model refuses this program (not regular), the command line translated it", "program": t, "command_line": got[:1500]})
                else:
                    n_ok += 1
                continue
            want = "".join(sx.parse(printed[pi + j])[1] + ".\n" for j in range(len(fs)))
            pi += len(fs)
            if pr.returncode != 0:
                failures.append({"what": f"translate --with {w} fails on a program the model translates", "program": t, "stderr": pr.stderr.decode("utf-8", "replace")[-500:]})
            elif got != want:
                failures.append({"what": f"translate --with {w}: output differs from the model's translation", "program": t, "command_line": got[:2000], "model": want[:2000]})
            else:
                n_ok += 1
                if len(samples) < 2:
                    samples.append(f"translate --with {w} on {len(t)} bytes -> {len(fs)} formulas, text identical to the model's")
        for t, an, want in verdicts:
            f_in.write_text(t if t.endswith("\n") else t + "\n")
            pr = subprocess.run([str(ANTHEM), "analyze", "--property", an, str(f_in)], stdout=subprocess.PIPE, stderr=subprocess.PIPE, timeout=120, env=dict(os.environ, RUST_BACKTRACE="0"))
            got = pr.stdout.decode("utf-8", "replace").strip()
            if pr.returncode != 0 or got != want:
                failures.append({"what": f"analyze --property {an}: {got!r} (exit {pr.returncode}), the model says {want!r}", "program": t})
            else:
                n_ok += 1
    finally:
        shutil.rmtree(work, ignore_errors=True)
    total = n_ok + len(failures)
    return {"evaluations": total, "distinct_nontrivial": n_ok, "samples": samples, "cli_runs": total, "cli_runs_agreeing": n_ok}, failures


def glue_theory(what, n_limit, seed):
    """`anthem translate --with gamma|completion FILE` and `anthem simplify --portfolio P --strategy S FILE` on theory files
    (corpus/theories.txt, and every formula of corpus/formulas.txt and corpus/simplify.txt as a one-formula theory) against
    the model (text -> model parser -> gamma / completion / simplification -> model printer).  what: "gamma", "completion" or
    "simplify".  Returns (stats, failures)."""
    import sexp as sx
    rng = random.Random(seed * 31 + len(what))
    work = Path(tempfile.mkdtemp(prefix="glue_th_", dir=str(VERIF / "work")))
    failures, samples, n_ok = [], [], 0
    rd = lambda f: [l.strip() for l in (VERIF / "corpus" / f).read_text().splitlines() if l.strip() and not l.startswith("#")]
    try:
        texts = rd("theories.txt") + [l + "." for l in rd("formulas.txt") + rd("simplify.txt")]
        if len(texts) > n_limit:
            texts = rd("theories.txt") + rng.sample(texts[len(rd("theories.txt")):], max(0, n_limit - len(rd("theories.txt"))))
        parsed = _ask_driver([sx.dump(["fol_parse", "theory", ("s", t)]) for t in texts])
        theories = []
        for t, a in zip(texts, parsed):
            if a.startswith("(ok "):
                v = sx.parse(a)
                theories.append((t, [sx.dump(f) for f in v[1]]))
        runs = []   # (text, cmd, list of requests producing formulas, or a completion request)
        for t, fs in theories:
            if what == "gamma":
                runs.append((t, ["translate", "--with", "gamma"], [f"(gamma {f})" for f in fs]))
            elif what == "completion":
                runs.append((t, ["translate", "--with", "completion"], [f"(completion ({' '.join(fs)}) ())"]))
            else:
                for pf in ("classic", "ht", "intuitionistic"):
                    for st in ("shallow", "recursive", "fixpoint"):
                        if len(theories) * 9 > n_limit * 3 and rng.random() > 0.34:
                            continue
                        runs.append((t, ["simplify", "--portfolio", pf, "--strategy", st], [f"(simplify {pf} {st} 256 {f})" for f in fs]))
        answers = _ask_driver([r for _, _, rs in runs for r in rs])
        k = 0
        expected = []
        for t, cmd, rs in runs:
            outs = answers[k:k + len(rs)]; k += len(rs)
            if what == "completion":
                a = outs[0]
                expected.append(None if not a.startswith("(some ") else [sx.dump(f) for f in sx.parse(a)[1]])
            elif what == "simplify":
                expected.append([a[4:-1] for a in outs] if all(a.startswith("(ok ") for a in outs) else "skip")
            else:
                expected.append(list(outs))
        flat = [f for e in expected if isinstance(e, list) for f in e]
        printed = _ask_driver([f"(print_formula {f})" for f in flat]) if flat else []
        pi = 0
        f_in = work / "in.spec"
        for (t, cmd, rs), e in zip(runs, expected):
            if e == "skip":
                continue
            f_in.write_text(t + "\n")
            pr = subprocess.run([str(ANTHEM)] + cmd + [str(f_in)], stdout=subprocess.PIPE, stderr=subprocess.PIPE, timeout=300, env=dict(os.environ, RUST_BACKTRACE="0"))
            got = pr.stdout.decode("utf-8", "replace")
            name = " ".join(cmd)
            if e is None:
                if pr.returncode == 0:
                    failures.append({"what": f"{name}: the model refuses this theory (not completable), the command line completed it", "theory": t, "command_line": got[:1500]})
                else:
                    n_ok += 1
                continue
            want = "".join(sx.parse(printed[pi + j])[1] + ".\n" for j in range(len(e)))
            pi += len(e)
            if pr.returncode != 0:
                failures.append({"what": f"{name} fails on a theory the model handles", "theory": t, "stderr": pr.stderr.decode("utf-8", "replace")[-400:]})
            elif got != want:
                failures.append({"what": f"{name}: output differs from the model's", "theory": t, "command_line": got[:2000], "model": want[:2000]})
            else:
                n_ok += 1
                if len(samples) < 2:
                    samples.append(f"{name} on {len(t)} bytes -> text identical to the model's")
    finally:
        shutil.rmtree(work, ignore_errors=True)
    total = n_ok + len(failures)
    return {"evaluations": total, "distinct_nontrivial": n_ok, "samples": samples, "cli_runs": total, "cli_runs_agreeing": n_ok}, failures


def glue_parse(langs, seed):
    """`anthem parse --as KIND --output default FILE` on the texts of the parser corpora against the model: an accepted text
    must be printed as the model prints the tree the model's parser reads from it, a text the model's parser rejects must be
    rejected.  Ties the Parse arm of procedures.rs (which parser a `--as` value selects, input from a file, the printer of
    each kind) to the model.  langs: subset of {"asp", "fol"}.  Returns (stats, failures)."""
    import sexp as sx
    work = Path(tempfile.mkdtemp(prefix="glue_pa_", dir=str(VERIF / "work")))
    failures, samples, n_ok = [], [], 0
    unesc = lambda t: t.replace("\\n", "\n").replace("\\r", "\r").replace("\\s", " ").replace("\\h", "#")
    try:
        items = []   # (kind for --as, model kind, text)
        if "asp" in langs:
            for l in (VERIF / "corpus" / "asp_texts.txt").read_text().splitlines():
                if l.strip() and not l.startswith("#"):
                    items.append(("program", "asp", unesc(l)))
        if "fol" in langs:
            for l in (VERIF / "corpus" / "fol_texts.txt").read_text().splitlines():
                if l.strip() and not l.startswith("#") and ";;" in l:
                    k, t = l.split(";;", 1)
                    k = k.strip()
                    if k in ("theory", "spec", "ug"):
                        items.append(({"theory": "theory", "spec": "specification", "ug": "user-guide"}[k], k, unesc(t)))
        reqs = [sx.dump(["asp_parse", ("s", t)]) if mk == "asp" else sx.dump(["fol_parse", mk, ("s", t)]) for _, mk, t in items]
        parsed = _ask_driver(reqs)
        preqs, slots = [], []
        for (ck, mk, t), a in zip(items, parsed):
            if not a.startswith("(ok "):
                slots.append(None)
                continue
            body = a[4:-1]
            if mk == "asp":
                preqs.append(f"(print_program {body})"); slots.append(1)
            elif mk == "spec":
                preqs.append(f"(print_spec {body})"); slots.append(1)
            elif mk == "ug":
                preqs.append(f"(print_ug {body})"); slots.append(1)
            else:
                fs = sx.parse(body)
                for f in fs:
                    preqs.append(f"(print_formula {sx.dump(f)})")
                slots.append(("theory", len(fs)))
        printed = _ask_driver(preqs) if preqs else []
        pi = 0
        for (ck, mk, t), slot in zip(items, slots):
            f = work / ("in." + {"program": "lp", "theory": "spec", "specification": "spec", "user-guide": "ug"}[ck])
            f.write_bytes(t.encode())
            pr = subprocess.run([str(ANTHEM), "parse", "--as", ck, "--output", "default", str(f)], stdout=subprocess.PIPE, stderr=subprocess.PIPE, timeout=60, env=dict(os.environ, RUST_BACKTRACE="0"))
            got = pr.stdout.decode("utf-8", "replace")
            if slot is None:
                if pr.returncode == 0:
                    failures.append({"what": f"parse --as {ck}: the model's parser rejects this text, the command line accepted it", "text": t, "command_line": got[:1000]})
                else:
                    n_ok += 1
                continue
            if slot == 1:
                want = sx.parse(printed[pi])[1]; pi += 1
            else:
                want = "".join(sx.parse(printed[pi + j])[1] + ".\n" for j in range(slot[1])); pi += slot[1]
            if pr.returncode != 0:
                failures.append({"what": f"parse --as {ck} rejects a text the model's parser accepts", "text": t, "stderr": pr.stderr.decode("utf-8", "replace")[-300:]})
            elif got != want:
                failures.append({"what": f"parse --as {ck}: printed text differs from the model's", "text": t, "command_line": got[:1500], "model": want[:1500]})
            else:
                n_ok += 1
                if len(samples) < 2:
                    samples.append(f"parse --as {ck} on {len(t)} bytes -> text identical to the model's")
    finally:
        shutil.rmtree(work, ignore_errors=True)
    total = n_ok + len(failures)
    return {"evaluations": total, "distinct_nontrivial": n_ok, "samples": samples, "cli_runs": total, "cli_runs_agreeing": n_ok}, failures
