"""Explorations that run the real anthem CLI (built from /repo's working tree)."""
import os
import random
import shutil
import subprocess
import sys
import tempfile
from pathlib import Path

VERIF = Path(__file__).resolve().parent.parent
CLI_TARGET = VERIF / "harness" / "target" / "cli"
ANTHEM = CLI_TARGET / "debug" / "anthem"


def build_cli():
    """cargo build of /repo's binary into the harness target dir; returns (ok, log)."""
    env = dict(os.environ, CARGO_NET_OFFLINE="true")
    p = subprocess.run(["cargo", "build", "--offline", "--features", "verif", "--manifest-path", "/repo/Cargo.toml",
                        "--target-dir", str(CLI_TARGET)], stdout=subprocess.PIPE, stderr=subprocess.STDOUT, text=True, env=env, timeout=3600)
    return p.returncode == 0 and ANTHEM.exists(), p.stdout[-3000:]


FAKE_VAMPIRE = r'''#!/usr/bin/env python3
import fcntl, json, os, sys, time
d = os.environ["FAKE_VAMPIRE_DIR"]
data = sys.stdin.buffer.read()
with open(os.path.join(d, "counter"), "a+") as f:
    fcntl.flock(f, fcntl.LOCK_EX)
    f.seek(0)
    idx = len(f.read())
    f.write("x")
    f.flush()
    fcntl.flock(f, fcntl.LOCK_UN)
with open(os.path.join(d, "stdin_%d" % idx), "wb") as f:
    f.write(data)
plan = json.load(open(os.path.join(d, "plan.json")))
kind, delay = plan[idx % len(plan)]
time.sleep(delay)
out = sys.stdout.buffer
def status(w): out.write(("%% SZS status %s for problem\n" % w).encode())
rc = 0
if kind in ("Theorem", "CounterSatisfiable", "ContradictoryAxioms", "Timeout", "MemoryOut", "GaveUp", "Error"):
    out.write(b"% some banner\n"); status(kind)
elif kind == "unknown-word":
    status("Proved")
elif kind == "no-status":
    out.write(b"% Refutation not found\n")
elif kind == "non-utf8":
    out.write(b"\xff\xfe garbage\n"); status("Theorem")
elif kind == "theorem-then-nonzero":
    status("Theorem"); rc = 3
elif kind == "second-line-theorem":
    status("GaveUp"); status("Theorem")
elif kind == "crash":
    out.write(b"% about to crash\n"); out.flush(); os.kill(os.getpid(), 9)
out.flush()
sys.exit(rc)
'''

# outcome kind -> does the run count as "printed SZS status Theorem" (first status line)
PROVEN = {"Theorem": True, "theorem-then-nonzero": True}
KINDS = ["Theorem", "CounterSatisfiable", "ContradictoryAxioms", "Timeout", "MemoryOut", "GaveUp", "Error", "unknown-word",
         "no-status", "non-utf8", "theorem-then-nonzero", "second-line-theorem", "crash"]

PROGRAM_PAIRS = [
    ("p(X) :- q(X).\nq(1..3).\nr :- not s.\n", "p(X) :- q(X), X = X.\nq(1). q(2). q(3).\nr :- not s, not not r.\n"),
    ("{p(X)} :- q(X).\n:- p(1), not q(2).\n", "p(X) :- q(X), not not p(X).\n:- p(1), not q(2).\n"),
    ("a :- b.\nb :- c.\n", "a :- c.\nb :- c.\n"),
]


def prover_exploration(runs, seed):
    """Runs `anthem verify` with a stand-in vampire answering per plan. Returns (stats, failures)."""
    rng = random.Random(seed)
    failures, samples = [], []
    n_ok = 0
    for k in range(runs):
        work = Path(tempfile.mkdtemp(prefix="c10_", dir=str(VERIF / "work")))
        try:
            bindir = work / "bin"
            bindir.mkdir()
            fake = bindir / "vampire"
            missing = (k % 11 == 10)
            if not missing:
                fake.write_text(FAKE_VAMPIRE)
                fake.chmod(0o755)
            left, right = PROGRAM_PAIRS[rng.randrange(len(PROGRAM_PAIRS))]
            (work / "left.lp").write_text(left)
            (work / "right.lp").write_text(right)
            fdir = work / "fake"
            fdir.mkdir()
            # plan: mostly all-Theorem or exactly one deviating outcome, sometimes fully random
            nplan = 12
            mode = rng.randrange(3)
            if mode == 0:
                plan = [["Theorem", rng.random() * 0.05] for _ in range(nplan)]
            elif mode == 1:
                plan = [["Theorem", rng.random() * 0.05] for _ in range(nplan)]
                plan[rng.randrange(4)] = [rng.choice(KINDS), rng.random() * 0.05]
            else:
                plan = [[rng.choice(KINDS), rng.random() * 0.05] for _ in range(nplan)]
            (fdir / "plan.json").write_text(__import__("json").dumps(plan))
            save = work / "problems"
            save.mkdir()
            instances = rng.choice([1, 1, 2, 3, 4, 8])
            decomposition = rng.choice(["independent", "sequential"])
            env = dict(os.environ, PATH=str(bindir) + ":/usr/bin:/bin", FAKE_VAMPIRE_DIR=str(fdir), RUST_BACKTRACE="0")
            cmd = [str(ANTHEM), "verify", "--equivalence", "strong", "--decomposition", decomposition, "--no-timing",
                   "-n", str(instances), "--save-problems", str(save), str(work / "left.lp"), str(work / "right.lp")]
            p = subprocess.run(cmd, stdout=subprocess.PIPE, stderr=subprocess.PIPE, env=env, timeout=300)
            out = p.stdout.decode("utf-8", "replace")
            saved = sorted(save.glob("*.p"))
            nprob = len(saved)
            stdins = sorted(fdir.glob("stdin_*"))
            case = {"run": k, "instances": instances, "decomposition": decomposition, "plan": plan[:nprob], "missing_executable": missing}
            success = "> Success!" in out
            failure = "> Failure!" in out
            if missing:
                expected = (nprob == 0)
            else:
                # invocation i gets plan[i]; every problem is handed over exactly once
                expected = all(PROVEN.get(plan[i % nplan][0], False) for i in range(nprob))
                if len(stdins) != nprob:
                    failures.append(dict(case, what=f"{len(stdins)} prover runs for {nprob} problems"))
                    continue
                texts = sorted(f.read_bytes() for f in stdins)
                files = sorted(f.read_bytes() for f in saved)
                if texts != files:
                    failures.append(dict(case, what="prover stdin differs from the --save-problems files"))
                    continue
                if len(set(f.name for f in saved)) != nprob:
                    failures.append(dict(case, what="problem names not distinct"))
                    continue
            if success == failure:
                failures.append(dict(case, what="neither/both verdict lines", stdout=out[-1500:], rc=p.returncode))
            elif success != expected:
                failures.append(dict(case, what=f"verdict success={success}, expected {expected}", stdout=out[-1500:]))
            else:
                n_ok += 1
                if len(samples) < 3:
                    samples.append(f"-n {instances} {decomposition}: outcomes {[x[0] for x in plan[:nprob]]}{' (no vampire in PATH)' if missing else ''} -> {'Success' if success else 'Failure'}")
        finally:
            shutil.rmtree(work, ignore_errors=True)
    return {"evaluations": runs, "distinct_nontrivial": n_ok, "samples": samples, "cli_runs": runs, "cli_runs_agreeing": n_ok}, failures
