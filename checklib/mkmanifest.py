#!/usr/bin/env python3
"""Regenerates MANIFEST.json from checklib/props.py (so the manifest is always in step with ./check)."""
import json
import sys
from pathlib import Path

sys.path.insert(0, str(Path(__file__).resolve().parent))
import props  # noqa: E402

VERIF = Path(__file__).resolve().parent.parent
ALL = [f"C{i:02d}" for i in range(1, 21)]

checks = []
for pid in ALL:
    if pid not in props.PROPS:
        continue
    cfg = props.PROPS[pid]
    checks.append({
        "property_id": pid,
        "quick_cmd": f"./check {pid} quick",
        "thorough_cmd": f"./check {pid} thorough",
        "evidence_file": f"/verif/evidence/{pid}.json",
        "replay_cmd_template": f"./check {pid} --replay {{path}}",
        "engine": "lean-model+correspondence",
        "level_claimed": {"category": "proof", "text": cfg["level_text"], "design_ref": cfg.get("design_ref", "DESIGN.md section 6")},
        "level_note": cfg["level_note"],
        "technique": cfg["technique"],
    })

manifest = {
    "version": 1,
    "setup_cmd": "./setup.sh",
    "hooks": {
        "guard": "verif",
        "enable": "cargo feature: the harness depends on anthem = { path = \"/repo\", features = [\"verif\"] }; CLI checks build /repo with `cargo build --features verif`",
        "baseline_off_cmd": "cd /repo && (cargo nextest run --workspace --no-fail-fast --tool-config-file pb:/w/lib/nextest.toml --profile pb --test-threads 8 --offline || cargo test --workspace --no-fail-fast --offline)",
        "source_commits": props.HOOK_COMMITS,
        "add_only": True,
    },
    "engines": [{
        "name": "lean-model+correspondence",
        "path": "/verif/check",
        "serves_properties": [c["property_id"] for c in checks],
        "kind_free_text": "Lean 4 theorems about a hand-written executable model (lean/AnthemModel) + differential correspondence "
                          "of every model function with the real Rust function (harness/, exact output trees) + source pins",
    }],
    "checks": checks,
    "notes": "All checks: ./check <id> quick|thorough. Known findings: known_findings.jsonl. See DESIGN.md.",
    "not_applicable": [{"property_id": pid, "reason": props.NOT_YET.get(pid, "check not built yet in this round; see DESIGN.md section 6")}
                       for pid in ALL if pid not in props.PROPS],
}
(VERIF / "MANIFEST.json").write_text(json.dumps(manifest, indent=1) + "\n")
print("wrote MANIFEST.json with", len(checks), "checks")
