"""Per-property configuration of ./check (suites, pins, extras, trusted base)."""
import json
import re
from pathlib import Path

VERIF = Path(__file__).resolve().parent.parent
REPO = Path("/repo")

COMMON_TRUST = [
    "Lean 4.33.0 kernel (axioms per theorem listed under coverage.theorems)",
    "definitions of lean/AnthemModel/Semantics (standard domain, classical and HT satisfaction) are the specification",
    "Rust correspondence harness + S-expression serialisers on both sides (unverified)",
    "Lean compiler for the model driver executable (a miscompiled model shows up as a disagreement, not as a false proof)",
]
COMMON_ASSUME = [
    "theorems are about the hand-written Lean model; they transfer to /repo on the inputs where the exact-output correspondence was run and agreed",
    "64-bit usize/isize",
]


def load_known(pid):
    out = []
    f = VERIF / "known_findings.jsonl"
    if f.exists():
        for line in f.read_text().splitlines():
            line = line.strip()
            if not line or line.startswith("#"):
                continue
            d = json.loads(line)
            if d.get("property") == pid and d.get("status") == "known":
                out.append(d)
    return out


def src(rel):
    return (REPO / rel).read_text()


import subprocess
import sexp as sx

DRIVER = str(VERIF / "lean/.lake/build/bin/anthem_model")
INTUITIONISTIC_REWRITES = {
    "evaluate_comparisons", "apply_negation_definition_inverse", "apply_reverse_implication_definition",
    "apply_equivalence_definition_inverse", "remove_identities", "remove_annihilations", "remove_idempotences",
    "remove_orphaned_variables", "remove_empty_quantifications", "join_nested_quantifiers"}


def ask_driver(requests, timeout=1800):
    """Answers of the model driver; on timeout the answers produced so far (the rest is missing)."""
    import tempfile
    with tempfile.TemporaryFile("w+") as out:
        try:
            subprocess.run([DRIVER], input="\n".join(requests) + "\n", stdout=out, text=True, timeout=timeout)
        except subprocess.TimeoutExpired:
            pass
        out.seek(0)
        return out.read().splitlines()


def cex_request(req, impl, seed=1, tries=3000):
    """Bounded-search request for one (request, implementation answer) pair, or None."""
    try:
        r = sx.parse(req)
        a = sx.parse(impl)
    except Exception:
        return None
    if a == ["panic"] or not isinstance(r, list):
        return None
    op = r[0]
    if op == "gamma":
        return sx.dump(["cex_gamma", r[1], a, str(seed), str(tries)])
    if op == "substitute":
        return sx.dump(["cex_subst", r[1], r[2], r[3], a, str(seed), str(tries)])
    if op == "rewrite":
        mode = "ht" if r[1] in INTUITIONISTIC_REWRITES else "classic"
        return sx.dump(["cex_equiv", mode, r[2], a, str(seed), str(tries)])
    if op == "strong":
        if not isinstance(a, list) or a in (["error"], ["timeout"]):
            return None
        return sx.dump(["cex_strong", r[1], r[2], r[4], a, str(seed), str(tries)])
    if op in ("tau_star", "mu", "natural"):
        if isinstance(a, list) and len(a) == 2 and a[0] == "some":
            a = a[1]
        if not isinstance(a, list) or a == ["error"]:
            return None
        return sx.dump(["cex_prog", r[1], a, str(seed), str(tries)])
    if op == "tptp_formula":
        if not isinstance(a, tuple):
            return None
        return sx.dump(["cex_tptp", r[1], a, str(seed), str(tries)])
    if op == "external":
        # (external spec prog ug po dec dir rep byp simp brk fuel); the answer is the list of problems
        if not isinstance(a, list) or (a and a[0] in ("error", "timeout", "panic")) or len(r) != 12:
            return None
        return sx.dump(["cex_external"] + r[1:11] + [a, str(seed), str(tries)])
    if op == "simplify":
        if not (isinstance(a, list) and len(a) == 2 and a[0] in ("ok", "timeout")):
            return None
        mode = "classic" if r[1] == "classic" else "ht"
        return sx.dump(["cex_equiv", mode, r[4], a[1], str(seed), str(tries)])
    return None


SEARCH_BUDGET_S = int(__import__("os").environ.get("VERIF_SEARCH_BUDGET", "90"))


def search_generic(mismatches, outdir):
    """Evaluate the implementation's outputs on the disagreeing inputs against the reference semantics
    (smallest inputs first, bounded number of tries, wall-clock budget)."""
    cands = [m for m in mismatches if "request" in m]
    cands.sort(key=lambda m: len(m["request"]))
    if cands and cands[0]["request"].startswith("(tptp_formula"):
        # phase 1 (cheap): which of the implementation's texts read back as a different tree / do not read at all?
        pre, pidx = [], []
        for m in cands[:2000]:
            q = cex_request(m["request"], m["impl"], tries=0)
            if q:
                pre.append(q)
                pidx.append(m)
        kept = []
        if pre:
            for m, a in zip(pidx, ask_driver(pre, timeout=SEARCH_BUDGET_S)):
                if not a.startswith("(same-tree"):
                    kept.append(m)
        cands = kept
    reqs, idx = [], []
    many = bool(cands) and cands[0]["request"].startswith(("(tau_star", "(mu", "(natural", "(strong", "(external"))
    # several disagreements are the same shape (one formula under three portfolios / strategies): keep one per output pair
    seen, uniq = set(), []
    for m in cands:
        k = (m.get("impl"), m.get("model"))
        if k not in seen:
            seen.add(k)
            uniq.append(m)
    cands = uniq
    for m in cands[:(200 if many else 160)]:
        q = cex_request(m["request"], m["impl"], tries=(120 if many else 300))
        if q:
            reqs.append(q)
            idx.append(m)
    if not reqs:
        return None
    answers = ask_driver(reqs, timeout=SEARCH_BUDGET_S)
    for m, a in zip(idx, answers):
        if a.startswith("(unparsable"):
            # the implementation's TFF text is outside the fragment the model's reader accepts: ask tptp4X
            bad = tptp4x_formula(m["impl"], outdir, m["request"])
            if bad:
                return {"input_request": m["request"], "implementation_output": m["impl"], "model_output": m["model"],
                        "origin": m.get("origin"), "tptp4X": bad,
                        "note": "failing input: the implementation's rendering of this formula is not a TPTP formula (rejected by tptp4X, "
                                "wrapped as one closed tff axiom); the model's rendering of the same formula is accepted"}
    if cands and cands[0]["request"].startswith("(tptp_formula"):
        # a rendering the model's reader accepts may still not be TPTP (a variable left unbound): ask tptp4X about the first few
        for m in (idx + [c for c in cands if c not in idx])[:600]:
            bad = tptp4x_formula(m["impl"], outdir, m["request"])
            if bad and not tptp4x_formula(m["model"], outdir, m["request"]):
                return {"input_request": m["request"], "implementation_output": m["impl"], "model_output": m["model"],
                        "origin": m.get("origin"), "tptp4X": bad,
                        "note": "failing input: the implementation's rendering of this formula, closed over the free variables of the formula, is rejected by "
                                "tptp4X; the model's rendering of the same formula is accepted"}
    for m, a in zip(idx, answers):
        if a.startswith("(found"):
            return {"input_request": m["request"], "implementation_output": m["impl"], "model_output": m["model"],
                    "origin": m.get("origin"), "bounded_countermodel": a,
                    "note": "candidate failing input: the implementation's output evaluated against the reference semantics over a finite window "
                            "(confirmed on a second, wider window); bounded evaluation is a test, not a proof"}
    return None


FUNCTIONAL_OPS = {
    "(is_tight": "the verdict is determined by the program: C11.tight_iff_acyclic (isCyclic_sound, isCyclic_complete)",
    "(private_recursion": "the verdict is determined by the program and its private predicates: C11 private recursion = a cycle of the private dependency graph (isCyclic_sound/complete)",
    "(is_regular": "the verdict is determined by the rule: C11 regularity is a syntactic test",
    "(files_sort": "the roles are determined by the extensions and the argument order: C20 roles theorems",
}


def search_functional(mismatches, outdir):
    """Suites whose model value is the ONLY value the property admits (proved exact in Lean): a disagreement on such a
    request is itself a concrete failing input. For external tasks only the accept/refuse outcome is decisive."""
    cands = sorted((m for m in mismatches if "request" in m), key=lambda m: len(m["request"]))
    for m in cands:
        for op, why in FUNCTIONAL_OPS.items():
            if m["request"].startswith(op):
                return {"input_request": m["request"], "implementation_output": m["impl"], "proved_value": m["model"],
                        "origin": m.get("origin"), "note": "failing input: " + why + "; the implementation returns a different value on this input"}
    for m in cands:
        if m["request"].startswith("(external"):
            ie, me = m["impl"].startswith("(error"), m["model"].startswith("(error")
            if ie != me or (ie and me and m["impl"] != m["model"]):
                return {"input_request": m["request"], "implementation_output": m["impl"][:2000], "proved_value": m["model"][:2000],
                        "origin": m.get("origin"),
                        "note": "failing input: whether the task is accepted, and the reason for refusing it, is determined by the applicability conditions "
                                "(C11.external_ok_implies / external_err_of_precheck); the implementation decides differently on this task"}
    return None


def _conj(fs):
    """S-expression of the conjunction of a list of formulas (the empty conjunction is #true)."""
    if not fs:
        return ["A", "T"]
    f = fs[0]
    for g in fs[1:]:
        f = ["B", "and", f, g]
    return f


def _first_found(pairs, what):
    if not pairs:
        return None
    answers = ask_driver([q for _, q in pairs], timeout=SEARCH_BUDGET_S)
    for (m, _), a in zip(pairs, answers):
        if a.startswith("(found"):
            return {"input_request": m["request"], "implementation_output": m["impl"][:4000], "model_output": m["model"][:4000],
                    "origin": m.get("origin"), "bounded_countermodel": a,
                    "note": "candidate failing input: " + what + " (evaluated over a finite window and confirmed on a wider one; bounded evaluation is a test, not a proof)"}
    return None


def search_completion(mismatches, outdir):
    """C04: the implementation's completion against the model's, whose models are proved to be the stable models
    (completion_tight) and which refuses exactly the non-completable theories (completion_refuses)."""
    cands = sorted((m for m in mismatches if m.get("request", "").startswith("(completion")), key=lambda m: len(m["request"]))
    pairs = []
    for m in cands[:200]:
        try:
            a, b = sx.parse(m["impl"]), sx.parse(m["model"])
        except Exception:
            continue
        a_some = isinstance(a, list) and len(a) == 2 and a[0] == "some"
        b_some = isinstance(b, list) and len(b) == 2 and b[0] == "some"
        if a == ["panic"]:
            continue
        if a_some != b_some:
            return {"input_request": m["request"], "implementation_output": m["impl"][:4000], "proved_value": m["model"][:4000],
                    "origin": m.get("origin"),
                    "note": "failing input: whether a theory is completable is determined by its shape (C04.completion_refuses); "
                            "the implementation " + ("accepts" if a_some else "refuses") + " this theory, the proved function does not"}
        if a_some and b_some:
            pairs.append((m, sx.dump(["cex_equiv", "classic", _conj(a[1]), _conj(b[1]), "1", "300"])))
    w = _first_found(pairs, "an interpretation that satisfies exactly one of the implementation's completion and the proved completion of this theory")
    return w or search_functional(mismatches, outdir)


def search_c19(mismatches, outdir):
    """C19: decompositions and eq-break evaluated on the implementation's outputs; the pipeline suites go to the generic search."""
    cands = sorted((m for m in mismatches if "request" in m), key=lambda m: len(m["request"]))
    pairs = []
    for m in cands:
        if len(pairs) >= 200:
            break
        try:
            if m["request"].startswith("(decompose"):
                r, a = sx.parse(m["request"]), sx.parse(m["impl"])
                if isinstance(a, list) and a != ["panic"]:
                    pairs.append((m, sx.dump(["cex_decompose", r[1], a, "1", "300"])))
            elif m["request"].startswith("(break_eq"):
                r, a = sx.parse(m["request"]), sx.parse(m["impl"])
                if isinstance(a, list) and a != ["panic"]:
                    pairs.append((m, sx.dump(["cex_equiv", "ht", r[1], _conj(a), "1", "300"])))
        except Exception:
            continue
    w = _first_found(pairs, "the implementation's decomposition / eq-break of this input does not claim what the input claims (C19.independent_refutes, sequential_refutes, break_equiv_ht)")
    return w or search_generic(mismatches, outdir)


SYMBOL_ORDER_LINE = re.compile(r"^tff\(symbol_order_\d+, axiom, p__less__\(f__symbolic__\(([^()]+)\), f__symbolic__\(([^()]+)\)\)\)\.$")
TRANSITION_LINE = re.compile(r"^tff\(\w*transition_axiom\w*, axiom, (.*)\)\.$")
TRANSITION_SHAPE = re.compile(r"^(?:!\[([^\]]*)\]: \()?(\w+?)(?:\(([^()]*)\))? (=>|<=>|<=) (\w+?)(?:\(([^()]*)\))?\)?$")
FC_DECL_LINE = re.compile(r"^tff\(type_function_constant_\d+, type, (\w+): symbol\)\.$")


def generated_axiom_defects(text):
    """Generated axioms of one problem text that are false in some standard interpretation (C12): a symbol_order axiom
    whose constants are not in increasing order or that mentions a placeholder, a transition axiom that is not
    `h p(V) => t p(V)`. Lines of any other shape are left to the correspondence."""
    out = []
    lines = text.split("\n")
    fcs = {m.group(1) for l in lines for m in [FC_DECL_LINE.match(l)] if m}
    for l in lines:
        m = SYMBOL_ORDER_LINE.match(l)
        if m:
            a, b = m.group(1), m.group(2)
            if a in fcs or b in fcs:
                out.append(f"{l}   -- orders a placeholder, whose value is any symbol")
            elif not a.encode() < b.encode():
                out.append(f"{l}   -- false in the standard interpretation: not {a} < {b}")
            continue
        m = TRANSITION_LINE.match(l)
        if m:
            t = TRANSITION_SHAPE.match(m.group(1))
            if t:
                _, hp, hargs, conn, tp, targs = t.groups()
                ok = conn == "=>" and hp.startswith("h") and tp.startswith("t") and hp[1:] == tp[1:] and (hargs or "") == (targs or "")
                if not ok:
                    out.append(f"{l}   -- not of the form h p(V) => t p(V): false for some H included in T")
    return out


def search_c12(mismatches, outdir):
    """C12: the generated axioms in the implementation's problem texts, judged one by one."""
    for m in sorted((m for m in mismatches if "impl" in m), key=lambda m: len(m.get("request", ""))):
        try:
            a = sx.parse(m["impl"])
        except Exception:
            continue
        if not isinstance(a, list):
            continue
        for prob in a:
            if isinstance(prob, list) and len(prob) == 2 and all(isinstance(x, tuple) for x in prob):
                bad = generated_axiom_defects(prob[1][1])
                if bad:
                    return {"input_request": m.get("request"), "problem": prob[0][1], "false_generated_axioms": bad[:5],
                            "origin": m.get("origin"),
                            "note": "failing input: this task makes the implementation emit a generated axiom that is false in a standard interpretation"}
    return None


def _problems(x):
    """{name: (axioms, conjectures)} of a driver/harness answer that is a list of problems, else None."""
    if not isinstance(x, list) or (x and x[0] in ("error", "timeout", "panic")):
        return None
    out = {}
    for p in x:
        if not (isinstance(p, list) and len(p) == 3 and p[0] == "problem" and isinstance(p[1], tuple)):
            return None
        ax = [f[2] for f in p[2] if isinstance(f, list) and len(f) == 3 and f[1] == "axiom"]
        cj = [f[2] for f in p[2] if isinstance(f, list) and len(f) == 3 and f[1] == "conjecture"]
        out[p[1][1]] = (ax, cj)
    return out


def search_c13(mismatches, outdir):
    """C13: the implementation's outline problems against the proved ones (outline_sound: every axiom of the model's
    problems is a premise of the direction, an accepted definition or a lemma established by earlier problems)."""
    w = search_functional([m for m in mismatches if m.get("request", "").startswith("(external")], outdir)
    if w:
        return w
    pairs = []
    for m in sorted((m for m in mismatches if m.get("request", "").startswith("(external")), key=lambda m: len(m["request"])):
        try:
            a, b = _problems(sx.parse(m["impl"])), _problems(sx.parse(m["model"]))
        except Exception:
            continue
        if a is None or b is None:
            continue
        base = {"input_request": m["request"], "origin": m.get("origin")}
        for name, (ax, cj) in a.items():
            if name not in b:
                continue
            extra = [f for f in ax if f not in b[name][0]]
            if extra and "outline" in name or (extra and any(f in sum((c for _, c in b.values()), []) for f in extra)):
                return dict(base, problem=name, unjustified_axioms=[sx.dump(f) for f in extra[:3]],
                            note="failing input: in this emitted problem the implementation uses as axioms formulas that are neither premises of the "
                                 "direction, accepted definitions nor lemmas established by earlier problems (the proved outline does not have them there: C13.outline_sound)")
            if cj != b[name][1] and len(pairs) < 150:
                pairs.append((m, sx.dump(["cex_equiv", "classic", _conj(cj), _conj(b[name][1]), "1", "200"])))
        missing = [n for n in b if n not in a and "outline" in n]
        if missing:
            return dict(base, missing_obligations=missing[:5],
                        note="failing input: the proved outline establishes its lemmas by these problems; the implementation does not emit them "
                             "but still uses the lemmas (C13.accepted_outline_lemmas_justified)")
    return _first_found(pairs, "a conjecture of an outline problem differs in meaning from the obligation that establishes the lemma (C13.inductive_lemma_justified / outline_sound)")


TFF_LINE = re.compile(r"^tff\(([^,]+), (type|axiom|conjecture), (.*)\)\.$")
TFF_DECL = re.compile(r"^([^:]+): (.*)$")
TFF_WORD = re.compile(r"(?<![A-Za-z0-9_$])([a-z_$][A-Za-z0-9_$]*)(\()?")
TFF_BUILTIN = {"$true", "$false", "$less", "$lesseq", "$greater", "$greatereq", "$sum", "$difference", "$product", "$uminus", "$int", "$o", "$tType", "$i"}


def tff_wellformedness_defects(text):
    """Structural C09 checks on one problem text: entry names unique, every identifier declared exactly once (at one
    type), every used lower-case identifier declared (with the arity it is used at), exactly one conjecture."""
    out, names, decls, nconj, uses = [], {}, {}, 0, []
    for line in text.split("\n"):
        m = TFF_LINE.match(line)
        if not m:
            continue
        name, role, body = m.groups()
        names[name] = names.get(name, 0) + 1
        if role == "type":
            d = TFF_DECL.match(body)
            if d:
                decls.setdefault(d.group(1).strip(), []).append(d.group(2).strip())
            continue
        if role == "conjecture":
            nconj += 1
        # binder lists `[X: general, N: $int]` are not uses
        stripped = re.sub(r"[!?]\[[^\]]*\]", "", body)
        for w in TFF_WORD.finditer(stripped):
            uses.append((w.group(1), w.group(2) is not None, name))
    for n, k in names.items():
        if k > 1:
            out.append(f"entry name {n} used {k} times")
    for ident, tys in decls.items():
        if len(tys) > 1:
            out.append(f"identifier {ident} declared {len(tys)} times ({'; '.join(sorted(set(tys)))})")
    if nconj != 1:
        out.append(f"{nconj} conjectures")
    seen = set()
    for ident, applied, where in uses:
        if ident in TFF_BUILTIN or ident in seen:
            continue
        seen.add(ident)
        if ident not in decls:
            out.append(f"identifier {ident} used in {where} but not declared")
        else:
            ty = decls[ident][0]
            if applied != (">" in ty):
                out.append(f"identifier {ident} declared as {ty} but used {'with' if applied else 'without'} arguments in {where}")
    return out


def search_c09(mismatches, outdir):
    """C09: structural well-formedness of the implementation's problem texts; a defect the proved model's text of the same
    problem has as well (the three known classes) is not attributed to the change."""
    for m in sorted((m for m in mismatches if "impl" in m and "model" in m), key=lambda m: len(m.get("request", ""))):
        try:
            a, b = sx.parse(m["impl"]), sx.parse(m["model"])
        except Exception:
            continue
        if not isinstance(a, list):
            continue
        model_texts = {}
        if isinstance(b, list):
            for prob in b:
                if isinstance(prob, list) and len(prob) == 2 and all(isinstance(x, tuple) for x in prob):
                    model_texts[prob[0][1]] = prob[1][1]
        for prob in a:
            if isinstance(prob, list) and len(prob) == 2 and all(isinstance(x, tuple) for x in prob):
                bad = tff_wellformedness_defects(prob[1][1])
                known = set(tff_wellformedness_defects(model_texts.get(prob[0][1], ""))) if prob[0][1] in model_texts else set()
                bad = [x for x in bad if x not in known]
                if bad:
                    return {"input_request": m.get("request"), "problem": prob[0][1], "defects": bad[:6], "origin": m.get("origin"),
                            "note": "failing input: the problem the implementation emits for this task is not well-formed self-contained TFF "
                                    "(structural check of the text: names, declarations, uses, number of conjectures)"}
    return None


TPTP_VAR = re.compile(r"(?<![A-Za-z0-9_$])_*[A-Z][A-Za-z0-9_]*_([gis])(?![A-Za-z0-9_])")


def source_free_variables(request):
    """free variables of the formula inside a `(tptp_formula F)` request, as TPTP declarations; None if not applicable"""
    try:
        v = sx.parse(request)
    except Exception:
        return None
    if not (isinstance(v, list) and len(v) == 2 and v[0] == "tptp_formula"):
        return None
    sorts = {"g": "general", "i": "$int", "s": "symbol"}
    out = []

    def walk(t, bound):
        if isinstance(t, list) and t:
            if t[0] == "Q" and len(t) == 4:
                b = set(bound)
                for x in t[2]:
                    if isinstance(x, list) and len(x) == 2 and isinstance(x[0], tuple):
                        b.add((x[0][1], x[1]))
                walk(t[3], b)
                return
            if t[0] in ("GV", "iv", "sv") and len(t) == 2 and isinstance(t[1], tuple):
                k = (t[1][1], {"GV": "g", "iv": "i", "sv": "s"}[t[0]])
                if k not in bound:
                    d = f"{k[0]}_{k[1]}: {sorts[k[1]]}"
                    if d not in out:
                        out.append(d)
                return
            for x in t:
                walk(x, bound)

    walk(v[1], set())
    return out


def tptp4x_formula(impl_line, outdir, request=None):
    """tptp4X verdict on one rendered formula, wrapped as a closed axiom; returns the error lines or None if accepted.
    With the request at hand only the free variables of the SOURCE formula are closed, so that a rendering that loses a
    binder (a variable left unbound) is rejected; without it every variable of the text is closed."""
    import tempfile
    try:
        v = sx.parse(impl_line)
    except Exception:
        return None
    if not isinstance(v, tuple):
        return None
    text = v[1]
    sorts = {"g": "general", "i": "$int", "s": "symbol"}
    vs = source_free_variables(request) if request else None
    if vs is None:
        vs = []
        for mo in TPTP_VAR.finditer(text):
            d = f"{mo.group(0)}: {sorts[mo.group(1)]}"
            if d not in vs:
                vs.append(d)
    closed = f"![{', '.join(vs)}]: ({text})" if vs else text
    with tempfile.TemporaryDirectory(dir=str(outdir)) as tmp:
        f = Path(tmp) / "f.p"
        f.write_text(f"tff(f, axiom, {closed}).\n")
        pr = subprocess.run([TPTP4X, "-q2", str(f)], stdout=subprocess.PIPE, stderr=subprocess.STDOUT, text=True, timeout=60)
        if pr.returncode != 0 and not UNDERSCORE_ID.search(text):
            return [l for l in pr.stdout.splitlines() if "ERROR" in l][:3] or [pr.stdout[-300:]]
    return None


def oracle_scan(outdir, suite, limit, seed=1, tries=400):
    """Implementation-vs-oracle: evaluate (input, implementation output) pairs of a suite run. Returns list of hits."""
    reqs = (outdir / f"{suite}.req").read_text().splitlines()
    imps = (outdir / f"{suite}.impl").read_text().splitlines()
    origins = (outdir / f"{suite}.origin").read_text().splitlines()
    qs, idx = [], []
    for i, (r, a) in enumerate(zip(reqs, imps)):
        if len(qs) >= limit:
            break
        if not origins[i].startswith("corpus:") and i % max(1, len(reqs) // limit) != 0:
            continue
        q = cex_request(r, a, seed, tries)
        if q:
            qs.append(q)
            idx.append(i)
    hits = []
    for i, a in zip(idx, ask_driver(qs)):
        if a.startswith("(found"):
            hits.append({"request": reqs[i], "impl": imps[i], "origin": origins[i], "countermodel": a})
    return hits, len(qs)


TPTP4X = "/repo/tests/examples/tptp4X_linux"
UNDERSCORE_ID = re.compile(r"(?<![A-Za-z0-9_$])_[A-Za-z0-9_]*")


DECL = re.compile(r"^tff\((\w+), type, ([^:\s]+): (.+)\)\.$", re.M)


def declaration_defects(text):
    """Implementation-level reading of the declaration block of one emitted problem: every identifier declared more than
    once, with the KIND of the clash.  Returns a list of (kind, identifier, types); the kinds that the known findings of C09
    cover are named in KNOWN_DECL_KINDS, anything else (the same declaration twice, two constants of one name, ...) is new."""
    decls = {}
    for name, ident, typ in DECL.findall(text):
        role = "preamble" if not re.match(r"(predicate|type_symbol|type_function_constant)_\d+$", name) else \
               "predicate" if name.startswith("predicate_") else "symbol" if name.startswith("type_symbol_") else "placeholder"
        decls.setdefault(ident, []).append((role, typ.strip()))
    out = []
    for ident, ds in decls.items():
        if len(ds) < 2:
            continue
        roles = sorted(r for r, _ in ds)
        types = [t for _, t in ds]
        if "preamble" in roles:
            kind = "clashes-with-preamble" if roles.count("preamble") == 1 else "preamble-declared-twice"
        elif len(set(ds)) < len(ds):
            kind = "same-declaration-twice"
        elif roles == ["predicate"] * len(roles):
            kind = "predicate-at-two-arities"
        elif set(roles) <= {"placeholder", "predicate", "symbol"} and roles.count("symbol") <= 1:
            kind = "mangling-clash:" + "+".join(sorted(set(roles)))
        else:
            kind = "other-duplicate:" + "+".join(roles)
        out.append((kind, ident, types))
    return out


# duplicate declarations that the known findings `duplicate-declaration` / `clashes-with-preamble` of C09 describe
KNOWN_DECL_KINDS = {"predicate-at-two-arities": "duplicate-declaration", "mangling-clash:predicate+symbol": "duplicate-declaration",
                    "mangling-clash:placeholder+symbol": "duplicate-declaration", "mangling-clash:placeholder+predicate": "duplicate-declaration",
                    "mangling-clash:placeholder+predicate+symbol": "duplicate-declaration", "clashes-with-preamble": "clashes-with-preamble"}


def tptp_validate(pid, suite):
    """extra(): run every problem text the implementation emitted in `suite` through tptp4X (syntax oracle) and
    ask the model for name-hygiene issues; classify failures against known_findings.jsonl."""
    def extra(tier, seed, outdir, broken, violations, findings_seen):
        import tempfile
        known = {k["class"]: k for k in load_known("C09") if "class" in k}
        reqs = (outdir / f"{suite}.req").read_text().splitlines()
        imps = (outdir / f"{suite}.impl").read_text().splitlines()
        limit = 150 if tier == "quick" else 100000
        n_texts = n_fail = 0
        decl_kinds = {}
        classes_seen = set()
        samples = []
        hyg_reqs = []
        with tempfile.TemporaryDirectory(dir=str(outdir)) as tmp:
            for r, a in list(zip(reqs, imps))[:limit]:
                try:
                    v = sx.parse(a)
                except Exception:
                    continue
                if not isinstance(v, list) or v == ["panic"] or v == ["error"]:
                    continue
                hyg_reqs.append(r.replace("(" + suite.split("_")[0] + "_text", "(" + suite.split("_")[0] + "_hygiene", 1))
                for prob in v:
                    if not (isinstance(prob, list) and len(prob) == 2):
                        continue
                    name, text = prob[0][1], prob[1][1]
                    n_texts += 1
                    if pid == "C09":
                        for kind, ident, types in declaration_defects(text):
                            cls = KNOWN_DECL_KINDS.get(kind)
                            decl_kinds[kind] = decl_kinds.get(kind, 0) + 1
                            if cls and cls in known:
                                classes_seen.add(cls)
                            elif len([v for v in violations if v.get("kind", "").startswith("declaration block")]) < 5:
                                violations.append({"property": pid, "kind": "declaration block: an identifier is declared more than once in a way no known finding describes",
                                                   "clash": kind, "identifier": ident, "types": types, "request": r, "problem": name, "text": text})
                    f = Path(tmp) / "p.p"
                    f.write_text(text)
                    pr = subprocess.run([TPTP4X, "-q2", str(f)], stdout=subprocess.PIPE, stderr=subprocess.STDOUT, text=True, timeout=60)
                    if len(samples) < 2:
                        samples.append(f"tptp4X accepts problem {name} ({len(text)} bytes)" if pr.returncode == 0 else f"tptp4X rejects {name}")
                    if pr.returncode != 0:
                        n_fail += 1
                        if UNDERSCORE_ID.search(text) and "leading-underscore" in known:
                            # identifier hygiene is C09's finding; not a formula-rendering (C06) issue
                            classes_seen.add("leading-underscore")
                        else:
                            err = [l for l in pr.stdout.splitlines() if "ERROR" in l][:2]
                            violations.append({"property": pid, "kind": "emitted TPTP rejected by tptp4X", "request": r,
                                               "problem": name, "tptp4X": err, "text": text})
        n_hyg = 0
        if pid == "C09" and hyg_reqs:
            for ans in ask_driver(hyg_reqs):
                try:
                    v = sx.parse(ans)
                except Exception:
                    continue
                if not isinstance(v, list):
                    continue
                for prob in v:
                    if isinstance(prob, list) and len(prob) == 2 and isinstance(prob[1], list):
                        n_hyg += 1
                        for c in prob[1]:
                            if c in known:
                                classes_seen.add(c)
                            else:
                                violations.append({"property": pid, "kind": "name-hygiene class not listed as known finding", "class": c, "problem": prob[0]})
        if pid == "C09":
            for c in sorted(classes_seen):
                findings_seen.append(known[c]["what"])
        return {"evaluations": n_texts, "distinct_nontrivial": n_texts, "samples": samples,
                "tptp4X_checked": n_texts, "tptp4X_rejected": n_fail, "hygiene_checked": n_hyg, "duplicate_declarations_by_kind": decl_kinds,
                "known_classes_seen": sorted(classes_seen)}
    return extra


def corpus_findings(pid, suite, detectors):
    """extra(): known findings witnessed by corpus cases of `suite`: detectors = {origin: (class, predicate on impl line)}."""
    def extra(tier, seed, outdir, broken, violations, findings_seen):
        known = {k["class"]: k for k in load_known(pid) if "class" in k}
        origins = (outdir / f"{suite}.origin").read_text().splitlines()
        imps = (outdir / f"{suite}.impl").read_text().splitlines()
        seen = []
        for o, a in zip(origins, imps):
            if o in detectors:
                cls, pred = detectors[o]
                if pred(a):
                    if cls in known:
                        findings_seen.append(known[cls]["what"])
                        seen.append(cls)
                    else:
                        violations.append({"property": pid, "kind": "corpus witness fails and is not listed as known finding", "origin": o, "impl": a[:2000]})
        return {"evaluations": len(detectors), "distinct_nontrivial": len(seen), "known_findings_reproduced": seen,
                "samples": [f"corpus witness {o} -> class {c[0]}" for o, c in detectors.items()]}
    return extra


RENAME_WITNESS = ('(strong_rename_issues ((rule (basic ("p" ())) ()) (rule (basic ("q" ())) ((cmp lt (sym "tp_") (sym "tp"))))) '
                  '((rule (basic ("p" ())) ()) (rule (basic ("q" ())) ())) sequential universal tau_star false false 256)')


SYM_IN_PROGRAM = re.compile(r'\(sym "([^"]*)"\)')
SYM_IN_FORMULA = re.compile(r'\(sy "([^"]*)"\)')


def c03_extra(tier, seed, outdir, broken, violations, findings_seen):
    """Symbolic constants keep their names (and hence their place in the order of symbols): in every problem the
    implementation emits for a strong-equivalence task the symbolic constants are constants of the two programs
    (repaired defect: a constant equal to the h-/t-copy of a propositional predicate used to be renamed c__s, which
    changed comparisons between constants). The fixed witness also runs through the real CLI."""
    import cli, tempfile
    reqs = (outdir / "strong.req").read_text().splitlines()
    imps = (outdir / "strong.impl").read_text().splitlines()
    bad = []
    for r, a in zip(reqs, imps):
        if not a.startswith("((problem"):
            continue
        allowed = set(SYM_IN_PROGRAM.findall(r))
        renamed = sorted(set(SYM_IN_FORMULA.findall(a)) - allowed)
        if renamed:
            bad.append((r, renamed))
    stats = {"evaluations": len(reqs) + 1, "distinct_nontrivial": sum(1 for a in imps if a.startswith("((problem")),
             "tasks_with_renamed_constants": len(bad), "samples": [f"{r[:160]} ... -> {x}" for r, x in bad[:2]]}
    for r, x in bad[:5]:
        violations.append({"property": "C03", "kind": "a symbolic constant of the emitted problems is no constant of the programs (renamed constants take another place in the order of symbols)",
                           "request": r, "constants": x})
    ok, log = cli.build_cli()
    if ok:
        with tempfile.TemporaryDirectory(dir=str(outdir)) as tmp:
            t = Path(tmp)
            (t / "l.lp").write_text("p.\nq :- tp_ < tp.\n")
            (t / "r.lp").write_text("p.\nq.\n")
            (t / "out").mkdir()
            subprocess.run([str(cli.ANTHEM), "verify", "--equivalence", "strong", "--no-proof-search", "--no-timing", "--save-problems", str(t / "out"),
                            str(t / "l.lp"), str(t / "r.lp")], stdout=subprocess.PIPE, stderr=subprocess.PIPE, timeout=120)
            texts = "".join(f.read_text() for f in sorted((t / "out").glob("*.p")))
            good = "p__less__(f__symbolic__(tp), f__symbolic__(tp_))" in texts and "tp__s" not in texts
            stats["implementation_witness_orders_tp_before_tp_"] = good
            if not good:
                violations.append({"property": "C03", "kind": "witness `p. q :- tp_ < tp.` vs `p. q.`: the emitted problems do not state tp < tp_ (symbol renaming changes the order of constants)",
                                   "request": RENAME_WITNESS})
    else:
        broken.append({"kind": "cli-build", "detail": log})
    return stats


def glue_extra(pid, kind, inner=None):
    """extra(): the real command line against the model on whole tasks given as files (cli.glue_correspondence), after
    an optional inner extra()."""
    def extra(tier, seed, outdir, broken, violations, findings_seen):
        import cli
        stats = (inner(tier, seed, outdir, broken, violations, findings_seen) or {}) if inner else {}
        ok, log = cli.build_cli()
        if not ok:
            broken.append({"kind": "cli-build", "detail": log})
            return stats
        gstats, failures = cli.glue_correspondence(kind, 40 if tier == "quick" else 1500, seed)
        for f in failures[:5]:
            violations.append(dict(f, property=pid, kind="command line vs model on a task given as files: " + f.get("what", "")))
        stats = dict(stats)
        stats["evaluations"] = stats.get("evaluations", 0) + gstats.get("evaluations", 0)
        stats["distinct_nontrivial"] = stats.get("distinct_nontrivial", 0) + gstats.get("distinct_nontrivial", 0)
        stats["samples"] = (stats.get("samples") or []) + (gstats.get("samples") or [])[:2]
        stats["command_line_vs_model"] = {k: v for k, v in gstats.items() if k not in ("samples",)}
        stats["command_line_vs_model"]["disagreements"] = len(failures)
        return stats
    return extra


def glue_translate_extra(pid, withs, analyses):
    """extra(): `anthem translate` / `anthem analyze` on program files against the model (cli.glue_translate)."""
    def extra(tier, seed, outdir, broken, violations, findings_seen):
        import cli
        ok, log = cli.build_cli()
        if not ok:
            broken.append({"kind": "cli-build", "detail": log})
            return {}
        stats, failures = cli.glue_translate(withs, analyses, 30 if tier == "quick" else 1500, seed)
        for f in failures[:5]:
            violations.append(dict(f, property=pid, kind="command line vs model: " + f.get("what", "")))
        stats["command_line_vs_model_disagreements"] = len(failures)
        return stats
    return extra


def glue_theory_extra(pid, what):
    """extra(): `anthem translate --with gamma|completion` / `anthem simplify` on theory files against the model."""
    def extra(tier, seed, outdir, broken, violations, findings_seen):
        import cli
        ok, log = cli.build_cli()
        if not ok:
            broken.append({"kind": "cli-build", "detail": log})
            return {}
        stats, failures = cli.glue_theory(what, 150 if tier == "quick" else 100000, seed)
        for f in failures[:5]:
            violations.append(dict(f, property=pid, kind="command line vs model: " + f.get("what", "")))
        stats["command_line_vs_model_disagreements"] = len(failures)
        return stats
    return extra


def glue_parse_extra(pid, lang, inner):
    """extra(): inner(), then `anthem parse --as ... --output default` on the parser corpus against the model (cli.glue_parse)."""
    def extra(tier, seed, outdir, broken, violations, findings_seen):
        import cli
        stats = inner(tier, seed, outdir, broken, violations, findings_seen) or {}
        ok, log = cli.build_cli()
        if not ok:
            broken.append({"kind": "cli-build", "detail": log})
            return stats
        gstats, failures = cli.glue_parse([lang], seed)
        for f in failures[:5]:
            violations.append(dict(f, property=pid, kind="command line vs model: " + f.get("what", "")))
        stats = dict(stats)
        stats["evaluations"] = stats.get("evaluations", 0) + gstats.get("evaluations", 0)
        stats["distinct_nontrivial"] = stats.get("distinct_nontrivial", 0) + gstats.get("distinct_nontrivial", 0)
        stats["parse_command_vs_model"] = {"cli_runs": gstats.get("cli_runs"), "agreeing": gstats.get("cli_runs_agreeing"), "disagreements": len(failures)}
        return stats
    return extra


def c10_extra(tier, seed, outdir, broken, violations, findings_seen):
    import cli
    ok, log = cli.build_cli()
    if not ok:
        broken.append({"kind": "cli-build", "detail": log})
        return {}
    stats, failures = cli.prover_exploration(60 if tier == "quick" else 1500, seed)
    for f in failures[:10]:
        violations.append(dict(f, property="C10", kind="stand-in prover exploration: implementation verdict/hand-over differs from the model"))
    return stats


def roundtrip_extra(pid, lang):
    """extra(): print/parse round trip on the real parsers (harness `roundtrip`), failures classified."""
    def extra(tier, seed, outdir, broken, violations, findings_seen):
        n = 3000 if tier == "quick" else 100000
        p = subprocess.run([str(VERIF / "harness/target/debug/verif-harness"), "roundtrip", "--seed", str(seed), "--n", str(n)],
                           stdout=subprocess.PIPE, text=True, timeout=3600)
        try:
            d = json.loads(p.stdout)
        except Exception:
            broken.append({"kind": "roundtrip-harness", "detail": p.stdout[-500:]})
            return {}
        known = {k["class"]: k for k in load_known(pid) if "class" in k}
        seen, mine = set(), 0
        for c in d["cases"]:
            if c["lang"] != lang:
                continue
            mine += 1
            cls = c["class"]
            if cls in known:
                seen.add(cls)
            elif sum(1 for v in violations if v.get("kind", "").startswith("print/parse round trip")) < 10:
                # the smallest ten failing inputs are reported (the replay files); the count is in the evidence
                violations.append({"property": pid, "kind": "print/parse round trip fails on the implementation", "class": cls,
                                   "accepted_text": c["text"], "printed": c["printed"], "what": c["what"]})
        for c in sorted(seen):
            findings_seen.append(known[c]["what"])
        return {"evaluations": d["tried"] // 2, "distinct_nontrivial": d["in_image"] // 2,
                "samples": [f"{d['in_image']} of {d['tried']} fully parenthesised renderings of generated trees (both languages) were accepted; each accepted tree was printed, re-parsed and printed again"],
                "roundtrip_failures_this_language": mine, "known_classes_seen": sorted(seen)}
    return extra


def c18_extra(tier, seed, outdir, broken, violations, findings_seen):
    import cli
    ok, log = cli.build_cli()
    if not ok:
        broken.append({"kind": "cli-build", "detail": log})
        return {}
    stats, failures = cli.determinism_exploration(60 if tier == "quick" else 1500, seed)
    for f in failures[:10]:
        violations.append(dict(f, property="C18", kind="output differs between two fresh processes"))
    lstats, lfail = cli.long_fixpoint_check()
    stats.update(lstats)
    for f in lfail:
        violations.append(dict(f, property="C18", kind="fixpoint simplification of a long chain does not end in the normal form / a fixpoint"))
    ostats, ofail = cli.simplify_order_check(seed)
    stats.update(ostats)
    for f in ofail[:5]:
        violations.append(dict(f, property="C18", kind="CLI simplify output is not the model's per-formula result in input order"))
    # fixpoint runs that hit the pass bound (far above anything the generators produce) are reported here
    imp = (outdir / "simplify.impl")
    timeouts = sum(1 for l in imp.read_text().splitlines() if l.startswith("(timeout")) if imp.exists() else 0
    if timeouts:
        violations.append({"property": "C18", "kind": "fixpoint simplification exceeded the pass bound of 256 on the implementation", "count": timeouts})
    stats["fixpoint_runs_hitting_pass_bound"] = timeouts
    return stats


def c16_extra(tier, seed, outdir, broken, violations, findings_seen):
    import cli
    ok, log = cli.build_cli()
    if not ok:
        broken.append({"kind": "cli-build", "detail": log})
        return {}
    stats, failures, known_seen = cli.crash_exploration(1200 if tier == "quick" else 40000, seed)
    known = {k["class"]: k for k in load_known("C16") if "class" in k}
    for c in sorted(known_seen):
        if c in known:
            findings_seen.append(known[c]["what"])
        else:
            failures.append({"outcome": "panic", "class": c, "note": "crash class not listed as known finding"})
    for f in failures[:10]:
        violations.append(dict(f, property="C16", kind="CLI crashed (panic / signal / timeout) on an input outside the known classes"))
    return stats


def replay(pid, path):
    doc = json.loads(Path(path).read_text())
    print(json.dumps(doc, indent=1)[:4000])
    return 0


HOOK_COMMITS = ["ffc8b2b"]
FIX_COMMITS = ["ca17dcd", "3401bdf", "db0baa0", "3af4e16", "b9b9933", "8154c20", "f1b4fb0", "9b44a2c", "d0885ee", "c8750dd", "2ca6488", "82641ae", "d771171", "a1dc9d0", "06d5e1b", "611037e", "515e4a3", "1d6d77a"]
NOT_YET = {}

PROOF_NOTE = ("Trusted: Lean kernel; Semantics/*.lean as the specification; the correspondence harness and serialisers; "
              "the theorem is about the Lean model and transfers to the Rust code only where the exact-output correspondence agreed. "
              "Axioms used: subset of {propext, Classical.choice, Quot.sound}; no sorry/native_decide.")

PROPS = {
    "C05": {
        "search": search_generic,
        "level_text": "Full: gamma_correct proves, for every formula, HT interpretation and assignment, ht (H,T) here F <-> sat (merge H T) (gamma F) "
                      "(and the there/t-copy analogue), prefix_injective + merge_exists give distinct h/t copies; the model `gamma` is tied to "
                      "Gamma::gamma by exact tree equality on generated formulas on every run.",
        "level_note": PROOF_NOTE,
        "technique": "Lean 4 proof by structural induction on formulas + differential correspondence (exact trees) + the real command line against the model on tasks and files",
        "design_ref": "DESIGN.md 6/C05",
        "suites": [("gamma", 4000, 100000)],
        "extra": glue_theory_extra("C05", "gamma"),
        "rule": "seeded random target-language formulas (depth 1-5, adversarial name pools, all connectives/quantifiers/sorts, "
                "simplifier motifs) plus corpus/formulas.txt; request = Gamma::gamma on the real code vs Lean `gamma`, exact tree equality; "
                "non-trivial = gamma changed the tree; distinct by request text",
        "trusted_base": COMMON_TRUST,
        "assumptions": COMMON_ASSUME,
    },
    "C07": {
        "search": search_generic,
        "suites": [("rewrite", 1500, 30000), ("simplify", 1200, 30000), ("substitute", 1500, 30000)],
        "extra": glue_theory_extra("C07", "simplify"),
        "pins": [],
        "rule": "seeded adversarial formulas (shadowed/repeated binders, X = t(X), duplicated conjuncts, mixed-sort equalities, the shapes each "
                "rewrite looks for) + corpus; (a) each of the 15 rewrites at the root, (b) each portfolio concatenation x {shallow, recursive, "
                "fixpoint (pass bound 256)}, (c) Formula::substitute; exact tree equality with the Lean model; non-trivial = output differs from input",
        "level_text": "Full. Truth-value claim for all three portfolios. portfolio_sound_intuitionistic/_ht: HT-equivalence for every strategy, pass bound, formula, "
                      "interpretation with H subset T, world, assignment (each of the 10 INTUITIONISTIC rewrites proved). portfolio_sound_classic: classical equivalence, "
                      "unconditional - all five CLASSIC rewrites proved (remove_double_negation, substitute_defined_variables, restrict_quantifier_domain [both forms, "
                      "with the freshness of choose_fresh_variable_names proved by pigeonhole], extend_quantifier_scope [even HT-equivalent], simplify_transitive_equality). "
                      "The last two proofs hold only after the repairs fix: 8154c20 / f1b4fb0 (before them the statements were false; the counterexamples are in corpus/formulas.txt). "
                      "Free-variable claim: full - portfolio_no_new_free_variables (each of the 15 rewrites is free-variable non-increasing, lifted through compose, post-order apply and the fixpoint loop).",
        "level_note": PROOF_NOTE,
        "technique": "Lean 4 proofs (per-rewrite HT/classical equivalence, congruence, composition, iteration) + differential correspondence + the real command line against the model on tasks and files",
        "design_ref": "DESIGN.md 6/C07",
        "trusted_base": COMMON_TRUST,
        "assumptions": COMMON_ASSUME + ["fixpoint runs are compared up to a pass bound of 256; a run hitting the bound is reported under C18"],
    },
    "C17": {
        "search": search_generic,
        "suites": [("substitute", 4000, 100000)],
        "rule": "seeded (formula, variable, term) triples: the variable mostly occurs in the formula, terms sort-compatible (1/12 deliberately not: expected panic), "
                "small name pools so that binders reuse the substituted name / name variables of the term / several per block + corpus/substitute.txt; "
                "Formula::substitute vs Lean `Formula.subst` (+ panic predicate), exact tree equality",
        "level_text": "Full: substitute_correct proves, for EVERY formula (incl. binders reusing the substituted name, binders naming variables of the term, several per block, repeated binders, "
                      "taken fresh-name candidates), every variable, every sort-compatible term, every HT interpretation, world and assignment, that F[x:=t] has the truth value of F with x assigned the value of t "
                      "(classical corollary substitute_correct_classical); substitute_fv bounds the free variables; substitute_bound / substitute_other_sort cover the third sentence; the fresh names are those of the real "
                      "search (fresh_binder_not_taken, pigeonhole). The model is the fixed implementation (fix: b9b9933) and is tied to it by exact correspondence.",
        "level_note": PROOF_NOTE,
        "technique": "Lean 4 proof (substitution lemma by induction on fuel/depth, binder lists characterised by sets) + differential correspondence",
        "design_ref": "DESIGN.md 6/C17",
        "trusted_base": COMMON_TRUST,
        "assumptions": COMMON_ASSUME,
    },
    "C18": {
        "extra": c18_extra,
        "suites": [("simplify", 1500, 40000)],
        "rule": "as C07(b): every portfolio x strategy on seeded formulas; the harness runs its own bounded fixpoint loop (256 passes) and, when it converges, "
                "the real Apply::apply_fixpoint, and requires equal results; any timeout is reported",
        "level_text": "Termination and idempotence: full for the model. fixpoint_terminates - for every portfolio and every formula some pass leaves the formula unchanged (each of the 15 rewrites either "
                      "returns its argument or strictly decreases a lexicographic measure: a polynomial interpretation with products for and/or [invariant under re-nesting, decreases when a quantifier moves out], "
                      "the number of equality links with different sides [substitute_defined_variables], quantified general variables [restrict_quantifier_domain], quantified variables [remove_orphaned_variables]; "
                      "the measure is monotone in every context, so every changing pass decreases it); fixpoint_bound_irrelevant / fixpoint_result_exists_unique (the result is the same for every sufficient bound, so "
                      "the unbounded Rust loop has a well-defined result); fixpoint_idempotent / fixpoint_stable (simplifying the result again returns it unchanged). Determinism is definitional for the model and is "
                      "the content of the tie for the implementation (process level: explored, see note).",
        "level_note": PROOF_NOTE + " Hash-seed and thread-timing effects on real processes are explored (two fresh processes), not proved.",
        "technique": "Lean 4 proof (well-founded lexicographic measure decreased by every rewrite, monotone in context; loop invariant of apply_fixpoint) + differential correspondence + repeated-process byte comparison",
        "design_ref": "DESIGN.md 6/C18",
        "trusted_base": COMMON_TRUST,
        "assumptions": COMMON_ASSUME,
    },
    "C01": {
        "search": search_generic,
        "suites": [("tau_star", 2500, 60000)],
        "extra": glue_translate_extra("C01", ["tau-star"], []),
        "rule": "seeded mini-gringo programs (1-4 rules, term depth 0-2, all six operators incl. / \\ .., all three head kinds, all signs and relations, "
                "variable pool containing I J K Q R Z Z1 V V1 V2 N0... so that fresh-name choices collide) + corpus/programs.txt (incl. the usize-overflow witness); "
                "Program::tau_star vs Lean `tauStar` (+ panic predicate), exact theory equality",
        "level_text": "Full for the model: tau_star_correct - for every program whose global-variable index arithmetic does not overflow (globalsPanic = false; the overflow is the C16 known finding), "
                      "every HT interpretation (H subset T not even needed), world and assignment: the interpretation satisfies every formula of tau_star(P) iff it satisfies every rule of P in the "
                      "reference semantics (value sets with multi-valued intervals, partial division/modulo, arithmetic undefined on non-integers; comparisons; not / not not; choice heads; constraints). "
                      "Proved level by level: val (term induction; freshness of I,J,K,Q,R proved by pigeonhole + first-letter argument, no premise left), tau_b (fresh Z names), tau_star_rule (three head kinds, "
                      "global V<n> variables fresh for the whole program via the digit round trip of toString), program. stable_iff_equilibrium: stable models with input facts are exactly the equilibrium models of the theory. Since fix 1d6d77a (checked addition with a fallback in choose_fresh_global_variables) the fresh head variables are fresh for every program (chooseFreshGlobals_spec without hypothesis) and tau_star_correct_every_program states C01 with no hypothesis at all.",
        "level_note": PROOF_NOTE + " Semantics/Asp.lean (reference semantics of mini-gringo: division only for positive divisors, as the source documents) is part of the specification.",
        "technique": "Lean 4 proof (induction on terms, body atoms, rules, programs; integer-sorted binders cannot capture general-sorted program variables; fresh names by pigeonhole) + differential correspondence + the real command line against the model on tasks and files",
        "design_ref": "DESIGN.md 0.3, 6/C01",
        "trusted_base": COMMON_TRUST + ["Semantics/Asp.lean reference semantics"],
        "assumptions": COMMON_ASSUME + ["globalsPanic = false (no usize overflow of the fresh global-variable indices) is a hypothesis of tau_star_correct; the overflowing input is reported separately (C16 known finding)"],
    },
    "C03": {
        "search": search_generic,
        "suites": [("strong", 400, 8000)],
        "extra": glue_extra("C03", "strong", c03_extra),
        "rule": "seeded program pairs x {independent, sequential} x {universal, forward, backward} x {mu, tau-star} x simplify x eq-break; StrongEquivalenceTask::decompose "
                "vs Lean `strongProblems`: problem names, formula names, roles and formula trees all equal",
        "level_text": "Full for the model, both representations and all flags: strong_refutes - some emitted problem is refuted by the classical interpretation merging (H,T) iff H subset T on the "
                      "programs' predicates and (H,T) satisfies one program but not the other in a requested direction; strongly_equivalent_iff - no emitted problem of a universal task has a standard "
                      "countermodel iff the programs have the same HT models; strong_refutes_needs_sub - an interpretation with H not-subset T on a program predicate refutes nothing. Composes C01 (tau_star_correct), "
                      "C08 (mu_correct), C07 (ht and classic portfolios), C05 (gamma_correct), C19 (eq-break, decompositions) and the semantics of the transition axioms. Hypotheses, all explicit: the pass bound "
                      "sufficed, no usize overflow, and with simplification or mu on, H subset T everywhere; strong_refutes / strongly_equivalent_iff additionally assume that rename_conflicting_symbols is the identity (NoSymbolConflict). "
                      "strong_refutes_with_renaming removes that assumption: since fix 611037e a propositional predicate whose name is also a symbolic constant is renamed to a free name (clashing_predicates_get_free_names) and constants keep their names and order "
                      "(before, the constant was renamed c__s and comparisons between constants could change: the literal property was false, witness rename_keeps_symbols_witness); a renamed problem is refuted by J iff the original is refuted by J read through the renaming (sat_renameProps). "
                      "strong_equivalence_sound_no_side_condition - for a universal task, if no emitted problem has a countermodel the programs have the same HT models (no hypothesis on names; reading_surjective, direction_countermodel); strong_equivalence_complete_with_renaming - the converse through the readings. The check also verifies on every generated task that the constants of the emitted problems are constants of the programs.",
        "level_note": PROOF_NOTE,
        "technique": "Lean 4 proof by composition (tau*/mu correctness, both portfolios, gamma_correct, decomposition theorems, transition-axiom semantics, semantics of the propositional renaming) + end-to-end differential correspondence + the real command line against the model on tasks and files",
        "design_ref": "DESIGN.md 6/C03",
        "trusted_base": COMMON_TRUST,
        "assumptions": COMMON_ASSUME + ["fixpoint simplification inside the pipeline is compared up to a pass bound of 256"],
    },
    "C04": {
        "search": search_completion,
        "suites": [("completion", 1500, 30000), ("analyze", 800, 20000), ("tau_star", 1200, 30000)],
        "extra": glue_theory_extra("C04", "completion"),
        "rule": "theories = tau* of seeded programs + hand-shaped implication theories (atom / #false / malformed consequents, repeated and non-variable head arguments, "
                "reverse implications, free variables) with random input-predicate sets; Completion::completion vs Lean `completion` (incl. None), and is_tight vs `isTight`",
        "level_text": "Full for the model: completion_tight - for every program that is_tight accepts (no usize overflow of the global indices) and every set of input predicates not occurring in rule heads, "
                      "completion accepts the tau* theory and a classical interpretation over the program's signature satisfies every formula of the result iff it is a stable model of the program with its own "
                      "input facts. Layers: completion_refuses (only completable theories are accepted, one head per predicate); tight_stable_iff_supported (Fages' theorem with inputs at the level of the reference "
                      "semantics; tightness exact by C11; induction on the number of reachable predicates); the formula level (tau* formulas closed, split into constraints / partial definitions, grouping by head atom, "
                      "empty definitions for predicates without rules, inputs left open, meaning of each completed definition); non_tight_counterexample shows tightness is needed.",
        "level_note": PROOF_NOTE,
        "technique": "Lean 4 proof (Fages' theorem at the level of the reference semantics, formula-level semantics of the completed definitions, refusal of non-completable theories) + differential correspondence + the real command line against the model on tasks and files",
        "design_ref": "DESIGN.md 6/C04",
        "trusted_base": COMMON_TRUST,
        "assumptions": COMMON_ASSUME,
    },
    "C08": {
        "search": search_generic,
        "suites": [("natural", 1200, 30000)],
        "extra": glue_translate_extra("C08", ["mu", "natural"], ["regularity"]),
        "rule": "seeded programs biased to arithmetic; natural() (incl. None), mu(), is_regular() vs the Lean model, exact equality",
        "level_text": "Full for the model: natural_correct - every formula the natural translation prints for a rule it accepts holds in an HT interpretation (H subset T; any world, assignment) iff the rule "
                      "is satisfied in the reference semantics; natural_equiv_tau_star / mu_equiv_tau_star - formula by formula HT-equivalence with tau*; mu_total, mu_correct. Integer-sorted variables are sound: "
                      "an instance in which a variable of int_variables has a non-integer value holds vacuously (ruleInst_vacuous). Terms of the first kind are single-valued (p2f_sem), head intervals range over "
                      "fresh integer variables whose freshness is proved (headFreshOK: names N<i>, N<i>_<j> are pairwise distinct and not among the head's variables).",
        "level_note": PROOF_NOTE,
        "technique": "Lean 4 proof (single-valuedness of first-kind terms, vacuity of non-integer instances, head intervals by fresh integer binders, composition with tau_star_correct) + differential correspondence + the real command line against the model on tasks and files",
        "design_ref": "DESIGN.md 6/C08",
        "trusted_base": COMMON_TRUST,
        "assumptions": COMMON_ASSUME,
    },
    "C11": {
        "search": search_functional,
        "suites": [("analyze", 1500, 40000), ("natural", 600, 10000), ("external", 400, 8000)],
        "extra": glue_translate_extra("C11", [], ["tightness", "regularity"]),
        "rule": "seeded programs + random private-predicate sets; is_tight / has_private_recursion / is_regular vs the Lean model (explicit cycle test instead of petgraph)",
        "level_text": "Full for the model: external_ok_implies / external_err_of_precheck (problems are emitted only if every applicability condition holds; otherwise an error and nothing else), "
                      "the cycle test is exact - isCyclic_sound (a reported cycle is a real cycle) and isCyclic_complete (every real cycle is reported: the reachability computation saturates after |nodes| rounds, "
                      "by a counting argument), hence tight_iff_acyclic (reported tight iff no predicate depends positively on itself); choice_private_is_recursion, regular_iff (C08). "
                      "The model's cycle test replaces petgraph's and is compared with it on every generated input.",
        "level_note": PROOF_NOTE + " petgraph's is_cyclic_directed is replaced by an explicit reachability test in the model.",
        "technique": "Lean 4 proof (soundness and completeness of the cycle test, enforcement of the applicability checks before any obligation) + differential correspondence + the real command line against the model on tasks and files",
        "design_ref": "DESIGN.md 6/C11",
        "trusted_base": COMMON_TRUST,
        "assumptions": COMMON_ASSUME,
    },
    "C19": {
        "search": search_c19,
        "suites": [("strong", 400, 8000), ("break_eq", 1000, 20000), ("external", 300, 6000), ("decompose", 2000, 50000), ("simplify", 500, 10000), ("substitute", 800, 15000)],
        "rule": "as C03 (all flag combinations) + break_equivalences_formula on seeded formulas with equivalences under universal prefixes + the simplification portfolios and Formula::substitute (the simplify flag's part of the claim, as C07/C17)",
        "level_text": "Full for decomposition and eq-break: independent_refutes, sequential_refutes, decomposition_invariant, break_equiv(_ht), families_invariant proved for all problems, "
                      "interpretations and assignments; the simplify flag reduces to C07 (map_equiv_all), proved for all three portfolios.",
        "level_note": PROOF_NOTE,
        "technique": "Lean 4 proof (list induction over the decomposition loops, binder characterisation) + differential correspondence",
        "design_ref": "DESIGN.md 6/C19",
        "trusted_base": COMMON_TRUST,
        "assumptions": COMMON_ASSUME,
    },
    "C06": {
        "search": search_generic,
        "suites": [("tptp", 3000, 80000), ("strong_text", 200, 4000)],
        "extra": tptp_validate("C06", "strong_text"),
        "rule": "seeded formulas (chains of 1-3 guards under every connective, mixed-sort comparisons, negative and extreme numerals, function constants of all sorts) "
                "rendered by tptp::Format vs Lean `tptpFormula` (text equality); on the model side every text is read back with the TFF reader (TPTP precedence rules) "
                "and must equal the TFF tree `tr F`; whole problem texts of strong-equivalence tasks; every emitted problem text parsed by tptp4X. After a disagreement: "
                "the implementation's text is read back and compared semantically with the source formula over bounded interpretations, unreadable texts go to tptp4X",
        "level_text": "Full for the model, one reading step by exploration: rendering_is_a_tree (the emitted text is TForm.print (tr F)), rendering_preserves_meaning "
                      "(tr_sem: in the standard structure of any interpretation the TFF tree holds under the typed reading of an assignment iff F holds classically - all formulas, "
                      "chains, mixed sorts, negative numerals, placeholders, binder lists), entailment_transfers(_with_preamble): an entailment between renderings valid in all TFF "
                      "structures satisfying the preamble and symbol-order axioms transfers to the source formulas in all standard interpretations (uses C12.std_satisfies_preamble). "
                      "Not proved: that a TPTP reader reads TForm.print t back as t (TPTP grammar not formalised) - checked on every run by the read-back comparison and tptp4X. "
                      "The statements hold for the printer after the repair fix: 9b44a2c.",
        "level_note": PROOF_NOTE + " tptp4X (bundled with the repo's tests) is used as a syntax oracle only; the TFF reader (Model/TffParse.lean) is unverified and used for the read-back check and the search.",
        "technique": "Lean 4 proof (TFF tree, its semantics in arbitrary structures, tr_sem, entailment transfer) + differential correspondence (text) + read-back comparison + tptp4X syntax oracle",
        "design_ref": "DESIGN.md 0.3, 6/C06",
        "trusted_base": COMMON_TRUST + ["tptp4X as syntax oracle", "the reading of TForm.print output as the tree (TPTP grammar), checked by read-back, not proved"],
        "assumptions": COMMON_ASSUME,
    },
    "C09": {
        "search": search_c09,
        "suites": [("strong_text", 300, 6000), ("external_text", 150, 3000), ("decompose", 1000, 20000)],
        "extra": tptp_validate("C09", "strong_text"),
        "rule": "whole problem texts (preamble, declarations, symbol order axioms, formulas) of seeded strong-equivalence tasks under all flag combinations vs Lean `Problem.tptpText`; "
                "each text parsed by tptp4X; model-side name-hygiene analysis of every problem, classes matched against known_findings.jsonl",
        "level_text": "Partial by a genuine defect, otherwise proved: one_conjecture (both decompositions); problem_well_typed - every closed formula of a problem, as a TFF tree (C06), type-checks against the problem's "
                      "own declarations (predicates at their arity over general, symbolic constants, placeholders at their sort, $int built-ins), every variable bound by a typed quantifier; declared_all / declared_only - "
                      "the declarations are exactly what occurs; uniqueNames_nodup / decomposed_names_nodup - formula names are pairwise distinct in every emitted problem; hygienic_iff - the model-side analysis of the "
                      "*mangled identifiers* is exact. What cannot be proved on the unchanged tree is that mangling never clashes: three identifier classes do (known findings with kernel-checked counterexamples); "
                      "tptp4X validates the syntax of every emitted text.",
        "level_note": PROOF_NOTE + " tptp4X checks syntax, not typing; typing is covered only by the model-side hygiene analysis.",
        "technique": "Lean 4 proof (typing of TFF trees against the declarations, unique names, one conjecture, exact hygiene analysis) + differential correspondence (full problem text) + tptp4X",
        "design_ref": "DESIGN.md 6/C09",
        "trusted_base": COMMON_TRUST + ["tptp4X as syntax oracle"],
        "assumptions": COMMON_ASSUME,
    },
    "C12": {
        "search": search_c12,
        "suites": [("strong_text", 300, 6000), ("external_text", 150, 3000)],
        "rule": "whole problem texts of seeded strong-equivalence tasks: preamble (tied to the Lean transcription), symbol_order axioms, transition axioms vs the model, text equality",
        "level_text": "Full for the model: each of the 15 preamble axioms is a theorem about the standard structure, collected as std_satisfies_preamble : Preamble (stdStruct I) over the same TFF structure type that C06 interprets renderings in; symbol_chain_true / symbol_chain_covers / chain_distinct "
                      "(ordering axioms form a strictly increasing chain over exactly the problem's symbols); transition_true (h-implies-t axioms hold in every interpretation arising from H subset T).",
        "level_note": PROOF_NOTE + " The reading of the preamble's TFF syntax into Lean propositions is by hand (15 one-line axioms).",
        "technique": "Lean 4 proof (order lemmas on the standard domain, insertion-sort sortedness, binder characterisation) + text correspondence of the preamble and generated axioms",
        "design_ref": "DESIGN.md 6/C12",
        "trusted_base": COMMON_TRUST + ["hand transcription of the 15 preamble axioms into Lean propositions"],
        "assumptions": COMMON_ASSUME,
    },
    "C02": {
        "search": search_generic,
        "suites": [("external", 500, 10000), ("external_text", 150, 3000)],
        "extra": glue_extra("C02", "external", corpus_findings("C02", "external", {
            "corpus:missing_output": ("missing_output", lambda a: a.strip() == "()"),
            "corpus:rename_clash": ("rename_clash", lambda a: a.count('(B iff (A (P "q_p" ((GV "V1"))))') >= 2),
        })),
        "rule": "external-equivalence tasks: the repo's example tasks (res/examples/external_equivalence, files chosen by Files::sort), hand-written corpus tasks, and seeded tasks from a role-aware "
                "generator (input/output/private predicates, ranked bodies so that most programs are tight, placeholders of all sorts, specification sides, proof outlines with lemmas, definitions, "
                "inductive lemmas; 1/5 deliberately violate an applicability condition) x all flags; ExternalEquivalenceTask::decompose vs Lean `externalProblems`: error kind or the full list of problems "
                "(names, roles, formula trees), and the full TPTP text",
        "level_text": "Full for the model (both defects found were repaired: missing output predicate, fix 82641ae, clause OutputsEmpty; private rename clash, fix 06d5e1b, theorems private_renaming_fresh and one_interpretation_carries_both_readings): the whole pipeline (checks, tau*, placeholder replacement, completion, simplification, control translation, private renaming, outline, assembly, decomposition) is modelled and tied by "
                      "exact correspondence. Proved: external_refutes_programs - for a task that compares two programs (no placeholders, no proof outline, tightness not bypassed; every direction, decomposition, "
                      "simplify and eq-break flag): some emitted problem is refuted by a classical interpretation iff it satisfies the user-guide assumptions and, in a requested direction, is a stable model of one "
                      "program (on that program's vocabulary, with its own input facts) and satisfies the completed definitions of the other program's private predicates without being a stable model of it "
                      "(composition of C04 completion_tight, C07, C19, private renaming, assembly; hypothesis: rename_conflicting_symbols is the identity on the assembled problems); cannot_produce_public_part - "
                      "with simplification off the last clause is the same as 'no stable model of that program has the same extents of the non-private predicates' (uniqueness of the private extents without "
                      "private recursion, private_extents_unique, by induction on the rank in the private dependency graph); external_refutes_specification - the same for a specification (annotated formulas, every role and direction annotation the task accepts) against a program: refuted iff the interpretation satisfies the user-guide assumptions, the specification's universal assumptions and the program's private definitions and either (forward) satisfies the specification's forward premises (forward assumptions, universal/forward spec formulas) without being a stable model of the program, or (backward) is a stable model of the program and falsifies a universal/backward spec formula (specification_roles: which annotation plays which part; a backward-annotated assumption of the specification is dropped by the code); external_refutes_programs_with_placeholders / external_refutes_specification_with_placeholders - both statements for user guides that declare placeholders of any sort: a program with placeholders is read as the reference semantics prescribes, every placeholder replaced by the precomputed term the interpretation assigns to it (Program.substSym (phNu m J.fc)); rests on tauStar_substSym and completion_substSym (tau* and completion commute with the substitution of closed terms for symbolic constants; replace_placeholders is an instance) and sat_substSym_congr (only the values of the substituted terms matter); external_sound_with_outline - for EVERY accepted task (placeholders, proof outline with lemmas, inductive lemmas, definitions of any direction): if no emitted problem (outline problems and final problems) has a countermodel, no interpretation satisfying the user-guide assumptions witnesses a difference in a requested direction; rests on assembled_outline_sound (an accepted outline does not change what is claimed), C13 outline_sound and proofOutlineFrom_defsExt (accepted definitions can be made true by re-interpreting only the predicates they define). With an outline the converse is not claimed (a false lemma has a countermodel although the sides agree). The literal property was FALSE on the unchanged tree at two points: the missing-output defect (repaired; missing_output_now_refutable) and the private rename clash (repaired; rename_clash_now_separated; private_renaming_fresh: the names chosen for clashing private predicates are no predicates of the task and pairwise different, by pigeonhole on the injective family p, p1, p2, ...; "
                      "one_interpretation_carries_both_readings: any extents for the two sides that agree on the public predicates are read off one interpretation, the program side through the renaming). Corpus witnesses of both are replayed on the implementation and reported if they ever fail again. every_accepted_program_task_sound / every_accepted_specification_task_sound - the property's conclusion about the programs alone for EVERY accepted task (placeholders of any sort, simplification on or off, proof outlines with lemmas, inductive lemmas and definitions): if no emitted problem has a countermodel (NO side condition: renaming_is_irrelevant_for_validity - since fix 611037e rename_conflicting_symbols renames propositional predicates to free names, and an emitted problem has a countermodel as soon as the parts it was assembled from can be refuted; external_sound_no_side_condition), then in each requested direction every stable model of one program (read with the placeholder values, under the user-guide assumptions) has the same public part as some stable model of the other, resp. the program meets the specification and the specification admits only behaviours of the program; valid_problems_imply_external_equivalence / valid_problems_imply_specification_met - the same for tasks without an outline, with the side condition of the two-sided theorems; rests on private_definitions_satisfiable (without private recursion the private predicates always have extents satisfying their completed definitions: iteration of the supported operator, stable after rank+1 rounds), one_interpretation_carries_both_readings, and definitions_keep_their_role_under_simplification (the classic portfolio never changes the head predicate of a formula of a completed theory: none of the 15 rewrites touches an equivalence at the root or below one universal quantifier, and a constraint never acquires a head because tau* bodies contain no implication or equivalence and every rewrite preserves that) - so simplification cannot turn a private definition into a conjecture or a constraint into an assumption.",
        "level_note": PROOF_NOTE,
        "technique": "Lean 4 proof (composition of the tau*, completion, simplification, decomposition and assembly theorems; existence of private extents by iterating the supported operator; pigeonhole freshness of the private and propositional renamings; validity transfer across rename_conflicting_symbols; shape invariants of the classic portfolio) + end-to-end differential correspondence + the real command line against the model on tasks and files",
        "design_ref": "DESIGN.md 6/C02",
        "trusted_base": COMMON_TRUST,
        "assumptions": COMMON_ASSUME + ["fixpoint simplification inside the pipeline is compared up to a pass bound of 256"],
    },
    "C13": {
        "search": search_c13,
        "suites": [("external", 500, 10000)],
        "extra": corpus_findings("C13", "external", {
            "corpus:lemma_before_definition": ("lemma_before_definition", lambda a: a.startswith("((problem")),
        }),
        "rule": "as C02: tasks with proof outlines (lemmas with every direction annotation, definitions incl. malformed ones, inductive lemmas incl. induction variable bound inside F and negative start) "
                "vs the Lean model of ProofOutline::from_specification / inductive_lemma / definition and of the outline part of the problem assembly",
        "level_text": "Full for the model: outline_sound (an interpretation that satisfies the axioms of a direction - premises and accepted definitions - and refutes none of the emitted outline problems "
                      "satisfies every lemma the outline makes available as an axiom; by induction along the outline over outline_sequencing), accepted_outline_lemmas_justified (every lemma of an accepted outline, plain or "
                      "inductive, is implied by its obligations; fold invariant over ProofOutline::from_specification), inductive_lemma_justified (base and step imply the closed lemma, whatever its variable list), "
                      "induction_sound (the two obligations imply F for every integer >= n, for every formula incl. rebinding of the induction variable), "
                      "inductiveLemma_shape, definition_accepted_implies, definition_conservative (every interpretation can be changed on the defined predicate alone so that an accepted "
                      "definition holds - so no accepted definition makes a claim about the task's predicates available), outline_sequencing (lemma k's problems use the direction's axioms and the "
                      "consequences of lemmas < k) proved; head arguments pairwise distinct since fix c8750dd; definition_entry_is_fresh / lemma_entry_records_predicates: since fix d771171 a definition's predicate occurs in no earlier entry of the outline, lemmas included (the former literal-reading finding, lemma_before_definition_refused). outline_sound_no_side_condition - the same from validity alone, without the hypothesis that rename_conflicting_symbols is the identity on the outline problems (Proofs/RenameValid valid_single, Proofs/ExternalValid outline_sound_valid).",
        "level_note": PROOF_NOTE,
        "technique": "Lean 4 proof (integer induction + substitution lemma; fold invariants) + differential correspondence",
        "design_ref": "DESIGN.md 6/C13",
        "trusted_base": COMMON_TRUST,
        "assumptions": COMMON_ASSUME,
    },
    "C10": {
        "suites": [("status", 8000, 200000)],
        "extra": c10_extra,
        "rule": "(a) Status::from_str vs Lean `statusOf` on generated prover outputs (all seven SZS words, near-miss words, missing/duplicated separators, several status lines, non-ASCII); "
                "(b) the real CLI `verify --equivalence strong` with a stand-in `vampire` first in PATH that records its stdin and answers per plan (13 outcome kinds incl. crash, non-UTF-8, "
                "non-zero exit, second-line Theorem; missing executable), prover instances 1..8, random delays: verdict line vs the model's verdict, number of prover runs = number of problems, "
                "recorded stdin multiset = --save-problems files, distinct problem names",
        "level_text": "Partial: verdict_iff, fault_fails, non_theorem_fails, verdict_perm, pool_invariant, pool_complete, pool_progress, pool_measure, success_iff_all_theorem proved for the model "
                      "(all arrival orders, all worker counts); the status regex is tied by correspondence; threadpool/mpsc/process/pipe behaviour is modelled, not verified, and explored with the stand-in prover.",
        "level_note": PROOF_NOTE + " A prover that prints Theorem and exits non-zero counts as proven (the source ignores the exit status); a prover that does not read its stdin may produce a write error.",
        "technique": "Lean 4 proof (fold lemmas, permutation invariance, transition-system invariant/variant) + differential correspondence (status) + stand-in prover exploration of the CLI",
        "design_ref": "DESIGN.md 6/C10",
        "trusted_base": COMMON_TRUST + ["OS process/pipe semantics, threadpool and mpsc crates (modelled as a transition system)"],
        "assumptions": COMMON_ASSUME + ["no worker thread panics (the unwraps in prove are on a freshly piped stdin and an open channel)"],
    },
    "C20": {
        "search": search_functional,
        "suites": [("files", 1500, 40000)],
        "rule": "seeded directory trees (depth <= 2, file names with every relevant extension shape: .lp .spec .ug .po .LP .lp.bak '.', leading dots, no extension, names that sort differently by byte order) "
                "created under /verif/work, given to Files::sort in random argument order; all five buckets and all six accessors vs the Lean model",
        "level_text": "Full for the model: bucket_by_extension, spec_anywhere / ug_anywhere / po_anywhere (invariance under every permutation of the visited files), lp_roles, swap_programs proved; "
                      "the walk that produces the visited files is a total function of the model (walkPaths) with walk_file, walk_dir (entries by name, depth first), walk_arguments_in_order "
                      "(arguments in the order given, no sorting across them), walk_link / links_contribute_nothing / links_in_a_directory_contribute_nothing (a symbolic link plays no role anywhere); "
                      "Path::extension, WalkDir order and the filesystem are tied by correspondence on real directory trees.",
        "level_note": PROOF_NOTE + " walkdir and the filesystem are modelled (sorted depth-first walk), not verified.",
        "technique": "Lean 4 proof (list filtering/permutation lemmas) + differential correspondence on real directory trees",
        "design_ref": "DESIGN.md 6/C20",
        "trusted_base": COMMON_TRUST + ["walkdir / filesystem enumeration (modelled)"],
        "assumptions": COMMON_ASSUME,
    },
    "C14": {
        "suites": [("print", 4000, 100000), ("asp_parse", 3000, 60000)],
        "extra": glue_parse_extra("C14", "asp", roundtrip_extra("C14", "asp")),
        "rule": "(a) Display of generated programs vs the Lean printer model, text equality; (b) asp_parse: text.parse::<Program>() vs the Lean model of the grammar and tree builder (accepted or not, and the tree) "
                "on printed programs, fully parenthesised renderings, re-spaced / commented variants, near-miss edits and a corpus of corner cases (corpus/asp_texts.txt); (c) round trip on the real pest parser: a generated tree "
                "(identifier pool incl. not, nota, notify, forall, _a) is rendered fully parenthesised, parsed (tree t1 in the parser's image), printed, re-parsed (must equal t1) and printed again (must be the same text)",
        "level_text": "Full for the model, no hypothesis on the text: accepted_text_roundtrip (for every accepted text: the printed tree is accepted, parses to the identical tree and prints to itself) = roundtrip + accepted_text_wf (every tree the parser builds has names of the grammar's lexical shape, none of them `not`: since fix a1dc9d0 `not` is no name, not_is_no_name); roundtrip (parseProgram (printProgram p) = some p) and print_parse_print for every program whose names have the grammar's lexical shape and are not `not` "
                      "(Program.WF) - every operator nesting and associativity, unary minus on numerals vs negative numerals, intervals on either side, all head kinds, empty bodies, constraints. Proved at the character "
                      "level (white space skipping, the look-aheads !integer / !negation / !\".\", ordered choice comparison-before-literal) and at the pair level (pratt_flat_eq: pest's Pratt algorithm inverts the printer's "
                      "parenthesisation). Printer and parser models are tied to the Rust code by exact correspondence. The formerly excluded case (identifier `not`) was a genuine defect, repaired by fix a1dc9d0. accepted_text_roundtrip_checked - the same for the parser with the numeral-range check of fix 515e4a3 (the parser as it is).",
        "level_note": PROOF_NOTE + " pest itself (PEG matching, implicit skipping, Pratt parser) is modelled from its documentation and source (pest 2.8.2) and tied by the asp_parse correspondence; accepted_text_wf proves that the tree of "
                      "every accepted text is well-formed, so accepted_text_roundtrip needs no hypothesis.",
        "technique": "Lean 4 proof (character-level parser inversion by induction on terms/atoms/bodies/rules/programs + Pratt inversion) + differential correspondence (printer text, parser trees) + round-trip exploration on the real parser + the real command line against the model on tasks and files",
        "design_ref": "DESIGN.md 6/C14",
        "trusted_base": COMMON_TRUST + ["the Lean model of pest's PEG semantics (ordered choice, greedy repetition, implicit WHITESPACE/COMMENT skipping) and of its Pratt parser, tied by correspondence"],
        "assumptions": COMMON_ASSUME + ["numerals within isize (beyond it the Rust tree builder panics: C16 known finding)"],
    },
    "C15": {
        "suites": [("print", 4000, 100000), ("fol_parse", 4000, 80000)],
        "extra": glue_parse_extra("C15", "fol", roundtrip_extra("C15", "fol")),
        "rule": "(a) Display of generated formulas / specifications / user guides vs the Lean printer models, text equality; (b) fol_parse: parse::<Theory|Specification|UserGuide>() vs the Lean model of the grammar and "
                "tree builders (accepted or not, and the tree) on printed texts, fully parenthesised renderings, re-spaced / commented variants, near-miss edits and a corpus of corner cases (corpus/fol_texts.txt: sort suffixes, "
                "keyword boundaries, `<-` vs `< -`, chained comparisons, directions and names of annotated formulas, placeholder declarations); (c) round trip on the real pest parser as C14 for formulas (all connectives, "
                "quantifier prefixes, chained comparisons, sorted variables and constants, predicate names notify / forallx / existsx / andy / orb / input / spec, constants named not / forall / exists / and / or, fully parenthesised integer terms)",
        "level_text": "Full for the model, no hypothesis on the text: accepted_theory_roundtrip, accepted_specification_roundtrip, accepted_user_guide_roundtrip (for every text the parser accepts, the printed tree is "
                      "accepted and parses to the identical tree; *_print_parse_print: and prints to itself). They combine parse*_print* (character level: the PEG with pest's rules, both Pratt tables and the tree builders invert the "
                      "printer on every safe tree - names of the grammar's lexical shape, a guard in every comparison, a variable in every quantifier, no atomic formula starting with the name `not`; formulaL_printL by induction on "
                      "formula size with the wrong-alternative lemmas: `p <- q` is not `p < -q`, `(l) op r` is not a parenthesised formula, keyword-named constants `forall(a)`, `exists = 3`, `not$i + 1 = 2`) with parse*_safe "
                      "(every tree in the parser's image is safe). Pair level: pratt_inverts_formula_parenthesisation, pratt_inverts_integer_term_parenthesisation. The model is tied to the real pest parser and printers by the "
                      "print and fol_parse correspondences on every run. Four genuine defects repaired (db0baa0, 3af4e16, d0885ee, 2ca6488 - the last found by weakening the theorem's hypothesis to the parser's image). accepted_*_roundtrip_checked - the same for the parsers with the numeral/arity range check of fix 515e4a3 (the parsers as they are).",
        "level_note": PROOF_NOTE + " pest itself is modelled from its documentation and source (2.8.2) and tied by the fol_parse correspondence.",
        "technique": "Lean 4 proof (character-level inversion of the PEG/Pratt parser model on printed text by induction on formula size; image of the parser by fuel induction; Pratt inversion) + differential correspondence "
                     "(printer text, parser trees) + round-trip exploration on the real parser + the real command line against the model on tasks and files",
        "design_ref": "DESIGN.md 6/C15",
        "trusted_base": COMMON_TRUST + ["the Lean model of pest's PEG semantics and Pratt parser, tied by correspondence"],
        "assumptions": COMMON_ASSUME,
    },
    "C16": {
        "suites": [("substitute", 2000, 40000), ("tau_star", 1500, 30000), ("tptp", 1500, 30000), ("asp_parse", 1000, 30000), ("fol_parse", 1000, 30000)],
        "extra": c16_extra,
        "rule": "(a) panic predicates of the model vs real panics (catch_unwind) of substitute / tau* / the TPTP printer on generated inputs incl. sort-incompatible substitutions, V<usize::MAX>, isize::MIN/MAX; "
                "(b) the real CLI on byte strings obtained by mutating the repo's example files and adversarial seeds (token deletion / duplication / swap, numeral inflation to the integer limits, operator soup, "
                "unbalanced and deep parentheses, empty and comment-only files) through parse / translate / simplify / analyze / verify --no-proof-search: outcome class output | error+non-zero exit | panic | signal | timeout(20 s); the deterministic part: every command on degenerate files, every output format, input from stdin, command lines that cannot be served "
                "(missing or doubled roles, directories, unwritable --save-problems), every program and external-equivalence task of the correspondence corpus",
        "level_text": "Partial: substitute_panic_free (no panic on sort-compatible arguments, for every formula and every renaming), globals_panic_iff, tptp_panic_free, external_panic_only_overflow (the whole external-equivalence pipeline - checks, tau*, placeholder replacement, completion, simplification, outline construction, assembly - panics only on the overflow of the global-variable index; completion_of_tau_star_exists: the expect in theory_translate is unreachable) proved on the model; two crashes repaired (ca17dcd, 3401bdf); "
                      "the two former crash classes (numerals beyond the integer type, global index overflow) are repaired too (515e4a3, 1d6d77a), one known finding remains (an output predicate of absurd arity: allocation); "
                      "private_rename_search_terminates / private_rename_search_first_free / prop_rename_search_terminates / fresh_global_search_terminates: each of the three `while occupied.contains(candidate)` searches "
                      "for a free name stops at the first free candidate after at most |occupied| occupied ones (the model's fuel |occupied|+1 is never what ends it), so none of them can run forever; "
                      "stack depth and allocation are not expressible in the model and are covered by the CLI exploration only (which now also runs the whole correspondence corpus through the real command line), "
                      "a call that does not return is the outcome (hang) of the correspondence harness. out_of_range_refused / accepted_numerals_in_range - since fix 515e4a3 the parser refuses a text whose numerals or arities do not fit the integer types (before: panic in the tree builder), so every numeral of an accepted program fits isize; the parser models used in the correspondence are the checked ones (grammar + range check). external_never_panics / fresh_globals_always_fresh / globals_never_panic - since fix 1d6d77a the index of the fresh global variables no longer overflows (checked addition, smallest unused indices as fallback): the external pipeline reaches no panic at all.",
        "level_note": PROOF_NOTE + " The pest parsers and the tree builders' integer parsing are exercised, not modelled.",
        "technique": "Lean 4 proof (panic-site predicates of the model) + differential correspondence of panics + CLI mutation exploration",
        "design_ref": "DESIGN.md 6/C16",
        "trusted_base": COMMON_TRUST + ["OS / allocator / stack behaviour (explored only)"],
        "assumptions": COMMON_ASSUME,
    },
}
