"""Per-property configuration of ./check (suites, pins, extras, trusted base)."""
import json
import re
from pathlib import Path

VERIF = Path(__file__).resolve().parent.parent
REPO = Path("/repo")

COMMON_TRUST = [
    "Lean 4.33.0 kernel (axioms per theorem listed under coverage.theorems)",
    "definitions of lean/AnthemModel/Semantics (standard domain, classical and HT satisfaction) are the specification",
    "Rust correspondence harness + S-expression serialisers on both sides (unverified)",
    "Lean compiler for the model driver executable (a miscompiled model shows up as a disagreement, not as a false proof)",
]
COMMON_ASSUME = [
    "theorems are about the hand-written Lean model; they transfer to /repo on the inputs where the exact-output correspondence was run and agreed",
    "64-bit usize/isize",
]


def load_known(pid):
    out = []
    f = VERIF / "known_findings.jsonl"
    if f.exists():
        for line in f.read_text().splitlines():
            line = line.strip()
            if not line or line.startswith("#"):
                continue
            d = json.loads(line)
            if d.get("property") == pid and d.get("status") == "known":
                out.append(d)
    return out


def src(rel):
    return (REPO / rel).read_text()


def replay(pid, path):
    doc = json.loads(Path(path).read_text())
    print(json.dumps(doc, indent=1)[:4000])
    return 0


HOOK_COMMITS = ["ffc8b2b"]
NOT_YET = {}

PROOF_NOTE = ("Trusted: Lean kernel; Semantics/*.lean as the specification; the correspondence harness and serialisers; "
              "the theorem is about the Lean model and transfers to the Rust code only where the exact-output correspondence agreed. "
              "Axioms used: subset of {propext, Classical.choice, Quot.sound}; no sorry/native_decide.")

PROPS = {
    "C05": {
        "level_text": "Full: gamma_correct proves, for every formula, HT interpretation and assignment, ht (H,T) here F <-> sat (merge H T) (gamma F) "
                      "(and the there/t-copy analogue), prefix_injective + merge_exists give distinct h/t copies; the model `gamma` is tied to "
                      "Gamma::gamma by exact tree equality on generated formulas on every run.",
        "level_note": PROOF_NOTE,
        "technique": "Lean 4 proof by structural induction on formulas + differential correspondence (exact trees)",
        "design_ref": "DESIGN.md 6/C05",
        "suites": [("gamma", 4000, 100000)],
        "rule": "seeded random target-language formulas (depth 1-5, adversarial name pools, all connectives/quantifiers/sorts, "
                "simplifier motifs) plus corpus/formulas.txt; request = Gamma::gamma on the real code vs Lean `gamma`, exact tree equality; "
                "non-trivial = gamma changed the tree; distinct by request text",
        "trusted_base": COMMON_TRUST,
        "assumptions": COMMON_ASSUME,
    },
}
