"""Tiny S-expression reader/writer (same wire format as lean/AnthemModel/Syntax/Sexp.lean)."""


def parse(s):
    pos = 0
    n = len(s)

    def skip():
        nonlocal pos
        while pos < n and s[pos] in " \t\r\n":
            pos += 1

    def rd():
        nonlocal pos
        skip()
        if pos >= n:
            raise ValueError("eof")
        c = s[pos]
        if c == "(":
            pos += 1
            out = []
            while True:
                skip()
                if pos >= n:
                    raise ValueError("eof in list")
                if s[pos] == ")":
                    pos += 1
                    return out
                out.append(rd())
        if c == '"':
            pos += 1
            buf = []
            while pos < n and s[pos] != '"':
                if s[pos] == "\\" and pos + 1 < n:
                    pos += 1
                    buf.append("\n" if s[pos] == "n" else ("\r" if s[pos] == "r" else s[pos]))
                else:
                    buf.append(s[pos])
                pos += 1
            pos += 1
            return ("str", "".join(buf))
        start = pos
        while pos < n and s[pos] not in ' \t\r\n()"':
            pos += 1
        return s[start:pos]

    return rd()


def dump(x):
    if isinstance(x, list):
        return "(" + " ".join(dump(e) for e in x) + ")"
    if isinstance(x, tuple):
        return '"' + x[1].replace("\\", "\\\\").replace('"', '\\"').replace("\n", "\\n").replace("\r", "\\r") + '"'
    return x
