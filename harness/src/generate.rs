//! Seeded generators of target-language formulas and mini-gringo programs.
//! Mostly valid, type-directed from the repo's own trees; name pools are adversarial on purpose
//! (they collide with the fresh names the translators and simplifiers choose).
use crate::rng::Rng;
use anthem::syntax_tree::{asp::mini_gringo as asp, fol::sigma_0 as fol};

pub const VAR_NAMES: &[&str] = &[
    "X", "Y", "Z", "Z1", "Z2", "I", "J", "K", "I1", "J1", "K1", "Q", "R", "Q1", "R1", "V", "V1",
    "V2", "V01", "N", "N0", "N1", "Y1", "Y2", "X1",
];
pub const PRED_NAMES: &[&str] = &["p", "q", "r", "s", "hp", "tp", "t", "h", "q_p", "p__s"];
// "tp"/"hq"/"hp" collide with the h-/t-prefixed copies of 0-ary predicates (rename_conflicting_symbols)
pub const SYM_NAMES: &[&str] = &["a", "b", "c", "n", "p", "s", "tp", "hq", "hp", "out2", "tp__s", "tq_p", "aB", "a_"];
pub const FC_NAMES: &[&str] = &["a", "n", "c"];
/// identifier shapes the input grammars accept but that stress the TFF name mangling (C09)
pub const HOSTILE_SYMS: &[&str] = &["a", "b", "_a", "n_i", "general", "symbol", "p", "a__s", "c_g", "x_s", "f__integer__", "tp", "hq", "tp__s", "ha__s", "ta__s"];
pub const HOSTILE_PREDS: &[&str] = &["p", "q", "_p", "a", "general", "p__less__", "q_p", "a__s"];

pub struct Gen {
    pub rng: Rng,
    /// number of variable names drawn from (small = many collisions)
    pub nvars: usize,
    pub npreds: usize,
    pub hostile: bool,
    /// subformulas / terms generated earlier in the same case, reused now and then so that structurally equal parts
    /// turn up in arbitrary positions (`F or not F`, `(F or G) and G`, `X = t and Y = t < u`, ...)
    pub fpool: Vec<fol::Formula>,
    pub tpool: Vec<fol::GeneralTerm>,
}

impl Gen {
    pub fn new(rng: Rng) -> Self {
        Gen { rng, nvars: 8, npreds: 4, hostile: false, fpool: vec![], tpool: vec![] }
    }

    pub fn numeral(&mut self) -> isize {
        match self.rng.below(12) {
            0 => -3,
            1 => -1,
            2 | 3 => 0,
            4 | 5 => 1,
            6 => 2,
            7 => 3,
            8 => 4,
            9 => 5,
            10 => -2,
            _ => 10,
        }
    }

    pub fn var_name(&mut self) -> String {
        let n = self.nvars.min(VAR_NAMES.len());
        VAR_NAMES[self.rng.below(n)].to_string()
    }

    pub fn sort(&mut self) -> fol::Sort {
        match self.rng.below(6) {
            0 | 1 | 2 => fol::Sort::General,
            3 | 4 => fol::Sort::Integer,
            _ => fol::Sort::Symbol,
        }
    }

    pub fn variable(&mut self) -> fol::Variable {
        fol::Variable { name: self.var_name(), sort: self.sort() }
    }

    pub fn iterm(&mut self, depth: usize) -> fol::IntegerTerm {
        use fol::IntegerTerm::*;
        let k = if depth == 0 { self.rng.below(4) } else { self.rng.below(8) };
        match k {
            0 => Numeral(self.numeral()),
            1 | 2 => Variable(self.var_name()),
            3 => {
                if self.rng.chance(1, 3) {
                    FunctionConstant(self.rng.pick(FC_NAMES).to_string())
                } else {
                    Numeral(self.numeral())
                }
            }
            4 => UnaryOperation {
                op: fol::UnaryOperator::Negative,
                arg: Box::new(self.iterm(depth - 1)),
            },
            _ => {
                let op = match self.rng.below(3) {
                    0 => fol::BinaryOperator::Add,
                    1 => fol::BinaryOperator::Subtract,
                    _ => fol::BinaryOperator::Multiply,
                };
                BinaryOperation {
                    op,
                    lhs: Box::new(self.iterm(depth - 1)),
                    rhs: Box::new(self.iterm(depth - 1)),
                }
            }
        }
    }

    pub fn sterm(&mut self) -> fol::SymbolicTerm {
        match self.rng.below(5) {
            0 | 1 => fol::SymbolicTerm::Symbol(self.rng.pick(SYM_NAMES).to_string()),
            2 => fol::SymbolicTerm::FunctionConstant(self.rng.pick(FC_NAMES).to_string()),
            _ => fol::SymbolicTerm::Variable(self.var_name()),
        }
    }

    pub fn gterm(&mut self, depth: usize) -> fol::GeneralTerm {
        if !self.tpool.is_empty() && self.rng.chance(1, 7) {
            return self.rng.pick(&self.tpool).clone();
        }
        let t = self.gterm_new(depth);
        if self.tpool.len() < 6 { self.tpool.push(t.clone()); } else { let k = self.rng.below(6); self.tpool[k] = t.clone(); }
        t
    }

    fn gterm_new(&mut self, depth: usize) -> fol::GeneralTerm {
        use fol::GeneralTerm::*;
        match self.rng.below(12) {
            0 => Infimum,
            1 => Supremum,
            2 => FunctionConstant(self.rng.pick(FC_NAMES).to_string()),
            3 | 4 | 5 | 6 => Variable(self.var_name()),
            7 | 8 | 9 => IntegerTerm(self.iterm(depth)),
            _ => SymbolicTerm(self.sterm()),
        }
    }

    pub fn term_of_sort(&mut self, s: fol::Sort, depth: usize) -> fol::GeneralTerm {
        match s {
            fol::Sort::General => self.gterm(depth),
            fol::Sort::Integer => fol::GeneralTerm::IntegerTerm(self.iterm(depth)),
            fol::Sort::Symbol => fol::GeneralTerm::SymbolicTerm(self.sterm()),
        }
    }

    pub fn relation(&mut self) -> fol::Relation {
        use fol::Relation::*;
        *self.rng.pick(&[Equal, Equal, Equal, NotEqual, Greater, Less, GreaterEqual, LessEqual])
    }

    pub fn atom(&mut self) -> fol::Atom {
        let n = self.npreds.min(PRED_NAMES.len());
        let name = PRED_NAMES[self.rng.below(n)].to_string();
        let arity = match self.rng.below(8) {
            0 => 0,
            1 | 2 | 3 | 4 => 1,
            5 | 6 => 2,
            _ => 3,
        };
        fol::Atom {
            predicate_symbol: name,
            terms: (0..arity).map(|_| self.gterm(1)).collect(),
        }
    }

    pub fn comparison(&mut self) -> fol::Comparison {
        let n = match self.rng.below(10) {
            0..=6 => 1,
            7 | 8 => 2,
            _ => 3,
        };
        let term = self.gterm(2);
        let mut guards = vec![];
        let mut prev = term.clone();
        for _ in 0..n {
            // structurally equal neighbours are interesting for evaluate_comparisons
            let t = if self.rng.chance(1, 8) { prev.clone() } else { self.gterm(2) };
            guards.push(fol::Guard { relation: self.relation(), term: t.clone() });
            prev = t;
        }
        fol::Comparison { term, guards }
    }

    pub fn atomic(&mut self) -> fol::AtomicFormula {
        match self.rng.below(10) {
            0 => fol::AtomicFormula::Truth,
            1 => fol::AtomicFormula::Falsity,
            2..=5 => fol::AtomicFormula::Atom(self.atom()),
            _ => fol::AtomicFormula::Comparison(self.comparison()),
        }
    }

    pub fn connective(&mut self) -> fol::BinaryConnective {
        use fol::BinaryConnective::*;
        match self.rng.below(10) {
            0..=3 => Conjunction,
            4 | 5 => Disjunction,
            6 | 7 => Implication,
            8 => ReverseImplication,
            _ => Equivalence,
        }
    }

    pub fn var_list(&mut self) -> Vec<fol::Variable> {
        let n = match self.rng.below(8) {
            0 => 0,
            1..=4 => 1,
            5 | 6 => 2,
            _ => 3,
        };
        let mut vs: Vec<fol::Variable> = (0..n).map(|_| self.variable()).collect();
        if !vs.is_empty() && self.rng.chance(1, 10) {
            vs.push(vs[0].clone()); // repeated binder
        }
        vs
    }

    fn eq(l: fol::GeneralTerm, r: fol::GeneralTerm) -> fol::Formula {
        fol::Formula::AtomicFormula(fol::AtomicFormula::Comparison(fol::Comparison {
            term: l,
            guards: vec![fol::Guard { relation: fol::Relation::Equal, term: r }],
        }))
    }

    /// `l = r`, now and then continued as a chain `l = r rel u`
    fn eq_chain(&mut self, l: fol::GeneralTerm, r: fol::GeneralTerm) -> fol::Formula {
        let mut guards = vec![fol::Guard { relation: fol::Relation::Equal, term: r }];
        if self.rng.chance(1, 5) {
            guards.push(fol::Guard { relation: self.relation(), term: self.gterm(1) });
        }
        fol::Formula::AtomicFormula(fol::AtomicFormula::Comparison(fol::Comparison { term: l, guards }))
    }

    fn bin(c: fol::BinaryConnective, l: fol::Formula, r: fol::Formula) -> fol::Formula {
        fol::Formula::BinaryFormula { connective: c, lhs: Box::new(l), rhs: Box::new(r) }
    }

    fn quant(q: fol::Quantifier, vs: Vec<fol::Variable>, f: fol::Formula) -> fol::Formula {
        fol::Formula::QuantifiedFormula {
            quantification: fol::Quantification { quantifier: q, variables: vs },
            formula: Box::new(f),
        }
    }

    /// Shapes the simplifiers look for (so that their non-identity branches are exercised).
    pub fn motif(&mut self, depth: usize) -> fol::Formula {
        use fol::BinaryConnective::*;
        use fol::Quantifier::*;
        let d = depth.saturating_sub(1);
        match self.rng.below(14) {
            0 => {
                // exists X.. (X = t and F)
                let v = self.variable();
                let t = self.term_of_sort(v.sort, 1);
                let e = if self.rng.chance(1, 2) { self.eq_chain(v.clone().into(), t) } else { self.eq_chain(t, v.clone().into()) };
                let body = if self.rng.chance(1, 2) { Self::bin(Conjunction, e, self.formula(d)) } else { Self::bin(Conjunction, self.formula(d), e) };
                let mut vs = vec![v];
                if self.rng.chance(1, 3) { vs.push(self.variable()); }
                if self.rng.chance(1, 4) { vs.reverse(); }
                Self::quant(Exists, vs, body)
            }
            1 => { let f = self.formula(d); Self::bin(if self.rng.chance(1,2) {Conjunction} else {Disjunction}, f.clone(), f) }
            2 => { let f = self.formula(d); Self::bin(Implication, f.clone(), f) }
            3 => {
                // two implication-like conjuncts over the same operands, every mix of -> and <- and operand order
                let f = self.formula(d); let g = self.formula(d);
                let c1 = if self.rng.chance(3, 4) { Implication } else { ReverseImplication };
                let c2 = if self.rng.chance(3, 4) { Implication } else { ReverseImplication };
                let (a, b) = if self.rng.chance(3, 4) { (g.clone(), f.clone()) } else { (f.clone(), g.clone()) };
                Self::bin(Conjunction, Self::bin(c1, f, g), Self::bin(c2, a, b))
            }
            4 => {
                let q = if self.rng.chance(1,2) {Forall} else {Exists};
                let inner = Self::quant(q.clone(), self.var_list(), self.formula(d));
                Self::quant(q, self.var_list(), inner)
            }
            5 => {
                // exists Z (exists I$i (Z = I$i and G) and H)
                let z = fol::Variable { name: self.var_name(), sort: fol::Sort::General };
                let i = fol::Variable { name: self.var_name(), sort: fol::Sort::Integer };
                let e = if self.rng.chance(1, 2) { Self::eq(z.clone().into(), i.clone().into()) } else { Self::eq(i.clone().into(), z.clone().into()) };
                let mut ivs = vec![i];
                if self.rng.chance(1, 4) { ivs.insert(0, self.variable()); }
                let inner = Self::quant(Exists, ivs, Self::bin(Conjunction, e, self.formula(d)));
                let body = if self.rng.chance(1, 2) { Self::bin(Conjunction, inner, self.formula(d)) } else { Self::bin(Conjunction, self.formula(d), inner) };
                // one in five with the OTHER quantifier (the rewrite must not fire); read off the generator state, no draw
                Self::quant(if self.rng.0 % 5 == 0 { Forall } else { Exists }, vec![z], body)
            }
            6 => {
                // forall Z (exists I$i (I$i = Z and G) -> H)
                let z = fol::Variable { name: self.var_name(), sort: fol::Sort::General };
                let i = fol::Variable { name: self.var_name(), sort: fol::Sort::Integer };
                let e = if self.rng.chance(1, 2) { Self::eq(z.clone().into(), i.clone().into()) } else { Self::eq(i.clone().into(), z.clone().into()) };
                let inner = Self::quant(Exists, vec![i], Self::bin(Conjunction, e, self.formula(d)));
                let mut zs = vec![z];
                if self.rng.chance(1, 3) { zs.push(self.variable()); }
                let q = if self.rng.0 % 5 == 0 { Exists } else { Forall };
                let c = if self.rng.0 % 11 == 0 { Disjunction } else { Implication };
                Self::quant(q, zs, Self::bin(c, inner, self.formula(d)))
            }
            7 => {
                // exists X Y (X = t and Y = t and F)
                let x = self.variable(); let y = self.variable();
                let t = self.gterm(1);
                let e1 = if self.rng.chance(1, 2) { self.eq_chain(x.clone().into(), t.clone()) } else { self.eq_chain(t.clone(), x.clone().into()) };
                let e2 = if self.rng.chance(1, 2) { self.eq_chain(y.clone().into(), t.clone()) } else { self.eq_chain(t.clone(), y.clone().into()) };
                let f = self.formula(d);
                let parts = match self.rng.below(3) { 0 => vec![e1, e2, f], 1 => vec![e1, f, e2], _ => vec![f, e1, e2] };
                Self::quant(Exists, vec![x, y], fol::Formula::conjoin(parts))
            }
            8 => {
                // quantified formula next to another formula (extend_quantifier_scope)
                let q = if self.rng.chance(1,2) {Forall} else {Exists};
                let qf = Self::quant(q, self.var_list(), self.formula(d));
                let c = if self.rng.chance(1,2) {Conjunction} else {Disjunction};
                if self.rng.chance(1,2) { Self::bin(c, qf, self.formula(d)) } else { Self::bin(c, self.formula(d), qf) }
            }
            9 => {
                let t = fol::Formula::AtomicFormula(if self.rng.chance(1,2) {fol::AtomicFormula::Truth} else {fol::AtomicFormula::Falsity});
                let c = self.connective();
                if self.rng.chance(1,2) { Self::bin(c, t, self.formula(d)) } else { Self::bin(c, self.formula(d), t) }
            }
            10 => fol::Formula::UnaryFormula { connective: fol::UnaryConnective::Negation, formula: Box::new(fol::Formula::UnaryFormula { connective: fol::UnaryConnective::Negation, formula: Box::new(self.formula(d)) }) },
            11 => Self::bin(Implication, self.formula(d), fol::Formula::AtomicFormula(fol::AtomicFormula::Falsity)),
            12 => {
                // binder reuses a name that also occurs free
                let v = self.variable();
                let a = fol::Formula::AtomicFormula(fol::AtomicFormula::Atom(fol::Atom { predicate_symbol: "p".into(), terms: vec![v.clone().into()] }));
                let q = if self.rng.chance(1,2) {Forall} else {Exists};
                Self::bin(self.connective(), a, Self::quant(q, vec![v], self.formula(d)))
            }
            _ => {
                // T = T style comparisons
                let t = self.gterm(2);
                fol::Formula::AtomicFormula(fol::AtomicFormula::Comparison(fol::Comparison { term: t.clone(), guards: vec![fol::Guard { relation: self.relation(), term: t }] }))
            }
        }
    }

    pub fn formula(&mut self, depth: usize) -> fol::Formula {
        if depth > 0 && !self.fpool.is_empty() && self.rng.chance(1, 8) {
            let f = self.rng.pick(&self.fpool).clone();
            let neg = |f: fol::Formula| fol::Formula::UnaryFormula { connective: fol::UnaryConnective::Negation, formula: Box::new(f) };
            return match self.rng.below(8) { 0 | 1 => neg(f), 2 => neg(neg(f)), _ => f };
        }
        let f = self.formula_new(depth);
        if formula_size(&f) <= 6 && self.rng.chance(1, 2) {
            if self.fpool.len() < 6 { self.fpool.push(f.clone()); } else { let k = self.rng.below(6); self.fpool[k] = f.clone(); }
        }
        f
    }

    fn formula_new(&mut self, depth: usize) -> fol::Formula {
        if depth == 0 {
            return fol::Formula::AtomicFormula(self.atomic());
        }
        match self.rng.below(16) {
            0..=2 => fol::Formula::AtomicFormula(self.atomic()),
            3 | 4 => fol::Formula::UnaryFormula {
                connective: fol::UnaryConnective::Negation,
                formula: Box::new(self.formula(depth - 1)),
            },
            5..=8 => {
                let c = self.connective();
                Self::bin(c, self.formula(depth - 1), self.formula(depth - 1))
            }
            9..=11 => {
                let q = if self.rng.chance(1, 2) { fol::Quantifier::Forall } else { fol::Quantifier::Exists };
                Self::quant(q, self.var_list(), self.formula(depth - 1))
            }
            _ => self.motif(depth),
        }
    }

    // ------------------------------------------------------------ mini-gringo

    pub fn aterm(&mut self, depth: usize) -> asp::Term {
        use asp::Term::*;
        let k = if depth == 0 { self.rng.below(6) } else { self.rng.below(12) };
        match k {
            0 | 1 => Variable(asp::Variable(self.var_name())),
            2 | 3 => PrecomputedTerm(asp::PrecomputedTerm::Numeral(self.numeral())),
            4 => PrecomputedTerm(asp::PrecomputedTerm::Symbol(if self.hostile { self.rng.pick(HOSTILE_SYMS) } else { self.rng.pick(SYM_NAMES) }.to_string())),
            5 => PrecomputedTerm(if self.rng.chance(1, 2) { asp::PrecomputedTerm::Infimum } else { asp::PrecomputedTerm::Supremum }),
            6 => UnaryOperation { op: asp::UnaryOperator::Negative, arg: Box::new(self.aterm(depth - 1)) },
            _ => {
                use asp::BinaryOperator::*;
                let op = *self.rng.pick(&[Add, Add, Subtract, Multiply, Divide, Modulo, Interval, Interval]);
                BinaryOperation { op, lhs: Box::new(self.aterm(depth - 1)), rhs: Box::new(self.aterm(depth - 1)) }
            }
        }
    }

    pub fn aatom(&mut self, depth: usize) -> asp::Atom {
        let n = self.npreds.min(PRED_NAMES.len());
        let name = if self.hostile { self.rng.pick(HOSTILE_PREDS).to_string() } else { PRED_NAMES[self.rng.below(n)].to_string() };
        let arity = match self.rng.below(8) {
            0 | 1 => 0,
            2..=5 => 1,
            6 => 2,
            _ => 3,
        };
        let mut terms: Vec<asp::Term> = (0..arity).map(|_| self.aterm(depth)).collect();
        // trap for the natural translation: an interval at position i whose bound is the variable N<i>
        if arity > 0 && self.rng.chance(1, 12) {
            let i = self.rng.below(arity);
            let v = asp::Term::Variable(asp::Variable(if self.rng.chance(3, 4) { format!("N{i}") } else { format!("N{i}_0") }));
            let other = self.aterm(0);
            terms[i] = asp::Term::BinaryOperation { op: asp::BinaryOperator::Interval, lhs: Box::new(if self.rng.chance(1, 2) { v.clone() } else { other.clone() }), rhs: Box::new(if self.rng.chance(1, 2) { v } else { other }) };
        }
        // the same term in two argument positions (also the same interval twice)
        if arity >= 2 && self.rng.chance(1, 5) {
            let i = self.rng.below(arity);
            let j = self.rng.below(arity);
            terms[j] = terms[i].clone();
        }
        asp::Atom { predicate_symbol: name, terms }
    }

    pub fn abody_atom(&mut self, depth: usize) -> asp::AtomicFormula {
        if self.rng.chance(1, 3) {
            use asp::Relation::*;
            asp::AtomicFormula::Comparison(asp::Comparison {
                relation: *self.rng.pick(&[Equal, Equal, NotEqual, Less, LessEqual, Greater, GreaterEqual]),
                lhs: self.aterm(depth),
                rhs: self.aterm(depth),
            })
        } else {
            let sign = match self.rng.below(5) {
                0 | 1 | 2 => asp::Sign::NoSign,
                3 => asp::Sign::Negation,
                _ => asp::Sign::DoubleNegation,
            };
            asp::AtomicFormula::Literal(asp::Literal { sign, atom: self.aatom(depth) })
        }
    }

    pub fn arule(&mut self, depth: usize) -> asp::Rule {
        let head = match self.rng.below(8) {
            0 => asp::Head::Falsity,
            1 | 2 => asp::Head::Choice(self.aatom(depth)),
            _ => asp::Head::Basic(self.aatom(depth)),
        };
        let n = match self.rng.below(8) {
            0 | 1 => 0,
            2..=4 => 1,
            5 | 6 => 2,
            _ => 3,
        };
        asp::Rule { head, body: asp::Body { formulas: (0..n).map(|_| self.abody_atom(depth)).collect() } }
    }

    // ------------------------------------------------------------ programs near the boundary of regularity

    fn rterm(&mut self, depth: usize) -> asp::Term {
        use asp::Term::*;
        let k = if depth == 0 { self.rng.below(5) } else { self.rng.below(9) };
        match k {
            0 | 1 => Variable(asp::Variable(self.var_name())),
            2 | 3 => PrecomputedTerm(asp::PrecomputedTerm::Numeral(self.numeral())),
            4 => {
                // the irregular leaves, now and then
                if self.rng.chance(1, 4) {
                    PrecomputedTerm(match self.rng.below(3) { 0 => asp::PrecomputedTerm::Infimum, 1 => asp::PrecomputedTerm::Supremum, _ => asp::PrecomputedTerm::Symbol(self.rng.pick(SYM_NAMES).to_string()) })
                } else {
                    Variable(asp::Variable(self.var_name()))
                }
            }
            5 => UnaryOperation { op: asp::UnaryOperator::Negative, arg: Box::new(self.rterm(depth - 1)) },
            _ => {
                use asp::BinaryOperator::*;
                let op = *self.rng.pick(&[Add, Add, Subtract, Multiply, Multiply, Divide, Modulo, Interval]);
                BinaryOperation { op, lhs: Box::new(self.rterm(depth - 1)), rhs: Box::new(self.rterm(depth - 1)) }
            }
        }
    }

    fn rinterval(&mut self) -> asp::Term {
        asp::Term::BinaryOperation { op: asp::BinaryOperator::Interval, lhs: Box::new(self.rterm(1)), rhs: Box::new(self.rterm(1)) }
    }

    fn ratom(&mut self, interval_chance: usize) -> asp::Atom {
        let n = self.npreds.min(PRED_NAMES.len());
        let name = PRED_NAMES[self.rng.below(n)].to_string();
        let arity = self.rng.below(4);
        let mut terms: Vec<asp::Term> = (0..arity).map(|_| if self.rng.chance(1, interval_chance) { self.rinterval() } else { self.rterm(1) }).collect();
        if arity >= 2 && self.rng.chance(1, 4) {
            let i = self.rng.below(arity);
            let j = self.rng.below(arity);
            terms[j] = terms[i].clone();
        }
        asp::Atom { predicate_symbol: name, terms }
    }

    /// Rules whose parts are regular most of the time, with the irregular variants (interval under an operator or on the
    /// left of a comparison, interval with a relation other than `=`, symbols / #inf / #sup / division inside arithmetic,
    /// interval in a body atom) mixed in with small probability each.
    pub fn regularish_program(&mut self, max_rules: usize) -> asp::Program {
        let n = 1 + self.rng.below(max_rules);
        let mut rules = vec![];
        for _ in 0..n {
            let head = match self.rng.below(8) { 0 => asp::Head::Falsity, 1 | 2 => asp::Head::Choice(self.ratom(4)), _ => asp::Head::Basic(self.ratom(4)) };
            let mut body = vec![];
            for _ in 0..self.rng.below(4) {
                if self.rng.chance(1, 2) {
                    use asp::Relation::*;
                    let with_interval = self.rng.chance(1, 2);
                    let relation = if with_interval && self.rng.chance(3, 4) { Equal } else { *self.rng.pick(&[Equal, NotEqual, Less, LessEqual, Greater, GreaterEqual]) };
                    let (lhs, rhs) = if with_interval {
                        if self.rng.chance(1, 8) { (self.rinterval(), self.rterm(1)) } else { (self.rterm(1), self.rinterval()) }
                    } else { (self.rterm(1), self.rterm(1)) };
                    body.push(asp::AtomicFormula::Comparison(asp::Comparison { relation, lhs, rhs }));
                } else {
                    let sign = match self.rng.below(5) { 0 | 1 | 2 => asp::Sign::NoSign, 3 => asp::Sign::Negation, _ => asp::Sign::DoubleNegation };
                    body.push(asp::AtomicFormula::Literal(asp::Literal { sign, atom: self.ratom(12) }));
                }
            }
            rules.push(asp::Rule { head, body: asp::Body { formulas: body } });
        }
        asp::Program { rules }
    }

    /// Dense propositional / unary dependency programs: few predicates, many rules, so that the same dependency comes from
    /// several rules, cycles of all lengths occur next to acyclic parts, through negation and choice, and `p/0` meets `p/1`.
    pub fn dependency_program(&mut self) -> asp::Program {
        let names = ["a", "b", "c", "d", "e"];
        let k = 2 + self.rng.below(4);
        let n = 2 + self.rng.below(7);
        let mut rules = vec![];
        let mut atom = |g: &mut Gen| -> asp::Atom {
            let name = names[g.rng.below(k)].to_string();
            let terms = if g.rng.chance(1, 5) { vec![asp::Term::Variable(asp::Variable("X".into()))] } else { vec![] };
            asp::Atom { predicate_symbol: name, terms }
        };
        for _ in 0..n {
            let head = match self.rng.below(10) { 0 => asp::Head::Falsity, 1 | 2 => asp::Head::Choice(atom(self)), _ => asp::Head::Basic(atom(self)) };
            let mut body = vec![];
            for _ in 0..(1 + self.rng.below(3)) {
                let sign = match self.rng.below(6) { 0 => asp::Sign::Negation, 1 => asp::Sign::DoubleNegation, _ => asp::Sign::NoSign };
                body.push(asp::AtomicFormula::Literal(asp::Literal { sign, atom: atom(self) }));
            }
            // the same body atom again in another rule with the same head: duplicate edges
            if self.rng.chance(1, 3) && !rules.is_empty() {
                let prev: &asp::Rule = &rules[self.rng.below(rules.len())];
                let mut b2 = prev.body.formulas.clone();
                b2.extend(body.clone());
                rules.push(asp::Rule { head: prev.head.clone(), body: asp::Body { formulas: b2 } });
            }
            rules.push(asp::Rule { head, body: asp::Body { formulas: body } });
        }
        asp::Program { rules }
    }

    pub fn program(&mut self, max_rules: usize, depth: usize) -> asp::Program {
        let n = 1 + self.rng.below(max_rules);
        asp::Program { rules: (0..n).map(|_| self.arule(depth)).collect() }
    }
}

pub fn formula_size(f: &fol::Formula) -> usize {
    match f {
        fol::Formula::AtomicFormula(_) => 1,
        fol::Formula::UnaryFormula { formula, .. } => 1 + formula_size(formula),
        fol::Formula::BinaryFormula { lhs, rhs, .. } => 1 + formula_size(lhs) + formula_size(rhs),
        fol::Formula::QuantifiedFormula { formula, .. } => 1 + formula_size(formula),
    }
}
