#![allow(dead_code)]
//! Correspondence harness: generates inputs, runs the real anthem code in-process, and writes
//! one request line (for the Lean model driver) and one implementation-result line per case.
mod generate;
mod rng;
mod roundtrip;
mod sexp;
mod suites;

use std::{collections::HashSet, fs, io::Write as _, path::PathBuf};

pub struct Case {
    pub req: String,
    pub imp: String,
    pub nontrivial: bool,
    pub tag: &'static str,
    pub origin: String,
}

fn arg(args: &[String], key: &str) -> Option<String> {
    args.iter().position(|a| a == key).and_then(|i| args.get(i + 1).cloned())
}

fn json_str(s: &str) -> String {
    let mut o = String::from("\"");
    for c in s.chars() {
        match c {
            '"' => o.push_str("\\\""),
            '\\' => o.push_str("\\\\"),
            '\n' => o.push_str("\\n"),
            '\t' => o.push_str("\\t"),
            c if (c as u32) < 0x20 => o.push_str(&format!("\\u{:04x}", c as u32)),
            c => o.push(c),
        }
    }
    o.push('"');
    o
}

fn main() {
    let args: Vec<String> = std::env::args().collect();
    if args.len() >= 2 && args[1] == "roundtrip" {
        let seed: u64 = arg(&args, "--seed").and_then(|s| s.parse().ok()).unwrap_or(1);
        let n: usize = arg(&args, "--n").and_then(|s| s.parse().ok()).unwrap_or(100);
        std::panic::set_hook(Box::new(|_| {}));
        let (tried, in_image, nfail, fails) = roundtrip::run(seed, n);
        let mut out = format!("{{\"tried\": {tried}, \"in_image\": {in_image}, \"failures\": {nfail}, \"cases\": [");
        for (i, f) in fails.iter().take(200).enumerate() {
            if i > 0 { out.push_str(", "); }
            out.push_str(&format!("{{\"lang\": {}, \"class\": {}, \"text\": {}, \"printed\": {}, \"what\": {}}}",
                json_str(f.lang), json_str(&f.class), json_str(&f.text0), json_str(&f.printed), json_str(&f.what)));
        }
        out.push_str("]}");
        println!("{out}");
        return;
    }
    if args.len() >= 2 && args[1] == "dump_ext" {
        let seed: u64 = arg(&args, "--seed").and_then(|s| s.parse().ok()).unwrap_or(1);
        let n: usize = arg(&args, "--n").and_then(|s| s.parse().ok()).unwrap_or(10);
        let out = PathBuf::from(arg(&args, "--out").unwrap_or_else(|| "out".into()));
        suites::dump_ext(seed, n, &out);
        return;
    }
    if args.len() >= 3 && args[1] == "task_sexp" {
        // one line per directory given
        for d in &args[2..] {
            println!("{}", suites::task_sexp(&PathBuf::from(d)));
        }
        return;
    }
    if args.len() < 3 || args[1] != "gen" {
        eprintln!("usage: verif-harness gen <suite> --seed S --n N --out DIR [--corpus DIR]");
        std::process::exit(2);
    }
    let suite = args[2].clone();
    let seed: u64 = arg(&args, "--seed").and_then(|s| s.parse().ok()).unwrap_or(1);
    let n: usize = arg(&args, "--n").and_then(|s| s.parse().ok()).unwrap_or(100);
    let out = PathBuf::from(arg(&args, "--out").unwrap_or_else(|| "out".into()));
    let corpus = arg(&args, "--corpus").map(PathBuf::from);
    fs::create_dir_all(&out).unwrap();

    // silence the default panic message: a panic is an outcome, recorded per case
    std::panic::set_hook(Box::new(|_| {}));

    let cases = suites::run(&suite, seed, n, corpus.as_deref());

    let mut req = fs::File::create(out.join(format!("{suite}.req"))).unwrap();
    let mut imp = fs::File::create(out.join(format!("{suite}.impl"))).unwrap();
    let mut org = fs::File::create(out.join(format!("{suite}.origin"))).unwrap();
    let mut distinct = HashSet::new();
    let mut distinct_nontrivial = HashSet::new();
    let mut tags: std::collections::BTreeMap<&'static str, (usize, usize)> = Default::default();
    let mut panics = 0usize;
    for c in &cases {
        writeln!(req, "{}", c.req).unwrap();
        writeln!(imp, "{}", c.imp).unwrap();
        writeln!(org, "{}", c.origin).unwrap();
        distinct.insert(c.req.clone());
        if c.nontrivial {
            distinct_nontrivial.insert(c.req.clone());
        }
        let e = tags.entry(c.tag).or_insert((0, 0));
        e.0 += 1;
        if c.nontrivial {
            e.1 += 1;
        }
        if c.imp.starts_with("(panic") {
            panics += 1;
        }
    }
    let mut stats = String::from("{");
    stats.push_str(&format!("\"suite\": {}, ", json_str(&suite)));
    stats.push_str(&format!("\"seed\": {seed}, \"evaluations\": {}, ", cases.len()));
    stats.push_str(&format!("\"distinct\": {}, ", distinct.len()));
    stats.push_str(&format!("\"distinct_nontrivial\": {}, ", distinct_nontrivial.len()));
    stats.push_str(&format!("\"impl_panics\": {panics}, "));
    stats.push_str("\"by_tag\": {");
    let mut first = true;
    for (t, (a, b)) in &tags {
        if !first {
            stats.push_str(", ");
        }
        first = false;
        stats.push_str(&format!("{}: {{\"cases\": {a}, \"nontrivial\": {b}}}", json_str(t)));
    }
    stats.push_str("}, \"samples\": [");
    let mut shown = 0;
    for c in cases.iter().filter(|c| c.nontrivial).take(3) {
        if shown > 0 {
            stats.push_str(", ");
        }
        shown += 1;
        let r: String = c.req.chars().take(400).collect();
        let i: String = c.imp.chars().take(400).collect();
        stats.push_str(&json_str(&format!("{r} => {i}")));
    }
    stats.push_str("]}");
    fs::write(out.join(format!("{suite}.stats.json")), stats).unwrap();
}
