//! splitmix64: the single source of randomness; every case is replayable from (seed, index).
#[derive(Clone)]
pub struct Rng(pub u64);

impl Rng {
    pub fn new(seed: u64) -> Self {
        Rng(seed.wrapping_mul(0x9E3779B97F4A7C15) ^ 0xD1B54A32D192ED03)
    }
    pub fn next(&mut self) -> u64 {
        self.0 = self.0.wrapping_add(0x9E3779B97F4A7C15);
        let mut z = self.0;
        z = (z ^ (z >> 30)).wrapping_mul(0xBF58476D1CE4E5B9);
        z = (z ^ (z >> 27)).wrapping_mul(0x94D049BB133111EB);
        z ^ (z >> 31)
    }
    pub fn below(&mut self, n: usize) -> usize {
        if n == 0 { 0 } else { (self.next() % n as u64) as usize }
    }
    pub fn chance(&mut self, num: usize, den: usize) -> bool {
        self.below(den) < num
    }
    pub fn pick<'a, T>(&mut self, xs: &'a [T]) -> &'a T {
        &xs[self.below(xs.len())]
    }
    pub fn fork(&mut self) -> Rng {
        Rng(self.next())
    }
}
