//! Round-trip exploration on the real parsers and printers (C14, C15): a tree in the image of the
//! parser is obtained by parsing a fully parenthesised rendering of a generated tree; then
//! print -> parse must give the same tree back and printing again the same text.
use crate::{generate::Gen, rng::Rng};
use anthem::syntax_tree::{asp::mini_gringo as asp, fol::sigma_0 as fol};

const ASP_IDENTS: &[&str] = &["p", "q", "not", "nota", "notify", "n", "a", "_a", "a_1", "forall", "input"];
const FOL_PREDS: &[&str] = &["p", "q", "notify", "nota", "forallx", "existsx", "andy", "orb", "input", "output", "_p", "spec", "lemma"];

fn v_term(t: &asp::Term) -> String {
    match t {
        asp::Term::PrecomputedTerm(_) | asp::Term::Variable(_) => t.to_string(),
        asp::Term::UnaryOperation { arg, .. } => format!("-({})", v_term(arg)),
        asp::Term::BinaryOperation { op, lhs, rhs } => format!("({}) {} ({})", v_term(lhs), op, v_term(rhs)),
    }
}

fn v_atom(a: &asp::Atom) -> String {
    if a.terms.is_empty() { a.predicate_symbol.clone() } else {
        format!("{}({})", a.predicate_symbol, a.terms.iter().map(v_term).collect::<Vec<_>>().join(" , "))
    }
}

pub fn v_rule(r: &asp::Rule) -> String {
    let head = match &r.head { asp::Head::Basic(a) => v_atom(a), asp::Head::Choice(a) => format!("{{ {} }}", v_atom(a)), asp::Head::Falsity => String::new() };
    let body: Vec<String> = r.body.formulas.iter().map(|f| match f {
        asp::AtomicFormula::Literal(l) => format!("{}{}", match l.sign { asp::Sign::NoSign => "", asp::Sign::Negation => "not ", asp::Sign::DoubleNegation => "not not " }, v_atom(&l.atom)),
        asp::AtomicFormula::Comparison(c) => format!("{} {} {}", v_term(&c.lhs), c.relation, v_term(&c.rhs)),
    }).collect();
    if body.is_empty() && r.head != asp::Head::Falsity { format!("{head}.") } else { format!("{head} :- {}.", body.join(" , ")) }
}

/// integer term with every operand in parentheses (the parser accepts them, the printer drops most)
fn v_iterm(t: &fol::IntegerTerm) -> String {
    match t {
        fol::IntegerTerm::UnaryOperation { arg, .. } => format!("-({})", v_iterm(arg)),
        fol::IntegerTerm::BinaryOperation { op, lhs, rhs } => format!("({}) {} ({})", v_iterm(lhs), op, v_iterm(rhs)),
        x => x.to_string(),
    }
}

fn v_gterm(t: &fol::GeneralTerm) -> String {
    match t {
        fol::GeneralTerm::IntegerTerm(i) => v_iterm(i),
        x => x.to_string(),
    }
}

fn v_atomic(a: &fol::AtomicFormula) -> String {
    match a {
        fol::AtomicFormula::Atom(at) if !at.terms.is_empty() =>
            format!("{}({})", at.predicate_symbol, at.terms.iter().map(v_gterm).collect::<Vec<_>>().join(", ")),
        fol::AtomicFormula::Comparison(c) => {
            let mut s = v_gterm(&c.term);
            for g in &c.guards { s.push_str(&format!(" {} {}", g.relation, v_gterm(&g.term))); }
            s
        }
        x => x.to_string(),
    }
}

pub fn v_formula(f: &fol::Formula) -> String {
    match f {
        fol::Formula::AtomicFormula(a) => v_atomic(a),
        fol::Formula::UnaryFormula { formula, .. } => format!("not ({})", v_formula(formula)),
        fol::Formula::BinaryFormula { connective, lhs, rhs } => format!("({}) {} ({})", v_formula(lhs), connective, v_formula(rhs)),
        fol::Formula::QuantifiedFormula { quantification, formula } => format!("{} ({})", quantification, v_formula(formula)),
    }
}

pub struct Failure { pub lang: &'static str, pub class: String, pub text0: String, pub printed: String, pub what: String }

fn rename_asp(p: &mut asp::Program, rng: &mut Rng) {
    fn term(t: &mut asp::Term, rng: &mut Rng) {
        match t {
            asp::Term::PrecomputedTerm(asp::PrecomputedTerm::Symbol(s)) => { if rng.chance(1, 3) { *s = rng.pick(ASP_IDENTS).to_string(); } }
            asp::Term::UnaryOperation { arg, .. } => term(arg, rng),
            asp::Term::BinaryOperation { lhs, rhs, .. } => { term(lhs, rng); term(rhs, rng); }
            _ => {}
        }
    }
    fn atom(a: &mut asp::Atom, rng: &mut Rng) {
        if rng.chance(1, 3) { a.predicate_symbol = rng.pick(ASP_IDENTS).to_string(); }
        for t in a.terms.iter_mut() { term(t, rng); }
    }
    for r in p.rules.iter_mut() {
        match &mut r.head { asp::Head::Basic(a) | asp::Head::Choice(a) => atom(a, rng), asp::Head::Falsity => {} }
        for f in r.body.formulas.iter_mut() {
            match f { asp::AtomicFormula::Literal(l) => atom(&mut l.atom, rng), asp::AtomicFormula::Comparison(c) => { term(&mut c.lhs, rng); term(&mut c.rhs, rng); } }
        }
    }
}

fn asp_class(p: &asp::Program) -> String {
    let uses_not = p.predicates().iter().any(|q| q.symbol == "not") || p.function_constants().iter().any(|s| s == "not");
    if uses_not { "symbol-or-predicate-named-not".into() } else { "unclassified".into() }
}

/// names that are keywords of the target language (constants may carry them)
const FOL_KEYWORD_NAMES: &[&str] = &["not", "not", "forall", "exists", "and", "or", "a"];

fn kw_iterm(t: &mut fol::IntegerTerm, r: &mut Rng) {
    match t {
        fol::IntegerTerm::FunctionConstant(c) => { if r.chance(1, 2) { *c = r.pick(FOL_KEYWORD_NAMES).to_string(); } }
        fol::IntegerTerm::UnaryOperation { arg, .. } => kw_iterm(arg, r),
        fol::IntegerTerm::BinaryOperation { lhs, rhs, .. } => { kw_iterm(lhs, r); kw_iterm(rhs, r); }
        leaf => { if r.chance(1, 3) { *leaf = fol::IntegerTerm::FunctionConstant(r.pick(FOL_KEYWORD_NAMES).to_string()); } }
    }
}

fn kw_gterm(t: &mut fol::GeneralTerm, r: &mut Rng) {
    match t {
        fol::GeneralTerm::FunctionConstant(c) => { if r.chance(1, 2) { *c = r.pick(FOL_KEYWORD_NAMES).to_string(); } }
        fol::GeneralTerm::IntegerTerm(i) => kw_iterm(i, r),
        fol::GeneralTerm::SymbolicTerm(fol::SymbolicTerm::Symbol(c)) | fol::GeneralTerm::SymbolicTerm(fol::SymbolicTerm::FunctionConstant(c)) => {
            if r.chance(1, 2) { *c = r.pick(FOL_KEYWORD_NAMES).to_string(); }
        }
        _ => {}
    }
}

fn fol_rename(f: fol::Formula, rng: &mut Rng) -> fol::Formula {
    use anthem::convenience::apply::Apply as _;
    let mut r = rng.fork();
    let keywordy = r.chance(1, 4);
    f.apply(&mut |g| match g {
        fol::Formula::AtomicFormula(fol::AtomicFormula::Atom(mut a)) => {
            if r.chance(1, 3) { a.predicate_symbol = r.pick(FOL_PREDS).to_string(); }
            if keywordy {
                if r.chance(1, 4) { a.predicate_symbol = r.pick(FOL_KEYWORD_NAMES).to_string(); }
                for t in a.terms.iter_mut() { kw_gterm(t, &mut r); }
            }
            fol::Formula::AtomicFormula(fol::AtomicFormula::Atom(a))
        }
        fol::Formula::AtomicFormula(fol::AtomicFormula::Comparison(mut c)) if keywordy => {
            kw_gterm(&mut c.term, &mut r);
            for gd in c.guards.iter_mut() { kw_gterm(&mut gd.term, &mut r); }
            fol::Formula::AtomicFormula(fol::AtomicFormula::Comparison(c))
        }
        x => x,
    })
}

pub fn run(seed: u64, n: usize) -> (usize, usize, usize, Vec<Failure>) {
    let mut rng = Rng::new(seed ^ 0xB0B0);
    let mut fails = vec![];
    let (mut tried, mut in_image) = (0usize, 0usize);
    for _ in 0..n {
        // ---- mini-gringo
        let mut g = Gen::new(rng.fork());
        g.nvars = 4;
        let d = g.rng.below(3);
        let mut p = g.program(3, d);
        rename_asp(&mut p, &mut rng);
        let text0: String = p.rules.iter().map(v_rule).collect::<Vec<_>>().join("\n");
        tried += 1;
        if let Ok(t1) = text0.parse::<asp::Program>() {
            in_image += 1;
            let s1 = t1.to_string();
            match s1.parse::<asp::Program>() {
                Ok(t2) if t2 == t1 => {
                    if t2.to_string() != s1 { fails.push(Failure { lang: "asp", class: asp_class(&t1), text0: text0.clone(), printed: s1, what: "printing again gives different text".into() }); }
                }
                Ok(_) => fails.push(Failure { lang: "asp", class: asp_class(&t1), text0: text0.clone(), printed: s1, what: "re-parse gives a different tree".into() }),
                Err(_) => fails.push(Failure { lang: "asp", class: asp_class(&t1), text0: text0.clone(), printed: s1, what: "printed text is rejected".into() }),
            }
        }
        // ---- target language (theory)
        let mut g = Gen::new(rng.fork());
        g.nvars = 4;
        let d = 1 + g.rng.below(4);
        let f = fol_rename(g.formula(d), &mut rng);
        let text0 = format!("{}.", v_formula(&f));
        tried += 1;
        if let Ok(t1) = text0.parse::<fol::Theory>() {
            in_image += 1;
            let s1 = t1.to_string();
            match s1.parse::<fol::Theory>() {
                Ok(t2) if t2 == t1 => {
                    if t2.to_string() != s1 { fails.push(Failure { lang: "fol", class: "unclassified".into(), text0: text0.clone(), printed: s1, what: "printing again gives different text".into() }); }
                }
                Ok(_) => fails.push(Failure { lang: "fol", class: "unclassified".into(), text0: text0.clone(), printed: s1, what: "re-parse gives a different tree".into() }),
                Err(_) => fails.push(Failure { lang: "fol", class: "unclassified".into(), text0: text0.clone(), printed: s1, what: "printed text is rejected".into() }),
            }
        }
    }
    (tried, in_image, fails.len(), fails)
}
