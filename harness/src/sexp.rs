//! Canonical S-expression writer for both syntax trees (wire format of DESIGN.md Appendix B;
//! the reader is lean/AnthemModel/Syntax/Wire.lean).
use anthem::syntax_tree::{asp::mini_gringo as asp, fol::sigma_0 as fol};

pub fn q(s: &str) -> String {
    let mut out = String::with_capacity(s.len() + 2);
    out.push('"');
    for c in s.chars() {
        match c {
            '"' => out.push_str("\\\""),
            '\\' => out.push_str("\\\\"),
            '\n' => out.push_str("\\n"),
            '\r' => out.push_str("\\r"),
            c => out.push(c),
        }
    }
    out.push('"');
    out
}

pub fn list<I: IntoIterator<Item = String>>(xs: I) -> String {
    let v: Vec<String> = xs.into_iter().collect();
    format!("({})", v.join(" "))
}

pub fn sort(s: &fol::Sort) -> &'static str {
    match s {
        fol::Sort::General => "g",
        fol::Sort::Integer => "i",
        fol::Sort::Symbol => "s",
    }
}

pub fn var(v: &fol::Variable) -> String {
    format!("({} {})", q(&v.name), sort(&v.sort))
}

pub fn fconst(v: &fol::FunctionConstant) -> String {
    format!("({} {})", q(&v.name), sort(&v.sort))
}

pub fn iterm(t: &fol::IntegerTerm) -> String {
    use fol::IntegerTerm::*;
    match t {
        Numeral(n) => format!("(n {n})"),
        FunctionConstant(c) => format!("(if {})", q(c)),
        Variable(x) => format!("(iv {})", q(x)),
        UnaryOperation { arg, .. } => format!("(neg {})", iterm(arg)),
        BinaryOperation { op, lhs, rhs } => {
            let o = match op {
                fol::BinaryOperator::Add => "add",
                fol::BinaryOperator::Subtract => "sub",
                fol::BinaryOperator::Multiply => "mul",
            };
            format!("({o} {} {})", iterm(lhs), iterm(rhs))
        }
    }
}

pub fn sterm(t: &fol::SymbolicTerm) -> String {
    use fol::SymbolicTerm::*;
    match t {
        Symbol(s) => format!("(sy {})", q(s)),
        FunctionConstant(c) => format!("(sf {})", q(c)),
        Variable(x) => format!("(sv {})", q(x)),
    }
}

pub fn gterm(t: &fol::GeneralTerm) -> String {
    use fol::GeneralTerm::*;
    match t {
        Infimum => "Inf".into(),
        Supremum => "Sup".into(),
        FunctionConstant(c) => format!("(GF {})", q(c)),
        Variable(x) => format!("(GV {})", q(x)),
        IntegerTerm(t) => format!("(I {})", iterm(t)),
        SymbolicTerm(t) => format!("(S {})", sterm(t)),
    }
}

pub fn rel(r: &fol::Relation) -> &'static str {
    use fol::Relation::*;
    match r {
        Equal => "eq",
        NotEqual => "ne",
        Greater => "gt",
        Less => "lt",
        GreaterEqual => "ge",
        LessEqual => "le",
    }
}

pub fn pred(p: &fol::Predicate) -> String {
    format!("({} {})", q(&p.symbol), p.arity)
}

pub fn atomic(a: &fol::AtomicFormula) -> String {
    use fol::AtomicFormula::*;
    match a {
        Truth => "T".into(),
        Falsity => "F".into(),
        Atom(a) => format!(
            "(P {} {})",
            q(&a.predicate_symbol),
            list(a.terms.iter().map(gterm))
        ),
        Comparison(c) => format!(
            "(C {} {})",
            gterm(&c.term),
            list(c.guards.iter().map(|g| format!("({} {})", rel(&g.relation), gterm(&g.term))))
        ),
    }
}

pub fn conn(c: &fol::BinaryConnective) -> &'static str {
    use fol::BinaryConnective::*;
    match c {
        Conjunction => "and",
        Disjunction => "or",
        Implication => "imp",
        ReverseImplication => "rimp",
        Equivalence => "iff",
    }
}

pub fn formula(f: &fol::Formula) -> String {
    use fol::Formula::*;
    match f {
        AtomicFormula(a) => format!("(A {})", atomic(a)),
        UnaryFormula { formula: g, .. } => format!("(N {})", formula(g)),
        BinaryFormula { connective, lhs, rhs } => {
            format!("(B {} {} {})", conn(connective), formula(lhs), formula(rhs))
        }
        QuantifiedFormula { quantification, formula: g } => {
            let qn = match quantification.quantifier {
                fol::Quantifier::Forall => "all",
                fol::Quantifier::Exists => "ex",
            };
            format!(
                "(Q {qn} {} {})",
                list(quantification.variables.iter().map(var)),
                formula(g)
            )
        }
    }
}

pub fn theory(t: &fol::Theory) -> String {
    list(t.formulas.iter().map(formula))
}

pub fn opt<T>(x: &Option<T>, f: impl Fn(&T) -> String) -> String {
    match x {
        Some(v) => format!("(some {})", f(v)),
        None => "none".into(),
    }
}

// ---------------------------------------------------------------- mini-gringo

pub fn aterm(t: &asp::Term) -> String {
    use asp::Term::*;
    match t {
        PrecomputedTerm(p) => match p {
            asp::PrecomputedTerm::Infimum => "inf".into(),
            asp::PrecomputedTerm::Supremum => "sup".into(),
            asp::PrecomputedTerm::Numeral(n) => format!("(num {n})"),
            asp::PrecomputedTerm::Symbol(s) => format!("(sym {})", q(s)),
        },
        Variable(v) => format!("(var {})", q(&v.0)),
        UnaryOperation { arg, .. } => format!("(neg {})", aterm(arg)),
        BinaryOperation { op, lhs, rhs } => {
            use asp::BinaryOperator::*;
            let o = match op {
                Add => "add",
                Subtract => "sub",
                Multiply => "mul",
                Divide => "div",
                Modulo => "mod",
                Interval => "int",
            };
            format!("(op {o} {} {})", aterm(lhs), aterm(rhs))
        }
    }
}

pub fn aatom(a: &asp::Atom) -> String {
    format!("({} {})", q(&a.predicate_symbol), list(a.terms.iter().map(aterm)))
}

pub fn arel(r: &asp::Relation) -> &'static str {
    use asp::Relation::*;
    match r {
        Equal => "eq",
        NotEqual => "ne",
        Greater => "gt",
        Less => "lt",
        GreaterEqual => "ge",
        LessEqual => "le",
    }
}

pub fn abody(f: &asp::AtomicFormula) -> String {
    match f {
        asp::AtomicFormula::Literal(l) => {
            let s = match l.sign {
                asp::Sign::NoSign => "pos",
                asp::Sign::Negation => "neg",
                asp::Sign::DoubleNegation => "nn",
            };
            format!("(lit {s} {})", aatom(&l.atom))
        }
        asp::AtomicFormula::Comparison(c) => {
            format!("(cmp {} {} {})", arel(&c.relation), aterm(&c.lhs), aterm(&c.rhs))
        }
    }
}

pub fn ahead(h: &asp::Head) -> String {
    match h {
        asp::Head::Basic(a) => format!("(basic {})", aatom(a)),
        asp::Head::Choice(a) => format!("(choice {})", aatom(a)),
        asp::Head::Falsity => "false".into(),
    }
}

pub fn arule(r: &asp::Rule) -> String {
    format!("(rule {} {})", ahead(&r.head), list(r.body.formulas.iter().map(abody)))
}

pub fn program(p: &asp::Program) -> String {
    list(p.rules.iter().map(arule))
}
