//! One function per correspondence suite. A suite produces cases: the request sent to the model
//! driver and the implementation's own answer in the same wire format.
use crate::{Case, generate::Gen, rng::Rng, sexp};
use anthem::{
    convenience::{apply::Apply as _, compose::Compose as _},
    syntax_tree::{asp::mini_gringo as asp, fol::sigma_0 as fol},
    analyzing::{private_recursion::PrivateRecursion as _, regularity::Regularity as _, tightness::Tightness as _},
    translating::{
        classical_reduction::{completion::Completion as _, gamma::Gamma as _},
        formula_representation::{mu::Mu as _, natural::Natural as _, tau_star::TauStar as _},
    },
    verif::{arguments::{Decomposition, FormulaRepresentation}, problem, task::{Task as _, strong_equivalence::StrongEquivalenceTask}},
    verif::simplifying_fol::sigma_0::{classic, ht, intuitionistic},
};

pub const PASS_BOUND: usize = 64;

type Rewrite = fn(fol::Formula) -> fol::Formula;

pub fn rewrites() -> Vec<(&'static str, Rewrite)> {
    vec![
        ("evaluate_comparisons", intuitionistic::evaluate_comparisons),
        ("apply_negation_definition_inverse", intuitionistic::apply_negation_definition_inverse),
        ("apply_reverse_implication_definition", intuitionistic::apply_reverse_implication_definition),
        ("apply_equivalence_definition_inverse", intuitionistic::apply_equivalence_definition_inverse),
        ("remove_identities", intuitionistic::remove_identities),
        ("remove_annihilations", intuitionistic::remove_annihilations),
        ("remove_idempotences", intuitionistic::remove_idempotences),
        ("remove_orphaned_variables", intuitionistic::remove_orphaned_variables),
        ("remove_empty_quantifications", intuitionistic::remove_empty_quantifications),
        ("join_nested_quantifiers", intuitionistic::join_nested_quantifiers),
        ("remove_double_negation", classic::CLASSIC[0]),
        ("substitute_defined_variables", classic::CLASSIC[1]),
        ("restrict_quantifier_domain", classic::CLASSIC[2]),
        ("extend_quantifier_scope", classic::CLASSIC[3]),
        ("simplify_transitive_equality", classic::CLASSIC[4]),
    ]
}

/// The concatenations built by `procedures.rs` / the verification tasks.
pub fn portfolio(name: &str) -> Vec<Rewrite> {
    match name {
        "intuitionistic" => [intuitionistic::INTUITIONISTIC].concat(),
        "ht" => [intuitionistic::INTUITIONISTIC, ht::HT].concat(),
        _ => [intuitionistic::INTUITIONISTIC, ht::HT, classic::CLASSIC].concat(),
    }
}
use std::{panic::catch_unwind, path::Path};

fn guarded(f: impl FnOnce() -> String + std::panic::UnwindSafe) -> String {
    match catch_unwind(f) {
        Ok(s) => s,
        Err(_) => "(panic)".to_string(),
    }
}

/// Corpus file: one entry per line, `#` comments; text in anthem's own concrete syntax.
fn corpus_lines(dir: Option<&Path>, name: &str) -> Vec<String> {
    let Some(dir) = dir else { return vec![] };
    let Ok(text) = std::fs::read_to_string(dir.join(format!("{name}.txt"))) else { return vec![] };
    text.lines()
        .map(str::trim)
        .filter(|l| !l.is_empty() && !l.starts_with('#'))
        .map(String::from)
        .collect()
}

fn corpus_formulas(dir: Option<&Path>, name: &str) -> Vec<(String, fol::Formula)> {
    corpus_lines(dir, name)
        .into_iter()
        .filter_map(|l| l.parse::<fol::Formula>().ok().map(|f| (format!("corpus:{l}"), f)))
        .collect()
}

fn formulas(seed: u64, n: usize, corpus: Option<&Path>, names: &[&str]) -> Vec<(String, fol::Formula)> {
    let mut out = vec![];
    for name in names {
        out.extend(corpus_formulas(corpus, name));
    }
    let mut rng = Rng::new(seed);
    for i in 0..n {
        let mut g = Gen::new(rng.fork());
        g.nvars = 3 + g.rng.below(10);
        g.npreds = 2 + g.rng.below(5);
        let depth = 1 + g.rng.below(5);
        out.push((format!("seed:{seed}:{i}"), g.formula(depth)));
    }
    out
}

pub fn run(suite: &str, seed: u64, n: usize, corpus: Option<&Path>) -> Vec<Case> {
    match suite {
        "echo" => echo(seed, n, corpus),
        "gamma" => gamma(seed, n, corpus),
        "tau_star" => tau_star(seed, n, corpus),
        "natural" => natural(seed, n, corpus),
        "analyze" => analyze(seed, n, corpus),
        "completion" => completion(seed, n, corpus),
        "break_eq" => break_eq(seed, n, corpus),
        "strong" => strong(seed, n, corpus, false),
        "strong_text" => strong(seed, n, corpus, true),
        "tptp" => tptp(seed, n, corpus),
        "substitute" => substitute(seed, n, corpus),
        "rewrite" => rewrite(seed, n, corpus),
        "simplify" => simplify(seed, n, corpus),
        _ => {
            eprintln!("unknown suite {suite}");
            std::process::exit(2)
        }
    }
}

fn echo(seed: u64, n: usize, corpus: Option<&Path>) -> Vec<Case> {
    let mut cases = vec![];
    for (origin, f) in formulas(seed, n / 2, corpus, &["formulas"]) {
        let s = sexp::formula(&f);
        cases.push(Case { req: format!("(echo_formula {s})"), imp: s, nontrivial: true, tag: "formula", origin });
    }
    let mut rng = Rng::new(seed ^ 0xABCD);
    for i in 0..n / 2 {
        let mut g = Gen::new(rng.fork());
        let p: asp::Program = g.program(4, 2);
        let s = sexp::program(&p);
        cases.push(Case { req: format!("(echo_program {s})"), imp: s, nontrivial: true, tag: "program", origin: format!("seed:{seed}:{i}") });
    }
    cases
}

fn gamma(seed: u64, n: usize, corpus: Option<&Path>) -> Vec<Case> {
    formulas(seed, n, corpus, &["formulas", "gamma"])
        .into_iter()
        .map(|(origin, f)| {
            let input = sexp::formula(&f);
            let g = f.clone();
            let imp = guarded(move || sexp::formula(&g.gamma()));
            Case { req: format!("(gamma {input})"), nontrivial: imp != input, imp, tag: "gamma", origin }
        })
        .collect()
}

fn substitute(seed: u64, n: usize, corpus: Option<&Path>) -> Vec<Case> {
    let mut cases = vec![];
    // corpus: `formula ;; variable ;; term`
    let mut triples: Vec<(String, fol::Formula, fol::Variable, fol::GeneralTerm)> = vec![];
    for l in corpus_lines(corpus, "substitute") {
        let parts: Vec<&str> = l.split(";;").map(str::trim).collect();
        if parts.len() == 3 {
            if let (Ok(f), Ok(v), Ok(t)) = (parts[0].parse(), parts[1].parse(), parts[2].parse()) {
                triples.push((format!("corpus:{l}"), f, v, t));
            }
        }
    }
    let mut rng = Rng::new(seed ^ 0x5157);
    for i in 0..n {
        let mut g = Gen::new(rng.fork());
        g.nvars = 2 + g.rng.below(6);
        g.npreds = 2 + g.rng.below(3);
        let depth = 1 + g.rng.below(4);
        let f = g.formula(depth);
        // prefer a variable that occurs in the formula
        let fv: Vec<fol::Variable> = f.variables().into_iter().collect();
        let v = if !fv.is_empty() && g.rng.chance(4, 5) { g.rng.pick(&fv).clone() } else { g.variable() };
        let t = if g.rng.chance(1, 12) { g.gterm(2) } else { g.term_of_sort(v.sort, 2) };
        triples.push((format!("seed:{seed}:{i}"), f, v, t));
    }
    for (origin, f, v, t) in triples {
        let input = sexp::formula(&f);
        let req = format!("(substitute {input} {} {})", sexp::var(&v), sexp::gterm(&t));
        let imp = guarded(move || sexp::formula(&f.substitute(v, t)));
        cases.push(Case { req, nontrivial: imp != input, imp, tag: "substitute", origin });
    }
    cases
}

fn rewrite(seed: u64, n: usize, corpus: Option<&Path>) -> Vec<Case> {
    let mut cases = vec![];
    let rws = rewrites();
    let mut counter = 0usize;
    for (origin, f) in formulas(seed ^ 0x77, n, corpus, &["formulas", "simplify"]) {
        let input = sexp::formula(&f);
        for (name, r) in &rws {
            let g = f.clone();
            let r = *r;
            let imp = guarded(move || sexp::formula(&r(g)));
            let nontrivial = imp != input;
            // keep all non-trivial cases, sample the identity ones
            counter += 1;
            if nontrivial || counter % 7 == 0 {
                cases.push(Case { req: format!("(rewrite {name} {input})"), nontrivial, imp, tag: name, origin: origin.clone() });
            }
        }
    }
    cases
}

/// `apply_fixpoint` with a pass bound (the real one is called as well when the bounded loop converges).
fn bounded_fixpoint(f: fol::Formula, op: &mut impl FnMut(fol::Formula) -> fol::Formula) -> (fol::Formula, bool) {
    let mut previous = f;
    let mut current = previous.clone().apply(op);
    let mut passes = 0;
    while previous != current {
        if passes >= PASS_BOUND {
            return (current, false);
        }
        passes += 1;
        previous = current;
        current = previous.clone().apply(op);
    }
    (current, true)
}

fn simplify(seed: u64, n: usize, corpus: Option<&Path>) -> Vec<Case> {
    let mut cases = vec![];
    for (origin, f) in formulas(seed ^ 0x99, n, corpus, &["formulas", "simplify"]) {
        let input = sexp::formula(&f);
        for pname in ["intuitionistic", "ht", "classic"] {
            for sname in ["shallow", "recursive", "fixpoint"] {
                let g = f.clone();
                let imp = guarded(move || {
                    let mut op = portfolio(pname).into_iter().compose();
                    match sname {
                        "shallow" => format!("(ok {})", sexp::formula(&op(g))),
                        "recursive" => format!("(ok {})", sexp::formula(&g.apply(&mut op))),
                        _ => {
                            let (r, ok) = bounded_fixpoint(g.clone(), &mut op);
                            if ok {
                                // the real loop must agree with the bounded one
                                let real = g.apply_fixpoint(&mut op);
                                if real != r {
                                    return format!("(fixpoint-mismatch {})", sexp::formula(&real));
                                }
                                format!("(ok {})", sexp::formula(&r))
                            } else {
                                format!("(timeout {})", sexp::formula(&r))
                            }
                        }
                    }
                });
                let nontrivial = imp != format!("(ok {input})");
                cases.push(Case { req: format!("(simplify {pname} {sname} {PASS_BOUND} {input})"), nontrivial, imp, tag: sname, origin: origin.clone() });
            }
        }
    }
    cases
}

pub fn corpus_programs(dir: Option<&Path>, name: &str) -> Vec<(String, asp::Program)> {
    corpus_lines(dir, name)
        .into_iter()
        .filter_map(|l| l.parse::<asp::Program>().ok().map(|p| (format!("corpus:{l}"), p)))
        .collect()
}

pub fn programs(seed: u64, n: usize, corpus: Option<&Path>, names: &[&str]) -> Vec<(String, asp::Program)> {
    let mut out = vec![];
    for name in names {
        out.extend(corpus_programs(corpus, name));
    }
    let mut rng = Rng::new(seed ^ 0x7A05);
    for i in 0..n {
        let mut g = Gen::new(rng.fork());
        g.nvars = 2 + g.rng.below(22);
        g.npreds = 2 + g.rng.below(5);
        let depth = g.rng.below(3);
        let max_rules = 1 + g.rng.below(4);
        g.hostile = g.rng.chance(1, 6);
        out.push((format!("seed:{seed}:{i}"), g.program(max_rules, depth)));
    }
    out
}

fn tau_star(seed: u64, n: usize, corpus: Option<&Path>) -> Vec<Case> {
    programs(seed, n, corpus, &["programs"])
        .into_iter()
        .map(|(origin, p)| {
            let input = sexp::program(&p);
            let imp = guarded(move || sexp::theory(&p.tau_star()));
            Case { req: format!("(tau_star {input})"), nontrivial: true, imp, tag: "tau_star", origin }
        })
        .collect()
}

fn natural(seed: u64, n: usize, corpus: Option<&Path>) -> Vec<Case> {
    let mut cases = vec![];
    for (origin, p) in programs(seed ^ 0x11, n, corpus, &["programs"]) {
        let input = sexp::program(&p);
        let q = p.clone();
        let imp = guarded(move || sexp::opt(&q.natural(), sexp::theory));
        cases.push(Case { req: format!("(natural {input})"), nontrivial: imp != "none", imp, tag: "natural", origin: origin.clone() });
        let q = p.clone();
        let imp = guarded(move || sexp::theory(&q.mu()));
        cases.push(Case { req: format!("(mu {input})"), nontrivial: true, imp, tag: "mu", origin: origin.clone() });
        let imp = guarded(move || p.is_regular().to_string());
        cases.push(Case { req: format!("(is_regular {input})"), nontrivial: imp == "true", imp, tag: "is_regular", origin });
    }
    cases
}

fn fol_pred(p: &asp::Predicate) -> fol::Predicate {
    fol::Predicate { symbol: p.symbol.clone(), arity: p.arity }
}

fn analyze(seed: u64, n: usize, corpus: Option<&Path>) -> Vec<Case> {
    let mut cases = vec![];
    let mut rng = Rng::new(seed ^ 0x22);
    for (origin, p) in programs(seed ^ 0x22, n, corpus, &["programs", "analyze"]) {
        let input = sexp::program(&p);
        let q = p.clone();
        let imp = guarded(move || q.is_tight().to_string());
        cases.push(Case { req: format!("(is_tight {input})"), nontrivial: imp == "false", imp, tag: "is_tight", origin: origin.clone() });
        // random private set
        let preds: Vec<asp::Predicate> = p.predicates().into_iter().collect();
        let private: indexmap::IndexSet<asp::Predicate> = preds.iter().filter(|_| rng.chance(2, 3)).cloned().collect();
        let privs = sexp::list(private.iter().map(|x| sexp::pred(&fol_pred(x))));
        let imp = guarded(move || p.has_private_recursion(&private).to_string());
        cases.push(Case { req: format!("(private_recursion {input} {privs})"), nontrivial: imp == "true", imp, tag: "private_recursion", origin });
    }
    cases
}

fn completion(seed: u64, n: usize, corpus: Option<&Path>) -> Vec<Case> {
    let mut cases = vec![];
    let mut rng = Rng::new(seed ^ 0x33);
    let mut theories: Vec<(String, fol::Theory)> = vec![];
    for l in corpus_lines(corpus, "theories") {
        if let Ok(t) = l.parse::<fol::Theory>() {
            theories.push((format!("corpus:{l}"), t));
        }
    }
    for (origin, p) in programs(seed ^ 0x33, n / 2, corpus, &["programs"]) {
        if let Ok(t) = std::panic::catch_unwind(|| p.clone().tau_star()) {
            theories.push((origin, t));
        }
    }
    for i in 0..n / 2 {
        // hand-shaped theories: implications with atom / #false consequents, some malformed
        let mut g = Gen::new(rng.fork());
        g.nvars = 3 + g.rng.below(4);
        g.npreds = 2 + g.rng.below(3);
        let k = 1 + g.rng.below(4);
        let mut fs = vec![];
        for _ in 0..k {
            let d = 1 + g.rng.below(2);
            let body = g.formula(d);
            let head = match g.rng.below(6) {
                0 => fol::Formula::AtomicFormula(fol::AtomicFormula::Falsity),
                1 => g.formula(0),
                _ => {
                    let mut a = g.atom();
                    if g.rng.chance(4, 5) {
                        // variables as arguments (mostly distinct)
                        let names = ["V1", "V2", "V3", "X", "Y"];
                        a.terms = (0..a.terms.len()).map(|j| {
                            let v = fol::Variable { name: names[if g.rng.chance(1, 8) { 0 } else { j % 5 }].to_string(), sort: if g.rng.chance(1, 6) { fol::Sort::Integer } else { fol::Sort::General } };
                            v.into()
                        }).collect();
                    }
                    fol::Formula::AtomicFormula(fol::AtomicFormula::Atom(a))
                }
            };
            let c = if g.rng.chance(1, 5) { fol::BinaryConnective::ReverseImplication } else { fol::BinaryConnective::Implication };
            let imp = if c == fol::BinaryConnective::Implication {
                fol::Formula::BinaryFormula { connective: c, lhs: Box::new(body), rhs: Box::new(head) }
            } else {
                fol::Formula::BinaryFormula { connective: c, lhs: Box::new(head), rhs: Box::new(body) }
            };
            fs.push(if g.rng.chance(5, 6) { imp.universal_closure() } else { imp });
        }
        theories.push((format!("seed:{seed}:t{i}"), fol::Theory { formulas: fs }));
    }
    for (origin, t) in theories {
        let preds: Vec<fol::Predicate> = t.predicates().into_iter().collect();
        let inputs: indexmap::IndexSet<fol::Predicate> = preds.iter().filter(|_| rng.chance(1, 4)).cloned().collect();
        let req = format!("(completion {} {})", sexp::theory(&t), sexp::list(inputs.iter().map(sexp::pred)));
        let imp = guarded(move || sexp::opt(&t.completion(inputs), sexp::theory));
        cases.push(Case { req, nontrivial: imp != "none", imp, tag: "completion", origin });
    }
    cases
}

fn break_eq(seed: u64, n: usize, corpus: Option<&Path>) -> Vec<Case> {
    use anthem::verif::breaking_fol::sigma_0::ht::break_equivalences_formula;
    let mut cases = vec![];
    let mut rng = Rng::new(seed ^ 0x44);
    for (origin, f) in formulas(seed ^ 0x44, n, corpus, &["formulas"]) {
        // make equivalences under universal prefixes frequent
        let f = if rng.chance(1, 2) {
            let mut g = Gen::new(rng.fork());
            let e = fol::Formula::BinaryFormula { connective: fol::BinaryConnective::Equivalence, lhs: Box::new(g.formula(1)), rhs: Box::new(f) };
            let mut h = e;
            for _ in 0..g.rng.below(3) {
                h = fol::Formula::QuantifiedFormula { quantification: fol::Quantification { quantifier: fol::Quantifier::Forall, variables: g.var_list() }, formula: Box::new(h) };
            }
            h
        } else { f };
        let input = sexp::formula(&f);
        let imp = guarded(move || sexp::theory(&break_equivalences_formula(f)));
        cases.push(Case { req: format!("(break_eq {input})"), nontrivial: imp != format!("({input})"), imp, tag: "break_eq", origin });
    }
    cases
}

pub fn problem_sexp(p: &problem::Problem) -> String {
    format!(
        "(problem {} {})",
        sexp::q(&p.name),
        sexp::list(p.formulas.iter().map(|a| format!(
            "({} {} {})",
            sexp::q(&a.name),
            match a.role { problem::Role::Axiom => "axiom", problem::Role::Conjecture => "conjecture" },
            sexp::formula(&a.formula)
        )))
    )
}

fn strong(seed: u64, n: usize, corpus: Option<&Path>, text: bool) -> Vec<Case> {
    let mut cases = vec![];
    let mut rng = Rng::new(seed ^ 0x55);
    let progs = programs(seed ^ 0x55, 2 * n, corpus, &["programs"]);
    for pair in progs.chunks(2) {
        if pair.len() < 2 { break; }
        let (origin, left) = (&pair[0].0, pair[0].1.clone());
        let right = if rng.chance(1, 5) { left.clone() } else { pair[1].1.clone() };
        let dec = if rng.chance(1, 2) { Decomposition::Independent } else { Decomposition::Sequential };
        let dir = *rng.pick(&[fol::Direction::Universal, fol::Direction::Forward, fol::Direction::Backward]);
        let rep = if rng.chance(1, 2) { FormulaRepresentation::Mu } else { FormulaRepresentation::TauStar };
        let simplify = rng.chance(1, 2);
        let brk = rng.chance(1, 2);
        let req = format!(
            "({} {} {} {} {} {} {} {} {PASS_BOUND})",
            if text { "strong_text" } else { "strong" },
            sexp::program(&left), sexp::program(&right),
            if dec == Decomposition::Independent { "independent" } else { "sequential" },
            match dir { fol::Direction::Universal => "universal", fol::Direction::Forward => "forward", fol::Direction::Backward => "backward" },
            match rep { FormulaRepresentation::Mu => "mu", FormulaRepresentation::TauStar => "tau_star" },
            simplify, brk);
        let imp = guarded(move || {
            let task = StrongEquivalenceTask { left, right, decomposition: dec, direction: dir, formula_representation: rep, simplify, break_equivalences: brk };
            match task.decompose() {
                Ok(w) if text => sexp::list(w.data.iter().map(|p| format!("({} {})", sexp::q(&p.name), sexp::q(&p.to_string())))),
                Ok(w) => sexp::list(w.data.iter().map(problem_sexp)),
                Err(_) => "(error)".to_string(),
            }
        });
        cases.push(Case { req, nontrivial: true, imp, tag: if text { "strong_text" } else { "strong" }, origin: origin.clone() });
    }
    cases
}

fn tptp(seed: u64, n: usize, corpus: Option<&Path>) -> Vec<Case> {
    use anthem::formatting::fol::sigma_0::tptp::Format;
    let mut cases = vec![];
    let mut rng = Rng::new(seed ^ 0x66);
    for (origin, f) in formulas(seed ^ 0x66, n, corpus, &["formulas"]) {
        // sprinkle extreme numerals
        let f = if rng.chance(1, 40) {
            fol::Formula::BinaryFormula { connective: fol::BinaryConnective::Conjunction, lhs: Box::new(f), rhs: Box::new(fol::Formula::AtomicFormula(fol::AtomicFormula::Atom(fol::Atom { predicate_symbol: "p".into(), terms: vec![fol::GeneralTerm::IntegerTerm(fol::IntegerTerm::Numeral(if rng.chance(1, 2) { isize::MIN } else { isize::MAX }))] }))) }
        } else { f };
        let input = sexp::formula(&f);
        let imp = guarded(move || sexp::q(&Format(&f).to_string()));
        cases.push(Case { req: format!("(tptp_formula {input})"), nontrivial: true, imp, tag: "tptp", origin });
    }
    cases
}
