//! One function per correspondence suite. A suite produces cases: the request sent to the model
//! driver and the implementation's own answer in the same wire format.
use crate::{Case, generate::Gen, rng::Rng, sexp};
use anthem::{
    convenience::{apply::Apply as _, compose::Compose as _},
    syntax_tree::{asp::mini_gringo as asp, fol::sigma_0 as fol},
    analyzing::{private_recursion::PrivateRecursion as _, regularity::Regularity as _, tightness::Tightness as _},
    translating::{
        classical_reduction::{completion::Completion as _, gamma::Gamma as _},
        formula_representation::{mu::Mu as _, natural::Natural as _, tau_star::TauStar as _},
    },
    verif::{arguments::{Decomposition, FormulaRepresentation}, files::Files, problem, task::{Task as _, external_equivalence::{ExternalEquivalenceTask, ExternalEquivalenceTaskError}, strong_equivalence::StrongEquivalenceTask}},
    verif::outline::ProofOutlineError,
    syntax_tree::Node as _,
    verif::simplifying_fol::sigma_0::{classic, ht, intuitionistic},
};

pub const PASS_BOUND: usize = 256;

type Rewrite = fn(fol::Formula) -> fol::Formula;

pub fn rewrites() -> Vec<(&'static str, Rewrite)> {
    vec![
        ("evaluate_comparisons", intuitionistic::evaluate_comparisons),
        ("apply_negation_definition_inverse", intuitionistic::apply_negation_definition_inverse),
        ("apply_reverse_implication_definition", intuitionistic::apply_reverse_implication_definition),
        ("apply_equivalence_definition_inverse", intuitionistic::apply_equivalence_definition_inverse),
        ("remove_identities", intuitionistic::remove_identities),
        ("remove_annihilations", intuitionistic::remove_annihilations),
        ("remove_idempotences", intuitionistic::remove_idempotences),
        ("remove_orphaned_variables", intuitionistic::remove_orphaned_variables),
        ("remove_empty_quantifications", intuitionistic::remove_empty_quantifications),
        ("join_nested_quantifiers", intuitionistic::join_nested_quantifiers),
        ("remove_double_negation", classic::CLASSIC[0]),
        ("substitute_defined_variables", classic::CLASSIC[1]),
        ("restrict_quantifier_domain", classic::CLASSIC[2]),
        ("extend_quantifier_scope", classic::CLASSIC[3]),
        ("simplify_transitive_equality", classic::CLASSIC[4]),
    ]
}

/// The concatenations built by `procedures.rs` / the verification tasks.
pub fn portfolio(name: &str) -> Vec<Rewrite> {
    match name {
        "intuitionistic" => [intuitionistic::INTUITIONISTIC].concat(),
        "ht" => [intuitionistic::INTUITIONISTIC, ht::HT].concat(),
        _ => [intuitionistic::INTUITIONISTIC, ht::HT, classic::CLASSIC].concat(),
    }
}
use std::{panic::catch_unwind, path::Path};

/// Runs one case of the implementation: a panic is the outcome `(panic)`, a call that has not returned after
/// HANG_SECS is the outcome `(hang)` - so that a change that makes anthem loop is reported with the input as a
/// disagreement, not as a harness time-out. All cases run on ONE long-lived worker thread (thread-local and other
/// process state of the implementation survives from case to case, as it does in a real run - a change that
/// memoises results across calls must stay visible); only after a hang is the worker abandoned (it is left
/// running; the process ends with the suite) and a new one started. After three hangs the rest of the suite is
/// not run.
const HANG_SECS: u64 = 10;
static HANGS: std::sync::atomic::AtomicUsize = std::sync::atomic::AtomicUsize::new(0);

type Job = Box<dyn FnOnce() -> String + Send + 'static>;
static WORKER: std::sync::Mutex<Option<std::sync::mpsc::Sender<(Job, std::sync::mpsc::Sender<String>)>>> = std::sync::Mutex::new(None);

fn spawn_worker() -> Option<std::sync::mpsc::Sender<(Job, std::sync::mpsc::Sender<String>)>> {
    let (tx, rx) = std::sync::mpsc::channel::<(Job, std::sync::mpsc::Sender<String>)>();
    std::thread::Builder::new().stack_size(512 << 20).spawn(move || {
        for (job, reply) in rx {
            let r = match catch_unwind(std::panic::AssertUnwindSafe(job)) {
                Ok(s) => s,
                Err(_) => "(panic)".to_string(),
            };
            let _ = reply.send(r);
        }
    }).ok()?;
    Some(tx)
}

fn guarded(f: impl FnOnce() -> String + std::panic::UnwindSafe + Send + 'static) -> String {
    if HANGS.load(std::sync::atomic::Ordering::Relaxed) >= 3 {
        // three cases are still running: the rest of the suite is not run (the check has failed already)
        return "(not-run-after-three-hangs)".to_string();
    }
    let mut w = WORKER.lock().unwrap();
    if w.is_none() {
        *w = spawn_worker();
    }
    let Some(tx) = w.as_ref() else { return "(panic)".to_string() };
    let (rtx, rrx) = std::sync::mpsc::channel();
    if tx.send((Box::new(f), rtx)).is_err() {
        *w = None;
        return "(panic)".to_string();
    }
    match rrx.recv_timeout(std::time::Duration::from_secs(HANG_SECS)) {
        Ok(s) => s,
        Err(_) => {
            HANGS.fetch_add(1, std::sync::atomic::Ordering::Relaxed);
            *w = None;
            "(hang)".to_string()
        }
    }
}

/// Corpus file: one entry per line, `#` comments; text in anthem's own concrete syntax.
fn corpus_lines(dir: Option<&Path>, name: &str) -> Vec<String> {
    let Some(dir) = dir else { return vec![] };
    let Ok(text) = std::fs::read_to_string(dir.join(format!("{name}.txt"))) else { return vec![] };
    text.lines()
        .map(str::trim)
        .filter(|l| !l.is_empty() && !l.starts_with('#'))
        .map(String::from)
        .collect()
}

fn corpus_formulas(dir: Option<&Path>, name: &str) -> Vec<(String, fol::Formula)> {
    corpus_lines(dir, name)
        .into_iter()
        .filter_map(|l| l.parse::<fol::Formula>().ok().map(|f| (format!("corpus:{l}"), f)))
        .collect()
}

fn formulas(seed: u64, n: usize, corpus: Option<&Path>, names: &[&str]) -> Vec<(String, fol::Formula)> {
    let mut out = vec![];
    for name in names {
        out.extend(corpus_formulas(corpus, name));
    }
    let mut rng = Rng::new(seed);
    for i in 0..n {
        let mut g = Gen::new(rng.fork());
        g.nvars = 3 + g.rng.below(10);
        g.npreds = 2 + g.rng.below(5);
        let depth = 1 + g.rng.below(5);
        out.push((format!("seed:{seed}:{i}"), g.formula(depth)));
    }
    out
}

pub fn run(suite: &str, seed: u64, n: usize, corpus: Option<&Path>) -> Vec<Case> {
    match suite {
        "echo" => echo(seed, n, corpus),
        "gamma" => gamma(seed, n, corpus),
        "tau_star" => tau_star(seed, n, corpus),
        "natural" => natural(seed, n, corpus),
        "analyze" => analyze(seed, n, corpus),
        "completion" => completion(seed, n, corpus),
        "break_eq" => break_eq(seed, n, corpus),
        "strong" => strong(seed, n, corpus, false),
        "strong_text" => strong(seed, n, corpus, true),
        "tptp" => tptp(seed, n, corpus),
        "files" => files(seed, n),
        "status" => status(seed, n),
        "print" => print(seed, n, corpus),
        "asp_parse" => asp_parse(seed, n, corpus),
        "fol_parse" => fol_parse(seed, n, corpus),
        "decompose" => decompose(seed, n),
        "external" => external(seed, n, corpus, false),
        "external_text" => external(seed, n, corpus, true),
        "substitute" => substitute(seed, n, corpus),
        "rewrite" => rewrite(seed, n, corpus),
        "simplify" => simplify(seed, n, corpus),
        _ => {
            eprintln!("unknown suite {suite}");
            std::process::exit(2)
        }
    }
}

fn echo(seed: u64, n: usize, corpus: Option<&Path>) -> Vec<Case> {
    let mut cases = vec![];
    for (origin, f) in formulas(seed, n / 2, corpus, &["formulas"]) {
        let s = sexp::formula(&f);
        cases.push(Case { req: format!("(echo_formula {s})"), imp: s, nontrivial: true, tag: "formula", origin });
    }
    let mut rng = Rng::new(seed ^ 0xABCD);
    for i in 0..n / 2 {
        let mut g = Gen::new(rng.fork());
        let p: asp::Program = g.program(4, 2);
        let s = sexp::program(&p);
        cases.push(Case { req: format!("(echo_program {s})"), imp: s, nontrivial: true, tag: "program", origin: format!("seed:{seed}:{i}") });
    }
    cases
}

fn gamma(seed: u64, n: usize, corpus: Option<&Path>) -> Vec<Case> {
    formulas(seed, n, corpus, &["formulas", "gamma"])
        .into_iter()
        .map(|(origin, f)| {
            let input = sexp::formula(&f);
            let g = f.clone();
            let imp = guarded(move || sexp::formula(&g.gamma()));
            Case { req: format!("(gamma {input})"), nontrivial: imp != input, imp, tag: "gamma", origin }
        })
        .collect()
}

/// Substitution cases built around one family of names `B, B1, B2, ...` of one sort: nested quantifier blocks whose
/// binders come from the family, a body that mentions (and so makes "taken") a stretch of the family, and a term made of
/// family members - the shapes in which the choice of fresh binder names matters (candidates already bound by an
/// enclosing quantifier, already chosen in the same block, equal to the substituted variable, past `B9`).
fn capture_family_case(g: &mut Gen) -> (fol::Formula, fol::Variable, fol::GeneralTerm) {
    let base = *g.rng.pick(&["X", "Y", "N"]);
    let sort = if g.rng.chance(1, 2) { fol::Sort::Integer } else { fol::Sort::General };
    let fam = |k: usize| -> fol::Variable {
        fol::Variable { name: if k == 0 { base.to_string() } else { format!("{base}{k}") }, sort }
    };
    let low = |g: &mut Gen| -> usize { *g.rng.pick(&[0usize, 0, 1, 1, 2, 3]) };
    let vt = |v: fol::Variable| -> fol::GeneralTerm { v.into() };
    // the substituted variable: outside the family, or a low member of it
    let var = if g.rng.chance(2, 3) { fol::Variable { name: "Z".into(), sort } } else { fam(low(g)) };
    // the term: one or two low family members
    let a = fam(low(g));
    let term = if sort == fol::Sort::Integer && g.rng.chance(1, 2) {
        let b = fam(low(g));
        fol::GeneralTerm::IntegerTerm(fol::IntegerTerm::BinaryOperation {
            op: fol::BinaryOperator::Multiply,
            lhs: Box::new(fol::IntegerTerm::Variable(a.name.clone())),
            rhs: Box::new(fol::IntegerTerm::Variable(b.name.clone())),
        })
    } else {
        vt(a)
    };
    // body: p(var?, some low members) [or q(a stretch B_lo..B_hi)]
    let mut args = vec![];
    if g.rng.chance(4, 5) { args.push(vt(var.clone())); }
    for _ in 0..(1 + g.rng.below(3)) { args.push(vt(fam(low(g)))); }
    let mut body = fol::Formula::AtomicFormula(fol::AtomicFormula::Atom(fol::Atom { predicate_symbol: "p".into(), terms: args }));
    if g.rng.chance(1, 2) {
        let lo = 1 + g.rng.below(2);
        let hi = lo + *g.rng.pick(&[0usize, 1, 2, 8, 9, 10]);
        let mut qs: Vec<fol::GeneralTerm> = (lo..=hi).map(|k| vt(fam(k))).collect();
        if g.rng.chance(1, 2) { qs.push(vt(var.clone())); }
        let q = fol::Formula::AtomicFormula(fol::AtomicFormula::Atom(fol::Atom { predicate_symbol: "q".into(), terms: qs }));
        body = fol::Formula::BinaryFormula { connective: if g.rng.chance(1, 2) { fol::BinaryConnective::Disjunction } else { fol::BinaryConnective::Conjunction }, lhs: Box::new(body), rhs: Box::new(q) };
    }
    // 1-3 nested blocks, innermost first
    let mut f = body;
    for _ in 0..(1 + g.rng.below(3)) {
        let mut vars = vec![];
        for _ in 0..(1 + g.rng.below(3)) { vars.push(fam(low(g))); }
        if g.rng.chance(1, 6) { vars.push(var.clone()); }
        f = fol::Formula::QuantifiedFormula {
            quantification: fol::Quantification { quantifier: if g.rng.chance(1, 2) { fol::Quantifier::Forall } else { fol::Quantifier::Exists }, variables: vars },
            formula: Box::new(f),
        };
        if g.rng.chance(1, 4) {
            f = fol::Formula::UnaryFormula { connective: fol::UnaryConnective::Negation, formula: Box::new(f) };
        }
    }
    (f, var, term)
}

fn substitute(seed: u64, n: usize, corpus: Option<&Path>) -> Vec<Case> {
    let mut cases = vec![];
    // corpus: `formula ;; variable ;; term`
    let mut triples: Vec<(String, fol::Formula, fol::Variable, fol::GeneralTerm)> = vec![];
    for l in corpus_lines(corpus, "substitute") {
        let parts: Vec<&str> = l.split(";;").map(str::trim).collect();
        if parts.len() == 3 {
            if let (Ok(f), Ok(v), Ok(t)) = (parts[0].parse(), parts[1].parse(), parts[2].parse()) {
                triples.push((format!("corpus:{l}"), f, v, t));
            }
        }
    }
    let mut rng = Rng::new(seed ^ 0x5157);
    for i in 0..n {
        let mut g = Gen::new(rng.fork());
        g.nvars = 2 + g.rng.below(6);
        g.npreds = 2 + g.rng.below(3);
        let depth = 1 + g.rng.below(4);
        if i % 3 == 2 {
            let (f, v, t) = capture_family_case(&mut g);
            triples.push((format!("seed:{seed}:{i}:family"), f, v, t));
            continue;
        }
        let f = g.formula(depth);
        // prefer a variable that occurs in the formula
        let fv: Vec<fol::Variable> = f.variables().into_iter().collect();
        let v = if !fv.is_empty() && g.rng.chance(4, 5) { g.rng.pick(&fv).clone() } else { g.variable() };
        let t = if g.rng.chance(1, 12) { g.gterm(2) } else { g.term_of_sort(v.sort, 2) };
        triples.push((format!("seed:{seed}:{i}"), f, v, t));
    }
    for (origin, f, v, t) in triples {
        let input = sexp::formula(&f);
        let req = format!("(substitute {input} {} {})", sexp::var(&v), sexp::gterm(&t));
        let imp = guarded(move || sexp::formula(&f.substitute(v, t)));
        cases.push(Case { req, nontrivial: imp != input, imp, tag: "substitute", origin });
    }
    cases
}

fn rewrite(seed: u64, n: usize, corpus: Option<&Path>) -> Vec<Case> {
    let mut cases = vec![];
    let rws = rewrites();
    let mut counter = 0usize;
    for (origin, f) in formulas(seed ^ 0x77, n, corpus, &["formulas", "simplify"]) {
        let input = sexp::formula(&f);
        for (name, r) in &rws {
            let g = f.clone();
            let r = *r;
            let imp = guarded(move || sexp::formula(&r(g)));
            let nontrivial = imp != input;
            // keep all non-trivial cases, sample the identity ones
            counter += 1;
            if nontrivial || counter % 7 == 0 {
                cases.push(Case { req: format!("(rewrite {name} {input})"), nontrivial, imp, tag: name, origin: origin.clone() });
            }
        }
    }
    cases
}

/// `apply_fixpoint` with a pass bound (the real one is called as well when the bounded loop converges).
fn bounded_fixpoint(f: fol::Formula, op: &mut impl FnMut(fol::Formula) -> fol::Formula) -> (fol::Formula, bool) {
    let mut previous = f;
    let mut current = previous.clone().apply(op);
    let mut passes = 0;
    while previous != current {
        if passes >= PASS_BOUND {
            return (current, false);
        }
        passes += 1;
        previous = current;
        current = previous.clone().apply(op);
    }
    (current, true)
}

fn simplify(seed: u64, n: usize, corpus: Option<&Path>) -> Vec<Case> {
    let mut cases = vec![];
    for (origin, f) in formulas(seed ^ 0x99, n, corpus, &["formulas", "simplify"]) {
        let input = sexp::formula(&f);
        for pname in ["intuitionistic", "ht", "classic"] {
            for sname in ["shallow", "recursive", "fixpoint"] {
                let g = f.clone();
                let imp = guarded(move || {
                    let mut op = portfolio(pname).into_iter().compose();
                    match sname {
                        "shallow" => format!("(ok {})", sexp::formula(&op(g))),
                        "recursive" => format!("(ok {})", sexp::formula(&g.apply(&mut op))),
                        _ => {
                            let (r, ok) = bounded_fixpoint(g.clone(), &mut op);
                            if ok {
                                // the real loop must agree with the bounded one
                                let real = g.apply_fixpoint(&mut op);
                                if real != r {
                                    return format!("(fixpoint-mismatch {})", sexp::formula(&real));
                                }
                                format!("(ok {})", sexp::formula(&r))
                            } else {
                                format!("(timeout {})", sexp::formula(&r))
                            }
                        }
                    }
                });
                let nontrivial = imp != format!("(ok {input})");
                cases.push(Case { req: format!("(simplify {pname} {sname} {PASS_BOUND} {input})"), nontrivial, imp, tag: sname, origin: origin.clone() });
            }
        }
    }
    cases
}

pub fn corpus_programs(dir: Option<&Path>, name: &str) -> Vec<(String, asp::Program)> {
    corpus_lines(dir, name)
        .into_iter()
        .filter_map(|l| l.parse::<asp::Program>().ok().map(|p| (format!("corpus:{l}"), p)))
        .collect()
}

pub fn programs(seed: u64, n: usize, corpus: Option<&Path>, names: &[&str]) -> Vec<(String, asp::Program)> {
    let mut out = vec![];
    for name in names {
        out.extend(corpus_programs(corpus, name));
    }
    let mut rng = Rng::new(seed ^ 0x7A05);
    for i in 0..n {
        let mut g = Gen::new(rng.fork());
        g.nvars = 2 + g.rng.below(22);
        g.npreds = 2 + g.rng.below(5);
        let depth = g.rng.below(3);
        let max_rules = 1 + g.rng.below(4);
        g.hostile = g.rng.chance(1, 6);
        // one in four: a program near the boundary of regularity; one in six: a dense dependency program
        let p = match i % 12 { 3 | 7 | 11 => g.regularish_program(max_rules), 5 | 9 => g.dependency_program(), _ => g.program(max_rules, depth) };
        out.push((format!("seed:{seed}:{i}"), p));
    }
    out
}

fn tau_star(seed: u64, n: usize, corpus: Option<&Path>) -> Vec<Case> {
    programs(seed, n, corpus, &["programs"])
        .into_iter()
        .map(|(origin, p)| {
            let input = sexp::program(&p);
            let imp = guarded(move || sexp::theory(&p.tau_star()));
            Case { req: format!("(tau_star {input})"), nontrivial: true, imp, tag: "tau_star", origin }
        })
        .collect()
}

fn natural(seed: u64, n: usize, corpus: Option<&Path>) -> Vec<Case> {
    let mut cases = vec![];
    for (origin, p) in programs(seed ^ 0x11, n, corpus, &["programs"]) {
        let input = sexp::program(&p);
        let q = p.clone();
        let imp = guarded(move || sexp::opt(&q.natural(), sexp::theory));
        cases.push(Case { req: format!("(natural {input})"), nontrivial: imp != "none", imp, tag: "natural", origin: origin.clone() });
        let q = p.clone();
        let imp = guarded(move || sexp::theory(&q.mu()));
        cases.push(Case { req: format!("(mu {input})"), nontrivial: true, imp, tag: "mu", origin: origin.clone() });
        let imp = guarded(move || p.is_regular().to_string());
        cases.push(Case { req: format!("(is_regular {input})"), nontrivial: imp == "true", imp, tag: "is_regular", origin });
    }
    cases
}

fn fol_pred(p: &asp::Predicate) -> fol::Predicate {
    fol::Predicate { symbol: p.symbol.clone(), arity: p.arity }
}

fn analyze(seed: u64, n: usize, corpus: Option<&Path>) -> Vec<Case> {
    let mut cases = vec![];
    let mut rng = Rng::new(seed ^ 0x22);
    for (origin, p) in programs(seed ^ 0x22, n, corpus, &["programs", "analyze"]) {
        let input = sexp::program(&p);
        let q = p.clone();
        let imp = guarded(move || q.is_tight().to_string());
        cases.push(Case { req: format!("(is_tight {input})"), nontrivial: imp == "false", imp, tag: "is_tight", origin: origin.clone() });
        // random private set
        let preds: Vec<asp::Predicate> = p.predicates().into_iter().collect();
        let private: indexmap::IndexSet<asp::Predicate> = preds.iter().filter(|_| rng.chance(2, 3)).cloned().collect();
        let privs = sexp::list(private.iter().map(|x| sexp::pred(&fol_pred(x))));
        let imp = guarded(move || p.has_private_recursion(&private).to_string());
        cases.push(Case { req: format!("(private_recursion {input} {privs})"), nontrivial: imp == "true", imp, tag: "private_recursion", origin });
    }
    cases
}

fn completion(seed: u64, n: usize, corpus: Option<&Path>) -> Vec<Case> {
    let mut cases = vec![];
    let mut rng = Rng::new(seed ^ 0x33);
    let mut theories: Vec<(String, fol::Theory)> = vec![];
    for l in corpus_lines(corpus, "theories") {
        if let Ok(t) = l.parse::<fol::Theory>() {
            theories.push((format!("corpus:{l}"), t));
        }
    }
    for (origin, p) in programs(seed ^ 0x33, n / 2, corpus, &["programs"]) {
        if let Ok(t) = std::panic::catch_unwind(|| p.clone().tau_star()) {
            theories.push((origin, t));
        }
    }
    for i in 0..n / 2 {
        // hand-shaped theories: implications with atom / #false consequents, some malformed
        let mut g = Gen::new(rng.fork());
        g.nvars = 3 + g.rng.below(4);
        g.npreds = 2 + g.rng.below(3);
        let k = 1 + g.rng.below(4);
        let mut fs = vec![];
        for _ in 0..k {
            let d = 1 + g.rng.below(2);
            let body = g.formula(d);
            let head = match g.rng.below(6) {
                0 => fol::Formula::AtomicFormula(fol::AtomicFormula::Falsity),
                1 => g.formula(0),
                _ => {
                    let mut a = g.atom();
                    if g.rng.chance(4, 5) {
                        // variables as arguments (mostly distinct)
                        let names = ["V1", "V2", "V3", "X", "Y"];
                        a.terms = (0..a.terms.len()).map(|j| {
                            let v = fol::Variable { name: names[if g.rng.chance(1, 8) { 0 } else { j % 5 }].to_string(), sort: match g.rng.below(6) { 0 => fol::Sort::Integer, 1 => fol::Sort::Symbol, _ => fol::Sort::General } };
                            v.into()
                        }).collect();
                    }
                    fol::Formula::AtomicFormula(fol::AtomicFormula::Atom(a))
                }
            };
            let c = if g.rng.chance(1, 5) { fol::BinaryConnective::ReverseImplication } else { fol::BinaryConnective::Implication };
            let imp = if c == fol::BinaryConnective::Implication {
                fol::Formula::BinaryFormula { connective: c, lhs: Box::new(body), rhs: Box::new(head) }
            } else {
                fol::Formula::BinaryFormula { connective: c, lhs: Box::new(head), rhs: Box::new(body) }
            };
            fs.push(if g.rng.chance(5, 6) { imp.universal_closure() } else { imp });
        }
        theories.push((format!("seed:{seed}:t{i}"), fol::Theory { formulas: fs }));
    }
    for (origin, t) in theories {
        let preds: Vec<fol::Predicate> = t.predicates().into_iter().collect();
        let inputs: indexmap::IndexSet<fol::Predicate> = preds.iter().filter(|_| rng.chance(1, 4)).cloned().collect();
        let req = format!("(completion {} {})", sexp::theory(&t), sexp::list(inputs.iter().map(sexp::pred)));
        let imp = guarded(move || sexp::opt(&t.completion(inputs), sexp::theory));
        cases.push(Case { req, nontrivial: imp != "none", imp, tag: "completion", origin });
    }
    cases
}

fn break_eq(seed: u64, n: usize, corpus: Option<&Path>) -> Vec<Case> {
    use anthem::verif::breaking_fol::sigma_0::ht::break_equivalences_formula;
    let mut cases = vec![];
    let mut rng = Rng::new(seed ^ 0x44);
    for (origin, f) in formulas(seed ^ 0x44, n, corpus, &["formulas"]) {
        // make equivalences under universal prefixes frequent
        let f = if rng.chance(1, 2) {
            let mut g = Gen::new(rng.fork());
            let e = fol::Formula::BinaryFormula { connective: fol::BinaryConnective::Equivalence, lhs: Box::new(g.formula(1)), rhs: Box::new(f) };
            let mut h = e;
            for _ in 0..g.rng.below(3) {
                h = fol::Formula::QuantifiedFormula { quantification: fol::Quantification { quantifier: fol::Quantifier::Forall, variables: g.var_list() }, formula: Box::new(h) };
            }
            h
        } else { f };
        let input = sexp::formula(&f);
        let imp = guarded(move || sexp::theory(&break_equivalences_formula(f)));
        cases.push(Case { req: format!("(break_eq {input})"), nontrivial: imp != format!("({input})"), imp, tag: "break_eq", origin });
    }
    cases
}

pub fn problem_sexp(p: &problem::Problem) -> String {
    format!(
        "(problem {} {})",
        sexp::q(&p.name),
        sexp::list(p.formulas.iter().map(|a| format!(
            "({} {} {})",
            sexp::q(&a.name),
            match a.role { problem::Role::Axiom => "axiom", problem::Role::Conjecture => "conjecture" },
            sexp::formula(&a.formula)
        )))
    )
}

fn strong(seed: u64, n: usize, corpus: Option<&Path>, text: bool) -> Vec<Case> {
    let mut cases = vec![];
    let mut rng = Rng::new(seed ^ 0x55);
    let progs = programs(seed ^ 0x55, 2 * n, corpus, &["programs"]);
    for pair in progs.chunks(2) {
        if pair.len() < 2 { break; }
        let (origin, mut left) = (&pair[0].0, pair[0].1.clone());
        if rng.chance(1, 4) {
            // a fact over numbered constants that share a stem: the order of symbols is byte-wise (b10 < b2, r007 < r1)
            // ... and by code point: capitals and digits before `_` before lower-case letters (aB < a_ < aa, fooBar < foo_ < foob)
            let pool = ["b1", "b2", "b9", "b10", "b11", "b100", "b01", "b", "r1", "r007", "r07", "r10", "aB", "aa", "a_", "aZ", "a0", "fooBar", "foo_", "foob", "xY", "xa"];
            let k = 3 + rng.below(3);
            let terms = (0..k).map(|_| asp::Term::PrecomputedTerm(asp::PrecomputedTerm::Symbol(rng.pick(&pool).to_string()))).collect();
            left.rules.push(asp::Rule { head: asp::Head::Basic(asp::Atom { predicate_symbol: "numbered".into(), terms }), body: asp::Body { formulas: vec![] } });
        }
        let mut right = if rng.chance(1, 5) { left.clone() } else { pair[1].1.clone() };
        {
            // one pair in eight: a family around rename_conflicting_symbols - a propositional predicate s, a constant
            // spelled like its h-/t-copy, and predicates / constants that occupy the names the renaming tries first
            // (s_p at arity 0 or 1, s_p1, the constant ts_p). Choices from a generator of its own (seeded by the origin).
            let mut h: u64 = 0x9e3779b97f4a7c15;
            for b in origin.bytes() { h = (h ^ b as u64).wrapping_mul(0x100000001b3); }
            let mut mr = Rng::new(h);
            if mr.chance(1, 8) {
                let stem = *mr.pick(&["p", "q", "go"]);
                let copy = *mr.pick(&["t", "h"]);
                let mut texts = vec![format!("r({copy}{stem}) :- {stem}.")];
                if mr.chance(1, 2) { texts.push(format!("r(h{stem}) :- not {stem}.")); }
                match mr.below(4) { 0 => texts.push(format!("{stem}_p.")), 1 => texts.push(format!("{stem}_p(1).")), 2 => texts.push(format!(":- {stem}, not {stem}_p.")), _ => () }
                if mr.chance(1, 3) { texts.push(format!("{stem}_p1 :- {stem}.")); }
                if mr.chance(1, 3) { texts.push(format!("r({copy}{stem}_p).")); }
                if mr.chance(1, 4) { texts.push(format!("r({stem}_p) :- {stem}_p.")); }
                for (k, t) in texts.iter().enumerate() {
                    if let Ok(p) = t.parse::<asp::Program>() {
                        left.rules.extend(p.rules.clone());
                        if k == 0 || mr.chance(2, 3) { right.rules.extend(p.rules); }
                    }
                }
            }
        }
        let dec = if rng.chance(1, 2) { Decomposition::Independent } else { Decomposition::Sequential };
        let dir = *rng.pick(&[fol::Direction::Universal, fol::Direction::Forward, fol::Direction::Backward]);
        let rep = if rng.chance(1, 2) { FormulaRepresentation::Mu } else { FormulaRepresentation::TauStar };
        let simplify = rng.chance(1, 2);
        let brk = rng.chance(1, 2);
        let req = format!(
            "({} {} {} {} {} {} {} {} {PASS_BOUND})",
            if text { "strong_text" } else { "strong" },
            sexp::program(&left), sexp::program(&right),
            if dec == Decomposition::Independent { "independent" } else { "sequential" },
            match dir { fol::Direction::Universal => "universal", fol::Direction::Forward => "forward", fol::Direction::Backward => "backward" },
            match rep { FormulaRepresentation::Mu => "mu", FormulaRepresentation::TauStar => "tau_star" },
            simplify, brk);
        let imp = guarded(move || {
            let task = StrongEquivalenceTask { left, right, decomposition: dec, direction: dir, formula_representation: rep, simplify, break_equivalences: brk };
            match task.decompose() {
                Ok(w) if text => sexp::list(w.data.iter().map(|p| format!("({} {})", sexp::q(&p.name), sexp::q(&p.to_string())))),
                Ok(w) => sexp::list(w.data.iter().map(problem_sexp)),
                Err(_) => "(error)".to_string(),
            }
        });
        cases.push(Case { req, nontrivial: true, imp, tag: if text { "strong_text" } else { "strong" }, origin: origin.clone() });
    }
    cases
}

fn tptp(seed: u64, n: usize, corpus: Option<&Path>) -> Vec<Case> {
    use anthem::formatting::fol::sigma_0::tptp::Format;
    let mut cases = vec![];
    let mut rng = Rng::new(seed ^ 0x66);
    for (origin, f) in formulas(seed ^ 0x66, n, corpus, &["formulas"]) {
        // sprinkle extreme numerals
        let f = if rng.chance(1, 40) {
            fol::Formula::BinaryFormula { connective: fol::BinaryConnective::Conjunction, lhs: Box::new(f), rhs: Box::new(fol::Formula::AtomicFormula(fol::AtomicFormula::Atom(fol::Atom { predicate_symbol: "p".into(), terms: vec![fol::GeneralTerm::IntegerTerm(fol::IntegerTerm::Numeral(if rng.chance(1, 2) { isize::MIN } else { isize::MAX }))] }))) }
        } else { f };
        let input = sexp::formula(&f);
        let imp = guarded(move || sexp::q(&Format(&f).to_string()));
        cases.push(Case { req: format!("(tptp_formula {input})"), nontrivial: true, imp, tag: "tptp", origin });
    }
    cases
}

// ------------------------------------------------------------------ external equivalence

fn role_name(r: fol::Role) -> &'static str {
    match r {
        fol::Role::Assumption => "assumption",
        fol::Role::Spec => "spec",
        fol::Role::Lemma => "lemma",
        fol::Role::Definition => "definition",
        fol::Role::InductiveLemma => "inductive_lemma",
    }
}

fn dir_name(d: fol::Direction) -> &'static str {
    match d {
        fol::Direction::Universal => "universal",
        fol::Direction::Forward => "forward",
        fol::Direction::Backward => "backward",
    }
}

fn anf_sexp(a: &fol::AnnotatedFormula) -> String {
    format!("({} {} {} {})", role_name(a.role), dir_name(a.direction), sexp::q(&a.name), sexp::formula(&a.formula))
}

fn spec_sexp(s: &fol::Specification) -> String {
    sexp::list(s.formulas.iter().map(anf_sexp))
}

fn ug_sexp(ug: &fol::UserGuide) -> String {
    sexp::list(ug.entries.iter().map(|e| match e {
        fol::UserGuideEntry::InputPredicate(p) => format!("(in {})", sexp::pred(p)),
        fol::UserGuideEntry::OutputPredicate(p) => format!("(out {})", sexp::pred(p)),
        fol::UserGuideEntry::PlaceholderDeclaration(d) => format!("(ph {} {})", sexp::q(&d.name), sexp::sort(&d.sort)),
        fol::UserGuideEntry::AnnotatedFormula(a) => format!("(af {})", anf_sexp(a)),
    }))
}

fn error_kind(e: &ExternalEquivalenceTaskError) -> &'static str {
    use ExternalEquivalenceTaskError::*;
    match e {
        UnsupportedFormulaRepresentation => "unsupportedFormulaRepresentation",
        NonTightProgram(_) => "nonTightProgram",
        ProgramContainsPrivateRecursion(_) => "programContainsPrivateRecursion",
        InputOutputPredicatesOverlap(_) => "inputOutputPredicatesOverlap",
        InputPredicateInRuleHead(_) => "inputPredicateInRuleHead",
        OutputPredicateInUserGuideAssumption(_) => "outputPredicateInUserGuideAssumption",
        OutputPredicateInSpecificationAssumption(_) => "outputPredicateInSpecificationAssumption",
        PlaceholdersWithIdenticalNamesDifferentSorts(_) => "placeholdersWithIdenticalNamesDifferentSorts",
        AssumptionContainsNonInputSymbols(_) => "assumptionContainsNonInputSymbols",
        SpecificationContainsUnsupportedRoles(_) => "specificationContainsUnsupportedRoles",
        ProofOutlineError(e) => match e {
            self::ProofOutlineError::AnnotatedFormulaWithInvalidRole(_) => "annotatedFormulaWithInvalidRole",
            self::ProofOutlineError::DuplicatedVariables(_) => "duplicatedVariables",
            self::ProofOutlineError::TakenPredicate(_) => "takenPredicate",
            self::ProofOutlineError::FreeRhsVariables(_) => "freeRhsVariables",
            self::ProofOutlineError::UndefinedRhsPredicate { .. } => "undefinedRhsPredicate",
            self::ProofOutlineError::DefinedPredicateVariableListMismatch(_) => "definedPredicateVariableListMismatch",
            self::ProofOutlineError::TermsInDefinition { .. } => "termsInDefinition",
            self::ProofOutlineError::MalformedInductiveLemma(_) => "malformedInductiveLemma",
            self::ProofOutlineError::MalformedInductiveAntecedent(_) => "malformedInductiveAntecedent",
            self::ProofOutlineError::MalformedInductiveVariables(_) => "malformedInductiveVariables",
            self::ProofOutlineError::MalformedInductiveTerm(_) => "malformedInductiveTerm",
            self::ProofOutlineError::MalformedDefinition(_) => "malformedDefinition",
            self::ProofOutlineError::InvalidRoleForGeneralLemma(_) => "invalidRoleForGeneralLemma",
        },
    }
}

pub struct ExtTask {
    pub origin: String,
    pub spec: either::Either<asp::Program, fol::Specification>,
    pub program: asp::Program,
    pub ug: fol::UserGuide,
    pub po: fol::Specification,
}

fn atom1(p: &str, t: fol::GeneralTerm) -> fol::Formula {
    fol::Formula::AtomicFormula(fol::AtomicFormula::Atom(fol::Atom { predicate_symbol: p.into(), terms: vec![t] }))
}

/// Task-aware generator: predicates have roles (input / output / private) and a rank so that most
/// programs are tight and free of private recursion; each condition is violated now and then.
fn gen_ext_task(rng: &mut Rng, origin: String) -> ExtTask {
    let mut g = Gen::new(rng.fork());
    g.nvars = 3 + g.rng.below(6);
    let inputs = ["in1", "in2"];
    let outputs = ["out1", "out2"];
    let privs = ["aux", "q", "r"];
    let sloppy = g.rng.chance(1, 5); // allow violations of the applicability conditions
    let depth = g.rng.below(2);
    let mut mk_program = |g: &mut Gen, privs: &[&str]| -> asp::Program {
        let nrules = 1 + g.rng.below(4);
        let mut rules = vec![];
        for _ in 0..nrules {
            // head: output or private (rarely an input when sloppy)
            let heads: Vec<&str> = outputs.iter().chain(privs.iter()).cloned().collect();
            let hname = if sloppy && g.rng.chance(1, 6) { inputs[0] } else { heads[g.rng.below(heads.len())] };
            let hrank = heads.iter().position(|x| *x == hname).unwrap_or(0);
            let arity = if hname == "out2" { 0 } else { 1 };
            let hatom = asp::Atom { predicate_symbol: hname.into(), terms: (0..arity).map(|_| g.aterm(depth)).collect() };
            let head = match g.rng.below(10) {
                0 => asp::Head::Falsity,
                1 | 2 if !privs.contains(&hname) || sloppy => asp::Head::Choice(hatom),
                _ => asp::Head::Basic(hatom),
            };
            let nb = g.rng.below(4);
            let mut body = vec![];
            for _ in 0..nb {
                if g.rng.chance(1, 3) {
                    body.push(g.abody_atom(depth));
                    if let asp::AtomicFormula::Literal(l) = body.last_mut().unwrap() {
                        l.atom.predicate_symbol = inputs[g.rng.below(2)].into();
                        l.atom.terms.truncate(1);
                        if l.atom.terms.is_empty() { l.atom.terms.push(g.aterm(0)); }
                    }
                } else {
                    // a predicate of higher rank (so that the dependency order is acyclic) unless sloppy
                    let pool: Vec<&str> = if sloppy { heads.clone() } else { heads.iter().skip(hrank + 1).cloned().chain(inputs.iter().cloned()).collect() };
                    let name = pool[g.rng.below(pool.len())];
                    // now and then a private predicate at arity 0 as well (one symbol, two arities)
                    let ar = if name == "out2" || (privs.contains(&name) && g.rng.chance(1, 12)) { 0 } else { 1 };
                    let sign = match g.rng.below(4) { 0 => asp::Sign::Negation, 1 => asp::Sign::DoubleNegation, _ => asp::Sign::NoSign };
                    body.push(asp::AtomicFormula::Literal(asp::Literal { sign, atom: asp::Atom { predicate_symbol: name.into(), terms: (0..ar).map(|_| g.aterm(depth)).collect() } }));
                }
            }
            rules.push(asp::Rule { head, body: asp::Body { formulas: body } });
        }
        asp::Program { rules }
    };
    let left_privs: Vec<&str> = match g.rng.below(5) { 0 | 1 => vec!["aux", "q"], 2 | 3 => vec!["q", "r"], _ => vec!["q", "q_p"] };
    let right_privs: Vec<&str> = match g.rng.below(5) { 0 | 1 => vec!["aux", "q"], 2 | 3 => vec!["q_p", "q"], _ => vec!["q_p1", "q_p", "q"] };
    let program = mk_program(&mut g, &right_privs);
    let _ = privs;
    // user guide
    let mut entries = vec![];
    for (i, p) in inputs.iter().enumerate() {
        if i == 0 || g.rng.chance(2, 3) {
            entries.push(fol::UserGuideEntry::InputPredicate(fol::Predicate { symbol: p.to_string(), arity: 1 }));
        }
    }
    entries.push(fol::UserGuideEntry::OutputPredicate(fol::Predicate { symbol: "out1".into(), arity: 1 }));
    if g.rng.chance(2, 3) {
        entries.push(fol::UserGuideEntry::OutputPredicate(fol::Predicate { symbol: "out2".into(), arity: 0 }));
    }
    if sloppy && g.rng.chance(1, 4) {
        entries.push(fol::UserGuideEntry::OutputPredicate(fol::Predicate { symbol: "in1".into(), arity: 1 }));
    }
    for name in ["n", "a", "c"] {
        if g.rng.chance(1, 2) {
            entries.push(fol::UserGuideEntry::PlaceholderDeclaration(fol::PlaceholderDeclaration { name: name.into(), sort: g.sort() }));
        }
    }
    if sloppy && g.rng.chance(1, 4) {
        entries.push(fol::UserGuideEntry::PlaceholderDeclaration(fol::PlaceholderDeclaration { name: "n".into(), sort: fol::Sort::Symbol }));
    }
    if g.rng.chance(1, 2) {
        let v = fol::GeneralTerm::Variable("X".into());
        let body = fol::Formula::BinaryFormula { connective: fol::BinaryConnective::Implication, lhs: Box::new(atom1("in1", v.clone())), rhs: Box::new(if sloppy && g.rng.chance(1, 3) { atom1(*g.rng.pick(&["out1", "q", "aux", "q_p"]), v) } else { fol::Formula::AtomicFormula(fol::AtomicFormula::Comparison(fol::Comparison { term: v, guards: vec![fol::Guard { relation: fol::Relation::GreaterEqual, term: fol::GeneralTerm::SymbolicTerm(fol::SymbolicTerm::Symbol("n".into())) }] })) }) };
        entries.push(fol::UserGuideEntry::AnnotatedFormula(fol::AnnotatedFormula { role: if g.rng.chance(1, 8) { fol::Role::Lemma } else { fol::Role::Assumption }, direction: *g.rng.pick(&[fol::Direction::Universal, fol::Direction::Universal, fol::Direction::Forward, fol::Direction::Backward]), name: if g.rng.chance(1, 2) { "ug_assumption".into() } else { String::new() }, formula: fol::Formula::QuantifiedFormula { quantification: fol::Quantification { quantifier: fol::Quantifier::Forall, variables: vec![fol::Variable { name: "X".into(), sort: fol::Sort::General }] }, formula: Box::new(body) } }));
    }
    if g.rng.chance(1, 8) {
        // output predicates that neither program mentions, one symbol at several arities (declared in non-sorted order)
        for ar in [2usize, 1, 0] {
            if g.rng.chance(2, 3) {
                entries.push(fol::UserGuideEntry::OutputPredicate(fol::Predicate { symbol: "miss".into(), arity: ar }));
            }
        }
    }
    if g.rng.chance(1, 8) {
        // an input predicate named like a renamed private predicate, mentioned (if at all) only by an assumption
        let name = *g.rng.pick(&["q_p", "q_p1", "q"]);
        entries.push(fol::UserGuideEntry::InputPredicate(fol::Predicate { symbol: name.into(), arity: 1 }));
        if g.rng.chance(2, 3) {
            let v = fol::GeneralTerm::Variable("X".into());
            let body = fol::Formula::BinaryFormula { connective: fol::BinaryConnective::Implication, lhs: Box::new(atom1(name, v.clone())), rhs: Box::new(atom1("in1", v)) };
            entries.push(fol::UserGuideEntry::AnnotatedFormula(fol::AnnotatedFormula { role: fol::Role::Assumption, direction: fol::Direction::Universal, name: String::new(), formula: fol::Formula::QuantifiedFormula { quantification: fol::Quantification { quantifier: fol::Quantifier::Forall, variables: vec![fol::Variable { name: "X".into(), sort: fol::Sort::General }] }, formula: Box::new(body) } }));
        }
    }
    let ug = fol::UserGuide { entries };
    // specification side
    let spec = if g.rng.chance(2, 3) {
        either::Either::Left(mk_program(&mut g, &left_privs))
    } else {
        let mut fs = vec![];
        let k = 1 + g.rng.below(3);
        for i in 0..k {
            let role = match g.rng.below(10) { 0 | 1 => fol::Role::Assumption, 2 if sloppy => fol::Role::Lemma, 3 if sloppy => fol::Role::Definition, _ => fol::Role::Spec };
            let mut gg = Gen::new(g.rng.fork());
            gg.nvars = 3;
            let d = 1 + gg.rng.below(2);
            let mut f = gg.formula(d).universal_closure();
            if role == fol::Role::Spec && gg.rng.chance(1, 5) {
                // an equivalence below a quantifier prefix (what eq-break looks at): exists X (A <-> B), forall X exists Y (A <-> B), ...
                let lhs = gg.formula(0);
                let rhs = gg.formula(1);
                let iff = fol::Formula::BinaryFormula { connective: fol::BinaryConnective::Equivalence, lhs: Box::new(lhs), rhs: Box::new(rhs) };
                let vars: Vec<fol::Variable> = iff.free_variables().into_iter().collect();
                let q1 = if gg.rng.chance(2, 3) { fol::Quantifier::Exists } else { fol::Quantifier::Forall };
                f = if vars.is_empty() { iff } else if vars.len() > 1 && gg.rng.chance(1, 2) {
                    iff.quantify(q1, vars[1..].to_vec()).quantify(fol::Quantifier::Forall, vars[..1].to_vec())
                } else { iff.quantify(q1, vars) };
            }
            // use the task's predicates
            f = rename_to_task_preds(f, role == fol::Role::Assumption && !sloppy);
            fs.push(fol::AnnotatedFormula { role, direction: *g.rng.pick(&[fol::Direction::Universal, fol::Direction::Universal, fol::Direction::Forward, fol::Direction::Backward]), name: if g.rng.chance(1, 2) { format!("s{i}") } else { String::new() }, formula: f });
        }
        either::Either::Right(fol::Specification { formulas: fs })
    };
    // proof outline
    let mut po = vec![];
    let def_heavy = g.rng.chance(1, 6);
    if def_heavy {
        // several definitions with direction annotations, names drawn from a pool of two (so that a predicate is
        // now and then defined twice, after a directional or a universal first definition), then a lemma using them
        let names = ["d", "e"];
        let nd = 2 + g.rng.below(2);
        for i in 0..nd {
            let direction = *g.rng.pick(&[fol::Direction::Universal, fol::Direction::Forward, fol::Direction::Backward]);
            let x = fol::Variable { name: "X".into(), sort: fol::Sort::General };
            let dname = names[g.rng.below(2)];
            let lhs = atom1(dname, x.clone().into());
            let rhs = match g.rng.below(3) {
                0 => atom1("in1", x.clone().into()),
                1 => fol::Formula::UnaryFormula { connective: fol::UnaryConnective::Negation, formula: Box::new(atom1("in1", x.clone().into())) },
                _ => atom1(if i > 0 { names[g.rng.below(2)] } else { "out1" }, x.clone().into()),
            };
            po.push(fol::AnnotatedFormula { role: fol::Role::Definition, direction, name: format!("df{i}"), formula: fol::Formula::QuantifiedFormula { quantification: fol::Quantification { quantifier: fol::Quantifier::Forall, variables: vec![x.clone()] }, formula: Box::new(fol::Formula::BinaryFormula { connective: fol::BinaryConnective::Equivalence, lhs: Box::new(lhs), rhs: Box::new(rhs) }) } });
        }
        let x = fol::Variable { name: "X".into(), sort: fol::Sort::General };
        po.push(fol::AnnotatedFormula { role: fol::Role::Lemma, direction: *g.rng.pick(&[fol::Direction::Universal, fol::Direction::Forward, fol::Direction::Backward]), name: "lm".into(),
            formula: fol::Formula::QuantifiedFormula { quantification: fol::Quantification { quantifier: fol::Quantifier::Forall, variables: vec![x.clone()] }, formula: Box::new(fol::Formula::BinaryFormula { connective: fol::BinaryConnective::Implication, lhs: Box::new(atom1(names[g.rng.below(2)], x.clone().into())), rhs: Box::new(atom1("out1", x.into())) }) } });
    }
    let k = if def_heavy { 0 } else { g.rng.below(4) };
    for i in 0..k {
        let direction = *g.rng.pick(&[fol::Direction::Universal, fol::Direction::Forward, fol::Direction::Backward]);
        let name = if g.rng.chance(2, 3) { format!("l{i}") } else { String::new() };
        match g.rng.below(4) {
            0 if g.rng.chance(1, 3) => {
                // binary definition: head arguments and quantified variables drawn independently (repeated head
                // variables, quantified variables missing from the head, head variables not quantified)
                let sort = if g.rng.chance(1, 4) { fol::Sort::Integer } else { fol::Sort::General };
                let mk = |n: &str| fol::Variable { name: n.into(), sort };
                let pool = ["X", "Y", "Z"];
                let a = mk(pool[g.rng.below(2)]);
                let b = mk(pool[g.rng.below(2)]);
                let vars: Vec<fol::Variable> = match g.rng.below(5) {
                    0 => vec![mk("X")],
                    1 => vec![mk("X"), mk("Y"), mk("Z")],
                    2 => vec![mk("Y"), mk("X")],
                    _ => vec![mk("X"), mk("Y")],
                };
                let lhs = fol::Formula::AtomicFormula(fol::AtomicFormula::Atom(fol::Atom { predicate_symbol: format!("def{i}"), terms: vec![a.clone().into(), b.clone().into()] }));
                let r1 = atom1("in1", mk(pool[g.rng.below(2)]).into());
                let r2 = atom1(if g.rng.chance(1, 2) { "out1" } else { "in1" }, mk(pool[g.rng.below(3)]).into());
                let rhs = if g.rng.chance(1, 3) { r1 } else { fol::Formula::BinaryFormula { connective: g.rng.pick(&[fol::BinaryConnective::Conjunction, fol::BinaryConnective::Disjunction]).clone(), lhs: Box::new(r1), rhs: Box::new(r2) } };
                po.push(fol::AnnotatedFormula { role: fol::Role::Definition, direction, name, formula: fol::Formula::QuantifiedFormula { quantification: fol::Quantification { quantifier: fol::Quantifier::Forall, variables: vars }, formula: Box::new(fol::Formula::BinaryFormula { connective: fol::BinaryConnective::Equivalence, lhs: Box::new(lhs), rhs: Box::new(rhs) }) } });
            }
            0 => {
                // definition of a fresh predicate
                let x = fol::Variable { name: "X".into(), sort: if g.rng.chance(1, 3) { fol::Sort::Integer } else { fol::Sort::General } };
                // now and then a predicate that an earlier (possibly directional) definition already defines
                let dname = if sloppy && g.rng.chance(1, 3) { "out1".to_string() } else if i > 0 && g.rng.chance(1, 3) { format!("def{}", g.rng.below(i)) } else { format!("def{i}") };
                let lhs = atom1(&dname, x.clone().into());
                let rhs = if g.rng.chance(1, 2) { atom1("in1", x.clone().into()) } else { fol::Formula::BinaryFormula { connective: fol::BinaryConnective::Conjunction, lhs: Box::new(atom1("out1", x.clone().into())), rhs: Box::new(atom1(if sloppy && g.rng.chance(1, 3) { "undefined" } else { "in1" }, if sloppy && g.rng.chance(1, 4) { fol::GeneralTerm::Variable("Y".into()) } else { x.clone().into() })) } };
                let vars = if sloppy && g.rng.chance(1, 4) { vec![x.clone(), x.clone()] } else { vec![x.clone()] };
                po.push(fol::AnnotatedFormula { role: fol::Role::Definition, direction, name, formula: fol::Formula::QuantifiedFormula { quantification: fol::Quantification { quantifier: fol::Quantifier::Forall, variables: vars }, formula: Box::new(fol::Formula::BinaryFormula { connective: fol::BinaryConnective::Equivalence, lhs: Box::new(lhs), rhs: Box::new(rhs) }) } });
            }
            1 => {
                // inductive lemma: forall N$i (N$i >= n -> F(N))
                let nvar = fol::Variable { name: "N".into(), sort: fol::Sort::Integer };
                let n = g.numeral();
                let ante = fol::Formula::AtomicFormula(fol::AtomicFormula::Comparison(fol::Comparison { term: nvar.clone().into(), guards: vec![fol::Guard { relation: if sloppy && g.rng.chance(1, 4) { fol::Relation::Greater } else { fol::Relation::GreaterEqual }, term: fol::GeneralTerm::IntegerTerm(fol::IntegerTerm::Numeral(n)) }] }));
                let body = match g.rng.below(3) {
                    0 => atom1("out1", nvar.clone().into()),
                    1 => fol::Formula::QuantifiedFormula { quantification: fol::Quantification { quantifier: fol::Quantifier::Exists, variables: vec![fol::Variable { name: "N".into(), sort: fol::Sort::Integer }] }, formula: Box::new(fol::Formula::BinaryFormula { connective: fol::BinaryConnective::Conjunction, lhs: Box::new(atom1("in1", nvar.clone().into())), rhs: Box::new(atom1("out1", nvar.clone().into())) }) },
                    _ => fol::Formula::BinaryFormula { connective: fol::BinaryConnective::Implication, lhs: Box::new(atom1("in1", nvar.clone().into())), rhs: Box::new(atom1("out1", fol::GeneralTerm::Variable("Y".into()))) },
                };
                // sometimes the other variable has the same NAME as the induction variable (general N next to N$i)
                let same_name = g.rng.chance(1, 4);
                let body = if same_name { rename_var(body, "Y", "N") } else { body };
                let other = if same_name { "N" } else { "Y" };
                let mut vars = vec![nvar];
                if body.free_variables().iter().any(|v| v.name == other && v.sort == fol::Sort::General) && !(sloppy && g.rng.chance(1, 3)) {
                    let ov = fol::Variable { name: other.into(), sort: fol::Sort::General };
                    if g.rng.chance(1, 2) { vars.insert(0, ov) } else { vars.push(ov) }
                }
                po.push(fol::AnnotatedFormula { role: fol::Role::InductiveLemma, direction, name, formula: fol::Formula::QuantifiedFormula { quantification: fol::Quantification { quantifier: fol::Quantifier::Forall, variables: vars }, formula: Box::new(fol::Formula::BinaryFormula { connective: fol::BinaryConnective::Implication, lhs: Box::new(ante), rhs: Box::new(body) }) } });
            }
            _ => {
                let mut gg = Gen::new(g.rng.fork());
                gg.nvars = 3;
                let d = 1 + gg.rng.below(2);
                let mut f = rename_to_task_preds(gg.formula(d), false);
                if g.rng.chance(1, 3) {
                    // a lemma that mentions the constant spelled like the 0-ary output predicate
                    f = fol::Formula::BinaryFormula { connective: fol::BinaryConnective::Disjunction, lhs: Box::new(f),
                        rhs: Box::new(atom1("out1", fol::GeneralTerm::SymbolicTerm(fol::SymbolicTerm::Symbol("out2".into())))) };
                }
                po.push(fol::AnnotatedFormula { role: if sloppy && g.rng.chance(1, 6) { fol::Role::Spec } else { fol::Role::Lemma }, direction, name, formula: f });
            }
        }
    }
    // one task in four is *plain*: no arithmetic, constants from a tiny pool, no proof outline - the class on which
    // the bounded search for a concrete failing input evaluates the reference semantics exactly
    let plain = !sloppy && g.rng.chance(1, 4);
    if plain {
        let program = plainify(program);
        let spec = match spec {
            either::Either::Left(p) => either::Either::Left(plainify(p)),
            other => other,
        };
        return ExtTask { origin, spec, program, ug, po: fol::Specification { formulas: vec![] } };
    }
    // In a task that meets every applicability condition, now and then ONE entry that a single acceptance check of
    // the proof outline (or of the specification) must refuse: each refusal of verifying/outline/mod.rs and the
    // output-predicate-in-assumption check is reached in an otherwise accepted task. The choices come from a
    // generator of their own (seeded by the origin), so the stream behind every other choice is unchanged.
    let mut spec = spec;
    let mut ug = ug;
    let mut program = program;
    {
        // one task in eight: the variable X of the program is called V1 or V2 - the names tau* gives its head variables,
        // which shifts their indices (completion must still find every rule of a predicate)
        let mut h: u64 = 0x51ed27a9b1c3d5e7;
        for b in origin.bytes() { h = (h ^ b as u64).wrapping_mul(0x100000001b3); }
        let mut vr = Rng::new(h);
        if vr.chance(1, 8) {
            let v = *vr.pick(&["V1", "V2", "V3"]);
            let text: String = format!("{program}").split_inclusive(|c: char| !c.is_ascii_alphanumeric()).map(|tok| {
                let (w, rest) = tok.split_at(tok.trim_end_matches(|c: char| !c.is_ascii_alphanumeric()).len());
                if w == "X" { format!("{v}{rest}") } else { tok.to_string() }
            }).collect();
            if let Ok(p) = text.parse::<asp::Program>() { program = p; }
        }
    }
    if !sloppy {
        let mut h: u64 = 0xcbf29ce484222325;
        for b in origin.bytes() { h = (h ^ b as u64).wrapping_mul(0x100000001b3); }
        let mut mr = Rng::new(h);
        if mr.chance(1, 6) {
            const MALFORMED: &[&str] = &[
                "definition: forall X X (dm(X) <-> in1(X)).",
                "definition: forall X (dm(X, 1) <-> in1(X)).",
                "definition: forall X$i (dm(X$i + 1) <-> in1(X$i)).",
                "definition: forall X (dm(a) <-> in1(X)).",
                "definition: forall X (dm(X) -> in1(X)).",
                "definition: forall X (not dm(X) <-> in1(X)).",
                "definition: forall X (X = 1 <-> in1(X)).",
                "definition: dm <-> in1(1).",
                "definition: exists X (dm(X) <-> in1(X)).",
                "definition: forall X Y (dm(X) <-> in1(X)).",
                "definition: forall X (dm(X) <-> in1(X) and in1(Y)).",
                "definition: forall X (dm(X) <-> nowhere(X)).",
                "definition: forall X (out1(X) <-> in1(X)).",
                // accepted definitions over symbol-sorted and mixed-sort variables
                "definition: forall X$s (ds(X$s) <-> in1(X$s)). lemma: forall X$s (ds(X$s) -> in1(X$s)).",
                "definition: forall X$s Y$i Z (dt(X$s, Y$i, Z) <-> in1(X$s) and in1(Y$i) and in1(Z)).",
                // the same named lemma stated again (each statement has to be proved in its own directions)
                "lemma(forward)[a]: forall X (in1(X) -> out1(X)). lemma(backward)[a]: forall X (in1(X) -> out1(X)).",
                "lemma(forward)[a]: forall X (in1(X) -> out1(X)). lemma[a]: forall X (in1(X) -> out1(X)).",
                "lemma(backward)[a]: forall X (out1(X) -> in1(X)). lemma(forward)[a]: forall X (out1(X) -> in1(X)). lemma[b]: forall X (out1(X) -> in1(X)).",
                "lemma[a]: forall X (in1(X) -> out1(X)). lemma[a]: forall X (in1(X) -> out1(X)).",
                "inductive-lemma(forward)[a]: forall N$i (N$i >= 0 -> (in1(N$i) -> out1(N$i))). inductive-lemma(backward)[a]: forall N$i (N$i >= 0 -> (in1(N$i) -> out1(N$i))).",
                // ... a private predicate of either side (taken, whichever side it occurs on), an input predicate
                "definition: forall X (aux(X) <-> in1(X)).",
                "definition: forall X (q(X) <-> in1(X)).",
                "definition: forall X (r(X) <-> in1(X)). lemma: forall X (r(X) -> in1(X)).",
                "definition: forall X (q_p(X) <-> in1(X)).",
                "definition: forall X (in2(X) <-> in1(X)).",
                "inductive-lemma: forall N$i (0 <= N$i <= 5 -> out1(N$i)).",
                "inductive-lemma: forall N (N >= 0 -> out1(N)).",
                "inductive-lemma: forall N$i (N$i + 1 >= 0 -> out1(N$i)).",
                "inductive-lemma: forall N$i (N$i > 0 -> out1(N$i)).",
                "inductive-lemma: forall N$i M$i (N$i >= M$i -> out1(N$i) or out1(M$i)).",
                "inductive-lemma: forall N$i (N$i >= a -> out1(N$i)).",
                "inductive-lemma: forall N$i (0 <= N$i -> out1(N$i)).",
                "inductive-lemma: forall N$i (in1(N$i) -> out1(N$i)).",
                "inductive-lemma: exists N$i (N$i >= 0 -> out1(N$i)).",
                "inductive-lemma: forall N$i (N$i >= 0 and out1(N$i)).",
                "inductive-lemma: out1(0).",
                "inductive-lemma: forall N$i M$i (N$i >= 0 -> out1(N$i)).",
                "inductive-lemma: forall N$i (N$i >= 0 -> in1(N$i) or out1(M$i)).",
                "inductive-lemma: forall N$i (N$i >= 0 -> out1(5)).",
                "assumption: forall X (in1(X) -> out1(X)).",
                "spec: forall X (in1(X) -> out1(X)).",
                // a definition whose predicate an earlier entry already uses (lemma or inductive lemma, any direction)
                "inductive-lemma: forall N$i (N$i >= 0 -> (dm(N$i) -> dm(N$i))). definition: forall X (dm(X) <-> in1(X)).",
                "inductive-lemma(forward): forall N$i (N$i >= 0 -> (dm(N$i) -> dm(N$i))). definition(backward): forall X (dm(X) <-> in1(X)).",
                "inductive-lemma(backward): forall N$i (N$i >= 1 -> not dm(N$i, N$i)). definition: forall X Y (dm(X, Y) <-> in1(X) and in1(Y)).",
                "lemma: forall X (dm(X) -> dm(X)). definition: forall X (dm(X) <-> in1(X)).",
                "lemma(forward): forall X (dm(X) -> dm(X)). definition(forward): forall X (dm(X) <-> in1(X)).",
                "definition: forall X (dm(X) <-> in1(X)). inductive-lemma: forall N$i (N$i >= 0 -> (dm(N$i) -> in1(N$i))). definition: forall X (dn(X) <-> dm(X)).",
            ];
            let text = *mr.pick(MALFORMED);
            if let Ok(sp) = text.parse::<fol::Specification>() {
                let at = mr.below(po.len() + 1);
                for (k, f) in sp.formulas.into_iter().enumerate() { po.insert(at + k, f); }
            }
        }
        if mr.chance(1, 8) {
            // user-given formula names spelled like the generated ones (formula_<i>_<name>), shared between entries
            const NAMES: &[&str] = &["formula_n", "formula_0_unnamed_formula", "formula_1_formula_n", "formula_0", "formula_", "unnamed_formula", "formula_2_l0"];
            for f in po.iter_mut() { if mr.chance(2, 3) { f.name = mr.pick(NAMES).to_string(); } }
            if let either::Either::Right(sp) = &mut spec {
                for f in sp.formulas.iter_mut() { if mr.chance(1, 2) { f.name = mr.pick(NAMES).to_string(); } }
            }
        }
        if mr.chance(1, 10) {
            // a user-guide assumption over something that is no input predicate of the task: an unknown predicate, a known
            // name at another arity, a predicate that only the proof outline defines (one in seven is fine)
            const UG_ASSUMPTIONS: &[&str] = &[
                "assumption: forall X (in1(X) -> nowhere(X)).",
                "assumption: forall X (in1(X) -> in1(X, X)).",
                "assumption: in1.",
                "assumption: forall X (in1(X) -> out1(X, X)).",
                "assumption: forall X (in1(X) -> dm(X)).",
                "assumption: forall X (in1(X) -> aux(X, X)).",
                "assumption: forall X (in1(X) -> X > 0 or in1(X)).",
            ];
            if let Ok(extra) = mr.pick(UG_ASSUMPTIONS).parse::<fol::UserGuide>() {
                ug.entries.extend(extra.entries);
            }
        }
        if let either::Either::Right(sp) = &mut spec {
            if mr.chance(1, 8) {
                const BAD_ASSUMPTIONS: &[&str] = &[
                    "assumption: forall X (out1(X) -> in1(X)).",
                    "assumption: out2.",
                    "assumption(forward): exists X out1(X).",
                    "assumption: forall X (in1(X) -> aux(X)).",
                    "assumption: forall X (in1(X) -> nowhere(X)).",
                    "lemma: forall X (in1(X) -> in1(X)).",
                    "definition: forall X (dm(X) <-> in1(X)).",
                ];
                if let Ok(extra) = mr.pick(BAD_ASSUMPTIONS).parse::<fol::Specification>() {
                    let at = mr.below(sp.formulas.len() + 1);
                    for f in extra.formulas { sp.formulas.insert(at, f); }
                }
            }
        }
    }
    ExtTask { origin, spec, program, ug, po: fol::Specification { formulas: po } }
}

fn plain_term(t: asp::Term) -> asp::Term {
    use asp::PrecomputedTerm as P;
    match t {
        asp::Term::Variable(v) => asp::Term::Variable(v),
        asp::Term::PrecomputedTerm(P::Numeral(n)) => asp::Term::PrecomputedTerm(P::Numeral(n.rem_euclid(2))),
        asp::Term::PrecomputedTerm(P::Symbol(s)) => asp::Term::PrecomputedTerm(P::Symbol(if ["a", "n", "c"].contains(&s.as_str()) { s } else { "a".into() })),
        asp::Term::PrecomputedTerm(p) => asp::Term::PrecomputedTerm(p),
        asp::Term::UnaryOperation { arg, .. } => plain_term(*arg),
        asp::Term::BinaryOperation { lhs, .. } => plain_term(*lhs),
    }
}

fn plainify(p: asp::Program) -> asp::Program {
    let atom = |a: asp::Atom| asp::Atom { predicate_symbol: a.predicate_symbol, terms: a.terms.into_iter().map(plain_term).collect() };
    asp::Program { rules: p.rules.into_iter().map(|r| asp::Rule {
        head: match r.head {
            asp::Head::Basic(a) => asp::Head::Basic(atom(a)),
            asp::Head::Choice(a) => asp::Head::Choice(atom(a)),
            asp::Head::Falsity => asp::Head::Falsity,
        },
        body: asp::Body { formulas: r.body.formulas.into_iter().map(|f| match f {
            asp::AtomicFormula::Literal(l) => asp::AtomicFormula::Literal(asp::Literal { sign: l.sign, atom: atom(l.atom) }),
            asp::AtomicFormula::Comparison(c) => asp::AtomicFormula::Comparison(asp::Comparison { relation: c.relation, lhs: plain_term(c.lhs), rhs: plain_term(c.rhs) }),
        }).collect() },
    }).collect() }
}

/// Writes `n` generated external-equivalence tasks (and strong-equivalence program pairs) as
/// directories of files in anthem's concrete syntax, for explorations that drive the CLI.
pub fn dump_ext(seed: u64, n: usize, out: &Path) {
    let mut rng = Rng::new(seed ^ 0xd0_0d);
    for k in 0..n {
        let t = gen_ext_task(&mut rng, format!("dump#{k}"));
        let d = out.join(format!("ext{k}"));
        std::fs::create_dir_all(&d).unwrap();
        match &t.spec {
            either::Either::Left(p) => std::fs::write(d.join("a_left.lp"), format!("{p}")).unwrap(),
            either::Either::Right(sp) => std::fs::write(d.join("a_left.spec"), format!("{sp}")).unwrap(),
        }
        std::fs::write(d.join("b_right.lp"), format!("{}", t.program)).unwrap();
        std::fs::write(d.join("c.ug"), format!("{}", t.ug)).unwrap();
        std::fs::write(d.join("d.po"), format!("{}", t.po)).unwrap();
    }
}

/// The task in a directory written by `dump_ext` (or by hand: a_left.lp | a_left.spec, b_right.lp, and for external
/// equivalence c.ug and optionally d.po), read with the real parsers, as the components of a model request:
/// `(ext SPEC PROGRAM UG PO)` or `(strong LEFT RIGHT)`; `(unreadable)` if a file does not parse.
pub fn task_sexp(dir: &Path) -> String {
    let read = |n: &str| std::fs::read_to_string(dir.join(n)).ok();
    let Some(right) = read("b_right.lp").and_then(|t| t.parse::<asp::Program>().ok()) else { return "(unreadable)".into() };
    let left_prog = read("a_left.lp").map(|t| t.parse::<asp::Program>());
    match read("c.ug") {
        None => match left_prog {
            Some(Ok(l)) => format!("(strong {} {})", sexp::program(&l), sexp::program(&right)),
            _ => "(unreadable)".into(),
        },
        Some(ugt) => {
            let Ok(ug) = ugt.parse::<fol::UserGuide>() else { return "(unreadable)".into() };
            let spec_s = match (left_prog, read("a_left.spec")) {
                (Some(Ok(l)), _) => format!("(prog {})", sexp::program(&l)),
                (None, Some(t)) => match t.parse::<fol::Specification>() { Ok(sp) => format!("(spec {})", spec_sexp(&sp)), Err(_) => return "(unreadable)".into() },
                _ => return "(unreadable)".into(),
            };
            let po = match read("d.po") {
                Some(t) => match t.parse::<fol::Specification>() { Ok(x) => x, Err(_) => return "(unreadable)".into() },
                None => fol::Specification::empty(),
            };
            format!("(ext {} {} {} {})", spec_s, sexp::program(&right), ug_sexp(&ug), spec_sexp(&po))
        }
    }
}

fn rename_var(f: fol::Formula, from: &str, to: &str) -> fol::Formula {
    f.substitute(fol::Variable { name: from.into(), sort: fol::Sort::General }, fol::GeneralTerm::Variable(to.into()))
}

/// map the generic predicate names of the formula generator onto the task vocabulary
fn rename_to_task_preds(f: fol::Formula, inputs_only: bool) -> fol::Formula {
    use anthem::convenience::apply::Apply as _;
    f.apply(&mut |g| match g {
        fol::Formula::AtomicFormula(fol::AtomicFormula::Atom(mut a)) => {
            let name = if inputs_only { "in1" } else {
                match a.predicate_symbol.as_str() { "p" => "out1", "q" => "in1", "r" => "in2", "s" => "aux", _ => "out1" }
            };
            a.predicate_symbol = name.into();
            a.terms.truncate(1);
            if a.terms.is_empty() { a.terms.push(fol::GeneralTerm::Variable("X".into())); }
            fol::Formula::AtomicFormula(fol::AtomicFormula::Atom(a))
        }
        x => x,
    })
}

fn example_tasks() -> Vec<ExtTask> {
    let mut out = vec![];
    let root = std::path::Path::new("/repo/res/examples/external_equivalence");
    let mut dirs: Vec<std::path::PathBuf> = vec![];
    fn walk(d: &std::path::Path, out: &mut Vec<std::path::PathBuf>) {
        if let Ok(rd) = std::fs::read_dir(d) {
            let mut es: Vec<_> = rd.filter_map(|e| e.ok()).map(|e| e.path()).collect();
            es.sort();
            if es.iter().any(|p| p.extension().map(|x| x == "ug").unwrap_or(false)) { out.push(d.to_path_buf()); }
            for e in es { if e.is_dir() && e.file_name().map(|n| n != "out").unwrap_or(true) { walk(&e, out); } }
        }
    }
    walk(root, &mut dirs);
    for d in dirs {
        let Ok(files) = Files::sort(vec![d.clone()]) else { continue };
        let (Some(spec), Some(prog), Some(ug)) = (files.specification(), files.program(), files.user_guide()) else { continue };
        let spec = match spec {
            either::Either::Left(p) => match asp::Program::from_file(p) { Ok(x) => either::Either::Left(x), Err(_) => continue },
            either::Either::Right(p) => match fol::Specification::from_file(p) { Ok(x) => either::Either::Right(x), Err(_) => continue },
        };
        let Ok(program) = asp::Program::from_file(prog) else { continue };
        let Ok(ug) = fol::UserGuide::from_file(ug) else { continue };
        let po = files.proof_outline().and_then(|p| fol::Specification::from_file(p).ok()).unwrap_or_else(fol::Specification::empty);
        out.push(ExtTask { origin: format!("example:{}", d.display()), spec, program, ug, po });
    }
    out
}

struct Flags { dec: Decomposition, dir: fol::Direction, simplify: bool, brk: bool }

fn corpus_ext_tasks(corpus: Option<&Path>) -> Vec<(ExtTask, Flags)> {
    let mut out = vec![];
    for l in corpus_lines(corpus, "external") {
        let parts: Vec<&str> = l.split(";;").map(str::trim).collect();
        if parts.len() != 6 { continue; }
        let spec = if let Some(t) = parts[1].strip_prefix("prog:") {
            match t.parse::<asp::Program>() { Ok(p) => either::Either::Left(p), Err(_) => continue }
        } else if let Some(t) = parts[1].strip_prefix("spec:") {
            match t.parse::<fol::Specification>() { Ok(p) => either::Either::Right(p), Err(_) => continue }
        } else { continue };
        let (Ok(program), Ok(ug), Ok(po)) = (parts[2].parse::<asp::Program>(), parts[3].parse::<fol::UserGuide>(), parts[4].parse::<fol::Specification>()) else { continue };
        let fl: Vec<&str> = parts[5].split_whitespace().collect();
        if fl.len() != 4 { continue; }
        let flags = Flags {
            dec: if fl[0] == "independent" { Decomposition::Independent } else { Decomposition::Sequential },
            dir: match fl[1] { "forward" => fol::Direction::Forward, "backward" => fol::Direction::Backward, _ => fol::Direction::Universal },
            simplify: fl[2] == "true", brk: fl[3] == "true" };
        out.push((ExtTask { origin: format!("corpus:{}", parts[0]), spec, program, ug, po }, flags));
    }
    out
}

fn external(seed: u64, n: usize, corpus: Option<&Path>, text: bool) -> Vec<Case> {
    let mut cases = vec![];
    let mut rng = Rng::new(seed ^ 0x88);
    let mut fixed: Vec<(ExtTask, Option<Flags>)> = corpus_ext_tasks(corpus).into_iter().map(|(t, f)| (t, Some(f))).collect();
    fixed.extend(example_tasks().into_iter().map(|t| (t, None)));
    let mut tasks: Vec<(ExtTask, Option<Flags>)> = fixed;
    for i in 0..n {
        tasks.push((gen_ext_task(&mut rng, format!("seed:{seed}:{i}")), None));
    }
    for (t, flags) in tasks {
        let mut dec = if rng.chance(1, 2) { Decomposition::Independent } else { Decomposition::Sequential };
        let mut dir = *rng.pick(&[fol::Direction::Universal, fol::Direction::Universal, fol::Direction::Forward, fol::Direction::Backward]);
        let mut rep = if rng.chance(1, 25) { FormulaRepresentation::Mu } else { FormulaRepresentation::TauStar };
        let mut bypass = rng.chance(1, 4);
        let mut simplify = rng.chance(1, 2);
        let mut brk = rng.chance(1, 2);
        if let Some(f) = flags {
            dec = f.dec; dir = f.dir; simplify = f.simplify; brk = f.brk; bypass = false; rep = FormulaRepresentation::TauStar;
        }
        let spec_s = match &t.spec {
            either::Either::Left(p) => format!("(prog {})", sexp::program(p)),
            either::Either::Right(s) => format!("(spec {})", spec_sexp(s)),
        };
        let req = format!(
            "({} {} {} {} {} {} {} {} {} {} {} {PASS_BOUND})",
            if text { "external_text" } else { "external" },
            spec_s, sexp::program(&t.program), ug_sexp(&t.ug), spec_sexp(&t.po),
            if dec == Decomposition::Independent { "independent" } else { "sequential" },
            dir_name(dir),
            match rep { FormulaRepresentation::Mu => "mu", FormulaRepresentation::TauStar => "tau_star" },
            bypass, simplify, brk);
        let imp = guarded(move || {
            let task = ExternalEquivalenceTask { specification: t.spec, program: t.program, user_guide: t.ug, proof_outline: t.po, decomposition: dec, direction: dir, formula_representation: rep, bypass_tightness: bypass, simplify, break_equivalences: brk };
            match task.decompose() {
                Ok(w) if text => sexp::list(w.data.iter().map(|p| format!("({} {})", sexp::q(&p.name), sexp::q(&p.to_string())))),
                Ok(w) => sexp::list(w.data.iter().map(problem_sexp)),
                Err(e) => format!("(error {})", error_kind(&e)),
            }
        });
        let nontrivial = !imp.starts_with("(error");
        cases.push(Case { req, nontrivial, imp, tag: if text { "external_text" } else { "external" }, origin: t.origin });
    }
    cases
}

// ------------------------------------------------------------------ files

#[derive(Clone)]
enum FT { File(String), Dir(String, Vec<FT>), Link(String) }

fn ft_sexp(t: &FT) -> String {
    match t {
        FT::File(n) => format!("(f {})", sexp::q(n)),
        FT::Dir(n, cs) => format!("(d {} {})", sexp::q(n), sexp::list(cs.iter().map(ft_sexp))),
        FT::Link(n) => format!("(l {})", sexp::q(n)),
    }
}

fn ft_create(root: &Path, t: &FT) {
    match t {
        FT::Link(n) => {
            // a symbolic link to a regular file that lies outside every argument
            let target = std::env::current_dir().unwrap().join("work").join("files_link_target.lp");
            if !target.exists() { let _ = std::fs::write(&target, ""); }
            #[cfg(unix)]
            { let _ = std::os::unix::fs::symlink(&target, root.join(n)); }
        }
        FT::File(n) => { std::fs::write(root.join(n), "").unwrap(); }
        FT::Dir(n, cs) => {
            let d = root.join(n);
            std::fs::create_dir_all(&d).unwrap();
            for c in cs { ft_create(&d, c); }
        }
    }
}

fn gen_ft(rng: &mut Rng, depth: usize, used: &mut Vec<String>) -> FT {
    const STEMS: &[&str] = &["a", "b", "prog", "z", "A", "x1", "x10", "x2", "left", "right", "m.n", "", ".hidden", "lp", "spec"];
    const EXTS: &[&str] = &[".lp", ".lp", ".lp", ".spec", ".ug", ".po", ".txt", "", ".LP", ".lp.bak", ".", ".po.lp"];
    loop {
        let name = format!("{}{}", rng.pick(STEMS), rng.pick(EXTS));
        if name.is_empty() || name == "." || name == ".." || used.contains(&name) { continue; }
        used.push(name.clone());
        if rng.chance(1, 12) {
            return FT::Link(name);
        }
        if depth > 0 && rng.chance(1, 4) {
            let k = rng.below(5);
            let mut inner = vec![];
            let cs = (0..k).map(|_| gen_ft(rng, depth - 1, &mut inner)).collect();
            return FT::Dir(name, cs);
        }
        return FT::File(name);
    }
}

fn files(seed: u64, n: usize) -> Vec<Case> {
    let mut cases = vec![];
    let mut rng = Rng::new(seed ^ 0x99AA);
    let scratch = std::env::current_dir().unwrap().join("work").join(format!("files_scratch_{}", std::process::id()));
    for i in 0..n {
        let root = scratch.join(format!("c{i}"));
        std::fs::create_dir_all(&root).unwrap();
        let k = 1 + rng.below(5);
        let mut used = vec![];
        let mut args: Vec<FT> = (0..k).map(|_| gen_ft(&mut rng, 2, &mut used)).collect();
        for a in &args { ft_create(&root, a); }
        // one case in five names one of its arguments a second time (the same path twice is two visits: `a.lp a.lp b.lp`
        // compares a.lp with itself); read off the generator state, no extra draw
        if rng.0 % 5 == 0 {
            let j = (rng.0 / 5) as usize % args.len();
            let at = (rng.0 / 64) as usize % (args.len() + 1);
            let dup = args[j].clone();
            args.insert(at, dup);
        }
        let req = format!("(files_sort {})", sexp::list(args.iter().map(ft_sexp)));
        let paths: Vec<std::path::PathBuf> = args.iter().map(|a| root.join(match a { FT::File(n) | FT::Dir(n, _) | FT::Link(n) => n })).collect();
        let rootc = root.clone();
        let imp = guarded(move || {
            let rel = |p: &std::path::PathBuf| sexp::q(&p.strip_prefix(&rootc).unwrap().to_string_lossy());
            let opt = |p: Option<&std::path::PathBuf>| p.map(rel).unwrap_or_else(|| "none".into());
            match Files::sort(paths) {
                Ok(f) => format!("({} {} {} {} {} {} {} {} {} {} {})",
                    sexp::list(f.programs.iter().map(rel)), sexp::list(f.specifications.iter().map(rel)),
                    sexp::list(f.user_guides.iter().map(rel)), sexp::list(f.proof_outlines.iter().map(rel)),
                    sexp::list(f.other.iter().map(rel)), opt(f.left()), opt(f.right()),
                    match f.specification() { Some(either::Either::Right(s)) => format!("(spec {})", rel(s)), Some(either::Either::Left(p)) => format!("(prog {})", rel(p)), None => "none".into() },
                    opt(f.program()), opt(f.user_guide()), opt(f.proof_outline())),
                Err(_) => "(error)".into(),
            }
        });
        let _ = std::fs::remove_dir_all(&root);
        cases.push(Case { req, nontrivial: true, imp, tag: "files", origin: format!("seed:{seed}:{i}") });
    }
    let _ = std::fs::remove_dir_all(&scratch);
    cases
}

// ------------------------------------------------------------------ SZS status

fn status(seed: u64, n: usize) -> Vec<Case> {
    use anthem::verif::prover::{Failure, Status, StatusExtractionError, Success};
    use std::str::FromStr;
    let mut cases = vec![];
    let mut rng = Rng::new(seed ^ 0x5757);
    const WORDS: &[&str] = &["Theorem", "Theorem", "CounterSatisfiable", "ContradictoryAxioms", "Timeout", "MemoryOut", "GaveUp", "Error", "Unknown", "Theorems", "theorem", "Satisfiable", "", "Theo rem", "Theorem_1", "Th\u{e9}orem"];
    const PIECES: &[&str] = &["% ", "SZS status ", "SZS  status ", "SZS status", " for ", " for", "for ", "\n", "% Refutation found.\n", "forward_0", "backward_problem_1", "", " ", "SZS status Theorem", "szs status Theorem for x", "\t", "% SZS output start\n"];
    for i in 0..n {
        let mut out = String::new();
        let k = rng.below(5);
        for _ in 0..k {
            match rng.below(4) {
                0 | 1 => out.push_str(&format!("{}SZS status {} for {}\n", if rng.chance(1, 2) { "% " } else { "" }, rng.pick(WORDS), rng.pick(&["forward_0", "p", "", "a b"]))),
                _ => { for _ in 0..(1 + rng.below(4)) { let a: &str = *rng.pick(PIECES); out.push_str(a); let b: &str = *rng.pick(WORDS); out.push_str(b); } }
            }
        }
        let o = out.clone();
        let imp = guarded(move || match Status::from_str(&o) {
            Ok(Status::Success(Success::Theorem)) => "(ok theorem)".into(),
            Ok(Status::Success(Success::CounterSatisfiable)) => "(ok counterSatisfiable)".into(),
            Ok(Status::Success(Success::ContradictoryAxioms)) => "(ok contradictoryAxioms)".into(),
            Ok(Status::Failure(Failure::TimeOut)) => "(ok timeout)".into(),
            Ok(Status::Failure(Failure::MemoryOut)) => "(ok memoryOut)".into(),
            Ok(Status::Failure(Failure::GaveUp)) => "(ok gaveUp)".into(),
            Ok(Status::Failure(Failure::Error)) => "(ok error)".into(),
            Err(StatusExtractionError::Missing) => "missing".into(),
            Err(StatusExtractionError::Unknown(w)) => format!("(unknown {})", sexp::q(&w)),
        });
        cases.push(Case { req: format!("(status_of {})", sexp::q(&out)), nontrivial: imp != "missing", imp, tag: "status", origin: format!("seed:{seed}:{i}") });
    }
    cases
}

// ------------------------------------------------------------------ printers

fn print(seed: u64, n: usize, corpus: Option<&Path>) -> Vec<Case> {
    let mut cases = vec![];
    for (origin, p) in programs(seed ^ 0xA1, n / 3, corpus, &["programs"]) {
        let input = sexp::program(&p);
        let imp = guarded(move || sexp::q(&p.to_string()));
        cases.push(Case { req: format!("(print_program {input})"), nontrivial: true, imp, tag: "print_program", origin });
    }
    for (origin, f) in formulas(seed ^ 0xA2, n / 3, corpus, &["formulas"]) {
        let input = sexp::formula(&f);
        let imp = guarded(move || sexp::q(&f.to_string()));
        cases.push(Case { req: format!("(print_formula {input})"), nontrivial: true, imp, tag: "print_formula", origin });
    }
    let mut rng = Rng::new(seed ^ 0xA3);
    for i in 0..n / 3 {
        let t = gen_ext_task(&mut rng, format!("seed:{seed}:{i}"));
        let ug = t.ug.clone();
        let imp = guarded(move || sexp::q(&ug.to_string()));
        cases.push(Case { req: format!("(print_ug {})", ug_sexp(&t.ug)), nontrivial: true, imp, tag: "print_ug", origin: t.origin.clone() });
        let po = t.po.clone();
        let imp = guarded(move || sexp::q(&po.to_string()));
        cases.push(Case { req: format!("(print_spec {})", spec_sexp(&t.po)), nontrivial: true, imp, tag: "print_spec", origin: t.origin.clone() });
    }
    // facts over deep terms (depth up to 5: three and more operators along one spine, chains of unary minus), which the
    // program generator (depth <= 2) never builds; a generator of their own, after all other cases
    let mut drng = Rng::new(seed ^ 0xDEE9_7E47);
    for i in 0..(n / 8).max(40) {
        let mut g = Gen::new(drng.fork());
        g.nvars = 4;
        let depth = 3 + g.rng.below(3);
        let t = g.aterm(depth);
        let p = asp::Program { rules: vec![asp::Rule { head: asp::Head::Basic(asp::Atom { predicate_symbol: "p".into(), terms: vec![t] }), body: asp::Body { formulas: vec![] } }] };
        let input = sexp::program(&p);
        let imp = guarded(move || sexp::q(&p.to_string()));
        cases.push(Case { req: format!("(print_program {input})"), nontrivial: true, imp, tag: "print_program", origin: format!("deep:{seed}:{i}") });
    }
    cases
}

// ------------------------------------------------------------------ the mini-gringo parser itself

/// Spacing variants of a program text: extra blanks / newlines / comments at token boundaries, blanks removed.
fn respace(text: &str, rng: &mut Rng) -> String {
    let mut out = String::new();
    let chars: Vec<char> = text.chars().collect();
    for (i, &c) in chars.iter().enumerate() {
        let boundary = matches!(c, '(' | ')' | ',' | ';' | '{' | '}' | '=' | '<' | '>' | '+' | '*' | '/' | '\\' | ':' | '-')
            || (c == '.' && (i + 1 == chars.len() || chars[i + 1] == '\n'));
        if boundary && rng.chance(1, 6) {
            let w: &str = *rng.pick(&[" ", "  ", "\n", " % c\n", "\r\n", " %\n"]); out.push_str(w);
        }
        if c == ' ' && rng.chance(1, 4) {
            match rng.below(4) { 0 => {} , 1 => out.push_str("  "), 2 => out.push_str(" \n "), _ => out.push_str(" % not -1 ..\n") }
            continue;
        }
        out.push(c);
    }
    out
}

/// Near-miss texts: one or two character-level edits of an accepted text.
fn near_miss(text: &str, rng: &mut Rng) -> String {
    let mut chars: Vec<char> = text.chars().collect();
    for _ in 0..(1 + rng.below(2)) {
        if chars.is_empty() { break; }
        let i = rng.below(chars.len());
        match rng.below(5) {
            0 => { chars.remove(i); }
            1 => { let c = chars[i]; chars.insert(i, c); }
            2 => { let j = rng.below(chars.len()); chars.swap(i, j); }
            3 => { chars.insert(i, *rng.pick(&['-', '.', '(', ')', ' ', '0', '_', 'n', '#', '%', '{', '}', ',', ';', '=', '!', '<', 'X', 'a', '1', ':'])); }
            _ => { chars[i] = *rng.pick(&['-', '.', '(', ')', ' ', '0', '_', '#', ',', ';', '=', '<', '>', '\\', '/', '*', '+']); }
        }
    }
    chars.into_iter().collect()
}

/// `text.parse::<Program>()` against the Lean model of the grammar and the tree builder: accepted or not, and the tree.
fn asp_parse(seed: u64, n: usize, corpus: Option<&Path>) -> Vec<Case> {
    let mut texts: Vec<(String, String)> = vec![];
    for l in corpus_lines(corpus, "asp_texts") {
        texts.push((format!("corpus:{l}"), l.replace("\\n", "\n").replace("\\s", " ").replace("\\h", "#").replace("\\r", "\r")));
    }
    let mut rng = Rng::new(seed ^ 0xA5B0);
    for (origin, p) in programs(seed ^ 0xA5B1, n / 2, corpus, &["programs"]) {
        let printed = p.to_string();
        let verbose: String = p.rules.iter().map(crate::roundtrip::v_rule).collect::<Vec<_>>().join("\n");
        match rng.below(6) {
            0 => texts.push((origin, printed)),
            1 => texts.push((origin, verbose)),
            2 => texts.push((origin, respace(&printed, &mut rng))),
            3 => texts.push((origin, respace(&verbose, &mut rng))),
            4 => texts.push((origin, near_miss(&printed, &mut rng))),
            _ => { let t = respace(&printed, &mut rng); texts.push((origin, near_miss(&t, &mut rng))) }
        }
    }
    let mut cases = vec![];
    for (origin, text) in texts {
        let t = text.clone();
        let imp = guarded(move || match t.parse::<asp::Program>() {
            Ok(p) => format!("(ok {})", sexp::program(&p)),
            Err(_) => "(error)".to_string(),
        });
        cases.push(Case { req: format!("(asp_parse {})", sexp::q(&text)), nontrivial: imp != "(error)", imp, tag: "asp_parse", origin });
    }
    cases
}

// ------------------------------------------------------------------ the target-language parsers

/// `parse::<Theory>()`, `parse::<Specification>()`, `parse::<UserGuide>()` against the Lean model of the grammar.
fn fol_parse(seed: u64, n: usize, corpus: Option<&Path>) -> Vec<Case> {
    let mut texts: Vec<(String, &'static str, String)> = vec![];
    let unesc = |l: &str| l.replace("\\n", "\n").replace("\\s", " ").replace("\\h", "#").replace("\\r", "\r");
    for l in corpus_lines(corpus, "fol_texts") {
        let (kind, text) = if let Some(t) = l.strip_prefix("spec;;") { ("spec", t) } else if let Some(t) = l.strip_prefix("ug;;") { ("ug", t) } else if let Some(t) = l.strip_prefix("theory;;") { ("theory", t) } else { ("theory", l.as_str()) };
        texts.push((format!("corpus:{l}"), kind, unesc(text.trim())));
    }
    let mut rng = Rng::new(seed ^ 0xF0B0);
    let vary = |text: String, rng: &mut Rng| -> String {
        match rng.below(5) { 0 | 1 => text, 2 => respace(&text, rng), 3 => near_miss(&text, rng), _ => { let t = respace(&text, rng); near_miss(&t, rng) } }
    };
    for (origin, f) in formulas(seed ^ 0xF0B1, n / 2, corpus, &["formulas"]) {
        let printed = format!("{f}.");
        let verbose = format!("{}.", crate::roundtrip::v_formula(&f));
        let t = if rng.chance(1, 3) { verbose } else { printed };
        texts.push((origin, "theory", vary(t, &mut rng)));
    }
    for i in 0..n / 4 {
        let t = gen_ext_task(&mut rng, format!("seed:{seed}:{i}"));
        texts.push((t.origin.clone(), "ug", vary(t.ug.to_string(), &mut rng)));
        texts.push((t.origin.clone(), "spec", vary(t.po.to_string(), &mut rng)));
        if let either::Either::Right(sp) = &t.spec {
            texts.push((t.origin.clone(), "spec", vary(sp.to_string(), &mut rng)));
        }
    }
    let mut cases = vec![];
    for (origin, kind, text) in texts {
        let t = text.clone();
        let imp = guarded(move || match kind {
            "theory" => match t.parse::<fol::Theory>() { Ok(x) => format!("(ok {})", sexp::theory(&x)), Err(_) => "(error)".to_string() },
            "spec" => match t.parse::<fol::Specification>() { Ok(x) => format!("(ok {})", spec_sexp(&x)), Err(_) => "(error)".to_string() },
            _ => match t.parse::<fol::UserGuide>() { Ok(x) => format!("(ok {})", ug_sexp(&x)), Err(_) => "(error)".to_string() },
        });
        cases.push(Case { req: format!("(fol_parse {kind} {})", sexp::q(&text)), nontrivial: imp != "(error)", imp, tag: "fol_parse", origin });
    }
    cases
}

// ------------------------------------------------------------------ Problem::decompose on random problems

fn decompose(seed: u64, n: usize) -> Vec<Case> {
    let mut cases = vec![];
    let mut rng = Rng::new(seed ^ 0xDEC0);
    for i in 0..n {
        let mut g = Gen::new(rng.fork());
        g.nvars = 3;
        let nax = match g.rng.below(4) { 0 => 0, 1 => 1, _ => 1 + g.rng.below(3) };
        let ncj = g.rng.below(4);
        let mut formulas = vec![];
        // axioms and conjectures interleaved in random order, names sometimes empty / underscore-led
        let mut roles: Vec<problem::Role> = (0..nax).map(|_| problem::Role::Axiom).chain((0..ncj).map(|_| problem::Role::Conjecture)).collect();
        for k in (1..roles.len()).rev() { let j = g.rng.below(k + 1); roles.swap(k, j); }
        for (k, role) in roles.into_iter().enumerate() {
            let name = match g.rng.below(5) { 0 => String::new(), 1 => format!("_f{k}"), _ => format!("f{k}") };
            formulas.push(problem::AnnotatedFormula { name, role, formula: g.formula(1) });
        }
        let p = problem::Problem::with_name("prob").add_annotated_formulas(formulas);
        let dec = if g.rng.chance(1, 2) { Decomposition::Independent } else { Decomposition::Sequential };
        let req = format!("(decompose {} {})", problem_sexp(&p), if dec == Decomposition::Independent { "independent" } else { "sequential" });
        let imp = guarded(move || sexp::list(p.decompose(dec).iter().map(problem_sexp)));
        cases.push(Case { req, nontrivial: imp != "()", imp, tag: "decompose", origin: format!("seed:{seed}:{i}") });
    }
    cases
}
