//! One function per correspondence suite. A suite produces cases: the request sent to the model
//! driver and the implementation's own answer in the same wire format.
use crate::{Case, generate::Gen, rng::Rng, sexp};
use anthem::{
    syntax_tree::{asp::mini_gringo as asp, fol::sigma_0 as fol},
    translating::classical_reduction::gamma::Gamma as _,
};
use std::{panic::catch_unwind, path::Path};

fn guarded(f: impl FnOnce() -> String + std::panic::UnwindSafe) -> String {
    match catch_unwind(f) {
        Ok(s) => s,
        Err(_) => "(panic)".to_string(),
    }
}

/// Corpus file: one entry per line, `#` comments; text in anthem's own concrete syntax.
fn corpus_lines(dir: Option<&Path>, name: &str) -> Vec<String> {
    let Some(dir) = dir else { return vec![] };
    let Ok(text) = std::fs::read_to_string(dir.join(format!("{name}.txt"))) else { return vec![] };
    text.lines()
        .map(str::trim)
        .filter(|l| !l.is_empty() && !l.starts_with('#'))
        .map(String::from)
        .collect()
}

fn corpus_formulas(dir: Option<&Path>, name: &str) -> Vec<(String, fol::Formula)> {
    corpus_lines(dir, name)
        .into_iter()
        .filter_map(|l| l.parse::<fol::Formula>().ok().map(|f| (format!("corpus:{l}"), f)))
        .collect()
}

fn formulas(seed: u64, n: usize, corpus: Option<&Path>, names: &[&str]) -> Vec<(String, fol::Formula)> {
    let mut out = vec![];
    for name in names {
        out.extend(corpus_formulas(corpus, name));
    }
    let mut rng = Rng::new(seed);
    for i in 0..n {
        let mut g = Gen::new(rng.fork());
        g.nvars = 3 + g.rng.below(10);
        g.npreds = 2 + g.rng.below(5);
        let depth = 1 + g.rng.below(5);
        out.push((format!("seed:{seed}:{i}"), g.formula(depth)));
    }
    out
}

pub fn run(suite: &str, seed: u64, n: usize, corpus: Option<&Path>) -> Vec<Case> {
    match suite {
        "echo" => echo(seed, n, corpus),
        "gamma" => gamma(seed, n, corpus),
        _ => {
            eprintln!("unknown suite {suite}");
            std::process::exit(2)
        }
    }
}

fn echo(seed: u64, n: usize, corpus: Option<&Path>) -> Vec<Case> {
    let mut cases = vec![];
    for (origin, f) in formulas(seed, n / 2, corpus, &["formulas"]) {
        let s = sexp::formula(&f);
        cases.push(Case { req: format!("(echo_formula {s})"), imp: s, nontrivial: true, tag: "formula", origin });
    }
    let mut rng = Rng::new(seed ^ 0xABCD);
    for i in 0..n / 2 {
        let mut g = Gen::new(rng.fork());
        let p: asp::Program = g.program(4, 2);
        let s = sexp::program(&p);
        cases.push(Case { req: format!("(echo_program {s})"), imp: s, nontrivial: true, tag: "program", origin: format!("seed:{seed}:{i}") });
    }
    cases
}

fn gamma(seed: u64, n: usize, corpus: Option<&Path>) -> Vec<Case> {
    formulas(seed, n, corpus, &["formulas", "gamma"])
        .into_iter()
        .map(|(origin, f)| {
            let input = sexp::formula(&f);
            let g = f.clone();
            let imp = guarded(move || sexp::formula(&g.gamma()));
            Case { req: format!("(gamma {input})"), nontrivial: imp != input, imp, tag: "gamma", origin }
        })
        .collect()
}
