//! One function per correspondence suite. A suite produces cases: the request sent to the model
//! driver and the implementation's own answer in the same wire format.
use crate::{Case, generate::Gen, rng::Rng, sexp};
use anthem::{
    convenience::{apply::Apply as _, compose::Compose as _},
    syntax_tree::{asp::mini_gringo as asp, fol::sigma_0 as fol},
    translating::classical_reduction::gamma::Gamma as _,
    verif::simplifying_fol::sigma_0::{classic, ht, intuitionistic},
};

pub const PASS_BOUND: usize = 64;

type Rewrite = fn(fol::Formula) -> fol::Formula;

pub fn rewrites() -> Vec<(&'static str, Rewrite)> {
    vec![
        ("evaluate_comparisons", intuitionistic::evaluate_comparisons),
        ("apply_negation_definition_inverse", intuitionistic::apply_negation_definition_inverse),
        ("apply_reverse_implication_definition", intuitionistic::apply_reverse_implication_definition),
        ("apply_equivalence_definition_inverse", intuitionistic::apply_equivalence_definition_inverse),
        ("remove_identities", intuitionistic::remove_identities),
        ("remove_annihilations", intuitionistic::remove_annihilations),
        ("remove_idempotences", intuitionistic::remove_idempotences),
        ("remove_orphaned_variables", intuitionistic::remove_orphaned_variables),
        ("remove_empty_quantifications", intuitionistic::remove_empty_quantifications),
        ("join_nested_quantifiers", intuitionistic::join_nested_quantifiers),
        ("remove_double_negation", classic::CLASSIC[0]),
        ("substitute_defined_variables", classic::CLASSIC[1]),
        ("restrict_quantifier_domain", classic::CLASSIC[2]),
        ("extend_quantifier_scope", classic::CLASSIC[3]),
        ("simplify_transitive_equality", classic::CLASSIC[4]),
    ]
}

/// The concatenations built by `procedures.rs` / the verification tasks.
pub fn portfolio(name: &str) -> Vec<Rewrite> {
    match name {
        "intuitionistic" => [intuitionistic::INTUITIONISTIC].concat(),
        "ht" => [intuitionistic::INTUITIONISTIC, ht::HT].concat(),
        _ => [intuitionistic::INTUITIONISTIC, ht::HT, classic::CLASSIC].concat(),
    }
}
use std::{panic::catch_unwind, path::Path};

fn guarded(f: impl FnOnce() -> String + std::panic::UnwindSafe) -> String {
    match catch_unwind(f) {
        Ok(s) => s,
        Err(_) => "(panic)".to_string(),
    }
}

/// Corpus file: one entry per line, `#` comments; text in anthem's own concrete syntax.
fn corpus_lines(dir: Option<&Path>, name: &str) -> Vec<String> {
    let Some(dir) = dir else { return vec![] };
    let Ok(text) = std::fs::read_to_string(dir.join(format!("{name}.txt"))) else { return vec![] };
    text.lines()
        .map(str::trim)
        .filter(|l| !l.is_empty() && !l.starts_with('#'))
        .map(String::from)
        .collect()
}

fn corpus_formulas(dir: Option<&Path>, name: &str) -> Vec<(String, fol::Formula)> {
    corpus_lines(dir, name)
        .into_iter()
        .filter_map(|l| l.parse::<fol::Formula>().ok().map(|f| (format!("corpus:{l}"), f)))
        .collect()
}

fn formulas(seed: u64, n: usize, corpus: Option<&Path>, names: &[&str]) -> Vec<(String, fol::Formula)> {
    let mut out = vec![];
    for name in names {
        out.extend(corpus_formulas(corpus, name));
    }
    let mut rng = Rng::new(seed);
    for i in 0..n {
        let mut g = Gen::new(rng.fork());
        g.nvars = 3 + g.rng.below(10);
        g.npreds = 2 + g.rng.below(5);
        let depth = 1 + g.rng.below(5);
        out.push((format!("seed:{seed}:{i}"), g.formula(depth)));
    }
    out
}

pub fn run(suite: &str, seed: u64, n: usize, corpus: Option<&Path>) -> Vec<Case> {
    match suite {
        "echo" => echo(seed, n, corpus),
        "gamma" => gamma(seed, n, corpus),
        "substitute" => substitute(seed, n, corpus),
        "rewrite" => rewrite(seed, n, corpus),
        "simplify" => simplify(seed, n, corpus),
        _ => {
            eprintln!("unknown suite {suite}");
            std::process::exit(2)
        }
    }
}

fn echo(seed: u64, n: usize, corpus: Option<&Path>) -> Vec<Case> {
    let mut cases = vec![];
    for (origin, f) in formulas(seed, n / 2, corpus, &["formulas"]) {
        let s = sexp::formula(&f);
        cases.push(Case { req: format!("(echo_formula {s})"), imp: s, nontrivial: true, tag: "formula", origin });
    }
    let mut rng = Rng::new(seed ^ 0xABCD);
    for i in 0..n / 2 {
        let mut g = Gen::new(rng.fork());
        let p: asp::Program = g.program(4, 2);
        let s = sexp::program(&p);
        cases.push(Case { req: format!("(echo_program {s})"), imp: s, nontrivial: true, tag: "program", origin: format!("seed:{seed}:{i}") });
    }
    cases
}

fn gamma(seed: u64, n: usize, corpus: Option<&Path>) -> Vec<Case> {
    formulas(seed, n, corpus, &["formulas", "gamma"])
        .into_iter()
        .map(|(origin, f)| {
            let input = sexp::formula(&f);
            let g = f.clone();
            let imp = guarded(move || sexp::formula(&g.gamma()));
            Case { req: format!("(gamma {input})"), nontrivial: imp != input, imp, tag: "gamma", origin }
        })
        .collect()
}

fn substitute(seed: u64, n: usize, corpus: Option<&Path>) -> Vec<Case> {
    let mut cases = vec![];
    // corpus: `formula ;; variable ;; term`
    let mut triples: Vec<(String, fol::Formula, fol::Variable, fol::GeneralTerm)> = vec![];
    for l in corpus_lines(corpus, "substitute") {
        let parts: Vec<&str> = l.split(";;").map(str::trim).collect();
        if parts.len() == 3 {
            if let (Ok(f), Ok(v), Ok(t)) = (parts[0].parse(), parts[1].parse(), parts[2].parse()) {
                triples.push((format!("corpus:{l}"), f, v, t));
            }
        }
    }
    let mut rng = Rng::new(seed ^ 0x5157);
    for i in 0..n {
        let mut g = Gen::new(rng.fork());
        g.nvars = 2 + g.rng.below(6);
        g.npreds = 2 + g.rng.below(3);
        let depth = 1 + g.rng.below(4);
        let f = g.formula(depth);
        // prefer a variable that occurs in the formula
        let fv: Vec<fol::Variable> = f.variables().into_iter().collect();
        let v = if !fv.is_empty() && g.rng.chance(4, 5) { g.rng.pick(&fv).clone() } else { g.variable() };
        let t = if g.rng.chance(1, 12) { g.gterm(2) } else { g.term_of_sort(v.sort, 2) };
        triples.push((format!("seed:{seed}:{i}"), f, v, t));
    }
    for (origin, f, v, t) in triples {
        let input = sexp::formula(&f);
        let req = format!("(substitute {input} {} {})", sexp::var(&v), sexp::gterm(&t));
        let imp = guarded(move || sexp::formula(&f.substitute(v, t)));
        cases.push(Case { req, nontrivial: imp != input, imp, tag: "substitute", origin });
    }
    cases
}

fn rewrite(seed: u64, n: usize, corpus: Option<&Path>) -> Vec<Case> {
    let mut cases = vec![];
    let rws = rewrites();
    let mut counter = 0usize;
    for (origin, f) in formulas(seed ^ 0x77, n, corpus, &["formulas", "simplify"]) {
        let input = sexp::formula(&f);
        for (name, r) in &rws {
            let g = f.clone();
            let r = *r;
            let imp = guarded(move || sexp::formula(&r(g)));
            let nontrivial = imp != input;
            // keep all non-trivial cases, sample the identity ones
            counter += 1;
            if nontrivial || counter % 7 == 0 {
                cases.push(Case { req: format!("(rewrite {name} {input})"), nontrivial, imp, tag: name, origin: origin.clone() });
            }
        }
    }
    cases
}

/// `apply_fixpoint` with a pass bound (the real one is called as well when the bounded loop converges).
fn bounded_fixpoint(f: fol::Formula, op: &mut impl FnMut(fol::Formula) -> fol::Formula) -> (fol::Formula, bool) {
    let mut previous = f;
    let mut current = previous.clone().apply(op);
    let mut passes = 0;
    while previous != current {
        if passes >= PASS_BOUND {
            return (current, false);
        }
        passes += 1;
        previous = current;
        current = previous.clone().apply(op);
    }
    (current, true)
}

fn simplify(seed: u64, n: usize, corpus: Option<&Path>) -> Vec<Case> {
    let mut cases = vec![];
    for (origin, f) in formulas(seed ^ 0x99, n, corpus, &["formulas", "simplify"]) {
        let input = sexp::formula(&f);
        for pname in ["intuitionistic", "ht", "classic"] {
            for sname in ["shallow", "recursive", "fixpoint"] {
                let g = f.clone();
                let imp = guarded(move || {
                    let mut op = portfolio(pname).into_iter().compose();
                    match sname {
                        "shallow" => format!("(ok {})", sexp::formula(&op(g))),
                        "recursive" => format!("(ok {})", sexp::formula(&g.apply(&mut op))),
                        _ => {
                            let (r, ok) = bounded_fixpoint(g.clone(), &mut op);
                            if ok {
                                // the real loop must agree with the bounded one
                                let real = g.apply_fixpoint(&mut op);
                                if real != r {
                                    return format!("(fixpoint-mismatch {})", sexp::formula(&real));
                                }
                                format!("(ok {})", sexp::formula(&r))
                            } else {
                                format!("(timeout {})", sexp::formula(&r))
                            }
                        }
                    }
                });
                let nontrivial = imp != format!("(ok {input})");
                cases.push(Case { req: format!("(simplify {pname} {sname} {PASS_BOUND} {input})"), nontrivial, imp, tag: sname, origin: origin.clone() });
            }
        }
    }
    cases
}
