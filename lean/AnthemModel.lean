import AnthemModel.Syntax.Fol
import AnthemModel.Syntax.Asp
import AnthemModel.Syntax.Sexp
import AnthemModel.Syntax.Wire
import AnthemModel.Semantics.Domain
import AnthemModel.Semantics.Fol
import AnthemModel.Model.Gamma
import AnthemModel.Props.C05
