def hello := "world"
