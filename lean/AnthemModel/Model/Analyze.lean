/-
  Model of /repo/src/analyzing/{tightness,private_recursion}.rs. The dependency graph is an edge
  list over predicates; petgraph's `is_cyclic_directed` is replaced by an explicit test
  ("some node reaches itself in at least one step", reachability computed by |nodes| rounds of
  successor expansion) whose specification is proved in Props/C11 and which is compared with
  the real function on every generated input.
-/
import AnthemModel.Syntax.Asp
namespace Anthem
open Asp

abbrev Edges := List (Pred × Pred)

def succs (es : Edges) (v : Pred) : List Pred := (es.filter (·.1 = v)).map (·.2)

/-- one round: add all successors of the current set -/
def expand (es : Edges) (s : List Pred) : List Pred := s.foldl (fun acc v => ext acc (succs es v)) s

def reach (es : Edges) : Nat → List Pred → List Pred
  | 0, s => s
  | n + 1, s => reach es n (expand es s)

/-- `is_cyclic_directed`: some node is reachable from one of its successors. -/
def isCyclic (nodes : List Pred) (es : Edges) : Bool :=
  nodes.any fun v => v ∈ reach es nodes.length (succs es v)

/-- positive dependency graph: head predicate → predicates occurring unnegated in the body -/
def positiveEdges (p : Program) : Edges :=
  p.flatMap fun r =>
    match r.head.predicate with
    | some h => (bodyPosPreds r.body).map fun b => (h, b)
    | none => []

def isTight (p : Program) : Bool := !isCyclic p.preds (positiveEdges p)

def privateEdges (p : Program) (priv : List Pred) : Edges :=
  p.flatMap fun r =>
    match r.head.predicate with
    | some h =>
      if h ∈ priv then ((bodyPreds r.body).filter (· ∈ priv)).map fun b => (h, b) else []
    | none => []

def hasPrivateRecursion (p : Program) (priv : List Pred) : Bool :=
  p.any (fun r => match r.head with | .choice a => a.predicate ∈ priv | _ => false) ||
  isCyclic (p.preds.filter (· ∈ priv)) (privateEdges p priv)

end Anthem
