/-
  Model of the mini-gringo parser: /repo/src/parsing/asp/mini_gringo/grammar.pest (a PEG, read
  with pest's rules: ordered choice, greedy repetition, implicit `WHITESPACE`/`COMMENT` skipping
  between the elements of non-atomic rules) and pest.rs (tree building, the Pratt parser for
  terms with the precedences interval < add/subtract < multiply/divide/modulo < prefix minus,
  all infix operators left-associative).

  The input is a list of characters. Recursion (nested parentheses, repetitions) is on a fuel
  argument; the entry points supply `2 * length + 2` (terms) or `length + 1` (lists), which is always enough because every
  recursive call happens on a strictly shorter input and costs at most two units per character.
-/
import AnthemModel.Syntax.Asp
namespace Anthem.Asp

/-! ## lexical level -/

/-- `WHITESPACE = " " | NEWLINE` (one of its characters) -/
def isWs (c : Char) : Bool := c = ' ' || c = '\n' || c = '\r'

/-- `(WHITESPACE | COMMENT)*`; the flag says whether we are inside a `%` comment -/
def skipAux : Bool → List Char → List Char
  | _, [] => []
  | true, c :: cs => if c = '\n' || c = '\r' then skipAux false cs else skipAux true cs
  | false, c :: cs =>
    if isWs c then skipAux false cs else if c = '%' then skipAux true cs else c :: cs

def skip (cs : List Char) : List Char := skipAux false cs

def stripPrefix : List Char → List Char → Option (List Char)
  | [], cs => some cs
  | _ :: _, [] => none
  | p :: ps, c :: cs => if p = c then stripPrefix ps cs else none

/-- `negation = @{ "not" ~ &(WHITESPACE | EOI) }` matches here (the look-ahead consumes nothing) -/
def startsNegation : List Char → Bool
  | 'n' :: 'o' :: 't' :: rest =>
    match rest with
    | [] => true
    | c :: _ => isWs c
  | _ => false

def isIdChar (c : Char) : Bool := c.isAlphanum || c = '_'

/-- `"not" ~ !(ASCII_ALPHANUMERIC | "_")`: the word `not` (fix a1dc9d0: it is no name) -/
def startsNotWord : List Char → Bool
  | 'n' :: 'o' :: 't' :: rest =>
    match rest with
    | [] => true
    | c :: _ => !isIdChar c
  | _ => false

/-- `symbol = @{ !("not" ~ !(ASCII_ALPHANUMERIC | "_")) ~ "_"? ~ ASCII_ALPHA_LOWER ~ (ASCII_ALPHANUMERIC | "_")* }` -/
def lexSymbol (cs : List Char) : Option (List Char × List Char) :=
  if startsNotWord cs then none
  else
    match cs with
    | '_' :: c :: r =>
      if c.isLower then some ('_' :: c :: r.takeWhile isIdChar, r.dropWhile isIdChar) else none
    | c :: r =>
      if c.isLower then some (c :: r.takeWhile isIdChar, r.dropWhile isIdChar) else none
    | [] => none

/-- `variable = @{ ASCII_ALPHA_UPPER ~ ASCII_ALPHANUMERIC* }` -/
def lexVariable : List Char → Option (List Char × List Char)
  | c :: r => if c.isUpper then some (c :: r.takeWhile Char.isAlphanum, r.dropWhile Char.isAlphanum) else none
  | [] => none

def isNonzeroDigit (c : Char) : Bool := c.isDigit && c != '0'

/-- `integer = @{ "0" | "-"? ~ ASCII_NONZERO_DIGIT ~ ASCII_DIGIT* }`; the value is read with
    unbounded integers (the Rust code parses into `isize` and panics beyond it: C16 known finding) -/
def lexInteger : List Char → Option (Int × List Char)
  | '0' :: r => some (0, r)
  | '-' :: c :: r =>
    if isNonzeroDigit c then
      some (- (Nat.ofDigitChars 10 (c :: r.takeWhile Char.isDigit) 0 : Nat), r.dropWhile Char.isDigit)
    else none
  | c :: r =>
    if isNonzeroDigit c then
      some ((Nat.ofDigitChars 10 (c :: r.takeWhile Char.isDigit) 0 : Nat), r.dropWhile Char.isDigit)
    else none
  | [] => none

/-- `precomputed_term = { infimum | integer | symbol | supremum }` -/
def lexPre (cs : List Char) : Option (Pre × List Char) :=
  match stripPrefix "#infimum".toList cs with
  | some r => some (.inf, r)
  | none =>
  match stripPrefix "#inf".toList cs with
  | some r => some (.inf, r)
  | none =>
  match lexInteger cs with
  | some (n, r) => some (.num n, r)
  | none =>
  match lexSymbol cs with
  | some (s, r) => some (.sym (String.ofList s), r)
  | none =>
  match stripPrefix "#supremum".toList cs with
  | some r => some (.sup, r)
  | none =>
  match stripPrefix "#sup".toList cs with
  | some r => some (.sup, r)
  | none => none

/-- `binary_operator = _{ add | subtract | multiply | divide | modulo | interval }` -/
def lexBinop : List Char → Option (Op × List Char)
  | '+' :: r => some (.add, r)
  | '-' :: r => some (.sub, r)
  | '*' :: r => some (.mul, r)
  | '/' :: r => some (.div, r)
  | '\\' :: r => some (.mod, r)
  | '.' :: '.' :: r => some (.interval, r)
  | _ => none

/-- `negative = { !integer ~ "-" }` (a non-atomic sequence: white space may follow the look-ahead) -/
def lexNegative (cs : List Char) : Option (List Char) :=
  match lexInteger cs with
  | some _ => none
  | none =>
    match skip cs with
    | '-' :: r => some r
    | _ => none

/-- `relation = _{ equal | not_equal | less_equal | less | greater_equal | greater }` -/
def lexRelation : List Char → Option (Rel × List Char)
  | '=' :: r => some (.eq, r)
  | '!' :: '=' :: r => some (.ne, r)
  | '<' :: '=' :: r => some (.le, r)
  | '<' :: r => some (.lt, r)
  | '>' :: '=' :: r => some (.ge, r)
  | '>' :: r => some (.gt, r)
  | _ => none

/-! ## terms: the flat pair sequence and the Pratt parser -/

inductive Tok
  | neg
  | op (o : Op)
  | prim (t : Term)
  deriving DecidableEq, Repr, Inhabited

def Op.bp : Op → Nat
  | .interval => 20
  | .add | .sub => 30
  | .mul | .div | .mod => 40

def Tok.lbp? : Tok → Option Nat
  | .neg => some 50
  | .op o => some o.bp
  | .prim _ => none

mutual
/-- `expr(rbp)`: `nud`, then the `while rbp < lbp(next)` loop -/
def prattExpr : Nat → Nat → List Tok → Option (Term × List Tok)
  | 0, _, _ => none
  | fuel + 1, rbp, toks =>
    match toks with
    | .neg :: r =>
      match prattExpr fuel 49 r with
      | some (a, r') => prattLoop fuel rbp (.neg a) r'
      | none => none
    | .prim t :: r => prattLoop fuel rbp t r
    | _ => none
/-- the loop of `expr`: `led` while the next operator binds tighter than `rbp` -/
def prattLoop : Nat → Nat → Term → List Tok → Option (Term × List Tok)
  | 0, _, _, _ => none
  | fuel + 1, rbp, lhs, toks =>
    match toks with
    | [] => some (lhs, [])
    | .op o :: r =>
      if rbp < o.bp then
        match prattExpr fuel o.bp r with
        | some (rhs, r') => prattLoop fuel rbp (.bin o lhs rhs) r'
        | none => none
      else some (lhs, .op o :: r)
    | .neg :: r => if rbp < 50 then none else some (lhs, .neg :: r)
    | .prim _ :: _ => none
end

/-- `PrattParserMap::parse` on a complete pair sequence -/
def pratt (toks : List Tok) : Option Term :=
  match prattExpr (2 * toks.length + 2) 0 toks with
  | some (t, []) => some t
  | _ => none

/-- `unary_operator*` in front of a primary: the first `negative` is tried where the term starts,
    the following ones after skipping white space (`a*` is `a ~ (skip ~ a)*`) -/
def lexNegs : Nat → Bool → List Char → List Tok × List Char
  | 0, _, cs => ([], cs)
  | fuel + 1, first, cs =>
    match lexNegative (if first then cs else skip cs) with
    | some r => let (ts, r') := lexNegs fuel false r; (.neg :: ts, r')
    | none => ([], cs)

mutual
/-- `unary_operator* ~ primary_term`, started where the operand starts (the caller has skipped) -/
def operand : Nat → List Char → Option (List Tok × List Char)
  | 0, _ => none
  | fuel + 1, cs =>
    let (negs, r0) := lexNegs (cs.length + 1) true cs
    let r := skip r0
    match lexPre r with
    | some (p, r') => some (negs ++ [.prim (.pre p)], r')
    | none =>
      match lexVariable r with
      | some (x, r') => some (negs ++ [.prim (.var (String.ofList x))], r')
      | none =>
        match r with
        | '(' :: r1 =>
          match termL fuel (skip r1) with
          | some (t, r2) =>
            match skip r2 with
            | ')' :: r3 => some (negs ++ [.prim t], r3)
            | _ => none
          | none => none
        | _ => none
/-- `(binary_operator ~ unary_operator* ~ primary_term)*`, greedy, an iteration that fails
    after the operator is undone -/
def tailT : Nat → List Char → List Tok × List Char
  | 0, cs => ([], cs)
  | fuel + 1, cs =>
    match lexBinop (skip cs) with
    | some (o, r) =>
      match operand fuel (skip r) with
      | some (ts, r') => let (ts', r'') := tailT fuel r'; (.op o :: ts ++ ts', r'')
      | none => ([], cs)
    | none => ([], cs)
/-- `term`, followed by `TermParser::translate_pair` -/
def termL : Nat → List Char → Option (Term × List Char)
  | 0, _ => none
  | fuel + 1, cs =>
    match operand fuel cs with
    | some (ts, r) =>
      let (ts', r') := tailT fuel r
      match pratt (ts ++ ts') with
      | some t => some (t, r')
      | none => none
    | none => none
end

/-! ## atoms, literals, comparisons, rules, programs -/

/-- `("," ~ term)*` -/
def termArgs : Nat → List Char → List Term × List Char
  | 0, cs => ([], cs)
  | fuel + 1, cs =>
    match skip cs with
    | ',' :: r =>
      match termL (2 * r.length + 2) (skip r) with
      | some (t, r') => let (ts, r'') := termArgs fuel r'; (t :: ts, r'')
      | none => ([], cs)
    | _ => ([], cs)

/-- `atom = { symbol ~ term_tuple? }`, `term_tuple = _{ "(" ~ (term ~ ("," ~ term)*)? ~ ")" }` -/
def atomL (cs : List Char) : Option (Atom × List Char) :=
  match lexSymbol cs with
  | none => none
  | some (s, r) =>
    let noTuple : Option (Atom × List Char) := some (⟨String.ofList s, []⟩, r)
    match skip r with
    | '(' :: r1 =>
      match termL (2 * r1.length + 2) (skip r1) with
      | some (t, r2) =>
        let (ts, r3) := termArgs (r2.length + 1) r2
        match skip r3 with
        | ')' :: r4 => some (⟨String.ofList s, t :: ts⟩, r4)
        | _ => noTuple
      | none =>
        match skip r1 with
        | ')' :: r4 => some (⟨String.ofList s, []⟩, r4)
        | _ => noTuple
    | _ => noTuple

/-- `sign = { negation{0, 2} }` -/
def signL (cs : List Char) : Sign × List Char :=
  if startsNegation cs then
    let r := cs.drop 3
    if startsNegation (skip r) then (.negneg, (skip r).drop 3) else (.neg, r)
  else (.pos, cs)

/-- `literal = { sign ~ atom }` -/
def literalL (cs : List Char) : Option (Literal × List Char) :=
  let (s, r) := signL cs
  match atomL (skip r) with
  | some (a, r') => some (⟨s, a⟩, r')
  | none => none

/-- `comparison = { term ~ relation ~ term }` -/
def comparisonL (cs : List Char) : Option (BodyAtom × List Char) :=
  match termL (2 * cs.length + 2) cs with
  | some (l, r) =>
    match lexRelation (skip r) with
    | some (rel, r1) =>
      match termL (2 * r1.length + 2) (skip r1) with
      | some (rhs, r2) => some (.cmp rel l rhs, r2)
      | none => none
    | none => none
  | none => none

/-- `atomic_formula = { comparison | literal }` -/
def atomicFormulaL (cs : List Char) : Option (BodyAtom × List Char) :=
  match comparisonL cs with
  | some x => some x
  | none =>
    match literalL cs with
    | some (l, r) => some (.lit l, r)
    | none => none

/-- `(("," | ";") ~ atomic_formula)*` -/
def bodyRest : Nat → List Char → List BodyAtom × List Char
  | 0, cs => ([], cs)
  | fuel + 1, cs =>
    match skip cs with
    | c :: r =>
      if c = ',' || c = ';' then
        match atomicFormulaL (skip r) with
        | some (a, r') => let (as, r'') := bodyRest fuel r'; (a :: as, r'')
        | none => ([], cs)
      else ([], cs)
    | [] => ([], cs)

/-- `body = { (atomic_formula ~ (("," | ";") ~ atomic_formula)*)? }` -/
def bodyL (cs : List Char) : List BodyAtom × List Char :=
  match atomicFormulaL cs with
  | some (a, r) => let (as, r') := bodyRest (r.length + 1) r; (a :: as, r')
  | none => ([], cs)

/-- `head = { basic_head | choice_head | falsity }`; `falsity = { "#false"? }` always matches -/
def headL (cs : List Char) : Head × List Char :=
  match atomL cs with
  | some (a, r) => (.basic a, r)
  | none =>
    let choice : Option (Head × List Char) :=
      match cs with
      | '{' :: r =>
        match atomL (skip r) with
        | some (a, r1) =>
          match skip r1 with
          | '}' :: r2 => some (.choice a, r2)
          | _ => none
        | none => none
      | _ => none
    match choice with
    | some x => x
    | none =>
      match stripPrefix "#false".toList cs with
      | some r => (.falsity, r)
      | none => (.falsity, cs)

/-- `(":-" ~ body)?` after the head -/
def neckBodyL (r : List Char) : List BodyAtom × List Char :=
  match skip r with
  | ':' :: '-' :: r0 => bodyL (skip r0)
  | _ => ([], r)

/-- `head ~ (":-" ~ body)? ~ "."`, started where the rule starts -/
def ruleBodyL (cs : List Char) : Option (Rule × List Char) :=
  match skip (neckBodyL (headL (skip cs)).2).2 with
  | '.' :: r2 => some (⟨(headL (skip cs)).1, (neckBodyL (headL (skip cs)).2).1⟩, r2)
  | _ => none

/-- `rule = { (!"." ~ head ~ (":-" ~ body)?) ~ "." }` -/
def ruleL (cs : List Char) : Option (Rule × List Char) :=
  match cs with
  | '.' :: _ => none
  | _ => ruleBodyL cs

/-- `program = { rule* }` -/
def rulesL : Nat → List Char → List Rule × List Char
  | 0, cs => ([], cs)
  | fuel + 1, cs =>
    match ruleL cs with
    | some (r, rest) =>
      let (rs, rest') := rulesL fuel (skip rest)
      (r :: rs, rest')
    | none => ([], cs)

/-- `program_eoi = _{ program ~ EOI }` -/
def parseProgramL (cs : List Char) : Option Program :=
  let (rs, rest) := rulesL (cs.length + 1) cs
  match skip rest with
  | [] => some rs
  | _ => none

def parseProgram (s : String) : Option Program := parseProgramL s.toList

/-! ## the range of numerals (`isize`): checked after the grammar has accepted the text -/

def isizeFits (n : Int) : Bool := decide (-9223372036854775808 ≤ n) && decide (n ≤ 9223372036854775807)

def Term.inRange : Term → Bool
  | .pre (.num n) => isizeFits n
  | .pre _ => true
  | .var _ => true
  | .neg t => t.inRange
  | .bin _ l r => l.inRange && r.inRange

def Atom.inRange (a : Atom) : Bool := a.args.all Term.inRange

def BodyAtom.inRange : BodyAtom → Bool
  | .lit l => l.atom.inRange
  | .cmp _ l r => l.inRange && r.inRange

def Head.inRange : Head → Bool
  | .basic a | .choice a => a.inRange
  | .falsity => true

def Rule.inRange (r : Rule) : Bool := r.head.inRange && r.body.all BodyAtom.inRange

def Program.inRange (p : Program) : Bool := p.all Rule.inRange

/-- `impl Parser for PestParser` since the numeral-range fix: a text the grammar accepts is refused
    ("number out of range") when one of its numerals does not fit `isize` -/
def parseProgramChecked (s : String) : Option Program :=
  match parseProgram s with
  | some p => if p.inRange then some p else none
  | none => none

/-- `term_eoi` -/
def parseTerm (s : String) : Option Term :=
  match termL (2 * s.length + 2) s.toList with
  | some (t, rest) => if (skip rest).isEmpty then some t else none
  | none => none

end Anthem.Asp
