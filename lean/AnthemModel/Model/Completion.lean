/-
  Model of /repo/src/translating/classical_reduction/completion.rs.
  `IndexMap` = insertion-ordered association list with unique keys.
-/
import AnthemModel.Model.Fresh
import AnthemModel.Syntax.Fol
namespace Anthem

inductive Component
  | constraint (f : Formula)
  | partialDef (f : Formula) (a : Atom)

def allUnique {α} [DecidableEq α] : List α → Bool
  | [] => true
  | x :: xs => !(x ∈ xs) && allUnique xs

def splitImplication (formula : Formula) : Option Component :=
  let go (f g : Formula) : Option Component :=
    match g with
    | .atomic .fls => some (.constraint formula)
    | .atomic (.atom a) =>
      let vs := a.args.map GTerm.asVar?
      if vs.contains none || !allUnique vs then none else some (.partialDef f a)
    | _ => none
  match formula with
  | .bin .imp f g => go f g
  | .bin .rimp g f => go f g
  | _ => none

def split (formula : Formula) : Option Component :=
  if !formula.fv.isEmpty then none
  else match formula with
    | .quant .all _ f => splitImplication f
    | f => splitImplication f

abbrev Definitions := List (Atom × List Formula)

/-- `IndexMap::entry(a)`: push onto an existing entry or append a new one. -/
def Definitions.push (d : Definitions) (a : Atom) (f : Formula) : Definitions :=
  if d.any (·.1 = a) then d.map fun e => if e.1 = a then (e.1, e.2 ++ [f]) else e
  else d ++ [(a, [f])]

def components (t : Theory) : Option (Definitions × List Formula) :=
  t.foldlM (fun (acc : Definitions × List Formula) formula =>
    match split formula with
    | none => none
    | some (.constraint c) => some (acc.1, acc.2 ++ [c])
    | some (.partialDef f a) => some (acc.1.push a f, acc.2)) ([], [])

/-- `atomic_formula_from`: `p(V1, …, Vn)` (`V` itself is off limits). -/
def atomFromPred (p : Pred) : Atom :=
  ⟨p.symbol, (chooseFresh ["V"] "V" p.arity).map GTerm.var⟩

/-- some predicate has two different heads -/
def hasHeadMismatches (d : Definitions) : Bool :=
  d.any fun e => d.any fun e' => e.1.predicate = e'.1.predicate && e.1 ≠ e'.1

def Atom.vars (a : Atom) : List Var := (AtomicF.atom a).vars

def completeDefinition (g : Atom) (bodies : List Formula) : Formula :=
  let v := g.vars
  let rhs := disjoin (bodies.map fun f => f.quantify .ex (f.fv.filter (· ∉ v)))
  (Formula.bin .iff (.atomic (.atom g)) rhs).quantify .all v

/-- an empty definition for a predicate without rules (`entry(a).or_default()`; an existing entry for
    the same atom is left with what it has in the Rust code - the model resets it, which is the same
    because only empty entries can have that atom) -/
def Definitions.addEmpty (d : Definitions) (p : Pred) : Definitions :=
  let a := atomFromPred p
  if d.any (·.1 = a) then d.map fun e => if e.1 = a then (a, []) else e else d ++ [(a, [])]

def completion (t : Theory) (inputs : List Pred) : Option Theory :=
  match components t with
  | none => none
  | some (explicit, constraints) =>
    let explicitPreds := explicit.foldl (fun acc e => ins acc e.1.predicate) []
    let defs := (t.preds.filter (· ∉ explicitPreds)).foldl Definitions.addEmpty explicit
    if hasHeadMismatches defs then none
    else
      let final := defs.filter fun e => e.1.predicate ∉ inputs
      some (constraints.map Formula.universalClosure ++ final.map fun e => completeDefinition e.1 e.2)

end Anthem
