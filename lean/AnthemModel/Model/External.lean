/-
  Model of /repo/src/verifying/task/external_equivalence.rs and /repo/src/verifying/outline/mod.rs:
  the whole `ExternalEquivalenceTask::decompose` pipeline, every `ensure_*` check in source order
  with its error kind, the proof-outline construction (lemmas, inductive lemmas, definitions),
  and the assembly of premises/conclusions into problems.
-/
import AnthemModel.Model.Strong
import AnthemModel.Model.Completion
import AnthemModel.Model.Analyze
namespace Anthem
open Asp

inductive SRole | assumption | spec | lemma | definition | inductiveLemma
  deriving DecidableEq, Repr, Inhabited

structure SAnn where
  role : SRole
  direction : Direction
  name : String
  formula : Formula
  deriving DecidableEq, Repr

abbrev Specification := List SAnn

inductive UGEntry
  | input (p : Pred)
  | output (p : Pred)
  | placeholder (name : String) (sort : Srt)
  | formula (a : SAnn)
  deriving DecidableEq, Repr

abbrev UserGuide := List UGEntry

def UserGuide.inputs (ug : UserGuide) : List Pred :=
  ug.foldl (fun acc e => match e with | .input p => ins acc p | _ => acc) []
def UserGuide.outputs (ug : UserGuide) : List Pred :=
  ug.foldl (fun acc e => match e with | .output p => ins acc p | _ => acc) []
def UserGuide.publicPreds (ug : UserGuide) : List Pred := ext ug.inputs ug.outputs
def UserGuide.placeholders (ug : UserGuide) : List FnConst :=
  ug.foldl (fun acc e => match e with | .placeholder n s => ins acc ⟨n, s⟩ | _ => acc) []
def UserGuide.formulas (ug : UserGuide) : List SAnn :=
  ug.filterMap fun e => match e with | .formula a => some a | _ => none

/-- `IndexMap<String, FunctionConstant>` built by `collect()`: a later entry with the same key
    replaces the value, the position of the first stays. Only lookups matter. -/
abbrev PlaceholderMap := List (String × Srt)

def mkPlaceholderMap (fcs : List FnConst) : PlaceholderMap :=
  fcs.foldl (fun (m : PlaceholderMap) c =>
    if m.any (·.1 = c.name) then m.map fun e => if e.1 = c.name then (e.1, c.sort) else e
    else m ++ [(c.name, c.sort)]) []

def GTerm.replacePlaceholders (m : PlaceholderMap) : GTerm → GTerm
  | .symb (.sym s) =>
    match m.find? (·.1 = s) with
    | some (_, .general) => .fc s
    | some (_, .integer) => .int (.fc s)
    | some (_, .symbol) => .symb (.fc s)
    | none => .symb (.sym s)
  | t => t

def AtomicF.replacePlaceholders (m : PlaceholderMap) : AtomicF → AtomicF
  | .atom a => .atom ⟨a.pred, a.args.map (GTerm.replacePlaceholders m)⟩
  | .cmp t gs => .cmp (t.replacePlaceholders m) (gs.map fun g => ⟨g.rel, g.term.replacePlaceholders m⟩)
  | a => a

def Formula.replacePlaceholders (m : PlaceholderMap) : Formula → Formula
  | .atomic a => .atomic (a.replacePlaceholders m)
  | .not f => .not (f.replacePlaceholders m)
  | .bin c l r => .bin c (l.replacePlaceholders m) (r.replacePlaceholders m)
  | .quant q vs f => .quant q vs (f.replacePlaceholders m)

def SAnn.replacePlaceholders (m : PlaceholderMap) (a : SAnn) : SAnn :=
  { a with formula := a.formula.replacePlaceholders m }

def SAnn.toProblem (a : SAnn) (role : PRole) : AnnF := ⟨a.name, role, a.formula⟩

/-- the extension `mapping` gives to a predicate, if any -/
def lookupExt (mapping : List (Pred × String)) (p : Pred) : Option String :=
  (mapping.find? (fun e => e.1 = p)).map (·.2)

/-- `fol::Atom::rename_predicates`: `format!("{}_{}", symbol, extension)` -/
def renameAtom (mapping : List (Pred × String)) (a : Atom) : Atom :=
  match lookupExt mapping a.predicate with
  | some e => ⟨a.pred ++ "_" ++ e, a.args⟩
  | none => a

/-- `rename_predicates`: a predicate `p` with `(p, e)` in `mapping` gets the suffix `_e`. -/
def Formula.renamePreds (mapping : List (Pred × String)) : Formula → Formula
  | .atomic (.atom a) => .atomic (.atom (renameAtom mapping a))
  | .atomic a => .atomic a
  | .not f => .not (f.renamePreds mapping)
  | .bin c l r => .bin c (l.renamePreds mapping) (r.renamePreds mapping)
  | .quant q vs f => .quant q vs (f.renamePreds mapping)

/-- the extensions tried for a clashing private predicate: `p`, `p1`, `p2`, … -/
def renExt (i : Nat) : String := if i = 0 then "p" else "p" ++ toString i

def renamedPred (p : Pred) (e : String) : Pred := ⟨p.symbol ++ "_" ++ e, p.arity⟩

/-- the `while occupied.contains(..)` loop: first index from `i` whose renamed predicate is free -/
def findExt (occ : List Pred) (p : Pred) : Nat → Nat → Nat
  | 0, i => i
  | fuel + 1, i => if renamedPred p (renExt i) ∈ occ then findExt occ p fuel (i + 1) else i

/-- one clashing predicate: choose its extension, record the new name as occupied -/
def clashStep (acc : List Pred × List (Pred × String)) (p : Pred) : List Pred × List (Pred × String) :=
  let e := renExt (findExt acc.1 p (acc.1.length + 1) 0)
  (acc.1 ++ [renamedPred p e], acc.2 ++ [(p, e)])

inductive TaskError
  | unsupportedFormulaRepresentation
  | nonTightProgram
  | programContainsPrivateRecursion
  | inputOutputPredicatesOverlap
  | inputPredicateInRuleHead
  | outputPredicateInUserGuideAssumption
  | outputPredicateInSpecificationAssumption
  | placeholdersWithIdenticalNamesDifferentSorts
  | assumptionContainsNonInputSymbols
  | specificationContainsUnsupportedRoles
  -- ProofOutlineError kinds
  | annotatedFormulaWithInvalidRole
  | duplicatedVariables
  | takenPredicate
  | freeRhsVariables
  | undefinedRhsPredicate
  | definedPredicateVariableListMismatch
  | termsInDefinition
  | malformedInductiveLemma
  | malformedInductiveAntecedent
  | malformedInductiveVariables
  | malformedInductiveTerm
  | malformedDefinition
  | invalidRoleForGeneralLemma
  deriving DecidableEq, Repr

inductive Outcome (α : Type)
  | ok (a : α)
  | err (e : TaskError)
  | panic (site : String)
  | timeout

instance : Monad Outcome where
  pure := .ok
  bind x f := match x with
    | .ok a => f a
    | .err e => .err e
    | .panic s => .panic s
    | .timeout => .timeout

/-! ## outline/mod.rs -/

structure GeneralLemma where
  conjectures : List AnnF
  consequences : List AnnF

/-- same elements (IndexSet equality is order-insensitive) -/
def sameSet {α} [DecidableEq α] (a b : List α) : Bool := a.all (· ∈ b) && b.all (· ∈ a)

/-- `CheckInternal::definition` -/
def checkDefinition (f : Formula) (taken : List Pred) : Outcome Pred :=
  match f with
  | .quant .all vars (.bin .iff (.atomic (.atom a)) rhs) =>
    let uniques := vars.foldl ins []
    if uniques.length < vars.length then .err .duplicatedVariables
    else
      match a.args.mapM GTerm.asVar? with
      | none => .err .termsInDefinition
      | some tv =>
        let termsAsVars := tv.foldl ins []
        if !sameSet uniques termsAsVars || a.args.length ≠ vars.length then .err .definedPredicateVariableListMismatch
        else if a.predicate ∈ taken then .err .takenPredicate
        else if rhs.fv.any (· ∉ uniques) then .err .freeRhsVariables
        else if rhs.preds.any (· ∉ taken) then .err .undefinedRhsPredicate
        else .ok a.predicate
  | _ => .err .malformedDefinition

/-- `CheckInternal::inductive_lemma`: base case and inductive step. -/
def inductiveLemma (f : Formula) : Outcome (Formula × Formula) :=
  match f with
  | .quant .all vars (.bin .imp lhs rhs) =>
    match lhs with
    | .atomic (.cmp term guards) =>
      if guards.length ≠ 1 then .err .malformedInductiveAntecedent
      else if !sameSet (vars.foldl ins []) rhs.fv then .err .malformedInductiveVariables
      else
        match term with
        | .int (.var v) =>
          let iv : Var := ⟨v, .integer⟩
          match guards with
          | [⟨.ge, .int (.num n)⟩] =>
            let base := (rhs.subst iv (.int (.num n))).universalClosure
            let step := (Formula.bin .imp (.bin .and lhs rhs)
              (rhs.subst iv (.int (.bin .add (.var v) (.num 1))))).universalClosure
            .ok (base, step)
          | _ => .err .malformedInductiveLemma
        | _ => .err .malformedInductiveTerm
    | _ => .err .malformedInductiveLemma
  | _ => .err .malformedInductiveLemma

def generalLemma (a : SAnn) : Outcome GeneralLemma :=
  match a.role with
  | .lemma => .ok ⟨[a.toProblem .conjecture], [a.toProblem .axiom]⟩
  | .inductiveLemma =>
    match inductiveLemma a.formula with
    | .ok (base, step) =>
      .ok ⟨[⟨a.name ++ "base_case", .conjecture, base⟩, ⟨a.name ++ "inductive_step", .conjecture, step⟩],
           [a.toProblem .axiom]⟩
    | .err e => .err e
    | .panic s => .panic s
    | .timeout => .timeout
  | _ => .err .invalidRoleForGeneralLemma

structure ProofOutline where
  forwardLemmas : List GeneralLemma := []
  backwardLemmas : List GeneralLemma := []
  forwardDefinitions : List SAnn := []
  backwardDefinitions : List SAnn := []

/-- `universal_closure_with_quantifier_joining` -/
def Formula.closureJoined (f : Formula) : Formula := joinNestedQuantifiers f.universalClosure

/-- one entry of the outline; the state is the outline so far, the taken predicates, and the
    predicates of the lemmas seen so far (fix d771171: a definition may not define one of those) -/
def outlineStep (m : PlaceholderMap) (st : Outcome (ProofOutline × List Pred × List Pred)) (anf0 : SAnn) :
    Outcome (ProofOutline × List Pred × List Pred) :=
  match st with
  | .ok (po, taken, lem) =>
    let anf := anf0.replacePlaceholders m
    match anf.role with
    | .lemma | .inductiveLemma =>
      let closed : SAnn := ({ anf with formula := anf.formula.closureJoined } : SAnn).replacePlaceholders m
      match generalLemma closed with
      | .ok gl =>
        let lem := ext lem anf.formula.preds
        match anf.direction with
        | .universal => .ok ({ po with forwardLemmas := po.forwardLemmas ++ [gl], backwardLemmas := po.backwardLemmas ++ [gl] }, taken, lem)
        | .forward => .ok ({ po with forwardLemmas := po.forwardLemmas ++ [gl] }, taken, lem)
        | .backward => .ok ({ po with backwardLemmas := po.backwardLemmas ++ [gl] }, taken, lem)
      | .err e => .err e
      | .panic s => .panic s
      | .timeout => .timeout
    | .definition =>
      match checkDefinition anf.formula taken with
      | .ok p =>
        if p ∈ lem then .err .takenPredicate else
        let taken := ins taken p
        match anf.direction with
        | .forward => .ok ({ po with forwardDefinitions := po.forwardDefinitions ++ [anf] }, taken, lem)
        | .backward => .ok ({ po with backwardDefinitions := po.backwardDefinitions ++ [anf] }, taken, lem)
        | .universal => .ok ({ po with forwardDefinitions := po.forwardDefinitions ++ [anf],
                                       backwardDefinitions := po.backwardDefinitions ++ [anf] }, taken, lem)
      | .err e => .err e
      | .panic s => .panic s
      | .timeout => .timeout
    | .assumption | .spec => .err .annotatedFormulaWithInvalidRole
  | other => other

def proofOutlineFrom (spec : Specification) (taken : List Pred) (m : PlaceholderMap) :
    Outcome ProofOutline :=
  match spec.foldl (outlineStep m) (.ok ({}, taken, [])) with
  | .ok (po, _) => .ok po
  | .err e => .err e
  | .panic s => .panic s
  | .timeout => .timeout

/-! ## external_equivalence.rs -/

structure ExternalTask where
  specification : Sum Program Specification
  program : Program
  userGuide : UserGuide
  proofOutline : Specification
  decomposition : Decomposition
  direction : Direction
  rep : FormulaRep
  bypassTightness : Bool
  simplify : Bool
  breakEq : Bool

def headPredicate : Formula → Option Pred
  | .bin .iff (.atomic (.atom a)) _ => some a.predicate
  | .quant .all _ f => headPredicate f
  | _ => none

/-- output predicates of the user guide that do not occur in the program -/
def missingOutputs (t : ExternalTask) (p : Program) : List Pred := t.userGuide.outputs.filter (· ∉ p.preds)

/-- `theory_translate` (with fix 82641ae: a declared output predicate that the program does not
    mention gets the completed definition `forall V (p(V) <-> #false)`) -/
def theoryTranslate (t : ExternalTask) (m : PlaceholderMap) (fuel : Nat) (p : Program) : Outcome Theory :=
  if globalsPanic p then .panic "choose_fresh_global_variables: add overflow" else
  let th := (tauStar p).map (Formula.replacePlaceholders m)
  match completion th t.userGuide.inputs with
  | none => .panic "tau_star did not create a completable theory"
  | some th0 =>
    let th := th0 ++ (missingOutputs t p).map fun q => completeDefinition (atomFromPred q) []
    if t.simplify then
      match simplifyTheory .classic fuel th with
      | some th' => .ok th'
      | none => .timeout
    else .ok th

/-- one formula of `control_translate` -/
def controlStep (pub : List Pred) (acc : Specification × Nat) (f : Formula) : Specification × Nat :=
  match headPredicate f with
  | some p =>
    let nm := "completed_definition_of_" ++ p.symbol ++ "_" ++ toString p.arity
    if p ∈ pub then (acc.1 ++ [⟨.spec, .universal, nm, f⟩], acc.2)
    else (acc.1 ++ [⟨.assumption, .universal, nm, f⟩], acc.2)
  | none => (acc.1 ++ [⟨.spec, .universal, "constraint_" ++ toString acc.2, f⟩], acc.2 + 1)

/-- `control_translate` -/
def controlTranslate (pub : List Pred) (th : Theory) : Specification :=
  (th.foldl (controlStep pub) ([], 0)).1

/-- `break_equivalences_annotated_formula` -/
def breakAnnotated (a : SAnn) : List SAnn :=
  (indexFrom 0 (breakEquivalencesFormula a.formula)).map fun (i, f) =>
    { a with name := a.name ++ "_" ++ toString i, formula := f }

def SAnn.preds (a : SAnn) : List Pred := a.formula.preds
def specPreds (s : Specification) : List Pred := s.foldl (fun acc a => ext acc a.preds) []

structure Assembled where
  stable : List AnnF := []
  fwdPremises : List AnnF := []
  fwdConclusions : List AnnF := []
  bwdPremises : List AnnF := []
  bwdConclusions : List AnnF := []

/-- conjectures a formula contributes (eq-break splits equivalences) -/
def conjOf (breakEq : Bool) (a : SAnn) : List AnnF :=
  if breakEq then (breakAnnotated a).map (·.toProblem .conjecture) else [a.toProblem .conjecture]

/-- one formula of the specification side -/
def assembleStepL (breakEq : Bool) (st : Outcome Assembled) (f : SAnn) : Outcome Assembled :=
  match st with
  | .ok s =>
    match f.role with
    | .assumption =>
      match f.direction with
      | .universal => .ok { s with stable := s.stable ++ [f.toProblem .axiom] }
      | .forward => .ok { s with fwdPremises := s.fwdPremises ++ [f.toProblem .axiom] }
      | .backward => .ok s
    | .spec =>
      let s := if f.direction = .universal ∨ f.direction = .forward
        then { s with fwdPremises := s.fwdPremises ++ [f.toProblem .axiom] } else s
      let s := if f.direction = .universal ∨ f.direction = .backward
        then { s with bwdConclusions := s.bwdConclusions ++ conjOf breakEq f } else s
      .ok s
    | _ => .panic "unreachable: lemma/definition role in the specification side"
  | other => other

/-- one formula of the program side -/
def assembleStepR (breakEq : Bool) (st : Outcome Assembled) (f : SAnn) : Outcome Assembled :=
  match st with
  | .ok s =>
    match f.role with
    | .assumption =>
      match f.direction with
      | .universal => .ok { s with stable := s.stable ++ [f.toProblem .axiom] }
      | .forward => .ok s
      | .backward => .ok { s with bwdPremises := s.bwdPremises ++ [f.toProblem .axiom] }
    | .spec =>
      let s := if f.direction = .universal ∨ f.direction = .backward
        then { s with bwdPremises := s.bwdPremises ++ [f.toProblem .axiom] } else s
      let s := if f.direction = .universal ∨ f.direction = .forward
        then { s with fwdConclusions := s.fwdConclusions ++ conjOf breakEq f } else s
      .ok s
    | _ => .panic "unreachable: lemma/definition role in the program side"
  | other => other

/-- `ValidatedExternalEquivalenceTask::decompose` (partition into premises and conclusions). -/
def assemble (left right ugAssumptions : List SAnn) (breakEq : Bool) : Outcome Assembled :=
  let st0 : Assembled := { stable := ugAssumptions.map (·.toProblem .axiom) }
  right.foldl (assembleStepR breakEq) (left.foldl (assembleStepL breakEq) (.ok st0))

def mkProblem (name : String) (parts : List (List AnnF)) : Problem :=
  (parts.foldl (fun (p : Problem) fs => p.addAnnotated fs) ⟨name, []⟩).renameConflictingSymbols.uniqueNames

/-- outline problems of one direction: lemma `i`'s conjectures are proved from the axioms plus the
    consequences of lemmas `< i` -/
def outlineProblems (dirName : String) (axioms0 : List AnnF) (lemmas : List GeneralLemma) : List Problem :=
  let step (acc : List Problem × List AnnF × Nat) (l : GeneralLemma) : List Problem × List AnnF × Nat :=
    let (ps, axioms, i) := acc
    let new := (indexFrom 0 l.conjectures).map fun (j, c) =>
      mkProblem (dirName ++ "_outline_" ++ toString i ++ "_" ++ toString j) [axioms, [c]]
    (ps ++ new, axioms ++ l.consequences, i + 1)
  (lemmas.foldl step ([], axioms0, 0)).1

/-- `AssembledExternalEquivalenceTask::decompose` -/
def assembledProblems (a : Assembled) (po : ProofOutline) (dec : Decomposition) (dir : Direction) :
    List Problem :=
  let fwd :=
    if dir = .universal ∨ dir = .forward then
      outlineProblems "forward" (a.stable ++ a.fwdPremises ++ po.forwardDefinitions.map (·.toProblem .axiom))
        po.forwardLemmas ++
      (mkProblem "forward_problem" [a.stable, a.fwdPremises,
        po.forwardLemmas.flatMap (·.consequences), a.fwdConclusions]).decompose dec
    else []
  let bwd :=
    if dir = .universal ∨ dir = .backward then
      outlineProblems "backward" (a.stable ++ a.bwdPremises ++ po.backwardDefinitions.map (·.toProblem .axiom))
        po.backwardLemmas ++
      (mkProblem "backward_problem" [a.stable, a.bwdPremises,
        po.backwardLemmas.flatMap (·.consequences), a.bwdConclusions]).decompose dec
    else []
  fwd ++ bwd

/-- private predicates of the two sides -/
def ExternalTask.specPrivate (t : ExternalTask) : List Pred :=
  match t.specification with
  | .inl p => p.preds.filter (· ∉ t.userGuide.publicPreds)
  | .inr s => (specPreds s).filter (· ∉ t.userGuide.publicPreds)

def ExternalTask.progPrivate (t : ExternalTask) : List Pred :=
  t.program.preds.filter (· ∉ t.userGuide.publicPreds)

/-- the renaming of the program side's private predicates that clash with private predicates of the
    specification side: every predicate of the task is occupied, and so is every name chosen so far -/
def ExternalTask.clashMap (t : ExternalTask) : List (Pred × String) :=
  ((t.specPrivate.filter (· ∈ t.progPrivate)).foldl clashStep
    (ext (ext t.userGuide.publicPreds t.specPrivate) t.progPrivate, [])).2

def programError (t : ExternalTask) (p : Program) (priv : List Pred) : Option TaskError :=
  if !isTight p && !t.bypassTightness then some .nonTightProgram
  else if hasPrivateRecursion p priv then some .programContainsPrivateRecursion
  else if t.userGuide.inputs.any (· ∈ p.headPreds) then some .inputPredicateInRuleHead
  else none

def assumptionError (t : ExternalTask) (extra : List Pred) (fs : List SAnn) : Option TaskError :=
  if fs.any fun f => f.role = .assumption && f.formula.preds.any (· ∉ ext extra t.userGuide.inputs)
  then some .assumptionContainsNonInputSymbols else none

/-- All `ensure_*` checks of `ExternalEquivalenceTask::decompose`, in source order; `none` = the
    task passes every applicability check. -/
def precheck (t : ExternalTask) : Option TaskError :=
  let ug := t.userGuide
  if t.rep ≠ .tauStar then some .unsupportedFormulaRepresentation
  else if ug.inputs.any (· ∈ ug.outputs) then some .inputOutputPredicatesOverlap
  else match programError t t.program t.progPrivate with
  | some e => some e
  | none =>
    if !allUnique (ug.placeholders.map (·.name)) then some .placeholdersWithIdenticalNamesDifferentSorts
    else match assumptionError t [] ug.formulas with
    | some e => some e
    | none =>
      match t.specification with
      | .inl p => programError t p t.specPrivate
      | .inr s =>
        if s.any fun f => f.role = .assumption && f.formula.preds.any (· ∈ ug.outputs)
        then some .outputPredicateInSpecificationAssumption
        else match assumptionError t t.progPrivate s with
        | some e => some e
        | none =>
          if s.any fun f => !(f.role = .assumption || f.role = .spec)
          then some .specificationContainsUnsupportedRoles else none

/-- one user-guide formula: assumptions are kept (they must not mention output predicates) -/
def ugAssStep (ug : UserGuide) (m : PlaceholderMap) (acc : Outcome (List SAnn)) (f : SAnn) : Outcome (List SAnn) :=
  match acc with
  | .ok l =>
    if f.role = .assumption then
      if f.formula.preds.any (· ∈ ug.outputs) then .err .outputPredicateInUserGuideAssumption
      else .ok (l ++ [f.replacePlaceholders m])
    else .ok l
  | other => other

def externalProblems (t : ExternalTask) (fuel : Nat) : Outcome (List Problem) :=
  match precheck t with
  | some e => .err e
  | none => do
  let ug := t.userGuide
  let m := mkPlaceholderMap ug.placeholders
  let pub := ug.publicPreds
  let specPrivate := t.specPrivate
  let progPrivate := t.progPrivate
  let left ← match t.specification with
    | .inl p => do
      let th ← theoryTranslate t m fuel p
      pure (controlTranslate pub th)
    | .inr s => pure (s.map (SAnn.replacePlaceholders m))
  let rightTh ← theoryTranslate t m fuel t.program
  let right := (controlTranslate pub rightTh).map fun a => { a with formula := a.formula.renamePreds t.clashMap }
  -- user guide assumptions
  let ugAss ← ug.formulas.foldl (ugAssStep ug m) (.ok [])
  let taken := right.foldl (fun acc a => ext acc a.formula.preds)
    (left.foldl (fun acc a => ext acc a.formula.preds) ug.inputs)
  let po ← proofOutlineFrom t.proofOutline taken m
  let asm ← assemble left right ugAss t.breakEq
  pure (assembledProblems asm po t.decomposition t.direction)

end Anthem
