/-
  Model of /repo/src/command_line/files.rs: `Files::sort` over an abstract file tree
  (`WalkDir::new(arg).sort_by_file_name()`, regular files only, bucketing by `Path::extension`)
  and the role accessors used by `verify`.
-/
namespace Anthem

inductive FTree
  | file (name : String)
  | dir (name : String) (children : List FTree)
  /-- a symbolic link to a regular file: `WalkDir` does not follow links, and `file_type().is_file()` is false for the
      link itself, so it plays no role - inside a directory and when it is named on the command line alike -/
  | link (name : String)
  deriving Repr, Inhabited

def FTree.name : FTree → String
  | .file n => n
  | .dir n _ => n
  | .link n => n

/-- `Path::extension` of a file name: text after the last `.`, unless there is no `.` or the only
    `.` is the first character. -/
def extensionOf (name : String) : Option String :=
  let cs := name.toList
  match cs.reverse.span (· ≠ '.') with
  | (_, []) => none                         -- no dot at all
  | (revExt, _ :: restRev) =>
    if restRev.isEmpty then none            -- the only dot is the first character
    else some (String.ofList revExt.reverse)

inductive Bucket | program | specification | userGuide | proofOutline | other
  deriving DecidableEq, Repr

def bucketOf (name : String) : Bucket :=
  match extensionOf name with
  | some "lp" => .program
  | some "spec" => .specification
  | some "ug" => .userGuide
  | some "po" => .proofOutline
  | _ => .other

def FTree.isLink : FTree → Bool
  | .link _ => true
  | _ => false

def insertTree (t : FTree) : List FTree → List FTree
  | [] => [t]
  | u :: us => if u.name < t.name then u :: insertTree t us else t :: u :: us

def sortTrees (l : List FTree) : List FTree := l.foldr insertTree []

theorem mem_insertTree {t u : FTree} : ∀ {l : List FTree}, u ∈ insertTree t l → u = t ∨ u ∈ l := by
  intro l
  induction l with
  | nil => intro h; simp [insertTree] at h; exact Or.inl h
  | cons v vs ih =>
    intro h
    simp only [insertTree] at h
    split at h
    · rcases List.mem_cons.mp h with h | h
      · exact Or.inr (List.mem_cons.mpr (Or.inl h))
      · rcases ih h with h | h
        · exact Or.inl h
        · exact Or.inr (List.mem_cons.mpr (Or.inr h))
    · rcases List.mem_cons.mp h with h | h
      · exact Or.inl h
      · exact Or.inr h

theorem mem_sortTrees {u : FTree} : ∀ {l : List FTree}, u ∈ sortTrees l → u ∈ l := by
  intro l
  induction l with
  | nil => intro h; simp [sortTrees] at h
  | cons v vs ih =>
    intro h
    have h' : u ∈ insertTree v (sortTrees vs) := by simpa [sortTrees] using h
    rcases mem_insertTree h' with h | h
    · exact List.mem_cons.mpr (Or.inl h)
    · exact List.mem_cons.mpr (Or.inr (ih h))

/-- files reached from one argument, in walk order, as paths (`prefix/name`): a regular file is itself, a directory
    its children in name order, depth first, a symbolic link nothing -/
def walkPaths (pre : String) : FTree → List String
  | .file n => [pre ++ n]
  | .dir n cs => (sortTrees cs).attach.flatMap fun c => walkPaths (pre ++ n ++ "/") c.1
  | .link _ => []
termination_by t => sizeOf t
decreasing_by
  have hm := mem_sortTrees c.2
  have := List.sizeOf_lt_of_mem hm
  simp only [FTree.dir.sizeOf_spec]
  omega

structure Files where
  programs : List String := []
  specifications : List String := []
  userGuides : List String := []
  proofOutlines : List String := []
  other : List String := []
  deriving Repr

def baseName (path : String) : String :=
  String.ofList ((path.toList.reverse.takeWhile (· ≠ '/')).reverse)

def Files.push (f : Files) (path : String) : Files :=
  match bucketOf (baseName path) with
  | .program => { f with programs := f.programs ++ [path] }
  | .specification => { f with specifications := f.specifications ++ [path] }
  | .userGuide => { f with userGuides := f.userGuides ++ [path] }
  | .proofOutline => { f with proofOutlines := f.proofOutlines ++ [path] }
  | .other => { f with other := f.other ++ [path] }

/-- `Files::sort` on the files reached from the argument list, in order. -/
def Files.ofPaths (paths : List String) : Files := paths.foldl Files.push {}

def Files.left (f : Files) : Option String := f.programs.head?
def Files.right (f : Files) : Option String := f.programs[1]?
/-- `specification()`: the first `.spec` file, else the first program (tagged). -/
def Files.specification (f : Files) : Option (Bool × String) :=
  match f.specifications.head? with
  | some s => some (true, s)
  | none => f.programs.head?.map fun p => (false, p)
def Files.program (f : Files) : Option String :=
  if f.specifications.isEmpty then f.programs[1]? else f.programs.head?
def Files.userGuide (f : Files) : Option String := f.userGuides.head?
def Files.proofOutline (f : Files) : Option String := f.proofOutlines.head?

end Anthem
