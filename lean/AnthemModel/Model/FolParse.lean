/-
  Model of the target-language parser: /repo/src/parsing/fol/sigma_0/grammar.pest and pest.rs
  (formulas, theories, annotated formulas, specifications, user guides), in the same style as
  Model/AspParse: a PEG read with pest's rules (ordered choice, greedy repetition with undo,
  look-aheads, implicit WHITESPACE/COMMENT skipping in non-atomic rules, none inside `@`/`$`
  rules), the tree builders, and pest's Pratt parser with the two operator tables of pest.rs.
-/
import AnthemModel.Model.AspParse
import AnthemModel.Model.External
namespace Anthem.Fol
open Anthem.Asp (isWs skip stripPrefix isIdChar isNonzeroDigit)

/-! ## lexical level -/

def startsWith (p cs : List Char) : Bool := (stripPrefix p cs).isSome

/-- `keyword = _{ (primitive | binary_connective | unary_connective | quantifier) ~ !ANY }`: the
    whole remaining input is a keyword (only the alphabetic ones can start a constant) -/
def isKeyword (cs : List Char) : Bool :=
  cs = "and".toList || cs = "or".toList || cs = "not".toList || cs = "forall".toList || cs = "exists".toList

/-- `symbolic_constant = @{ !keyword ~ "_"? ~ ASCII_ALPHA_LOWER ~ (ASCII_ALPHANUMERIC | "_")* }` -/
def lexSymConst (cs : List Char) : Option (List Char × List Char) :=
  if isKeyword cs then none
  else
    match cs with
    | '_' :: c :: r =>
      if c.isLower then some ('_' :: c :: r.takeWhile isIdChar, r.dropWhile isIdChar) else none
    | c :: r =>
      if c.isLower then some (c :: r.takeWhile isIdChar, r.dropWhile isIdChar) else none
    | [] => none

/-- `unsorted_variable = @{ "_"? ~ ASCII_ALPHA_UPPER ~ (ASCII_ALPHANUMERIC | "_")* }` -/
def lexUVar : List Char → Option (List Char × List Char)
  | '_' :: c :: r =>
    if c.isUpper then some ('_' :: c :: r.takeWhile isIdChar, r.dropWhile isIdChar) else none
  | c :: r =>
    if c.isUpper then some (c :: r.takeWhile isIdChar, r.dropWhile isIdChar) else none
  | [] => none

/-- `general_sort = @{ "g" ~ "eneral"? }` etc. -/
def lexSortWord (first : Char) (more : String) : List Char → Option (List Char)
  | c :: r =>
    if c = first then
      match stripPrefix more.toList r with
      | some r' => some r'
      | none => some r
    else none
  | [] => none

def lexSortG := lexSortWord 'g' "eneral"
def lexSortI := lexSortWord 'i' "nteger"
def lexSortS := lexSortWord 's' "ymbol"

/-- `sort = { general_sort | integer_sort | symbolic_sort }` -/
def lexSort (cs : List Char) : Option (Srt × List Char) :=
  match lexSortG cs with
  | some r => some (.general, r)
  | none =>
    match lexSortI cs with
    | some r => some (.integer, r)
    | none =>
      match lexSortS cs with
      | some r => some (.symbol, r)
      | none => none

/-- `numeral`, as in mini-gringo -/
def lexNumeral : List Char → Option (Int × List Char) := Asp.lexInteger

/-- `c$sort` for one of the three function-constant rules (compound-atomic: no white space) -/
def lexFnConst (sortLex : List Char → Option (List Char)) (cs : List Char) : Option (List Char × List Char) :=
  match lexSymConst cs with
  | some (s, '$' :: r) =>
    match sortLex r with
    | some r' => some (s, r')
    | none => none
  | _ => none

/-- `integer_variable = ${ (unsorted_variable ~ "$" ~ integer_sort) | !(unsorted_variable ~ "$" ~ sort) ~ (unsorted_variable ~ "$") }` -/
def lexIntVar (cs : List Char) : Option (List Char × List Char) :=
  match lexUVar cs with
  | some (x, '$' :: r) =>
    match lexSortI r with
    | some r' => some (x, r')
    | none => if (lexSort r).isSome then none else some (x, r)
  | _ => none

/-- `symbolic_variable = ${ (unsorted_variable ~ "$" ~ symbolic_sort) }` -/
def lexSymVar (cs : List Char) : Option (List Char × List Char) :=
  match lexUVar cs with
  | some (x, '$' :: r) =>
    match lexSortS r with
    | some r' => some (x, r')
    | none => none
  | _ => none

/-- `general_variable = ${ unsorted_variable ~ ("$" ~ general_sort)? }` -/
def lexGenVar (cs : List Char) : Option (List Char × List Char) :=
  match lexUVar cs with
  | some (x, '$' :: r) =>
    match lexSortG r with
    | some r' => some (x, r')
    | none => some (x, '$' :: r)
  | some (x, r) => some (x, r)
  | none => none

/-- `variable = { integer_variable | symbolic_variable | general_variable }` -/
def lexVariable (cs : List Char) : Option (Var × List Char) :=
  match lexIntVar cs with
  | some (x, r) => some (⟨String.ofList x, .integer⟩, r)
  | none =>
    match lexSymVar cs with
    | some (x, r) => some (⟨String.ofList x, .symbol⟩, r)
    | none =>
      match lexGenVar cs with
      | some (x, r) => some (⟨String.ofList x, .general⟩, r)
      | none => none

/-! ## integer terms -/

inductive ITok
  | neg
  | op (o : IOp)
  | prim (t : ITerm)
  deriving Repr, Inhabited

def IOp.bp : IOp → Nat
  | .add | .sub => 20
  | .mul => 30

mutual
def iprattExpr : Nat → Nat → List ITok → Option (ITerm × List ITok)
  | 0, _, _ => none
  | fuel + 1, rbp, toks =>
    match toks with
    | .neg :: r =>
      match iprattExpr fuel 39 r with
      | some (a, r') => iprattLoop fuel rbp (.neg a) r'
      | none => none
    | .prim t :: r => iprattLoop fuel rbp t r
    | _ => none
def iprattLoop : Nat → Nat → ITerm → List ITok → Option (ITerm × List ITok)
  | 0, _, _, _ => none
  | fuel + 1, rbp, lhs, toks =>
    match toks with
    | [] => some (lhs, [])
    | .op o :: r =>
      if rbp < IOp.bp o then
        match iprattExpr fuel (IOp.bp o) r with
        | some (rhs, r') => iprattLoop fuel rbp (.bin o lhs rhs) r'
        | none => none
      else some (lhs, .op o :: r)
    | .neg :: r => if rbp < 40 then none else some (lhs, .neg :: r)
    | .prim _ :: _ => none
end

def ipratt (toks : List ITok) : Option ITerm :=
  match iprattExpr (2 * toks.length + 2) 0 toks with
  | some (t, []) => some t
  | _ => none

/-- `negative = { !numeral ~ "-" }` -/
def lexNegative (cs : List Char) : Option (List Char) :=
  match lexNumeral cs with
  | some _ => none
  | none =>
    match skip cs with
    | '-' :: r => some r
    | _ => none

def lexNegs : Nat → Bool → List Char → List ITok × List Char
  | 0, _, cs => ([], cs)
  | fuel + 1, first, cs =>
    match lexNegative (if first then cs else skip cs) with
    | some r => let (ts, r') := lexNegs fuel false r; (.neg :: ts, r')
    | none => ([], cs)

/-- `binary_operator = _{ add | subtract | multiply }` -/
def lexIOp : List Char → Option (IOp × List Char)
  | '+' :: r => some (.add, r)
  | '-' :: r => some (.sub, r)
  | '*' :: r => some (.mul, r)
  | _ => none

mutual
/-- `unary_operator* ~ n_primary` -/
def ioperand : Nat → List Char → Option (List ITok × List Char)
  | 0, _ => none
  | fuel + 1, cs =>
    let (negs, r0) := lexNegs (cs.length + 1) true cs
    let r := skip r0
    match lexNumeral r with
    | some (n, r') => some (negs ++ [.prim (.num n)], r')
    | none =>
      match lexFnConst lexSortI r with
      | some (c, r') => some (negs ++ [.prim (.fc (String.ofList c))], r')
      | none =>
        match lexIntVar r with
        | some (x, r') => some (negs ++ [.prim (.var (String.ofList x))], r')
        | none =>
          match r with
          | '(' :: r1 =>
            match itermL fuel (skip r1) with
            | some (t, r2) =>
              match skip r2 with
              | ')' :: r3 => some (negs ++ [.prim t], r3)
              | _ => none
            | none => none
          | _ => none
def itailT : Nat → List Char → List ITok × List Char
  | 0, cs => ([], cs)
  | fuel + 1, cs =>
    match lexIOp (skip cs) with
    | some (o, r) =>
      match ioperand fuel (skip r) with
      | some (ts, r') => let (ts', r'') := itailT fuel r'; (.op o :: ts ++ ts', r'')
      | none => ([], cs)
    | none => ([], cs)
/-- `integer_term` -/
def itermL : Nat → List Char → Option (ITerm × List Char)
  | 0, _ => none
  | fuel + 1, cs =>
    match ioperand fuel cs with
    | some (ts, r) =>
      let (ts', r') := itailT fuel r
      match ipratt (ts ++ ts') with
      | some t => some (t, r')
      | none => none
    | none => none
end

/-! ## symbolic and general terms -/

/-- `symbolic_term = { symbolic_function_constant | symbolic_constant | symbolic_variable }` -/
def stermL (cs : List Char) : Option (STerm × List Char) :=
  match lexFnConst lexSortS cs with
  | some (c, r) => some (.fc (String.ofList c), r)
  | none =>
    match lexSymConst cs with
    | some (c, r) => some (.sym (String.ofList c), r)
    | none =>
      match lexSymVar cs with
      | some (x, r) => some (.var (String.ofList x), r)
      | none => none

/-- `general_term = { general_function_constant | integer_term | symbolic_term | general_variable | infimum | supremum }` -/
def gtermL (cs : List Char) : Option (GTerm × List Char) :=
  match lexFnConst lexSortG cs with
  | some (c, r) => some (.fc (String.ofList c), r)
  | none =>
    match itermL (2 * cs.length + 2) cs with
    | some (t, r) => some (.int t, r)
    | none =>
      match stermL cs with
      | some (t, r) => some (.symb t, r)
      | none =>
        match lexGenVar cs with
        | some (x, r) => some (.var (String.ofList x), r)
        | none =>
          match stripPrefix "#inf".toList cs with
          | some r => some (.inf, r)
          | none =>
            match stripPrefix "#sup".toList cs with
            | some r => some (.sup, r)
            | none => none

/-! ## atomic formulas -/

def gtermArgs : Nat → List Char → List GTerm × List Char
  | 0, cs => ([], cs)
  | fuel + 1, cs =>
    match skip cs with
    | ',' :: r =>
      match gtermL (skip r) with
      | some (t, r') => let (ts, r'') := gtermArgs fuel r'; (t :: ts, r'')
      | none => ([], cs)
    | _ => ([], cs)

/-- `atom = { predicate_symbol ~ term_tuple? }` -/
def atomL (cs : List Char) : Option (Atom × List Char) :=
  match lexSymConst cs with
  | none => none
  | some (s, r) =>
    let noTuple : Option (Atom × List Char) := some (⟨String.ofList s, []⟩, r)
    match skip r with
    | '(' :: r1 =>
      match gtermL (skip r1) with
      | some (t, r2) =>
        let (ts, r3) := gtermArgs (r2.length + 1) r2
        match skip r3 with
        | ')' :: r4 => some (⟨String.ofList s, t :: ts⟩, r4)
        | _ => noTuple
      | none =>
        match skip r1 with
        | ')' :: r4 => some (⟨String.ofList s, []⟩, r4)
        | _ => noTuple
    | _ => noTuple

/-- `relation = { greater_equal | less_equal | greater | less | not_equal | equal }` -/
def lexRelation : List Char → Option (Rel × List Char)
  | '>' :: '=' :: r => some (.ge, r)
  | '<' :: '=' :: r => some (.le, r)
  | '>' :: r => some (.gt, r)
  | '<' :: r => some (.lt, r)
  | '!' :: '=' :: r => some (.ne, r)
  | '=' :: r => some (.eq, r)
  | _ => none

/-- `guard+` after the first term: each guard is `relation ~ general_term` -/
def guardsL : Nat → List Char → List Guard × List Char
  | 0, cs => ([], cs)
  | fuel + 1, cs =>
    match lexRelation (skip cs) with
    | some (rel, r) =>
      match gtermL (skip r) with
      | some (t, r') => let (gs, r'') := guardsL fuel r'; (⟨rel, t⟩ :: gs, r'')
      | none => ([], cs)
    | none => ([], cs)

/-- `comparison = { general_term ~ guard+ }` -/
def comparisonL (cs : List Char) : Option (AtomicF × List Char) :=
  match gtermL cs with
  | some (t, r) =>
    match guardsL (r.length + 1) r with
    | ([], _) => none
    | (gs, r') => some (.cmp t gs, r')
  | none => none

/-- `atomic_formula = { truth | falsity | comparison | atom }` -/
def atomicL (cs : List Char) : Option (AtomicF × List Char) :=
  match stripPrefix "#true".toList cs with
  | some r => some (.tru, r)
  | none =>
    match stripPrefix "#false".toList cs with
    | some r => some (.fls, r)
    | none =>
      match comparisonL cs with
      | some x => some x
      | none =>
        match atomL cs with
        | some (a, r) => some (.atom a, r)
        | none => none

/-! ## formulas -/

inductive FTok
  | pneg
  | pquant (q : Quant) (vs : List Var)
  | op (c : Conn)
  | prim (f : Formula)
  deriving Repr, Inhabited

def Conn.bp : Conn → Nat
  | .iff | .imp | .rimp => 20
  | .or => 30
  | .and => 40

/-- right binding power for the recursive call of `led`: `prec` for left-, `prec - 1` for
    right-associative operators -/
def Conn.rbp : Conn → Nat
  | .iff | .imp => 19
  | .rimp => 20
  | .or => 30
  | .and => 40

mutual
def fprattExpr : Nat → Nat → List FTok → Option (Formula × List FTok)
  | 0, _, _ => none
  | fuel + 1, rbp, toks =>
    match toks with
    | .pneg :: r =>
      match fprattExpr fuel 49 r with
      | some (a, r') => fprattLoop fuel rbp (.not a) r'
      | none => none
    | .pquant q vs :: r =>
      match fprattExpr fuel 49 r with
      | some (a, r') => fprattLoop fuel rbp (.quant q vs a) r'
      | none => none
    | .prim t :: r => fprattLoop fuel rbp t r
    | _ => none
def fprattLoop : Nat → Nat → Formula → List FTok → Option (Formula × List FTok)
  | 0, _, _, _ => none
  | fuel + 1, rbp, lhs, toks =>
    match toks with
    | [] => some (lhs, [])
    | .op c :: r =>
      if rbp < Conn.bp c then
        match fprattExpr fuel (Conn.rbp c) r with
        | some (rhs, r') => fprattLoop fuel rbp (.bin c lhs rhs) r'
        | none => none
      else some (lhs, .op c :: r)
    | .pneg :: r => if rbp < 50 then none else some (lhs, .pneg :: r)
    | .pquant q vs :: r => if rbp < 50 then none else some (lhs, .pquant q vs :: r)
    | .prim _ :: _ => none
end

def fpratt (toks : List FTok) : Option Formula :=
  match fprattExpr (2 * toks.length + 2) 0 toks with
  | some (t, []) => some t
  | _ => none

def notIdNext : List Char → Bool
  | [] => true
  | c :: _ => !isIdChar c

/-- after `not` (fix 2ca6488): neither an identifier character nor `$`, so that `not$i` is a sorted constant -/
def notWordNext : List Char → Bool
  | [] => true
  | c :: _ => !(isIdChar c || c == '$')

/-- `variable+` after a quantifier -/
def variablesL : Nat → List Char → List Var × List Char
  | 0, cs => ([], cs)
  | fuel + 1, cs =>
    match lexVariable (skip cs) with
    | some (v, r) => let (vs, r') := variablesL fuel r; (v :: vs, r')
    | none => ([], cs)

/-- `prefix = _{ quantification | unary_connective }` -/
def prefixL (cs : List Char) : Option (FTok × List Char) :=
  let quant (q : Quant) (r : List Char) : Option (FTok × List Char) :=
    match variablesL (r.length + 1) r with
    | ([], _) => none
    | (vs, r') => some (.pquant q vs, r')
  let qres : Option (FTok × List Char) :=
    match stripPrefix "forall".toList cs with
    | some r => if notIdNext r then quant .all r else none
    | none =>
      match stripPrefix "exists".toList cs with
      | some r => if notIdNext r then quant .ex r else none
      | none => none
  match qres with
  | some x => some x
  | none =>
    match stripPrefix "not".toList cs with
    | some r => if notWordNext r then some (.pneg, r) else none
    | none => none

def prefixesL : Nat → Bool → List Char → List FTok × List Char
  | 0, _, cs => ([], cs)
  | fuel + 1, first, cs =>
    match prefixL (if first then cs else skip cs) with
    | some (t, r) => let (ts, r') := prefixesL fuel false r; (t :: ts, r')
    | none => ([], cs)

/-- `binary_connective = _{ equivalence | implication | reverse_implication | conjunction | disjunction }` -/
def lexConn (cs : List Char) : Option (Conn × List Char) :=
  match stripPrefix "<->".toList cs with
  | some r => some (.iff, r)
  | none =>
    match stripPrefix "->".toList cs with
    | some r => some (.imp, r)
    | none =>
      match stripPrefix "<-".toList cs with
      | some r => some (.rimp, r)
      | none =>
        match stripPrefix "and".toList cs with
        | some r => some (.and, r)
        | none =>
          match stripPrefix "or".toList cs with
          | some r => some (.or, r)
          | none => none

mutual
/-- `prefix* ~ primary`, `primary = _{ "(" ~ formula ~ ")" | atomic_formula }` -/
def foperand : Nat → List Char → Option (List FTok × List Char)
  | 0, _ => none
  | fuel + 1, cs =>
    let (pres, r0) := prefixesL (cs.length + 1) true cs
    let r := skip r0
    let paren : Option (List FTok × List Char) :=
      match r with
      | '(' :: r1 =>
        match formulaL fuel (skip r1) with
        | some (f, r2) =>
          match skip r2 with
          | ')' :: r3 => some (pres ++ [.prim f], r3)
          | _ => none
        | none => none
      | _ => none
    match paren with
    | some x => some x
    | none =>
      match atomicL r with
      | some (a, r') => some (pres ++ [.prim (.atomic a)], r')
      | none => none
def ftailT : Nat → List Char → List FTok × List Char
  | 0, cs => ([], cs)
  | fuel + 1, cs =>
    match lexConn (skip cs) with
    | some (c, r) =>
      match foperand fuel (skip r) with
      | some (ts, r') => let (ts', r'') := ftailT fuel r'; (.op c :: ts ++ ts', r'')
      | none => ([], cs)
    | none => ([], cs)
/-- `formula` -/
def formulaL : Nat → List Char → Option (Formula × List Char)
  | 0, _ => none
  | fuel + 1, cs =>
    match foperand fuel cs with
    | some (ts, r) =>
      let (ts', r') := ftailT fuel r
      match fpratt (ts ++ ts') with
      | some f => some (f, r')
      | none => none
    | none => none
end

def formulaTop (cs : List Char) : Option (Formula × List Char) := formulaL (2 * cs.length + 2) cs

/-- `(formula ~ ".")*` -/
def formulasDot : Nat → List Char → List Formula × List Char
  | 0, cs => ([], cs)
  | fuel + 1, cs =>
    match formulaTop (skip cs) with
    | some (f, r) =>
      match skip r with
      | '.' :: r' => let (fs, r'') := formulasDot fuel r'; (f :: fs, r'')
      | _ => ([], cs)
    | none => ([], cs)

/-- `theory_eoi` -/
def parseTheory (s : String) : Option Theory :=
  let (fs, rest) := formulasDot (s.length + 1) s.toList
  match skip rest with
  | [] => some fs
  | _ => none

/-! ## annotated formulas, specifications, user guides -/

def lexRole (cs : List Char) : Option (SRole × List Char) :=
  match stripPrefix "assumption".toList cs with
  | some r => some (.assumption, r)
  | none =>
    match stripPrefix "spec".toList cs with
    | some r => some (.spec, r)
    | none =>
      match stripPrefix "lemma".toList cs with
      | some r => some (.lemma, r)
      | none =>
        match stripPrefix "definition".toList cs with
        | some r => some (.definition, r)
        | none =>
          match stripPrefix "inductive-lemma".toList cs with
          | some r => some (.inductiveLemma, r)
          | none => none

def lexDirection (cs : List Char) : Option (Direction × List Char) :=
  match stripPrefix "universal".toList cs with
  | some r => some (.universal, r)
  | none =>
    match stripPrefix "forward".toList cs with
    | some r => some (.forward, r)
    | none =>
      match stripPrefix "backward".toList cs with
      | some r => some (.backward, r)
      | none => none

/-- `("(" ~ direction ~ ")")?` -/
def dirOptL (r0 : List Char) : Direction × List Char :=
  match skip r0 with
  | '(' :: a =>
    match lexDirection (skip a) with
    | some (d, b) =>
      match skip b with
      | ')' :: c => (d, c)
      | _ => (.universal, r0)
    | none => (.universal, r0)
  | _ => (.universal, r0)

/-- `("[" ~ symbolic_constant ~ "]")?` -/
def nameOptL (r1 : List Char) : String × List Char :=
  match skip r1 with
  | '[' :: a =>
    match lexSymConst (skip a) with
    | some (n, b) =>
      match skip b with
      | ']' :: c => (String.ofList n, c)
      | _ => ("", r1)
    | none => ("", r1)
  | _ => ("", r1)

/-- `annotated_formula = { role ~ ("(" ~ direction ~ ")")? ~ ("[" ~ symbolic_constant ~ "]")? ~ ":" ~ formula }` -/
def annotatedL (cs : List Char) : Option (SAnn × List Char) :=
  match lexRole cs with
  | none => none
  | some (role, r0) =>
    match dirOptL r0 with
    | (dir, r1) =>
      match nameOptL r1 with
      | (name, r2) =>
        match skip r2 with
        | ':' :: r3 =>
          match formulaTop (skip r3) with
          | some (f, r4) => some (⟨role, dir, name, f⟩, r4)
          | none => none
        | _ => none

def annotatedDot : Nat → List Char → List SAnn × List Char
  | 0, cs => ([], cs)
  | fuel + 1, cs =>
    match annotatedL (skip cs) with
    | some (a, r) =>
      match skip r with
      | '.' :: r' => let (as, r'') := annotatedDot fuel r'; (a :: as, r'')
      | _ => ([], cs)
    | none => ([], cs)

def parseSpecification (s : String) : Option Specification :=
  let (as, rest) := annotatedDot (s.length + 1) s.toList
  match skip rest with
  | [] => some as
  | _ => none

/-- `arity = @{ ("0") | (ASCII_NONZERO_DIGIT ~ ASCII_DIGIT*) }` -/
def lexArity : List Char → Option (Nat × List Char)
  | '0' :: r => some (0, r)
  | c :: r =>
    if isNonzeroDigit c then some (Nat.ofDigitChars 10 (c :: r.takeWhile Char.isDigit) 0, r.dropWhile Char.isDigit)
    else none
  | [] => none

/-- `predicate = { predicate_symbol ~ "/" ~ arity }` -/
def predicateL (cs : List Char) : Option (Pred × List Char) :=
  match lexSymConst cs with
  | some (s, r) =>
    match skip r with
    | '/' :: r1 =>
      match lexArity (skip r1) with
      | some (n, r2) => some (⟨String.ofList s, n⟩, r2)
      | none => none
    | _ => none
  | none => none

/-- `"input" ~ ":"` / `"output" ~ ":"` -/
def keywordColon (kw : String) (cs : List Char) : Option (List Char) :=
  match stripPrefix kw.toList cs with
  | some r =>
    match skip r with
    | ':' :: r1 => some (skip r1)
    | _ => none
  | none => none

/-- `user_guide_entry = { input_predicate | output_predicate | placeholder_declaration | annotated_formula }` -/
def ugEntryL (cs : List Char) : Option (UGEntry × List Char) :=
  let inp : Option (UGEntry × List Char) :=
    match keywordColon "input" cs with
    | some r => (predicateL r).map fun (p, r') => (.input p, r')
    | none => none
  match inp with
  | some x => some x
  | none =>
    let outp : Option (UGEntry × List Char) :=
      match keywordColon "output" cs with
      | some r => (predicateL r).map fun (p, r') => (.output p, r')
      | none => none
    match outp with
    | some x => some x
    | none =>
      let ph : Option (UGEntry × List Char) :=
        match keywordColon "input" cs with
        | some r =>
          match lexSymConst r with
          | some (n, r1) =>
            match stripPrefix "->".toList (skip r1) with
            | some r2 =>
              match lexSort (skip r2) with
              | some (s, r3) => some (.placeholder (String.ofList n) s, r3)
              | none => some (.placeholder (String.ofList n) .general, r1)
            | none => some (.placeholder (String.ofList n) .general, r1)
          | none => none
        | none => none
      match ph with
      | some x => some x
      | none => (annotatedL cs).map fun (a, r) => (.formula a, r)

def ugEntriesDot : Nat → List Char → List UGEntry × List Char
  | 0, cs => ([], cs)
  | fuel + 1, cs =>
    match ugEntryL (skip cs) with
    | some (e, r) =>
      match skip r with
      | '.' :: r' => let (es, r'') := ugEntriesDot fuel r'; (e :: es, r'')
      | _ => ([], cs)
    | none => ([], cs)

def parseUserGuide (s : String) : Option UserGuide :=
  let (es, rest) := ugEntriesDot (s.length + 1) s.toList
  match skip rest with
  | [] => some es
  | _ => none

/-! ## the range of numerals (`isize`) and arities (`usize`): checked after the grammar has accepted the text -/

def isizeFits (n : Int) : Bool := decide (-9223372036854775808 ≤ n) && decide (n ≤ 9223372036854775807)
def usizeFits (n : Nat) : Bool := decide (n ≤ 18446744073709551615)

def itermInRange : ITerm → Bool
  | .num n => isizeFits n
  | .fc _ | .var _ => true
  | .neg t => itermInRange t
  | .bin _ l r => itermInRange l && itermInRange r

def gtermInRange : GTerm → Bool
  | .int t => itermInRange t
  | _ => true

def atomicInRange : AtomicF → Bool
  | .atom a => a.args.all gtermInRange
  | .cmp t gs => gtermInRange t && gs.all fun g => gtermInRange g.term
  | _ => true

def formulaInRange : Formula → Bool
  | .atomic a => atomicInRange a
  | .not f => formulaInRange f
  | .bin _ l r => formulaInRange l && formulaInRange r
  | .quant _ _ f => formulaInRange f

def ugEntryInRange : UGEntry → Bool
  | .input p | .output p => usizeFits p.arity
  | .placeholder _ _ => true
  | .formula a => formulaInRange a.formula

/-- the parsers since the numeral-range fix: accepted by the grammar and every number fits -/
def parseTheoryChecked (s : String) : Option Theory :=
  match parseTheory s with
  | some t => if t.all formulaInRange then some t else none
  | none => none

def parseSpecificationChecked (s : String) : Option Specification :=
  match parseSpecification s with
  | some t => if t.all (fun a => formulaInRange a.formula) then some t else none
  | none => none

def parseUserGuideChecked (s : String) : Option UserGuide :=
  match parseUserGuide s with
  | some u => if u.all ugEntryInRange then some u else none
  | none => none

end Anthem.Fol
