/-
  `choose_fresh_variable_names` (identical copies in tau_star.rs and classic.rs): choose `arity`
  names `variant, variant1, variant2, …` not among the taken names. The inner `while` loop is a
  search with fuel; `taken.length + chosen.length + 1` candidates always suffice.
-/
namespace Anthem

def searchName (variant : String) (taken fresh : List String) : Nat → Nat → String
  | 0, m => variant ++ toString m
  | fuel + 1, m =>
    let c := variant ++ toString m
    if c ∈ taken || c ∈ fresh then searchName variant taken fresh fuel (m + 1) else c

def chooseFreshLoop (variant : String) (taken : List String) : List Nat → List String → List String
  | [], fresh => fresh
  | n :: ns, fresh =>
    let c := searchName variant taken fresh (taken.length + fresh.length + 1) n
    chooseFreshLoop variant taken ns (fresh ++ [c])

/-- `choose_fresh_variable_names(variables, variant, arity)`; `taken` are the *names* of `variables`. -/
def chooseFresh (taken : List String) (variant : String) (arity : Nat) : List String :=
  if arity < 1 then []
  else if variant ∈ taken then chooseFreshLoop variant taken (List.range' 1 arity) []
  else chooseFreshLoop variant taken (List.range' 1 (arity - 1)) [variant]

end Anthem
