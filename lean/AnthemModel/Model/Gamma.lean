/-
  Model of /repo/src/translating/classical_reduction/gamma.rs.
  `prepend_predicate` is `apply` (post-order) of an operation that only changes atoms, i.e. a
  structural map over the atoms.
-/
import AnthemModel.Syntax.Fol
namespace Anthem

def prependPred (pre : String) : Formula → Formula
  | .atomic (.atom a) => .atomic (.atom { a with pred := pre ++ a.pred })
  | .atomic a => .atomic a
  | .not f => .not (prependPred pre f)
  | .bin c l r => .bin c (prependPred pre l) (prependPred pre r)
  | .quant q vs f => .quant q vs (prependPred pre f)

def Formula.here (f : Formula) : Formula := prependPred "h" f
def Formula.there (f : Formula) : Formula := prependPred "t" f

def gamma : Formula → Formula
  | .atomic a => (Formula.atomic a).here
  | .not f => .not f.there
  | .bin .and l r => .bin .and (gamma l) (gamma r)
  | .bin .or l r => .bin .or (gamma l) (gamma r)
  | .bin .imp l r => .bin .and (.bin .imp (gamma l) (gamma r)) (.bin .imp l.there r.there)
  | .bin .rimp l r => .bin .and (.bin .rimp (gamma l) (gamma r)) (.bin .rimp l.there r.there)
  | .bin .iff l r => .bin .and (.bin .iff (gamma l) (gamma r)) (.bin .iff l.there r.there)
  | .quant q vs f => .quant q vs (gamma f)

def gammaTheory (t : Theory) : Theory := t.map gamma

end Anthem
