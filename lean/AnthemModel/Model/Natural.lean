/-
  Model of /repo/src/translating/formula_representation/{natural,mu}.rs and analyzing/regularity.rs.
-/
import AnthemModel.Model.TauStar
namespace Anthem
open Asp

def containsSIS : Term → Bool
  | .var _ => false
  | .pre (.sym _) | .pre .inf | .pre .sup => true
  | .pre (.num _) => false
  | .neg a => containsSIS a
  | .bin _ l r => containsSIS l || containsSIS r

def regFirst : Term → Bool
  | .var _ | .pre _ => true
  | .neg a => regFirst a && !containsSIS a
  | .bin op l r =>
    match op with
    | .add | .sub | .mul => regFirst l && !containsSIS l && regFirst r && !containsSIS r
    | _ => false

def regSecond : Term → Bool
  | .bin .interval l r => regFirst l && !containsSIS l && regFirst r && !containsSIS r
  | _ => false

def p2fInt : Term → Option ITerm
  | .var x => some (.var x)
  | .pre (.num n) => some (.num n)
  | .neg a => (p2fInt a).map .neg
  | .bin op l r =>
    match op with
    | .add => do some (.bin .add (← p2fInt l) (← p2fInt r))
    | .sub => do some (.bin .sub (← p2fInt l) (← p2fInt r))
    | .mul => do some (.bin .mul (← p2fInt l) (← p2fInt r))
    | _ => none
  | _ => none

def p2f (t : Term) (intVars : List String) : Option GTerm :=
  if !regFirst t then none
  else match t with
    | .var x => if x ∈ intVars then some (.int (.var x)) else some (.var x)
    | .pre p => some (preToGTerm p)
    | t => (p2fInt t).map .int

/-- one step of the first loop of `int_variables` -/
def intVarsStepTerm (acc : List String) (t : Term) : List String :=
  match t with
  | .neg a => ext acc a.vars
  | .bin _ l r => ext (ext acc l.vars) r.vars
  | _ => acc

/-- one step of the second loop of `int_variables` -/
def intVarsStepBody (acc : List String) (f : BodyAtom) : List String :=
  match f with
  | .cmp .eq l rhs => if regSecond rhs then ext acc l.vars else acc
  | _ => acc

def intVariables (r : Rule) : List String :=
  r.body.foldl intVarsStepBody (r.terms.foldl intVarsStepTerm [])

def naturalComparison (rel : Asp.Rel) (l r : Term) (iv : List String) : Option Formula := do
  let lhs ← p2f l iv
  if rel = .eq && regSecond r then
    match r with
    | .bin _ t2 t3 =>
      let t2' ← p2f t2 iv
      let t3' ← p2f t3 iv
      some (.atomic (.cmp t2' [⟨.le, lhs⟩, ⟨.le, t3'⟩]))
    | _ => none
  else
    let rhs ← p2f r iv
    some (.atomic (.cmp lhs [⟨convRel rel, rhs⟩]))

def naturalBAtom (a : Asp.Atom) (iv : List String) : Option Anthem.Atom := do
  let ts ← a.args.mapM fun t => p2f t iv
  some ⟨a.pred, ts⟩

def naturalBody (b : List BodyAtom) (iv : List String) : Option Formula := do
  let fs ← b.mapM fun f =>
    match f with
    | .lit l => (naturalBAtom l.atom iv).map fun a => signed l.sign (.atomic (.atom a))
    | .cmp rel l r => naturalComparison rel l r iv
  some (conjoin fs)

def searchNj (taken : List String) (i : Nat) : Nat → Nat → String
  | 0, j => "N" ++ toString i ++ "_" ++ toString j
  | fuel + 1, j =>
    let c := "N" ++ toString i ++ "_" ++ toString j
    if c ∈ taken then searchNj taken i fuel (j + 1) else c

def freshVarsForHeadAtom (a : Asp.Atom) : List String :=
  let taken := a.vars
  (enumerate a.args).filterMap fun (i, t) =>
    if !regFirst t then
      let n := "N" ++ toString i
      if n ∈ taken then some (searchNj taken i (taken.length + 1) 0) else some n
    else none

/-- `natural_head_atom` and `natural_head_interval` walk the terms with one iterator over the
    fresh names; the model threads the remaining names. -/
def naturalHeadTerms (iv : List String) : List Term → List String → Option (List GTerm)
  | [], _ => some []
  | t :: ts, fresh =>
    if regFirst t then do
      let g ← p2f t iv
      let rest ← naturalHeadTerms iv ts fresh
      some (g :: rest)
    else if regSecond t then
      match fresh with
      | f :: fs => do
        let rest ← naturalHeadTerms iv ts fs
        some (.int (.var f) :: rest)
      | [] => none -- unreachable: one fresh name per non-first-kind term
    else none

def naturalHeadIntervals (iv : List String) : List Term → List String → List Formula
  | [], _ => []
  | t :: ts, fresh =>
    if regSecond t then
      match t, fresh with
      | .bin _ t1 t2, f :: fs =>
        match p2f t1 iv, p2f t2 iv with
        | some a, some b =>
          .atomic (.cmp a [⟨.le, .int (.var f)⟩, ⟨.le, b⟩]) :: naturalHeadIntervals iv ts fs
        | _, _ => naturalHeadIntervals iv ts fs -- unreachable (`expect`)
      | _, _ => naturalHeadIntervals iv ts fresh
    else naturalHeadIntervals iv ts fresh

def naturalHeadWith (a : Asp.Atom) (iv : List String) (choice : Bool) : Option Formula := do
  let fresh := freshVarsForHeadAtom a
  let ts ← naturalHeadTerms iv a.args fresh
  let headAtom := Formula.atomic (.atom ⟨a.pred, ts⟩)
  let conclusion := if choice then .bin .or headAtom (.not headAtom) else headAtom
  if fresh.isEmpty then some conclusion
  else
    some (.quant .all (fresh.map fun v => ⟨v, .integer⟩)
      (.bin .imp (conjoin (naturalHeadIntervals iv a.args fresh)) conclusion))

def naturalHead (h : Head) (iv : List String) : Option Formula :=
  match h with
  | .basic a => naturalHeadWith a iv false
  | .choice a => naturalHeadWith a iv true
  | .falsity => some .fls

def naturalRule (r : Rule) : Option Formula := do
  let iv := intVariables r
  let head ← naturalHead r.head iv
  let body ← naturalBody r.body iv
  some (Formula.bin .imp body head).universalClosure

def natural (p : Program) : Option Theory := p.mapM naturalRule

def isRegular (p : Program) : Bool := (natural p).isSome

def mu (p : Program) : Theory :=
  let globals := chooseFreshGlobals p
  p.map fun r => match naturalRule r with
    | some f => f
    | none => tauStarRule r globals

end Anthem
