/-
  Models of the default printers: /repo/src/formatting/asp/mini_gringo/default.rs,
  /repo/src/formatting/fol/sigma_0/default.rs (after the `fix:` that parenthesises an atomic
  quantifier body beginning with a variable) and the precedence machinery of formatting/mod.rs.
-/
import AnthemModel.Syntax.Asp
import AnthemModel.Model.External
namespace Anthem

/-- `fmt_binary` parenthesisation rule of formatting/mod.rs for operators that are all
    left-associative: lhs needs parentheses iff it binds weaker; rhs iff weaker or equal. -/
def parenIf (b : Bool) (s : String) : String := if b then "(" ++ s ++ ")" else s

namespace Asp

def Pre.print : Pre → String
  | .inf => "#inf" | .sup => "#sup" | .num n => toString n | .sym s => s

def Term.prec : Term → Nat
  | .pre (.num n) => if n ≥ 1 then 1 else 0
  | .pre _ | .var _ | .neg _ => 0
  | .bin op _ _ => match op with
    | .mul | .div | .mod => 2
    | .add | .sub => 3
    | .interval => 4

def Op.print : Op → String
  | .add => " + " | .sub => " - " | .mul => " * " | .div => " / " | .mod => " \\ " | .interval => ".."

def Term.print : Term → String
  | .pre p => p.print
  | .var x => x
  | .neg a => "-" ++ parenIf (0 < a.prec) a.print
  | .bin op l r =>
    let self : Term := .bin op l r
    parenIf (self.prec < l.prec) l.print ++ op.print ++ parenIf (self.prec < r.prec || self.prec = r.prec) r.print

def Atom.print (a : Atom) : String :=
  if a.args.isEmpty then a.pred else a.pred ++ "(" ++ ", ".intercalate (a.args.map Term.print) ++ ")"

def Rel.print : Rel → String
  | .eq => "=" | .ne => "!=" | .lt => "<" | .le => "<=" | .gt => ">" | .ge => ">="

def BodyAtom.print : BodyAtom → String
  | .lit ⟨.pos, a⟩ => a.print
  | .lit ⟨.neg, a⟩ => "not " ++ a.print
  | .lit ⟨.negneg, a⟩ => "not not " ++ a.print
  | .cmp r l rhs => l.print ++ " " ++ r.print ++ " " ++ rhs.print

def Head.print : Head → String
  | .basic a => a.print
  | .choice a => "{" ++ a.print ++ "}"
  | .falsity => ""

def Rule.print (r : Rule) : String :=
  r.head.print ++ (if r.head = .falsity ∨ !r.body.isEmpty then " :- " else "") ++
    ", ".intercalate (r.body.map BodyAtom.print) ++ "."

def printProgram (p : Program) : String := String.join (p.map fun r => r.print ++ "\n")

end Asp

/-! ## target language -/

def ITerm.prec : ITerm → Nat
  | .num n => if n ≥ 1 then 1 else 0
  | .fc _ | .var _ | .neg _ => 0
  | .bin .mul _ _ => 2
  | .bin _ _ _ => 3

def IOp.print : IOp → String | .add => " + " | .sub => " - " | .mul => " * "

def ITerm.print : ITerm → String
  | .num n => toString n
  | .fc c => c ++ "$i"
  | .var v => v ++ "$i"
  | .neg a => "-" ++ parenIf (0 < a.prec) a.print
  | .bin op l r =>
    let self : ITerm := .bin op l r
    parenIf (self.prec < l.prec) l.print ++ op.print ++ parenIf (self.prec < r.prec || self.prec = r.prec) r.print

def STerm.print : STerm → String
  | .sym s => s | .fc c => c ++ "$s" | .var v => v ++ "$s"

def GTerm.print : GTerm → String
  | .inf => "#inf" | .sup => "#sup" | .fc c => c ++ "$g" | .var v => v
  | .int t => t.print | .symb t => t.print

def Rel.print : Rel → String
  | .eq => "=" | .ne => "!=" | .ge => ">=" | .le => "<=" | .gt => ">" | .lt => "<"

def AtomicF.print : AtomicF → String
  | .tru => "#true"
  | .fls => "#false"
  | .atom a => if a.args.isEmpty then a.pred else a.pred ++ "(" ++ ", ".intercalate (a.args.map GTerm.print) ++ ")"
  | .cmp t gs => t.print ++ String.join (gs.map fun g => " " ++ g.rel.print ++ " " ++ g.term.print)

def Var.print (v : Var) : String := Var.display v

def Formula.prec : Formula → Nat
  | .atomic _ => 0
  | .not _ | .quant .. => 1
  | .bin .and _ _ => 2
  | .bin .or _ _ => 3
  | .bin _ _ _ => 4

def Formula.mandatory : Formula → Bool
  | .bin .iff _ _ | .bin .imp _ _ | .bin .rimp _ _ => true
  | _ => false

/-- right-associative connectives: `<->` and `->` -/
def Formula.rightAssoc : Formula → Bool
  | .bin .iff _ _ | .bin .imp _ _ => true
  | _ => false

def Conn.print : Conn → String
  | .iff => " <-> " | .imp => " -> " | .rimp => " <- " | .and => " and " | .or => " or "

def startsWithVariable (s : String) : Bool :=
  match s.toList.head? with
  | some c => c = '_' || c.isUpper
  | none => false

/-- `begins_with_comparison` (fix: comparison after `<-`): the leftmost leaf is a comparison -/
def Formula.beginsWithComparison : Formula → Bool
  | .atomic (.cmp _ _) => true
  | .bin _ l _ => l.beginsWithComparison
  | _ => false

def Formula.print : Formula → String
  | .atomic a => a.print
  | .not f => "not " ++ parenIf (f.mandatory || 1 < f.prec) f.print
  | .quant q vs f =>
    let op := (match q with | .all => "forall" | .ex => "exists") ++
      String.join (vs.map fun v => " " ++ v.print) ++ " "
    let inner := f.print
    match f with
    | .atomic _ => if startsWithVariable inner then op ++ "(" ++ inner ++ ")" else op ++ inner
    | _ => op ++ parenIf (f.mandatory || 1 < f.prec) inner
  | .bin c l r =>
    let self : Formula := .bin c l r
    parenIf (l.mandatory || self.prec < l.prec || (self.prec = l.prec && l.rightAssoc)) l.print ++
      c.print ++
    parenIf ((c = .rimp && r.beginsWithComparison) ||
      r.mandatory || self.prec < r.prec || (self.prec = r.prec && !self.rightAssoc)) r.print

def printTheory (t : Theory) : String := String.join (t.map fun f => f.print ++ ".\n")

def SRole.print : SRole → String
  | .assumption => "assumption" | .spec => "spec" | .lemma => "lemma" | .definition => "definition"
  | .inductiveLemma => "inductive-lemma"

def SAnn.print (a : SAnn) : String :=
  a.role.print ++
  (match a.direction with | .universal => "" | .forward => "(forward)" | .backward => "(backward)") ++
  (if a.name.isEmpty then "" else "[" ++ a.name ++ "]") ++ ": " ++ a.formula.print

def printSpecification (s : Specification) : String := String.join (s.map fun a => a.print ++ ".\n")

def UGEntry.print : UGEntry → String
  | .input p => "input: " ++ p.symbol ++ "/" ++ toString p.arity
  | .output p => "output: " ++ p.symbol ++ "/" ++ toString p.arity
  | .placeholder n s => "input: " ++ n ++ " -> " ++ (match s with | .general => "g" | .integer => "i" | .symbol => "s")
  | .formula a => a.print

def printUserGuide (u : UserGuide) : String := String.join (u.map fun e => e.print ++ ".\n")

end Anthem
