/-
  Model of /repo/src/verifying/problem/mod.rs (structure; the TPTP text is in Model/TptpFmt),
  /repo/src/breaking/fol/sigma_0/ht.rs and the symbol-renaming helpers of sigma_0.rs.
-/
import AnthemModel.Syntax.Fol
namespace Anthem

inductive PRole | axiom | conjecture
  deriving DecidableEq, Repr, Inhabited

structure AnnF where
  name : String
  role : PRole
  formula : Formula
  deriving DecidableEq, Repr, Inhabited

structure Problem where
  name : String
  formulas : List AnnF
  deriving DecidableEq, Repr, Inhabited

/-- `add_annotated_formulas`: empty names become `unnamed_formula`, names starting with `_` get an `f` prefix. -/
def fixName (n : String) : String :=
  if n.isEmpty then "unnamed_formula"
  else if n.toList.head? = some '_' then "f" ++ n else n

def Problem.addAnnotated (p : Problem) (fs : List AnnF) : Problem :=
  { p with formulas := p.formulas ++ fs.map fun a => { a with name := fixName a.name } }

/-- `add_theory` with a name prefix and a role. -/
def Problem.addTheory (p : Problem) (t : Theory) (pre : String) (role : PRole) : Problem :=
  { p with formulas := p.formulas ++
      (enumerateFrom 0 t).map fun (i, f) => ⟨pre ++ toString i, role, f⟩ }
where
  enumerateFrom (k : Nat) : List Formula → List (Nat × Formula)
    | [] => []
    | f :: fs => (k, f) :: enumerateFrom (k + 1) fs

def Problem.preds (p : Problem) : List Pred := p.formulas.foldl (fun acc a => ext acc a.formula.preds) []
def Problem.symbols (p : Problem) : List String := p.formulas.foldl (fun acc a => ext acc a.formula.symbols) []
def Problem.fcs (p : Problem) : List FnConst := p.formulas.foldl (fun acc a => ext acc a.formula.fcs) []

/-- the names tried for a propositional predicate `s` that clashes with a symbolic constant:
    `s_p`, `s_p1`, `s_p2`, … -/
def propName (s : String) (i : Nat) : String := if i = 0 then s ++ "_p" else s ++ "_p" ++ toString i

/-- the `while occupied.contains(&name)` loop: first index from `i` whose name is free -/
def findPropName (occ : List String) (s : String) : Nat → Nat → Nat
  | 0, i => i
  | fuel + 1, i => if propName s i ∈ occ then findPropName occ s fuel (i + 1) else i

def propRenameStep (acc : List String × List (String × String)) (s : String) :
    List String × List (String × String) :=
  let n := propName s (findPropName acc.1 s (acc.1.length + 1) 0)
  (acc.1 ++ [n], acc.2 ++ [(s, n)])

/-- the names occupied in a problem: symbolic constants, predicate symbols (any arity), placeholders -/
def Problem.occupiedNames (p : Problem) : List String :=
  p.symbols ++ p.preds.map (·.symbol) ++ p.fcs.map (·.name)

/-- the propositional predicates that share their name with a symbolic constant, with the new names -/
def Problem.propRenaming (p : Problem) : List (String × String) :=
  (((p.preds.filter fun q => q.arity = 0 && q.symbol ∈ p.symbols).map (·.symbol)).foldl propRenameStep
    (p.occupiedNames, [])).2

def renameProp (m : List (String × String)) (a : Atom) : Atom :=
  if a.args.isEmpty then
    match m.find? (fun e => e.1 = a.pred) with
    | some e => ⟨e.2, []⟩
    | none => a
  else a

def Formula.renameProps (m : List (String × String)) : Formula → Formula
  | .atomic (.atom a) => .atomic (.atom (renameProp m a))
  | .atomic a => .atomic a
  | .not f => .not (f.renameProps m)
  | .bin c l r => .bin c (l.renameProps m) (r.renameProps m)
  | .quant q vs f => .quant q vs (f.renameProps m)

/-- `rename_conflicting_symbols` (since fix of the symbol-order defect): a propositional predicate whose
    name is also a symbolic constant of the problem is renamed to a free name; symbolic constants keep
    their names (and hence their place in the order). -/
def Problem.renameConflictingSymbols (p : Problem) : Problem :=
  let m := p.propRenaming
  { p with formulas := p.formulas.map fun a => { a with formula := a.formula.renameProps m } }

def Problem.uniqueNames (p : Problem) : Problem :=
  { p with formulas := (indexFrom 0 p.formulas).map fun (i, a) =>
      { a with name := "formula_" ++ toString i ++ "_" ++ a.name } }

def Problem.axioms (p : Problem) : List AnnF := p.formulas.filter (·.role = .axiom)
def Problem.conjectures (p : Problem) : List AnnF := p.formulas.filter (·.role = .conjecture)

def Problem.decomposeIndependent (p : Problem) : List Problem :=
  let ax := p.axioms
  (indexFrom 0 p.conjectures).map fun (i, c) => ⟨p.name ++ "_" ++ toString i, ax ++ [c]⟩

/-- `if let Some(last) = formulas.last_mut() { last.role = Role::Axiom }` -/
def setLastAxiom : List AnnF → List AnnF
  | [] => []
  | [a] => [{ a with role := .axiom }]
  | a :: b :: rest => a :: setLastAxiom (b :: rest)

/-- `decompose_sequential`: before each conjecture is pushed the last formula so far becomes an axiom. -/
def seqLoop (name : String) : Nat → List AnnF → List AnnF → List Problem
  | _, _, [] => []
  | i, acc, c :: cs =>
    let acc' := setLastAxiom acc ++ [c]
    ⟨name ++ "_" ++ toString i, acc'⟩ :: seqLoop name (i + 1) acc' cs

def Problem.decomposeSequential (p : Problem) : List Problem := seqLoop p.name 0 p.axioms p.conjectures

inductive Decomposition | independent | sequential
  deriving DecidableEq, Repr

def Problem.decompose (p : Problem) : Decomposition → List Problem
  | .independent => p.decomposeIndependent
  | .sequential => p.decomposeSequential

/-! ## breaking/fol/sigma_0/ht.rs -/

def breakEquivalencesFormula : Formula → List Formula
  | .bin .iff l r => [.bin .imp l r, .bin .rimp l r]
  | .quant .all vs f => (breakEquivalencesFormula f).map fun g => g.quantify .all vs
  | f => [f]

def breakEquivalencesTheory (t : Theory) : Theory := t.flatMap breakEquivalencesFormula

end Anthem
