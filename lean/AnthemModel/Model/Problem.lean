/-
  Model of /repo/src/verifying/problem/mod.rs (structure; the TPTP text is in Model/TptpFmt),
  /repo/src/breaking/fol/sigma_0/ht.rs and the symbol-renaming helpers of sigma_0.rs.
-/
import AnthemModel.Syntax.Fol
namespace Anthem

inductive PRole | axiom | conjecture
  deriving DecidableEq, Repr, Inhabited

structure AnnF where
  name : String
  role : PRole
  formula : Formula
  deriving DecidableEq, Repr, Inhabited

structure Problem where
  name : String
  formulas : List AnnF
  deriving DecidableEq, Repr, Inhabited

/-- `add_annotated_formulas`: empty names become `unnamed_formula`, names starting with `_` get an `f` prefix. -/
def fixName (n : String) : String :=
  if n.isEmpty then "unnamed_formula"
  else if n.toList.head? = some '_' then "f" ++ n else n

def Problem.addAnnotated (p : Problem) (fs : List AnnF) : Problem :=
  { p with formulas := p.formulas ++ fs.map fun a => { a with name := fixName a.name } }

/-- `add_theory` with a name prefix and a role. -/
def Problem.addTheory (p : Problem) (t : Theory) (pre : String) (role : PRole) : Problem :=
  { p with formulas := p.formulas ++
      (enumerateFrom 0 t).map fun (i, f) => ⟨pre ++ toString i, role, f⟩ }
where
  enumerateFrom (k : Nat) : List Formula → List (Nat × Formula)
    | [] => []
    | f :: fs => (k, f) :: enumerateFrom (k + 1) fs

def Problem.preds (p : Problem) : List Pred := p.formulas.foldl (fun acc a => ext acc a.formula.preds) []
def Problem.symbols (p : Problem) : List String := p.formulas.foldl (fun acc a => ext acc a.formula.symbols) []
def Problem.fcs (p : Problem) : List FnConst := p.formulas.foldl (fun acc a => ext acc a.formula.fcs) []

def GTerm.renameSym (conf : List Pred) : GTerm → GTerm
  | .symb (.sym s) => if (⟨s, 0⟩ : Pred) ∈ conf then .symb (.sym (s ++ "__s")) else .symb (.sym s)
  | t => t

def AtomicF.renameSym (conf : List Pred) : AtomicF → AtomicF
  | .atom a => .atom ⟨a.pred, a.args.map (GTerm.renameSym conf)⟩
  | .cmp t gs => .cmp (t.renameSym conf) (gs.map fun g => ⟨g.rel, g.term.renameSym conf⟩)
  | a => a

def Formula.renameSym (conf : List Pred) : Formula → Formula
  | .atomic a => .atomic (a.renameSym conf)
  | .not f => .not (f.renameSym conf)
  | .bin c l r => .bin c (l.renameSym conf) (r.renameSym conf)
  | .quant q vs f => .quant q vs (f.renameSym conf)

/-- `rename_conflicting_symbols`: a symbol equal to a 0-ary predicate of the problem gets `__s`. -/
def Problem.renameConflictingSymbols (p : Problem) : Problem :=
  let conf := p.preds.filter (·.arity = 0)
  { p with formulas := p.formulas.map fun a => { a with formula := a.formula.renameSym conf } }

/-- Does `rename_conflicting_symbols` change the problem's meaning? A renamed constant `c__s` denotes a
    different element of the standard domain; this is harmless only if the renaming is injective on
    the problem's symbols and preserves their (lexicographic) order. Returns the offending pairs. -/
def Problem.renameOrderIssues (p : Problem) : List (String × String) :=
  let conf := p.preds.filter (·.arity = 0)
  let r : String → String := fun s => if (⟨s, 0⟩ : Pred) ∈ conf then s ++ "__s" else s
  let syms := p.symbols
  (syms.flatMap fun a => syms.filterMap fun b =>
    if a < b ∧ ¬ (r a < r b) then some (a, b) else none)

def Problem.uniqueNames (p : Problem) : Problem :=
  { p with formulas := (indexFrom 0 p.formulas).map fun (i, a) =>
      { a with name := "formula_" ++ toString i ++ "_" ++ a.name } }

def Problem.axioms (p : Problem) : List AnnF := p.formulas.filter (·.role = .axiom)
def Problem.conjectures (p : Problem) : List AnnF := p.formulas.filter (·.role = .conjecture)

def Problem.decomposeIndependent (p : Problem) : List Problem :=
  let ax := p.axioms
  (indexFrom 0 p.conjectures).map fun (i, c) => ⟨p.name ++ "_" ++ toString i, ax ++ [c]⟩

/-- `if let Some(last) = formulas.last_mut() { last.role = Role::Axiom }` -/
def setLastAxiom : List AnnF → List AnnF
  | [] => []
  | [a] => [{ a with role := .axiom }]
  | a :: b :: rest => a :: setLastAxiom (b :: rest)

/-- `decompose_sequential`: before each conjecture is pushed the last formula so far becomes an axiom. -/
def seqLoop (name : String) : Nat → List AnnF → List AnnF → List Problem
  | _, _, [] => []
  | i, acc, c :: cs =>
    let acc' := setLastAxiom acc ++ [c]
    ⟨name ++ "_" ++ toString i, acc'⟩ :: seqLoop name (i + 1) acc' cs

def Problem.decomposeSequential (p : Problem) : List Problem := seqLoop p.name 0 p.axioms p.conjectures

inductive Decomposition | independent | sequential
  deriving DecidableEq, Repr

def Problem.decompose (p : Problem) : Decomposition → List Problem
  | .independent => p.decomposeIndependent
  | .sequential => p.decomposeSequential

/-! ## breaking/fol/sigma_0/ht.rs -/

def breakEquivalencesFormula : Formula → List Formula
  | .bin .iff l r => [.bin .imp l r, .bin .rimp l r]
  | .quant .all vs f => (breakEquivalencesFormula f).map fun g => g.quantify .all vs
  | f => [f]

def breakEquivalencesTheory (t : Theory) : Theory := t.flatMap breakEquivalencesFormula

end Anthem
