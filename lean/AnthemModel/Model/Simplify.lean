/-
  Model of /repo/src/simplifying/fol/sigma_0/{intuitionistic,classic,ht}.rs and of
  convenience/{apply,compose}: every rewrite, the three portfolio arrays in source order,
  post-order `apply`, and `apply_fixpoint` with an explicit pass bound.
-/
import AnthemModel.Syntax.Fol
import AnthemModel.Model.Substitute
import AnthemModel.Model.Fresh
namespace Anthem

/-! ## intuitionistic.rs -/

def evalCmpLoop : GTerm → List Guard → List Formula
  | _, [] => []
  | lhs, g :: gs =>
    (if lhs = g.term then
      (match g.rel with
        | .eq | .ge | .le => Formula.tru
        | .ne | .gt | .lt => Formula.fls)
     else .atomic (.cmp lhs [⟨g.rel, g.term⟩])) :: evalCmpLoop g.term gs

def evaluateComparisons : Formula → Formula
  | .atomic (.cmp t gs) => conjoin (evalCmpLoop t gs)
  | f => f

def applyNegationDefinitionInverse : Formula → Formula
  | .bin .imp l (.atomic .fls) => .not l
  | f => f

def applyReverseImplicationDefinition : Formula → Formula
  | .bin .rimp l r => .bin .imp r l
  | f => f

def applyEquivalenceDefinitionInverse : Formula → Formula
  | .bin .and (.bin .imp a b) (.bin .imp c d) =>
    if a = d ∧ b = c then .bin .iff a b else .bin .and (.bin .imp a b) (.bin .imp c d)
  | f => f

def removeIdentities : Formula → Formula
  | .bin .and l (.atomic .tru) => l
  | .bin .and (.atomic .tru) r => r
  | .bin .or l (.atomic .fls) => l
  | .bin .or (.atomic .fls) r => r
  | .bin .imp (.atomic .tru) r => r
  | f => f

def removeAnnihilations : Formula → Formula
  | .bin .or _ (.atomic .tru) => .tru
  | .bin .or (.atomic .tru) _ => .tru
  | .bin .and _ (.atomic .fls) => .fls
  | .bin .and (.atomic .fls) _ => .fls
  | .bin .imp _ (.atomic .tru) => .tru
  | .bin .imp (.atomic .fls) _ => .tru
  | .bin .imp l r => if l = r then .tru else .bin .imp l r
  | f => f

def removeIdempotences : Formula → Formula
  | .bin .and l r => if l = r then l else .bin .and l r
  | .bin .or l r => if l = r then l else .bin .or l r
  | f => f

def removeOrphanedVariables : Formula → Formula
  | .quant q vs f => .quant q (vs.filter (· ∈ f.fv)) f
  | f => f

def removeEmptyQuantifications : Formula → Formula
  | .quant q vs f => if vs.isEmpty then f else .quant q vs f
  | f => f

/-- insertion sort by the derived order on `Variable` (the result of `sort()` is determined by
    the order because equal elements are identical). -/
def insertVar (v : Var) : List Var → List Var
  | [] => [v]
  | w :: ws => if Var.lt w v then w :: insertVar v ws else v :: w :: ws

def sortVars (vs : List Var) : List Var := vs.foldr insertVar []

def dedupAdj : List Var → List Var
  | [] => []
  | [v] => [v]
  | v :: w :: ws => if v = w then dedupAdj (w :: ws) else v :: dedupAdj (w :: ws)

def joinNestedQuantifiers : Formula → Formula
  | .quant q vs (.quant q' vs' f) =>
    if q = q' then f.quantify q (dedupAdj (sortVars (vs ++ vs')))
    else .quant q vs (.quant q' vs' f)
  | f => f

def intuitionistic : List (Formula → Formula) :=
  [evaluateComparisons, applyNegationDefinitionInverse, applyReverseImplicationDefinition,
   applyEquivalenceDefinitionInverse, removeIdentities, removeAnnihilations, removeIdempotences,
   removeOrphanedVariables, removeEmptyQuantifications, joinNestedQuantifiers]

/-- ht.rs: `pub const HT: &[fn(Formula) -> Formula] = &[];` -/
def htPortfolio : List (Formula → Formula) := []

/-! ## classic.rs -/

def removeDoubleNegation : Formula → Formula
  | .not (.not f) => f
  | f => f

/-- `Comparison::individuals`. -/
def individuals : GTerm → List Guard → List (GTerm × Rel × GTerm)
  | _, [] => []
  | lhs, g :: gs => (lhs, g.rel, g.term) :: individuals g.term gs

def definitionOk (v : Var) (x term : GTerm) : Bool :=
  match x, term, v.sort with
  | .var name, _, .general => v.name = name
  | .int (.var name), .int _, .integer => v.name = name
  | .symb (.var name), .symb _, .symbol => v.name = name
  | _, _, _ => false

def definitionCandidate (v : Var) (x term : GTerm) : Option GTerm :=
  if definitionOk v x term && !(v ∈ term.vars) then some term else none

def findDefinition (v : Var) : Formula → Option GTerm
  | .atomic (.cmp t gs) =>
    ((individuals t gs).filterMap fun (l, r, rhs) => if r = .eq then some (l, rhs) else none)
      |>.flatMap (fun (l, r) => [(l, r), (r, l)])
      |>.findSome? (fun (x, term) => definitionCandidate v x term)
  | .bin .and l r => (findDefinition v l).orElse fun _ => findDefinition v r
  | _ => none

/-- one step of the loop in `substitute_defined_variables`: replace `v` by its definition, if any -/
def definedStep (b : Formula) (v : Var) : Formula :=
  match findDefinition v b with
  | some d => b.subst v d
  | none => b

def substituteDefinedVariables : Formula → Formula
  | .quant .ex vs f =>
    let body := vs.reverse.foldl definedStep f
    body.quantify .ex vs
  | f => f

def subsort (v1 v2 : Var) : Bool :=
  match v1.sort, v2.sort with
  | .general, .general => true
  | .general, _ => false
  | .integer, .symbol => false
  | .integer, _ => true
  | .symbol, .integer => false
  | .symbol, _ => true

def conjoinInvert : Formula → List Formula
  | .bin .and l r => conjoinInvert l ++ conjoinInvert r
  | f => [f]

/-- `equality_comparison`; the Rust code indexes `guards[0]` and panics on an empty guard list
    (no parser produces one) — see `equalityComparisonPanics`. -/
def equalityComparison (gs : List Guard) : Bool :=
  match gs with
  | [g] => g.rel = .eq
  | _ => false

def replacementMatches (ivar ovar : Var) (t : GTerm) (gs : List Guard) : Bool :=
  (t = .var ovar.name && gs = [⟨.eq, .int (.var ivar.name)⟩]) ||
  (t = .int (.var ivar.name) && gs = [⟨.eq, .var ovar.name⟩])

/-- `replacement_helper` when the comparison matches; `formula` is the whole quantified formula. -/
def replacementApply (ivar ovar : Var) (formula : Formula) : Formula :=
  match formula with
  | .quant q vs f =>
    let variant := String.ofList (ivar.name.toList.take 1)
    let fvar := (chooseFresh (formula.vars.map (·.name)) variant 1).headD variant
    .quant q (vs.filter (· ≠ ovar) ++ [⟨fvar, .integer⟩]) (f.subst ovar (.int (.var fvar)))
  | f => f

/-- first `(ovar, ivar)` in the Rust iteration order for which the helper replaces -/
def firstReplacement (outer inner : List Var) (t : GTerm) (gs : List Guard) (ok : Var → Bool) :
    Option (Var × Var) :=
  outer.findSome? fun ovar =>
    inner.findSome? fun ivar =>
      if ovar.sort = .general && ivar.sort = .integer && ok ovar && replacementMatches ivar ovar t gs
      then some (ovar, ivar) else none

def restrictExistsSearch (outer : List Var) (cts : List Formula) : Option (Var × Var) :=
  cts.findSome? fun ct =>
    match ct with
    | .quant .ex inner innerF =>
      (conjoinInvert innerF).findSome? fun ict =>
        match ict with
        | .atomic (.cmp t gs) =>
          if equalityComparison gs then
            firstReplacement outer inner t gs (fun ovar => !(ovar ∈ inner))
          else none
        | _ => none
    | _ => none

def restrictQuantifierDomain (formula : Formula) : Formula :=
  match formula with
  | .quant .ex outer (.bin .and l r) =>
    match restrictExistsSearch outer (conjoinInvert l ++ conjoinInvert r) with
    | some (ovar, ivar) => replacementApply ivar ovar formula
    | none => formula
  | .quant .all outer (.bin .imp (.quant .ex inner innerF) rhs) =>
    let hit := (conjoinInvert innerF).findSome? fun ct =>
      match ct with
      | .atomic (.cmp t gs) =>
        if equalityComparison gs then
          firstReplacement outer inner t gs (fun ovar => !(ovar ∈ inner) && !(ovar ∈ rhs.fv))
        else none
      | _ => none
    match hit with
    | some (ovar, ivar) => replacementApply ivar ovar formula
    | none => formula
  | f => f

def extendQuantifierScope (formula : Formula) : Formula :=
  match formula with
  | .bin c (.quant q vs f) rhs =>
    if c = .and ∨ c = .or then
      if vs.any (· ∈ rhs.fv) then formula else .quant q vs (.bin c f rhs)
    else formula
  | .bin c lhs (.quant q vs f) =>
    if c = .and ∨ c = .or then
      if vs.any (· ∈ lhs.fv) then formula else .quant q vs (.bin c lhs f)
    else formula
  | f => f

def isVarIn (vars : List Var) (t : GTerm) : Option Var :=
  match t.asVar? with
  | some v => if v ∈ vars then some v else none
  | none => none

abbrev Cmp := GTerm × List Guard

def pickKeepDrop (v1 v2 : Var) (c1 c2 : Cmp) : Option (Var × Var × Cmp) :=
  if subsort v1 v2 then some (v1, v2, c2)
  else if subsort v2 v1 then some (v2, v1, c1)
  else none

/-- `transitive_equality`; both comparisons have exactly one guard. -/
def transitiveEquality (c1 c2 : Cmp) (vars : List Var) : Option (Var × Var × Cmp) :=
  match c1.2, c2.2 with
  | g1 :: _, g2 :: _ =>
    let lhs1 := c1.1; let rhs1 := g1.term; let lhs2 := c2.1; let rhs2 := g2.term
    match isVarIn vars lhs1 with
    | some v1 =>
      match isVarIn vars lhs2 with
      | some v2 => if rhs1 = rhs2 then pickKeepDrop v1 v2 c1 c2 else none
      | none =>
        match isVarIn vars rhs2 with
        | some v2 => if rhs1 = lhs2 then pickKeepDrop v1 v2 c1 c2 else none
        | none => none
    | none =>
      match isVarIn vars rhs1 with
      | some v1 =>
        match isVarIn vars lhs2 with
        | some v2 => if lhs1 = rhs2 then pickKeepDrop v1 v2 c1 c2 else none
        | none =>
          match isVarIn vars rhs2 with
          | some v2 => if lhs1 = lhs2 then pickKeepDrop v1 v2 c1 c2 else none
          | none => none
      | none => none
  | _, _ => none

def asEqCmp : Formula → Option Cmp
  | .atomic (.cmp t gs) => if equalityComparison gs then some (t, gs) else none
  | _ => none

def enumerate {α} (xs : List α) : List (Nat × α) := indexFrom 0 xs

/-- first `(i, j)` in the Rust iteration order for which `transitive_equality` answers;
    returns the second index, the two comparisons and the answer -/
def transitiveSearch (cts : List Formula) (vars : List Var) :
    Option (Nat × Cmp × Cmp × Var × Var × Cmp) :=
  (enumerate cts).findSome? fun (i, ct1) =>
    match asEqCmp ct1 with
    | some c1 =>
      (enumerate cts).findSome? fun (j, ct2) =>
        match asEqCmp ct2 with
        | some c2 =>
          if i ≠ j then
            match transitiveEquality c1 c2 vars with
            | some (keep, drop, dropTerm) => some (j, c1, c2, keep, drop, dropTerm)
            | none => none
          else none
        | none => none
    | none => none

/-- the comparison is `t = t` -/
def cmpReflexive (c : Cmp) : Bool :=
  match c.2 with
  | g :: _ => c.1 = g.term
  | [] => false

def simplifyTransitiveEquality (formula : Formula) : Formula :=
  match formula with
  | .quant .ex vars (.bin .and l r) =>
    let cts := conjoinInvert (.bin .and l r)
    match transitiveSearch cts vars with
    | some (j, c1, c2, keep, drop, dropTerm) =>
      let rest :=
        if c1 = c2 && !cmpReflexive dropTerm then cts.eraseIdx j
        else cts.filter (· ≠ .atomic (.cmp dropTerm.1 dropTerm.2))
      .quant .ex vars ((conjoin rest).subst drop keep.toTerm)
    | none => formula
  | f => f

def classic : List (Formula → Formula) :=
  [removeDoubleNegation, substituteDefinedVariables, restrictQuantifierDomain,
   extendQuantifierScope, simplifyTransitiveEquality]

/-! ## convenience/apply, convenience/compose -/

def compose (fs : List (Formula → Formula)) (x : Formula) : Formula := fs.foldl (fun x f => f x) x

/-- `Apply::apply`: post-order. -/
def applyPost (f : Formula → Formula) : Formula → Formula
  | .atomic a => f (.atomic a)
  | .not g => f (.not (applyPost f g))
  | .bin c l r => f (.bin c (applyPost f l) (applyPost f r))
  | .quant q vs g => f (.quant q vs (applyPost f g))

/-- `Apply::apply_fixpoint` with a pass bound; the flag says whether the loop ended by itself. -/
def applyFixpointFuel (f : Formula → Formula) : Nat → Formula → Formula × Bool
  | 0, prev => (applyPost f prev, applyPost f prev = prev)
  | n + 1, prev =>
    let cur := applyPost f prev
    if prev = cur then (cur, true) else applyFixpointFuel f n cur

inductive Portfolio | intuitionistic | ht | classic
  deriving DecidableEq, Repr
inductive Strategy | shallow | recursive | fixpoint
  deriving DecidableEq, Repr

/-- The concatenations built in `procedures.rs`. -/
def Portfolio.rewrites : Portfolio → List (Formula → Formula)
  | .intuitionistic => Anthem.intuitionistic
  | .ht => Anthem.intuitionistic ++ htPortfolio
  | .classic => Anthem.intuitionistic ++ htPortfolio ++ Anthem.classic

def simplifyWith (p : Portfolio) (s : Strategy) (fuel : Nat) (f : Formula) : Formula × Bool :=
  let op := compose p.rewrites
  match s with
  | .shallow => (op f, true)
  | .recursive => (applyPost op f, true)
  | .fixpoint => applyFixpointFuel op fuel f

end Anthem
