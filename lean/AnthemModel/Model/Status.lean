/-
  Model of /repo/src/verifying/prover/mod.rs (`STATUS` regex, `Status::from_str`, `prove_all`) and of
  the success fold in command_line/procedures.rs (Verify arm).
-/
namespace Anthem

/-- `[[:word:]]` in the regex crate: ASCII letters, digits, underscore. -/
def isWordChar (c : Char) : Bool := c.isAlphanum || c == '_'

def prefixOf (p s : List Char) : Option (List Char) :=
  match p, s with
  | [], s => some s
  | _ :: _, [] => none
  | a :: p', b :: s' => if a = b then prefixOf p' s' else none

/-- try to match `SZS status (\w+) for (\w*)` starting exactly here; returns the captured status -/
def matchHere (s : List Char) : Option String :=
  match prefixOf "SZS status ".toList s with
  | none => none
  | some rest =>
    let w := rest.takeWhile isWordChar
    let after := rest.dropWhile isWordChar
    if w.isEmpty then none
    else match prefixOf " for ".toList after with
      | some _ => some (String.ofList w)
      | none => none

/-- leftmost match -/
def firstStatusWord : List Char → Option String
  | [] => none
  | c :: cs =>
    match matchHere (c :: cs) with
    | some w => some w
    | none => firstStatusWord cs

inductive Status
  | theorem | counterSatisfiable | contradictoryAxioms | timeout | memoryOut | gaveUp | error
  deriving DecidableEq, Repr

inductive StatusResult
  | ok (s : Status)
  | missing
  | unknown (w : String)
  deriving DecidableEq, Repr

def statusOf (stdout : String) : StatusResult :=
  match firstStatusWord stdout.toList with
  | none => .missing
  | some "Theorem" => .ok .theorem
  | some "CounterSatisfiable" => .ok .counterSatisfiable
  | some "ContradictoryAxioms" => .ok .contradictoryAxioms
  | some "Timeout" => .ok .timeout
  | some "MemoryOut" => .ok .memoryOut
  | some "GaveUp" => .ok .gaveUp
  | some "Error" => .ok .error
  | some w => .unknown w

/-- what one prover run yields -/
inductive RunResult
  | output (stdout : String)
  | spawnError
  | writeError
  | waitError
  | utf8Error
  deriving DecidableEq, Repr

def RunResult.proven : RunResult → Bool
  | .output s => statusOf s = .ok .theorem
  | _ => false

/-- the `success` flag after the loop over `prove_all` -/
def verdict (arrivals : List RunResult) : Bool := arrivals.all RunResult.proven

/-! ## the thread pool as a transition system -/

structure PoolState (α : Type) where
  queue : List α
  running : List α
  received : List α

inductive PoolStep {α : Type} (n : Nat) : PoolState α → PoolState α → Prop
  /-- a free worker takes the next queued job -/
  | start (j : α) (q r d : List α) (h : r.length < n) :
      PoolStep n ⟨j :: q, r, d⟩ ⟨q, r ++ [j], d⟩
  /-- any running job finishes; its result is sent and received -/
  | finish (r₁ : List α) (j : α) (r₂ q d : List α) :
      PoolStep n ⟨q, r₁ ++ j :: r₂, d⟩ ⟨q, r₁ ++ r₂, d ++ [j]⟩

inductive PoolReach {α : Type} (n : Nat) : PoolState α → PoolState α → Prop
  | refl (s) : PoolReach n s s
  | step {s t u} : PoolReach n s t → PoolStep n t u → PoolReach n s u

def PoolState.terminal {α} (s : PoolState α) : Prop := s.queue = [] ∧ s.running = []

end Anthem
