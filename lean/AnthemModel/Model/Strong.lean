/-
  Model of /repo/src/verifying/task/strong_equivalence.rs (`StrongEquivalenceTask::decompose`).
  `apply_fixpoint` is unbounded in Rust; the model takes a pass bound and reports `none` when
  some formula did not converge within it.
-/
import AnthemModel.Model.Natural
import AnthemModel.Model.Gamma
import AnthemModel.Model.Problem
namespace Anthem
open Asp

inductive FormulaRep | mu | tauStar
  deriving DecidableEq, Repr
inductive Direction | universal | forward | backward
  deriving DecidableEq, Repr

structure StrongTask where
  left : Program
  right : Program
  decomposition : Decomposition
  direction : Direction
  rep : FormulaRep
  simplify : Bool
  breakEq : Bool

/-- `Predicate::to_formula`: `p(X1, …, Xn)`. -/
def Pred.toFormula (p : Pred) : Formula :=
  .atomic (.atom ⟨p.symbol, (List.range' 1 p.arity).map fun i => .var ("X" ++ toString i)⟩)

def transitionAxiom (p : Pred) : Formula :=
  let hp := p.toFormula.here
  let tp := p.toFormula.there
  (Formula.bin .imp hp tp).quantify .all hp.fv

def transitionAxioms (t : StrongTask) : Theory := (ext t.left.preds t.right.preds).map transitionAxiom

/-- `theory.map(apply_fixpoint(portfolio))` with pass bound; `none` = some formula timed out. -/
def simplifyTheory (p : Portfolio) (fuel : Nat) (t : Theory) : Option Theory :=
  t.mapM fun f =>
    let (g, ok) := simplifyWith p .fixpoint fuel f
    if ok then some g else none

def translateWith (rep : FormulaRep) (prog : Program) : Theory :=
  match rep with
  | .mu => mu prog
  | .tauStar => tauStar prog

/-- what happens to one program: translate, simplify (HT), gamma, simplify (classic), break -/
def processTheory (t : StrongTask) (fuel : Nat) (prog : Program) : Option Theory := do
  let th := translateWith t.rep prog
  let th ← if t.simplify then simplifyTheory .ht fuel th else some th
  let th := gammaTheory th
  let th ← if t.simplify then simplifyTheory .classic fuel th else some th
  some (if t.breakEq then breakEquivalencesTheory th else th)

/-- the problem of one direction before symbol renaming and naming -/
def directionProblem0 (name : String) (tr ax cj : Theory) (axPre cjPre : String) : Problem :=
  (((⟨name, []⟩ : Problem).addTheory tr "transition_axiom_" .axiom).addTheory ax axPre .axiom).addTheory
    cj cjPre .conjecture

/-- the problem of one direction before decomposition -/
def directionProblem (name : String) (tr ax cj : Theory) (axPre cjPre : String) : Problem :=
  (directionProblem0 name tr ax cj axPre cjPre).renameConflictingSymbols.uniqueNames

/-- (The Rust code interleaves the two programs' steps; in the `Option` monad the order of the
    independent steps is immaterial: the result is `none` iff some formula did not converge.) -/
def strongProblems (t : StrongTask) (fuel : Nat) : Option (List Problem) := do
  let tr := transitionAxioms t
  let left ← processTheory t fuel t.left
  let right ← processTheory t fuel t.right
  let fwd : List Problem :=
    if t.direction = .universal ∨ t.direction = .forward then
      [directionProblem "forward" tr left right "left_" "right_"]
    else []
  let bwd : List Problem :=
    if t.direction = .universal ∨ t.direction = .backward then
      [directionProblem "backward" tr right left "right_" "left_"]
    else []
  some ((fwd ++ bwd).flatMap fun p => p.decompose t.decomposition)

def strongPanics (t : StrongTask) : Bool := globalsPanic t.left || globalsPanic t.right

end Anthem
