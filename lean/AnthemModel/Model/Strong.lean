/-
  Model of /repo/src/verifying/task/strong_equivalence.rs (`StrongEquivalenceTask::decompose`).
  `apply_fixpoint` is unbounded in Rust; the model takes a pass bound and reports `none` when
  some formula did not converge within it.
-/
import AnthemModel.Model.Natural
import AnthemModel.Model.Gamma
import AnthemModel.Model.Problem
namespace Anthem
open Asp

inductive FormulaRep | mu | tauStar
  deriving DecidableEq, Repr
inductive Direction | universal | forward | backward
  deriving DecidableEq, Repr

structure StrongTask where
  left : Program
  right : Program
  decomposition : Decomposition
  direction : Direction
  rep : FormulaRep
  simplify : Bool
  breakEq : Bool

/-- `Predicate::to_formula`: `p(X1, …, Xn)`. -/
def Pred.toFormula (p : Pred) : Formula :=
  .atomic (.atom ⟨p.symbol, (List.range' 1 p.arity).map fun i => .var ("X" ++ toString i)⟩)

def transitionAxiom (p : Pred) : Formula :=
  let hp := p.toFormula.here
  let tp := p.toFormula.there
  (Formula.bin .imp hp tp).quantify .all hp.fv

def transitionAxioms (t : StrongTask) : Theory := (ext t.left.preds t.right.preds).map transitionAxiom

/-- `theory.map(apply_fixpoint(portfolio))` with pass bound; `none` = some formula timed out. -/
def simplifyTheory (p : Portfolio) (fuel : Nat) (t : Theory) : Option Theory :=
  t.mapM fun f =>
    let (g, ok) := simplifyWith p .fixpoint fuel f
    if ok then some g else none

def strongProblems (t : StrongTask) (fuel : Nat) : Option (List Problem) := do
  let tr := transitionAxioms t
  let left := match t.rep with | .mu => mu t.left | .tauStar => tauStar t.left
  let right := match t.rep with | .mu => mu t.right | .tauStar => tauStar t.right
  let left ← if t.simplify then simplifyTheory .ht fuel left else some left
  let right ← if t.simplify then simplifyTheory .ht fuel right else some right
  let left := gammaTheory left
  let right := gammaTheory right
  let left ← if t.simplify then simplifyTheory .classic fuel left else some left
  let right ← if t.simplify then simplifyTheory .classic fuel right else some right
  let left := if t.breakEq then breakEquivalencesTheory left else left
  let right := if t.breakEq then breakEquivalencesTheory right else right
  let fwd : List Problem :=
    if t.direction = .universal ∨ t.direction = .forward then
      [((((⟨"forward", []⟩ : Problem).addTheory tr "transition_axiom_" .axiom).addTheory left "left_" .axiom).addTheory
          right "right_" .conjecture).renameConflictingSymbols.uniqueNames]
    else []
  let bwd : List Problem :=
    if t.direction = .universal ∨ t.direction = .backward then
      [((((⟨"backward", []⟩ : Problem).addTheory tr "transition_axiom_" .axiom).addTheory right "right_" .axiom).addTheory
          left "left_" .conjecture).renameConflictingSymbols.uniqueNames]
    else []
  some ((fwd ++ bwd).flatMap fun p => p.decompose t.decomposition)

def strongPanics (t : StrongTask) : Bool := globalsPanic t.left || globalsPanic t.right

end Anthem
