/-
  Model of `Formula::substitute` and friends (/repo/src/syntax_tree/fol/sigma_0.rs), after the
  `fix:` commit that makes renamed binders avoid the substituted variable, the block's binders and
  the fresh names already chosen.

  The Rust recursion re-enters on a renamed body, so the model recurses on fuel; `Formula.subst`
  supplies `depth + 1`, which `Proofs/SubstDepth` shows sufficient. Panics (`cannot substitute
  general term … for the integer variable …`) are a separate predicate `substPanics` that follows
  the same traversal; the total function leaves the term unchanged there.
-/
import AnthemModel.Syntax.Fol
namespace Anthem

def ITerm.subst (t : ITerm) (x : String) (s : ITerm) : ITerm :=
  match t with
  | .var y => if x = y then s else .var y
  | .num n => .num n
  | .fc c => .fc c
  | .neg a => .neg (a.subst x s)
  | .bin op l r => .bin op (l.subst x s) (r.subst x s)

def STerm.subst (t : STerm) (x : String) (s : STerm) : STerm :=
  match t with
  | .var y => if x = y then s else .var y
  | t => t

def GTerm.subst (t : GTerm) (v : Var) (s : GTerm) : GTerm :=
  match t with
  | .var y => if v.name = y ∧ v.sort = .general then s else .var y
  | .int it =>
    if v.sort = .integer then
      match s with
      | .int si => .int (it.subst v.name si)
      | _ => .int it -- Rust panics here, see `GTerm.substPanics`
    else .int it
  | .symb st =>
    if v.sort = .symbol then
      match s with
      | .symb ss => .symb (st.subst v.name ss)
      | _ => .symb st -- Rust panics here
    else .symb st
  | t => t

def GTerm.substPanics (t : GTerm) (v : Var) (s : GTerm) : Bool :=
  match t with
  | .int _ => v.sort = .integer && (match s with | .int _ => false | _ => true)
  | .symb _ => v.sort = .symbol && (match s with | .symb _ => false | _ => true)
  | _ => false

def AtomicF.subst (a : AtomicF) (v : Var) (s : GTerm) : AtomicF :=
  match a with
  | .atom a => .atom ⟨a.pred, a.args.map (·.subst v s)⟩
  | .cmp t gs => .cmp (t.subst v s) (gs.map fun g => ⟨g.rel, g.term.subst v s⟩)
  | a => a

def AtomicF.substPanics (a : AtomicF) (v : Var) (s : GTerm) : Bool :=
  match a with
  | .atom a => a.args.any (·.substPanics v s)
  | .cmp t gs => t.substPanics v s || gs.any (·.term.substPanics v s)
  | _ => false

/-- `Variable::sequence(prefix).find(|c| !taken.contains(c))`, searched with fuel. -/
def findFresh (base : Var) (taken : List Var) : Nat → Nat → Var
  | 0, i => ⟨base.name ++ toString i, base.sort⟩
  | fuel + 1, i =>
    let c : Var := ⟨base.name ++ toString i, base.sort⟩
    if c ∈ taken then findFresh base taken fuel (i + 1) else c

def freshVar (base : Var) (taken : List Var) : Var := findFresh base taken (taken.length + 1) 1

def Formula.depth : Formula → Nat
  | .atomic _ => 0
  | .not f => f.depth + 1
  | .bin _ l r => max l.depth r.depth + 1
  | .quant _ _ f => f.depth + 1

/-- The renaming loop over one binder block (`for variable in quantification.variables`):
    `sub` is `substitute` on the (smaller) body, `tv` the variables of the term, `taken` the names
    a fresh binder must avoid. Returns the renamed body and the new binder list. -/
def renameLoop (sub : Formula → Var → GTerm → Formula) (tv : List Var) :
    List Var → Formula → List Var → Formula × List Var
  | [], body, _ => (body, [])
  | x :: xs, body, taken =>
    if x ∈ tv then
      let fr := freshVar x taken
      let r := renameLoop sub tv xs (sub body x fr.toTerm) (ins taken fr)
      (r.1, fr :: r.2)
    else
      let r := renameLoop sub tv xs body taken
      (r.1, x :: r.2)

def Formula.substFuel : Nat → Formula → Var → GTerm → Formula
  | _, .atomic a, v, s => .atomic (a.subst v s)
  | 0, f, _, _ => f
  | n + 1, .not f, v, s => .not (substFuel n f v s)
  | n + 1, .bin c l r, v, s => .bin c (substFuel n l v s) (substFuel n r v s)
  | n + 1, .quant q vs f, v, s =>
    if v ∈ vs then .quant q vs f
    else
      let tv := s.vars
      let taken0 := ins (ext (ext f.fv tv) vs) v
      let r := renameLoop (substFuel n) tv vs f taken0
      (substFuel n r.1 v s).quantify q r.2

def Formula.subst (f : Formula) (v : Var) (s : GTerm) : Formula := f.substFuel (f.depth + 1) v s

/-- Does the Rust call panic? Same traversal as `substFuel`. -/
def Formula.substPanicsFuel : Nat → Formula → Var → GTerm → Bool
  | _, .atomic a, v, s => a.substPanics v s
  | 0, _, _, _ => false
  | n + 1, .not f, v, s => substPanicsFuel n f v s
  | n + 1, .bin _ l r, v, s => substPanicsFuel n l v s || substPanicsFuel n r v s
  | n + 1, .quant _ vs f, v, s =>
    if v ∈ vs then false
    else
      let tv := s.vars
      let taken0 := ins (ext (ext f.fv tv) vs) v
      substPanicsFuel n (renameLoop (Formula.substFuel n) tv vs f taken0).1 v s

def Formula.substPanics (f : Formula) (v : Var) (s : GTerm) : Bool :=
  f.substPanicsFuel (f.depth + 1) v s

end Anthem
