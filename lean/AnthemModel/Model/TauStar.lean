/-
  Model of /repo/src/translating/formula_representation/tau_star.rs.
-/
import AnthemModel.Syntax.Asp
import AnthemModel.Model.Fresh
import AnthemModel.Model.Simplify
namespace Anthem
open Asp

def usizeMax : Nat := 18446744073709551615

/-- `RE = ^V(?<number>[0-9]*)$` and `caps["number"].parse::<usize>().unwrap_or(0)`:
    `none` if the name does not match, otherwise the parsed number (0 for the empty string and
    for numbers beyond `usize`). -/
def globalIndex (name : String) : Option Nat :=
  match name.toList with
  | 'V' :: ds =>
    if ds.all Char.isDigit then
      if ds.isEmpty then some 0
      else
        let n := ds.foldl (fun acc c => acc * 10 + (c.toNat - '0'.toNat)) 0
        some (if n ≤ usizeMax then n else 0)
    else none
  | _ => none

def maxHeadArity (p : Program) : Nat := p.foldl (fun m r => if r.head.arity > m then r.head.arity else m) 0

def maxTakenGlobal (p : Program) : Nat :=
  p.vars.foldl (fun m v => match globalIndex v with
    | some n => if n > m then n else m
    | none => m) 0

/-- the fallback loop of `choose_fresh_global_variables`: first index from `k` whose name `V<index>` is
    not in `occ` -/
def findFreeGlobal (occ : List String) : Nat → Nat → Nat
  | 0, k => k
  | fuel + 1, k => if ("V" ++ toString k) ∈ occ then findFreeGlobal occ fuel (k + 1) else k

/-- the loop over `i in 1..=max_arity`: `V<max+i>` while the index fits `usize`, afterwards the smallest
    indices that are neither variables of the program nor chosen already (`nf` is `next_free`) -/
def freshGlobalsLoop (taken : List String) (max : Nat) : List Nat → Nat → List String → List String
  | [], _, acc => acc
  | i :: is, nf, acc =>
    if max + i ≤ usizeMax then freshGlobalsLoop taken max is nf (acc ++ ["V" ++ toString (max + i)])
    else
      let k := findFreeGlobal (taken ++ acc) ((taken ++ acc).length + 1) (nf + 1)
      freshGlobalsLoop taken max is k (acc ++ ["V" ++ toString k])

/-- `choose_fresh_global_variables` (since the fix of the index overflow: `checked_add`, with the
    smallest unused indices as fallback). -/
def chooseFreshGlobals (p : Program) : List String :=
  freshGlobalsLoop p.vars (maxTakenGlobal p) (List.range' 1 (maxHeadArity p)) 0 []

/-- the overflow of `max_taken_var + i` used to panic; it no longer does (kept so that the statements
    that carry "no overflow" as a hypothesis read as before: the hypothesis is now always true) -/
def globalsPanic (_p : Program) : Bool := false

/-- `Display` of a `fol::Variable` (what `var.to_string()` yields). -/
def Var.display (v : Var) : String :=
  match v.sort with
  | .general => v.name
  | .integer => v.name ++ "$i"
  | .symbol => v.name ++ "$s"

def cmp1 (l : GTerm) (r : Rel) (t : GTerm) : Formula := .atomic (.cmp l [⟨r, t⟩])

def preToGTerm : Pre → GTerm
  | .inf => .inf
  | .sup => .sup
  | .num n => .int (.num n)
  | .sym s => .symb (.sym s)

/-- `construct_total_function_formula`: `exists I$i J$i ((Z = I op J and valti) and valtj)`. -/
def totalFunction (valti valtj : Formula) (op : IOp) (i j : String) (z : Var) : Formula :=
  .quant .ex [⟨i, .integer⟩, ⟨j, .integer⟩]
    (.bin .and (.bin .and (cmp1 z.toTerm .eq (.int (.bin op (.var i) (.var j)))) valti) valtj)

/-- `construct_partial_function_formula` (division / modulo). `useQ` selects `Z = Q` (division). -/
def partialFunction (valti valtj : Formula) (useQ : Bool) (i j : String) (z : Var) : Formula :=
  let taken := (valti.vars.map Var.display) ++ (valtj.vars.map Var.display)
  let q := (chooseFresh taken "Q" 1).headD "Q"
  let r := (chooseFresh taken "R" 1).headD "R"
  let iequals := cmp1 (.int (.var i)) .eq (.int (.bin .add (.bin .mul (.var j) (.var q)) (.var r)))
  let conditions := Formula.bin .and
    (.bin .and (cmp1 (.int (.var j)) .ne (.int (.num 0))) (cmp1 (.int (.var r)) .ge (.int (.num 0))))
    (cmp1 (.int (.var r)) .lt (.int (.var j)))
  let sub := Formula.bin .and (.bin .and iequals (.bin .and valti valtj)) conditions
  let zeq := cmp1 z.toTerm .eq (.int (.var (if useQ then q else r)))
  .quant .ex [⟨i, .integer⟩, ⟨j, .integer⟩, ⟨q, .integer⟩, ⟨r, .integer⟩] (.bin .and sub zeq)

/-- `construct_interval_formula`. -/
def intervalFormula (valti valtj : Formula) (i j k : String) (z : Var) : Formula :=
  let range := Formula.atomic (.cmp (.int (.var i)) [⟨.le, .int (.var k)⟩, ⟨.le, .int (.var j)⟩])
  let sub := Formula.bin .and (.bin .and valti valtj) (cmp1 z.toTerm .eq (.int (.var k)))
  .quant .ex [⟨i, .integer⟩, ⟨j, .integer⟩, ⟨k, .integer⟩] (.bin .and sub range)

/-- `val_t(Z)`. (`z` is general or integer sorted; the Rust code is `unreachable!` for symbol.) -/
def val : Term → Var → Formula
  | .pre p, z => cmp1 z.toTerm .eq (preToGTerm p)
  | .var x, z => cmp1 z.toTerm .eq (.var x)
  | .neg arg, z =>
    let taken := arg.vars ++ [z.name]
    let i := (chooseFresh taken "I" 1).headD "I"
    let j := (chooseFresh taken "J" 1).headD "J"
    totalFunction (cmp1 (.int (.var i)) .eq (.int (.num 0))) (val arg ⟨j, .integer⟩) .sub i j z
  | .bin op l r, z =>
    let taken := (ext l.vars r.vars) ++ [z.name]
    let i := (chooseFresh taken "I" 1).headD "I"
    let j := (chooseFresh taken "J" 1).headD "J"
    let k := (chooseFresh taken "K" 1).headD "K"
    let vi := val l ⟨i, .integer⟩
    let vj := val r ⟨j, .integer⟩
    match op with
    | .add => totalFunction vi vj .add i j z
    | .sub => totalFunction vi vj .sub i j z
    | .mul => totalFunction vi vj .mul i j z
    | .div => partialFunction vi vj true i j z
    | .mod => partialFunction vi vj false i j z
    | .interval => intervalFormula vi vj i j k z

def signed (s : Sign) (a : Formula) : Formula :=
  match s with
  | .pos => a
  | .neg => .not a
  | .negneg => .not (.not a)

def convRel : Asp.Rel → Anthem.Rel
  | .eq => .eq | .ne => .ne | .lt => .lt | .le => .le | .gt => .gt | .ge => .ge

/-- `tau_b`. -/
def tauB (f : BodyAtom) : Formula :=
  let taken := f.vars
  match f with
  | .lit l =>
    let n := l.atom.args.length
    if n > 0 then
      let zs := chooseFresh taken "Z" n
      let vals := (l.atom.args.zip zs).map fun (t, z) => val t ⟨z, .general⟩
      let pz := Formula.atomic (.atom ⟨l.atom.pred, zs.map GTerm.var⟩)
      .quant .ex (zs.map fun z => ⟨z, .general⟩) (.bin .and (conjoin vals) (signed l.sign pz))
    else signed l.sign (.atomic (.atom ⟨l.atom.pred, []⟩))
  | .cmp rel l r =>
    let zs := chooseFresh taken "Z" 2
    let z1 := zs.headD "Z"
    let z2 := zs.getD 1 "Z1"
    .quant .ex [⟨z1, .general⟩, ⟨z2, .general⟩]
      (.bin .and (.bin .and (val l ⟨z1, .general⟩) (val r ⟨z2, .general⟩))
        (cmp1 (.var z1) (convRel rel) (.var z2)))

def tauBody (b : List BodyAtom) : Formula := conjoin (b.map tauB)

def sortedGeneral (names : List String) : List Var := sortVars (names.map fun n => ⟨n, .general⟩)

/-- `tau_star_rule`. -/
def tauStarRule (r : Rule) (globals : List String) : Formula :=
  match r.head with
  | .falsity =>
    let imp := Formula.bin .imp (tauBody r.body) .fls
    let gv := sortedGeneral r.vars
    if gv.isEmpty then imp else .quant .all gv imp
  | .basic a | .choice a =>
    let isChoice := match r.head with | .choice _ => true | _ => false
    if a.args.length > 0 then
      let fvars := globals.take a.args.length
      let vals := (a.args.zip fvars).map fun (t, v) => val t ⟨v, .general⟩
      let newHead := Formula.atomic (.atom ⟨a.pred, fvars.map GTerm.var⟩)
      let core := Formula.bin .and (conjoin vals) (tauBody r.body)
      let body := if isChoice then .bin .and core (.not (.not newHead)) else core
      .quant .all (sortedGeneral (r.vars ++ fvars)) (.bin .imp body newHead)
    else
      let newHead := Formula.atomic (.atom ⟨a.pred, []⟩)
      let core := tauBody r.body
      let body := if isChoice then .bin .and core (.not (.not newHead)) else core
      let imp := Formula.bin .imp body newHead
      let gv := sortedGeneral r.vars
      if gv.isEmpty then imp else .quant .all gv imp

def tauStar (p : Program) : Theory :=
  let globals := chooseFreshGlobals p
  p.map fun r => tauStarRule r globals

end Anthem
