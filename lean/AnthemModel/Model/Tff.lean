/-
  The target of `formatting/fol/sigma_0/tptp.rs` as a syntax tree: typed first-order form (TFF)
  over the three sorts `general`, `$int`, `symbol`, with the function symbols of the standard
  preamble. `tr` is the structural translation the Rust printer performs implicitly, `TForm.print`
  renders a tree; `print_tr` (Proofs/TffSem.lean) shows that printing the translation is exactly
  the text model `tptpFormula` that the correspondence ties to the implementation.
-/
import AnthemModel.Model.TptpFmt
namespace Anthem

inductive TInt where
  | num (n : Nat)
  | var (name : String)
  /-- integer placeholder `c_i` -/
  | ph (name : String)
  | uminus (t : TInt)
  | bin (op : IOp) (l r : TInt)
  deriving Repr, DecidableEq, Inhabited

inductive TSym where
  /-- a symbolic constant of the program -/
  | sym (s : String)
  /-- symbol placeholder `c_s` -/
  | ph (name : String)
  | var (name : String)
  deriving Repr, DecidableEq, Inhabited

inductive TGen where
  | inf | sup
  /-- general placeholder `c_g` -/
  | ph (name : String)
  | var (name : String)
  | ofInt (t : TInt)
  | ofSym (t : TSym)
  deriving Repr, DecidableEq, Inhabited

inductive TAtom where
  | tru | fls
  | pred (name : String) (args : List TGen)
  /-- `l rel r` over `$int`: `=`, `!=`, `$less(l, r)`, … -/
  | relI (r : Rel) (l rr : TInt)
  /-- `=` / `!=` over `symbol` -/
  | eqS (r : Rel) (l rr : TSym)
  /-- `l rel r` over `general`: `=`, `!=`, `p__less__(l, r)`, … -/
  | relG (r : Rel) (l rr : TGen)
  deriving Repr, DecidableEq, Inhabited

inductive TForm where
  /-- a conjunction of atoms printed flat `a & b & c` (a comparison chain); usually one atom -/
  | chain (atoms : List TAtom)
  | not (f : TForm)
  | bin (c : Conn) (l r : TForm)
  | quant (q : Quant) (vars : List Var) (f : TForm)
  deriving Repr, Inhabited

/-! ## translation -/

def trI : ITerm → TInt
  | .num n => if n < 0 then .uminus (.num n.natAbs) else .num n.toNat
  | .var v => .var v
  | .fc c => .ph c
  | .neg t => .uminus (trI t)
  | .bin op l r => .bin op (trI l) (trI r)

def trS : STerm → TSym
  | .sym s => .sym s
  | .fc c => .ph c
  | .var v => .var v

def trG : GTerm → TGen
  | .inf => .inf
  | .sup => .sup
  | .fc c => .ph c
  | .var v => .var v
  | .int t => .ofInt (trI t)
  | .symb t => .ofSym (trS t)

/-- the relation symbol is chosen by the *syntactic* sorts of the two operands -/
def trIndividual (lhs : GTerm) (r : Rel) (rhs : GTerm) : TAtom :=
  match lhs, rhs with
  | .int l, .int rr => .relI r (trI l) (trI rr)
  | .symb l, .symb rr =>
    if r = .eq ∨ r = .ne then .eqS r (trS l) (trS rr) else .relG r (trG lhs) (trG rhs)
  | _, _ => .relG r (trG lhs) (trG rhs)

def trAtomic : AtomicF → List TAtom
  | .tru => [.tru]
  | .fls => [.fls]
  | .atom a => [.pred a.pred (a.args.map trG)]
  | .cmp t gs => (individuals t gs).map fun (l, r, rhs) => trIndividual l r rhs

def tr : Formula → TForm
  | .atomic a => .chain (trAtomic a)
  | .not f => .not (tr f)
  | .bin c l r => .bin c (tr l) (tr r)
  | .quant q vs f => .quant q vs (tr f)

/-! ## printing -/

def TInt.print : TInt → String
  | .num n => toString n
  | .var v => v ++ "_i"
  | .ph c => c ++ "_i"
  | .uminus t => "$uminus(" ++ t.print ++ ")"
  | .bin op l r =>
    (match op with | .add => "$sum" | .sub => "$difference" | .mul => "$product") ++
      "(" ++ l.print ++ ", " ++ r.print ++ ")"

def TSym.print : TSym → String
  | .sym s => s
  | .ph c => c ++ "_s"
  | .var v => v ++ "_s"

def TGen.print : TGen → String
  | .inf => "c__infimum__"
  | .sup => "c__supremum__"
  | .ph c => c ++ "_g"
  | .var v => v ++ "_g"
  | .ofInt t => "f__integer__(" ++ t.print ++ ")"
  | .ofSym t => "f__symbolic__(" ++ t.print ++ ")"

def TAtom.print : TAtom → String
  | .tru => "$true"
  | .fls => "$false"
  | .pred p args => if args.isEmpty then p else p ++ "(" ++ ", ".intercalate (args.map TGen.print) ++ ")"
  | .relI r l rr =>
    if r = .eq ∨ r = .ne then l.print ++ " " ++ r.reprInteger ++ " " ++ rr.print
    else r.reprInteger ++ "(" ++ l.print ++ ", " ++ rr.print ++ ")"
  | .eqS r l rr => l.print ++ " " ++ r.reprGeneral ++ " " ++ rr.print
  | .relG r l rr =>
    if r = .eq ∨ r = .ne then l.print ++ " " ++ r.reprGeneral ++ " " ++ rr.print
    else r.reprGeneral ++ "(" ++ l.print ++ ", " ++ rr.print ++ ")"

def TForm.mandatory : TForm → Bool
  | .chain as => as.length > 1
  | .quant .. => false
  | .not _ => true
  | .bin .. => true

def TForm.prec : TForm → Nat
  | .chain _ => 0 | .not _ => 1 | .quant .. => 2 | .bin .. => 3

def TForm.print : TForm → String
  | .chain as => " & ".intercalate (as.map TAtom.print)
  | .not f =>
    let inner := f.print
    "~" ++ (if f.mandatory || 1 < f.prec then "(" ++ inner ++ ")" else inner)
  | .quant q vs f => tptpQuantification q vs ++ ": (" ++ f.print ++ ")"
  | .bin c l r =>
    let ls := l.print
    let rs := r.print
    (if l.mandatory || 3 < l.prec then "(" ++ ls ++ ")" else ls) ++ " " ++ c.tptp ++ " " ++
    (if r.mandatory || 3 < r.prec || 3 = r.prec then "(" ++ rs ++ ")" else rs)

end Anthem
