/-
  A reader for the TFF formula fragment that anthem emits (executable, no theorem mentions it).
  It follows TPTP's reading rules: `~` and quantifiers bind a *unitary* formula, binary connectives
  are non-associative except for chains of `&` or of `|`. Used (a) on every correspondence run to
  check that the text model of a formula reads back as its TFF tree `tr F`, and (b) after a
  disagreement, to read the implementation's text and search for an interpretation in which it
  differs from the source formula.
-/
import AnthemModel.Model.Tff
namespace Anthem.TffParse

inductive Tok where
  | id (s : String) | num (n : Nat) | sym (s : String)
  deriving Repr, DecidableEq, Inhabited

def isIdStart (c : Char) : Bool := c.isAlpha || c = '_' || c = '$'
def isIdChar (c : Char) : Bool := c.isAlphanum || c = '_' || c = '$'

partial def lex (cs : List Char) (acc : Array Tok) : Option (Array Tok) :=
  match cs with
  | [] => some acc
  | c :: rest =>
    if c.isWhitespace then lex rest acc
    else if isIdStart c then
      let word := cs.takeWhile isIdChar
      lex (cs.dropWhile isIdChar) (acc.push (.id (String.ofList word)))
    else if c.isDigit then
      let word := cs.takeWhile Char.isDigit
      lex (cs.dropWhile Char.isDigit) (acc.push (.num (String.ofList word).toNat!))
    else
      match cs with
      | '<' :: '=' :: '>' :: r => lex r (acc.push (.sym "<=>"))
      | '<' :: '=' :: r => lex r (acc.push (.sym "<="))
      | '=' :: '>' :: r => lex r (acc.push (.sym "=>"))
      | '!' :: '=' :: r => lex r (acc.push (.sym "!="))
      | c :: r =>
        if "()[],:~!?&|=".toList.contains c then lex r (acc.push (.sym (String.ofList [c]))) else none
      | [] => some acc

/-- raw terms -/
inductive RT where
  | num (n : Nat)
  | var (name : String)
  | app (f : String) (args : List RT)
  deriving Repr, Inhabited

structure P where
  toks : Array Tok
  pos : Nat

def P.peek (p : P) : Option Tok := p.toks[p.pos]?
def P.adv (p : P) : P := { p with pos := p.pos + 1 }
def P.eat (p : P) (s : String) : Option P := if p.peek = some (.sym s) then some p.adv else none

/-- anthem variables: optional underscores, then an upper-case letter -/
def isVarName (s : String) : Bool :=
  match (s.toList.dropWhile (· = '_')).head? with | some c => c.isUpper | none => false

mutual
partial def term (p : P) : Option (RT × P) :=
  match p.peek with
  | some (.num n) => some (.num n, p.adv)
  | some (.id s) =>
    if isVarName s then some (.var s, p.adv)
    else
      match p.adv.eat "(" with
      | some p1 =>
        match args p1 [] with
        | some (as, p2) => some (.app s as, p2)
        | none => none
      | none => some (.app s [], p.adv)
  | _ => none
partial def args (p : P) (acc : List RT) : Option (List RT × P) :=
  match term p with
  | some (t, p1) =>
    match p1.eat "," with
    | some p2 => args p2 (acc ++ [t])
    | none => match p1.eat ")" with
      | some p2 => some (acc ++ [t], p2)
      | none => none
  | none => none
end

def stripSuffix (s suf : String) : Option String :=
  if s.endsWith suf && s.length > suf.length then some (String.ofList (s.toList.take (s.length - suf.length))) else none

/-- placeholders (function constants) of the source formula, to tell `c_s` from a symbol `c_s` -/
abbrev Hints := List FnConst

inductive RSort | int | gen | symb deriving DecidableEq

def sortOf (h : Hints) : RT → RSort
  | .num _ => .int
  | .var x => if x.endsWith "_i" then .int else if x.endsWith "_s" then .symb else .gen
  | .app f as =>
    if f.startsWith "$" then .int
    else if f = "f__integer__" || f = "f__symbolic__" || f = "c__infimum__" || f = "c__supremum__" then .gen
    else if !as.isEmpty then .gen
    else
      match stripSuffix f "_i", stripSuffix f "_g" with
      | some c, _ => if h.contains ⟨c, .integer⟩ then .int else .symb
      | _, some c => if h.contains ⟨c, .general⟩ then .gen else .symb
      | _, _ => .symb

partial def toTInt (h : Hints) : RT → Option TInt
  | .num n => some (.num n)
  | .var x => (stripSuffix x "_i").map .var
  | .app "$uminus" [t] => (toTInt h t).map .uminus
  | .app "$sum" [a, b] => do some (.bin .add (← toTInt h a) (← toTInt h b))
  | .app "$difference" [a, b] => do some (.bin .sub (← toTInt h a) (← toTInt h b))
  | .app "$product" [a, b] => do some (.bin .mul (← toTInt h a) (← toTInt h b))
  | .app f [] => (stripSuffix f "_i").map .ph
  | _ => none

def toTSym (h : Hints) : RT → Option TSym
  | .var x => (stripSuffix x "_s").map .var
  | .app f [] =>
    match stripSuffix f "_s" with
    | some c => if h.contains ⟨c, .symbol⟩ then some (.ph c) else some (.sym f)
    | none => some (.sym f)
  | _ => none

def toTGen (h : Hints) : RT → Option TGen
  | .var x => (stripSuffix x "_g").map .var
  | .app "c__infimum__" [] => some .inf
  | .app "c__supremum__" [] => some .sup
  | .app "f__integer__" [t] => (toTInt h t).map .ofInt
  | .app "f__symbolic__" [t] => (toTSym h t).map .ofSym
  | .app f [] => (stripSuffix f "_g").map .ph
  | _ => none

def intRel (f : String) : Option Rel :=
  match f with
  | "$less" => some .lt | "$lesseq" => some .le | "$greater" => some .gt | "$greatereq" => some .ge
  | _ => none
def genRel (f : String) : Option Rel :=
  match f with
  | "p__less__" => some .lt | "p__less_equal__" => some .le | "p__greater__" => some .gt
  | "p__greater_equal__" => some .ge
  | _ => none

def mkEq (h : Hints) (r : Rel) (a b : RT) : Option TAtom :=
  match sortOf h a, sortOf h b with
  | .int, .int => do some (.relI r (← toTInt h a) (← toTInt h b))
  | .symb, .symb => do some (.eqS r (← toTSym h a) (← toTSym h b))
  | .gen, .gen => do some (.relG r (← toTGen h a) (← toTGen h b))
  | _, _ => none

def mkAtom (h : Hints) : RT → Option TAtom
  | .app "$true" [] => some .tru
  | .app "$false" [] => some .fls
  | .app f as =>
    match intRel f, genRel f, as with
    | some r, _, [a, b] => do some (.relI r (← toTInt h a) (← toTInt h b))
    | _, some r, [a, b] => do some (.relG r (← toTGen h a) (← toTGen h b))
    | _, _, _ => do some (.pred f (← as.mapM (toTGen h)))
  | _ => none

def connOf (s : String) : Option Conn :=
  match s with
  | "&" => some .and | "|" => some .or | "=>" => some .imp | "<=" => some .rimp | "<=>" => some .iff
  | _ => none

def sortOfName (s : String) : Option Srt :=
  match s with
  | "general" => some .general | "$int" => some .integer | "symbol" => some .symbol | _ => none

partial def varList (p : P) (acc : List Var) : Option (List Var × P) :=
  if acc.isEmpty && p.peek = some (.sym "]") then some ([], p.adv) else   -- `?[]` (never emitted for parsed input)
  match p.peek, p.adv.eat ":" with
  | some (.id x), some p1 =>
    match p1.peek with
    | some (.id s) =>
      match sortOfName s with
      | some srt =>
        let suf := match srt with | .general => "_g" | .integer => "_i" | .symbol => "_s"
        match stripSuffix x suf with
        | some name =>
          let acc := acc ++ [⟨name, srt⟩]
          match p1.adv.eat "," with
          | some p2 => varList p2 acc
          | none => (p1.adv.eat "]").map fun p2 => (acc, p2)
        | none => none
      | none => none
    | _ => none
  | _, _ => none

mutual
partial def formula (h : Hints) (p : P) : Option (TForm × P) :=
  match unit h p with
  | some (f, p1) => rest h f none p1
  | none => none
/-- `op`: the connective of the chain so far -/
partial def rest (h : Hints) (acc : TForm) (op : Option Conn) (p : P) : Option (TForm × P) :=
  match p.peek with
  | some (.sym s) =>
    match connOf s with
    | some c =>
      match op with
      | some c0 => if c0 = c && (c = .and || c = .or) then
          match unit h p.adv with
          | some (g, p1) => rest h (.bin c acc g) (some c) p1
          | none => none
        else none   -- ambiguous: TPTP binary connectives are non-associative
      | none =>
        match unit h p.adv with
        | some (g, p1) => rest h (.bin c acc g) (some c) p1
        | none => none
    | none => some (acc, p)
  | _ => some (acc, p)
partial def unit (h : Hints) (p : P) : Option (TForm × P) :=
  match p.peek with
  | some (.sym "~") => (unit h p.adv).map fun (f, p1) => (.not f, p1)
  | some (.sym "!") => quantified h .all p.adv
  | some (.sym "?") => quantified h .ex p.adv
  | some (.sym "(") =>
    match formula h p.adv with
    | some (f, p1) => (p1.eat ")").map fun p2 => (f, p2)
    | none => none
  | _ =>
    match term p with
    | some (t, p1) =>
      match p1.peek with
      | some (.sym "=") =>
        match term p1.adv with
        | some (u, p2) => (mkEq h .eq t u).map fun a => (.chain [a], p2)
        | none => none
      | some (.sym "!=") =>
        match term p1.adv with
        | some (u, p2) => (mkEq h .ne t u).map fun a => (.chain [a], p2)
        | none => none
      | _ => (mkAtom h t).map fun a => (.chain [a], p1)
    | none => none
partial def quantified (h : Hints) (q : Quant) (p : P) : Option (TForm × P) :=
  match p.eat "[" with
  | some p1 =>
    match varList p1 [] with
    | some (vs, p2) =>
      match p2.eat ":" with
      | some p3 => (unit h p3).map fun (f, p4) => (.quant q vs f, p4)
      | none => none
    | none => none
  | none => none
end

def parse (h : Hints) (text : String) : Option TForm :=
  match lex text.toList #[] with
  | some toks =>
    match formula h ⟨toks, 0⟩ with
    | some (f, p) => if p.pos = toks.size then some f else none
    | none => none
  | none => none

/-- comparison chains as left-nested conjunctions (the reading of `a & b & c`) -/
partial def flat : TForm → TForm
  | .chain [] => .chain []
  | .chain (a :: as) => as.foldl (fun acc x => .bin .and acc (.chain [x])) (.chain [a])
  | .not f => .not (flat f)
  | .bin c l r => .bin c (flat l) (flat r)
  | .quant q vs f => .quant q vs (flat f)

partial def beq : TForm → TForm → Bool
  | .chain a, .chain b => a == b
  | .not f, .not g => beq f g
  | .bin c l r, .bin c' l' r' => c == c' && beq l l' && beq r r'
  | .quant q vs f, .quant q' vs' f' => q == q' && vs == vs' && beq f f'
  | _, _ => false

/-! ## back to a formula with the same meaning in the standard structure (for the search) -/

def untrI : TInt → ITerm
  | .num n => .num n
  | .var v => .var v
  | .ph c => .fc c
  | .uminus t => .neg (untrI t)
  | .bin op l r => .bin op (untrI l) (untrI r)

def untrS : TSym → STerm
  | .sym s => .sym s | .ph c => .fc c | .var v => .var v

def untrG : TGen → GTerm
  | .inf => .inf | .sup => .sup | .ph c => .fc c | .var v => .var v
  | .ofInt t => .int (untrI t) | .ofSym t => .symb (untrS t)

def untrAtom : TAtom → AtomicF
  | .tru => .tru | .fls => .fls
  | .pred p as => .atom ⟨p, as.map untrG⟩
  | .relI r l rr => .cmp (.int (untrI l)) [⟨r, .int (untrI rr)⟩]
  | .eqS r l rr => .cmp (.symb (untrS l)) [⟨r, .symb (untrS rr)⟩]
  | .relG r l rr => .cmp (untrG l) [⟨r, untrG rr⟩]

def untr : TForm → Formula
  | .chain [] => .atomic .tru
  | .chain (a :: as) => as.foldl (fun acc x => .bin .and acc (.atomic (untrAtom x))) (.atomic (untrAtom a))
  | .not f => .not (untr f)
  | .bin c l r => .bin c (untr l) (untr r)
  | .quant q vs f => .quant q vs (untr f)

end Anthem.TffParse
