/-
  Model of /repo/src/formatting/fol/sigma_0/tptp.rs (after the `fix:` that parenthesises chained
  comparisons) and of `Display for Problem` in verifying/problem/mod.rs. Text level.
-/
import AnthemModel.Model.Problem
import AnthemModel.Model.Simplify
namespace Anthem

def isizeMin : Int := -9223372036854775808

def tptpI : ITerm → String
  | .num n => if n < 0 then "$uminus(" ++ toString n.natAbs ++ ")" else toString n
  | .var v => v ++ "_i"
  | .fc c => c ++ "_i"
  | .neg t => "$uminus(" ++ tptpI t ++ ")"
  | .bin op l r =>
    (match op with | .add => "$sum" | .sub => "$difference" | .mul => "$product") ++
      "(" ++ tptpI l ++ ", " ++ tptpI r ++ ")"

/-- After the `fix:` (unsigned_abs) no numeral makes the printer panic. -/
def ITerm.tptpPanics : ITerm → Bool := fun _ => false

def tptpS : STerm → String
  | .sym s => s
  | .fc c => c ++ "_s"
  | .var v => v ++ "_s"

def tptpG : GTerm → String
  | .inf => "c__infimum__"
  | .sup => "c__supremum__"
  | .fc c => c ++ "_g"
  | .var v => v ++ "_g"
  | .int t => "f__integer__(" ++ tptpI t ++ ")"
  | .symb t => "f__symbolic__(" ++ tptpS t ++ ")"

def tptpAtom (a : Atom) : String :=
  if a.args.isEmpty then a.pred else a.pred ++ "(" ++ ", ".intercalate (a.args.map tptpG) ++ ")"

def Rel.reprInteger : Rel → String
  | .eq => "=" | .ne => "!=" | .ge => "$greatereq" | .le => "$lesseq" | .gt => "$greater" | .lt => "$less"
def Rel.reprGeneral : Rel → String
  | .eq => "=" | .ne => "!=" | .ge => "p__greater_equal__" | .le => "p__less_equal__"
  | .gt => "p__greater__" | .lt => "p__less__"

def tptpIndividual (lhs : GTerm) (r : Rel) (rhs : GTerm) : String :=
  match lhs, rhs with
  | .int l, .int rr =>
    if r = .eq ∨ r = .ne then tptpI l ++ " " ++ r.reprInteger ++ " " ++ tptpI rr
    else r.reprInteger ++ "(" ++ tptpI l ++ ", " ++ tptpI rr ++ ")"
  | .symb l, .symb rr =>
    if r = .eq ∨ r = .ne then tptpS l ++ " " ++ r.reprGeneral ++ " " ++ tptpS rr
    else r.reprGeneral ++ "(" ++ tptpG lhs ++ ", " ++ tptpG rhs ++ ")"
  | _, _ =>
    if r = .eq ∨ r = .ne then tptpG lhs ++ " " ++ r.reprGeneral ++ " " ++ tptpG rhs
    else r.reprGeneral ++ "(" ++ tptpG lhs ++ ", " ++ tptpG rhs ++ ")"

def tptpAtomic : AtomicF → String
  | .tru => "$true"
  | .fls => "$false"
  | .atom a => tptpAtom a
  | .cmp t gs => " & ".intercalate ((individuals t gs).map fun (l, r, rhs) => tptpIndividual l r rhs)

def tptpVar (v : Var) : String :=
  v.name ++ (match v.sort with | .general => "_g" | .integer => "_i" | .symbol => "_s")

def tptpQuantification (q : Quant) (vs : List Var) : String :=
  (match q with | .all => "!" | .ex => "?") ++ "[" ++
    ", ".intercalate (vs.map fun v => tptpVar v ++ ": " ++
      (match v.sort with | .general => "general" | .integer => "$int" | .symbol => "symbol")) ++ "]"

def tptpMandatory : Formula → Bool
  | .atomic (.cmp _ gs) => gs.length > 1
  | .atomic _ => false
  | .quant .. => false
  | .not _ => true
  | .bin .. => true

def tptpPrec : Formula → Nat
  | .atomic _ => 0 | .not _ => 1 | .quant .. => 2 | .bin .. => 3

def Conn.tptp : Conn → String
  | .iff => "<=>" | .imp => "=>" | .rimp => "<=" | .and => "&" | .or => "|"

def tptpFormula : Formula → String
  | .atomic a => tptpAtomic a
  | .not f =>
    let inner := tptpFormula f
    "~" ++ (if tptpMandatory f || 1 < tptpPrec f then "(" ++ inner ++ ")" else inner)
  | .quant q vs f => tptpQuantification q vs ++ ": (" ++ tptpFormula f ++ ")"
  | .bin c l r =>
    let ls := tptpFormula l
    let rs := tptpFormula r
    (if tptpMandatory l || 3 < tptpPrec l then "(" ++ ls ++ ")" else ls) ++ " " ++ c.tptp ++ " " ++
    (if tptpMandatory r || 3 < tptpPrec r || 3 = tptpPrec r then "(" ++ rs ++ ")" else rs)

def AtomicF.tptpPanics : AtomicF → Bool
  | .atom a => a.args.any fun t => match t with | .int i => i.tptpPanics | _ => false
  | .cmp t gs => (match t with | .int i => i.tptpPanics | _ => false) ||
      gs.any fun g => match g.term with | .int i => i.tptpPanics | _ => false
  | _ => false

def Formula.tptpPanics : Formula → Bool
  | .atomic a => a.tptpPanics
  | .not f => f.tptpPanics
  | .bin _ l r => l.tptpPanics || r.tptpPanics
  | .quant _ _ f => f.tptpPanics

/-- verbatim transcription of src/verifying/problem/standard_interpretation.p -/
def standardPreamble : String :=
"tff(general_type, type, general: $tType).
tff(symbol_type, type, symbol: $tType).
tff(f__integer___decl, type, f__integer__: ($int) > general).
tff(f__symbolic___decl, type, f__symbolic__: (symbol) > general).
tff(inf_type, type, c__infimum__: general).
tff(sup_type, type, c__supremum__: general).
tff(p__is_integer__decl, type, p__is_integer__: (general) > $o).
tff(p__is_symbolic__decl, type, p__is_symbolic__: (general) > $o).
tff(p__less_equal__decl, type, p__less_equal__: (general * general) > $o).
tff(p__less__decl, type, p__less__: (general * general) > $o).
tff(p__greater_equal__decl, type, p__greater_equal__: (general * general) > $o).
tff(p__greater__decl, type, p__greater__: (general * general) > $o).
tff(p__is_integer__def_ax, axiom, ![X: general]: (p__is_integer__(X) <=> (?[N: $int]: (X = f__integer__(N))))).
tff(p__is_symbolic__def_ax, axiom, ![X1: general]: (p__is_symbolic__(X1) <=> (?[X2: symbol]: (X1 = f__symbolic__(X2))))).
tff(general_universe_ax, axiom, ![X: general]: ((X = c__infimum__) | p__is_integer__(X) | p__is_symbolic__(X) | (X = c__supremum__))).
tff(f__integer__def_ax, axiom, ![N1: $int, N2: $int]: ((f__integer__(N1) = f__integer__(N2)) <=> (N1 = N2))).
tff(f__symbolic__def_ax, axiom, ![S1: symbol, S2: symbol]: ((f__symbolic__(S1) = f__symbolic__(S2)) <=> (S1 = S2))).
tff(numeral_ordering_ax, axiom, ![N1: $int, N2: $int]: (p__less_equal__(f__integer__(N1), f__integer__(N2)) <=> $lesseq(N1, N2))).
tff(antisymmetric_ordering_ax, axiom, ![X1: general, X2: general]: ((p__less_equal__(X1, X2) & p__less_equal__(X2, X1)) => (X1 = X2))).
tff(transitive_ordering_ax, axiom, ![X1: general, X2: general, X3: general]: ((p__less_equal__(X1, X2) & p__less_equal__(X2, X3)) => p__less_equal__(X1, X3))).
tff(strongly_connected_ordering_ax, axiom, ![X1: general, X2: general]: (p__less_equal__(X1, X2) | p__less_equal__(X2, X1))).
tff(p__less__def_ax, axiom, ![X1: general, X2: general]: (p__less__(X1, X2) <=> (p__less_equal__(X1, X2) & (X1 != X2)))).
tff(p__greater_equal__def_ax, axiom, ![X1: general, X2: general]: (p__greater_equal__(X1, X2) <=> p__less_equal__(X2, X1))).
tff(p__greater__def_ax, axiom, ![X1: general, X2: general]: (p__greater__(X1, X2) <=> (p__less_equal__(X2, X1) & (X1 != X2)))).
tff(minimal_element_ax, axiom, ![N: $int]: p__less__(c__infimum__, f__integer__(N))).
tff(numerals_less_than_symbols_ax, axiom, ![N: $int, S: symbol]: p__less__(f__integer__(N), f__symbolic__(S))).
tff(maximal_element_ax, axiom, ![S: symbol]: p__less__(f__symbolic__(S), c__supremum__)).
"

def insertStr (s : String) : List String → List String
  | [] => [s]
  | t :: ts => if t < s then t :: insertStr s ts else s :: t :: ts

def sortStrs (l : List String) : List String := l.foldr insertStr []

def windows2 {α} : List α → List (α × α)
  | a :: b :: rest => (a, b) :: windows2 (b :: rest)
  | _ => []

def PRole.tptp : PRole → String | .axiom => "axiom" | .conjecture => "conjecture"

/-- `Display for Problem`. -/
def Problem.tptpText (p : Problem) : String :=
  standardPreamble ++
  String.join ((indexFrom 0 p.preds).map fun (i, q) =>
    if q.arity > 0 then
      "tff(predicate_" ++ toString i ++ ", type, " ++ q.symbol ++ ": (" ++
        " * ".intercalate (List.replicate q.arity "general") ++ ") > $o).\n"
    else "tff(predicate_" ++ toString i ++ ", type, " ++ q.symbol ++ ": $o).\n") ++
  String.join ((indexFrom 0 p.symbols).map fun (i, s) =>
    "tff(type_symbol_" ++ toString i ++ ", type, " ++ s ++ ": symbol).\n") ++
  String.join ((indexFrom 0 p.fcs).map fun (i, c) =>
    "tff(type_function_constant_" ++ toString i ++ ", type, " ++ tptpVar c ++ ": " ++
      (match c.sort with | .general => "general" | .integer => "$int" | .symbol => "symbol") ++ ").\n") ++
  String.join ((indexFrom 0 (windows2 (sortStrs p.symbols))).map fun (i, (a, b)) =>
    "tff(symbol_order_" ++ toString i ++ ", axiom, p__less__(f__symbolic__(" ++ a ++
      "), f__symbolic__(" ++ b ++ "))).\n") ++
  String.join (p.formulas.map fun a =>
    "tff(" ++ a.name ++ ", " ++ a.role.tptp ++ ", " ++ tptpFormula a.formula ++ ").\n")

def Problem.tptpPanics (p : Problem) : Bool := p.formulas.any (·.formula.tptpPanics)

end Anthem

namespace Anthem

def preambleNames : List String :=
  ["general", "symbol", "f__integer__", "f__symbolic__", "c__infimum__", "c__supremum__",
   "p__is_integer__", "p__is_symbolic__", "p__less_equal__", "p__less__", "p__greater_equal__",
   "p__greater__"]

def dupNames : List String → List String
  | [] => []
  | x :: xs => if x ∈ xs then ins (dupNames xs) x else dupNames xs

/-- Name-hygiene problems of an emitted TFF problem (the classes of DESIGN.md 6/C09). Empty iff
    every declared identifier is declared once, none begins with `_`, none is a preamble
    identifier, and formula names are unique. -/
def Problem.hygieneIssues (p : Problem) : List String :=
  let declared := p.preds.map (·.symbol) ++ p.symbols ++ p.fcs.map tptpVar
  let under := declared.filter fun n => n.toList.head? = some '_'
  (if under.isEmpty then [] else ["leading-underscore"]) ++
  (if (dupNames declared).isEmpty then [] else ["duplicate-declaration"]) ++
  (if declared.any (· ∈ preambleNames) then ["clashes-with-preamble"] else []) ++
  (if (dupNames (p.formulas.map (·.name))).isEmpty then [] else ["duplicate-formula-name"])

end Anthem
