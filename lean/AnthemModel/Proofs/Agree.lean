/-
  Shared metatheory (DESIGN.md 3.5): membership in the insertion-ordered sets, the free-variable
  predicate, agreement (satisfaction depends only on the free variables), and the
  characterisation of sequential binder lists by the *set* of bound variables.
-/
import AnthemModel.Semantics.Fol
namespace Anthem

/-! ## `ins` / `ext` -/

theorem mem_ins {α} [DecidableEq α] {s : List α} {a x : α} : x ∈ ins s a ↔ x ∈ s ∨ x = a := by
  unfold ins
  split
  · constructor
    · exact Or.inl
    · rintro (h | rfl) <;> assumption
  · simp

theorem mem_ext {α} [DecidableEq α] {s t : List α} {x : α} : x ∈ ext s t ↔ x ∈ s ∨ x ∈ t := by
  unfold ext
  induction t generalizing s with
  | nil => simp
  | cons a t ih => simp only [List.foldl_cons, ih, mem_ins, List.mem_cons]; exact or_assoc

theorem nodup_ins {α} [DecidableEq α] {s : List α} {a : α} (h : s.Nodup) : (ins s a).Nodup := by
  unfold ins
  split
  · exact h
  · rename_i hn
    exact List.nodup_append.mpr ⟨h, (by simp), by
      intro x hx y hy; simp at hy; subst hy; intro e; subst e; exact hn hx⟩

theorem nodup_ext {α} [DecidableEq α] {s t : List α} (h : s.Nodup) : (ext s t).Nodup := by
  unfold ext
  induction t generalizing s with
  | nil => simpa
  | cons a t ih => exact ih (nodup_ins h)

theorem mem_foldl_ext {α β} [DecidableEq β] (f : α → List β) (xs : List α) (init : List β) (x : β) :
    x ∈ xs.foldl (fun acc t => ext acc (f t)) init ↔ x ∈ init ∨ ∃ t ∈ xs, x ∈ f t := by
  induction xs generalizing init with
  | nil => simp
  | cons a xs ih =>
    simp only [List.foldl_cons, ih, mem_ext, List.mem_cons, exists_eq_or_imp]
    exact or_assoc

theorem nodup_foldl_ext {α β} [DecidableEq β] (f : α → List β) (xs : List α) (init : List β)
    (h : init.Nodup) : (xs.foldl (fun acc t => ext acc (f t)) init).Nodup := by
  induction xs generalizing init with
  | nil => simpa
  | cons a xs ih => exact ih _ (nodup_ext h)

/-! ## variables of terms: nodup and evaluation congruence -/

theorem ITerm.vars_nodup (t : ITerm) : t.vars.Nodup := by
  induction t with
  | num _ | fc _ => simp [ITerm.vars]
  | var _ => simp [ITerm.vars]
  | neg t ih => simpa [ITerm.vars]
  | bin op l r ihl _ => exact nodup_ext ihl

theorem GTerm.vars_nodup (t : GTerm) : t.vars.Nodup := by
  cases t with
  | inf | sup | fc _ => simp [GTerm.vars]
  | var _ => simp [GTerm.vars]
  | int t => exact t.vars_nodup
  | symb t => cases t <;> simp [GTerm.vars, STerm.vars]

theorem ITerm.eval_congr (fc : FcI) {ρ ρ' : Asg} (t : ITerm) (h : ∀ v ∈ t.vars, ρ v = ρ' v) :
    t.eval fc ρ = t.eval fc ρ' := by
  induction t with
  | num _ | fc _ => rfl
  | var x => simp [ITerm.eval, h ⟨x, .integer⟩ (by simp [ITerm.vars])]
  | neg t ih => simp [ITerm.eval, ih (by simpa [ITerm.vars] using h)]
  | bin op l r ihl ihr =>
    simp only [ITerm.vars, mem_ext] at h
    simp [ITerm.eval, ihl (fun v hv => h v (Or.inl hv)), ihr (fun v hv => h v (Or.inr hv))]

theorem GTerm.eval_congr (fc : FcI) {ρ ρ' : Asg} (t : GTerm) (h : ∀ v ∈ t.vars, ρ v = ρ' v) :
    t.eval fc ρ = t.eval fc ρ' := by
  cases t with
  | inf | sup | fc _ => rfl
  | var x => simp [GTerm.eval, h ⟨x, .general⟩ (by simp [GTerm.vars])]
  | int t => simp [GTerm.eval, ITerm.eval_congr fc t h]
  | symb t =>
    cases t with
    | sym _ | fc _ => rfl
    | var x => simp [GTerm.eval, STerm.eval, h ⟨x, .symbol⟩ (by simp [GTerm.vars, STerm.vars])]

theorem cmpChain_congr (fc : FcI) {ρ ρ' : Asg} (gs : List Guard) (d : Dom)
    (h : ∀ g ∈ gs, ∀ v ∈ g.term.vars, ρ v = ρ' v) : cmpChain fc ρ d gs ↔ cmpChain fc ρ' d gs := by
  induction gs generalizing d with
  | nil => simp [cmpChain]
  | cons g gs ih =>
    simp only [cmpChain]
    rw [GTerm.eval_congr fc g.term (h g List.mem_cons_self),
      ih _ (fun g' hg' => h g' (List.mem_cons_of_mem _ hg'))]

theorem AtomicF.vars_nodup (a : AtomicF) : a.vars.Nodup := by
  cases a with
  | tru | fls => simp [AtomicF.vars]
  | atom a => exact nodup_foldl_ext _ _ _ List.nodup_nil
  | cmp t gs => exact nodup_foldl_ext _ _ _ t.vars_nodup

theorem AtomicF.sat_congr (P : PredI) (fc : FcI) {ρ ρ' : Asg} (a : AtomicF)
    (h : ∀ v ∈ a.vars, ρ v = ρ' v) : a.sat P fc ρ ↔ a.sat P fc ρ' := by
  cases a with
  | tru | fls => exact Iff.rfl
  | atom a =>
    simp only [AtomicF.sat]
    have : a.args.map (GTerm.eval fc ρ) = a.args.map (GTerm.eval fc ρ') := by
      apply List.map_congr_left
      intro t ht
      apply GTerm.eval_congr
      intro v hv
      apply h
      simp only [AtomicF.vars, mem_foldl_ext]
      exact Or.inr ⟨t, ht, hv⟩
    rw [this]
  | cmp t gs =>
    simp only [AtomicF.sat]
    simp only [AtomicF.vars, mem_foldl_ext] at h
    rw [GTerm.eval_congr fc t (fun v hv => h v (Or.inl hv))]
    exact cmpChain_congr fc gs _ (fun g hg v hv => h v (Or.inr ⟨g, hg, hv⟩))

/-! ## free variables -/

/-- Semantic free-variable predicate (what `Formula.fv` computes). -/
def Formula.FV : Formula → Var → Prop
  | .atomic a, v => v ∈ a.vars
  | .not f, v => f.FV v
  | .bin _ l r, v => l.FV v ∨ r.FV v
  | .quant _ vs f, v => f.FV v ∧ v ∉ vs

theorem mem_foldl_erase {vs acc : List Var} (h : acc.Nodup) {x : Var} :
    x ∈ vs.foldl (fun a v => a.erase v) acc ↔ x ∈ acc ∧ x ∉ vs := by
  induction vs generalizing acc with
  | nil => simp
  | cons v vs ih =>
    simp only [List.foldl_cons, ih (h.erase v), h.mem_erase_iff, List.mem_cons, not_or]
    exact ⟨fun ⟨⟨a, b⟩, c⟩ => ⟨b, a, c⟩, fun ⟨b, a, c⟩ => ⟨⟨a, b⟩, c⟩⟩

theorem nodup_foldl_erase {vs acc : List Var} (h : acc.Nodup) :
    (vs.foldl (fun a v => a.erase v) acc).Nodup := by
  induction vs generalizing acc with
  | nil => simpa
  | cons v vs ih => exact ih (h.erase v)

theorem Formula.fv_nodup (F : Formula) : F.fv.Nodup := by
  induction F with
  | atomic a => exact a.vars_nodup
  | not f ih => exact ih
  | bin c l r ihl _ => exact nodup_ext ihl
  | quant q vs f ih => exact nodup_foldl_erase ih

theorem Formula.mem_fv {F : Formula} {v : Var} : v ∈ F.fv ↔ F.FV v := by
  induction F with
  | atomic a => exact Iff.rfl
  | not f ih => exact ih
  | bin c l r ihl ihr => simp [Formula.fv, Formula.FV, mem_ext, ihl, ihr]
  | quant q vs f ih => simp [Formula.fv, Formula.FV, mem_foldl_erase f.fv_nodup, ih]

/-! ## sequential binders, characterised by the set of bound variables -/

/-- `τ` arises from `ρ` by re-assigning (sort-correctly) the variables of `L`. -/
def AllUpd (L : List Var) (ρ τ : Asg) : Prop :=
  (∀ v, v ∉ L → τ v = ρ v) ∧ (∀ v ∈ L, (τ v).inSort v.sort)

theorem bindAll_iff {L : List Var} {P : Asg → Prop} {ρ : Asg} :
    bindAll L P ρ ↔ ∀ τ, AllUpd L ρ τ → P τ := by
  induction L generalizing ρ with
  | nil =>
    simp only [bindAll, AllUpd, List.not_mem_nil, not_false_eq_true, forall_const,
      false_imp_iff, and_true]
    constructor
    · intro h τ hτ
      have : τ = ρ := funext hτ
      rwa [this]
    · intro h; exact h ρ (fun _ => rfl)
  | cons x xs ih =>
    simp only [bindAll]
    constructor
    · intro h τ ⟨h1, h2⟩
      refine (ih.mp (h (τ x) (h2 x List.mem_cons_self))) τ ⟨?_, fun v hv => h2 v (List.mem_cons_of_mem _ hv)⟩
      intro v hv
      by_cases e : v = x
      · subst e; simp
      · rw [Asg.set_other _ _ e]; exact h1 v (by simp [e, hv])
    · intro h d hd
      refine ih.mpr fun τ ⟨h1, h2⟩ => h τ ⟨?_, ?_⟩
      · intro v hv
        simp only [List.mem_cons, not_or] at hv
        rw [h1 v hv.2, Asg.set_other _ _ hv.1]
      · intro v hv
        by_cases hvx : v ∈ xs
        · exact h2 v hvx
        · have e : v = x := by simpa [hvx] using hv
          subst e
          rw [h1 v hvx]; simpa using hd

theorem bindEx_iff {L : List Var} {P : Asg → Prop} {ρ : Asg} :
    bindEx L P ρ ↔ ∃ τ, AllUpd L ρ τ ∧ P τ := by
  induction L generalizing ρ with
  | nil =>
    simp only [bindEx, AllUpd, List.not_mem_nil, not_false_eq_true, forall_const,
      false_imp_iff, and_true]
    constructor
    · intro h; exact ⟨ρ, fun _ => rfl, h⟩
    · rintro ⟨τ, hτ, h⟩
      have : τ = ρ := funext hτ
      rwa [← this]
  | cons x xs ih =>
    simp only [bindEx]
    constructor
    · rintro ⟨d, hd, h⟩
      obtain ⟨τ, ⟨h1, h2⟩, hP⟩ := ih.mp h
      refine ⟨τ, ⟨?_, ?_⟩, hP⟩
      · intro v hv
        simp only [List.mem_cons, not_or] at hv
        rw [h1 v hv.2, Asg.set_other _ _ hv.1]
      · intro v hv
        by_cases hvx : v ∈ xs
        · exact h2 v hvx
        · have e : v = x := by simpa [hvx] using hv
          subst e
          rw [h1 v hvx]; simpa using hd
    · rintro ⟨τ, ⟨h1, h2⟩, hP⟩
      refine ⟨τ x, h2 x List.mem_cons_self, ih.mpr ⟨τ, ⟨?_, fun v hv => h2 v (List.mem_cons_of_mem _ hv)⟩, hP⟩⟩
      intro v hv
      by_cases e : v = x
      · subst e; simp
      · rw [Asg.set_other _ _ e]; exact h1 v (by simp [e, hv])

/-- Binder lists with the same members bind the same way. -/
theorem bindAll_perm {L L' : List Var} (h : ∀ v, v ∈ L ↔ v ∈ L') (P : Asg → Prop) (ρ : Asg) :
    bindAll L P ρ ↔ bindAll L' P ρ := by
  simp only [bindAll_iff, AllUpd, h]

theorem bindEx_perm {L L' : List Var} (h : ∀ v, v ∈ L ↔ v ∈ L') (P : Asg → Prop) (ρ : Asg) :
    bindEx L P ρ ↔ bindEx L' P ρ := by
  simp only [bindEx_iff, AllUpd, h]

theorem bindAll_append (L L' : List Var) (P : Asg → Prop) (ρ : Asg) :
    bindAll (L ++ L') P ρ ↔ bindAll L (bindAll L' P) ρ := by
  induction L generalizing ρ with
  | nil => rfl
  | cons x xs ih => simp only [List.cons_append, bindAll, ih]

theorem bindEx_append (L L' : List Var) (P : Asg → Prop) (ρ : Asg) :
    bindEx (L ++ L') P ρ ↔ bindEx L (bindEx L' P) ρ := by
  induction L generalizing ρ with
  | nil => rfl
  | cons x xs ih => simp only [List.cons_append, bindEx, ih]

/-- Every sort is inhabited. -/
theorem exists_inSort (s : Srt) : ∃ d : Dom, d.inSort s := by
  cases s
  · exact ⟨.inf, trivial⟩
  · exact ⟨.num 0, trivial⟩
  · exact ⟨.sym "", trivial⟩

/-- A default value of each sort, used to build witnesses. -/
def Srt.default : Srt → Dom
  | .general => .inf
  | .integer => .num 0
  | .symbol => .sym ""

theorem Srt.default_inSort (s : Srt) : (s.default).inSort s := by cases s <;> trivial

/-- Agreement for binder lists: if `P` only looks at variables in `S`, binding is insensitive to
    the assignment outside `S` and outside the bound variables. -/
theorem bindAll_agree {L : List Var} {P : Asg → Prop} {S : Var → Prop}
    (hP : ∀ ρ ρ', (∀ v, S v → ρ v = ρ' v) → (P ρ ↔ P ρ')) {ρ ρ' : Asg}
    (h : ∀ v, S v → v ∉ L → ρ v = ρ' v) : bindAll L P ρ ↔ bindAll L P ρ' := by
  induction L generalizing ρ ρ' with
  | nil => exact hP ρ ρ' (fun v hv => h v hv (by simp))
  | cons x xs ih =>
    simp only [bindAll]
    refine forall_congr' fun d => imp_congr_right fun _ => ih ?_
    intro v hv hvx
    by_cases e : v = x
    · subst e; simp
    · rw [Asg.set_other _ _ e, Asg.set_other _ _ e]; exact h v hv (by simp [e, hvx])

theorem bindEx_agree {L : List Var} {P : Asg → Prop} {S : Var → Prop}
    (hP : ∀ ρ ρ', (∀ v, S v → ρ v = ρ' v) → (P ρ ↔ P ρ')) {ρ ρ' : Asg}
    (h : ∀ v, S v → v ∉ L → ρ v = ρ' v) : bindEx L P ρ ↔ bindEx L P ρ' := by
  induction L generalizing ρ ρ' with
  | nil => exact hP ρ ρ' (fun v hv => h v hv (by simp))
  | cons x xs ih =>
    simp only [bindEx]
    refine exists_congr fun d => and_congr_right fun _ => ih ?_
    intro v hv hvx
    by_cases e : v = x
    · subst e; simp
    · rw [Asg.set_other _ _ e, Asg.set_other _ _ e]; exact h v hv (by simp [e, hvx])

/-- **Agreement**: HT satisfaction depends only on the free variables. -/
theorem ht_agree (M : HTI) (F : Formula) : ∀ (w : World) (ρ ρ' : Asg),
    (∀ v, F.FV v → ρ v = ρ' v) → (ht M F w ρ ↔ ht M F w ρ') := by
  induction F with
  | atomic a => intro w ρ ρ' h; exact a.sat_congr _ _ h
  | not f ih => intro w ρ ρ' h; simp only [ht]; exact not_congr (ih _ ρ ρ' h)
  | bin c l r ihl ihr =>
    intro w ρ ρ' h
    have hl : ∀ w, ht M l w ρ ↔ ht M l w ρ' := fun w => ihl w ρ ρ' (fun v hv => h v (Or.inl hv))
    have hr : ∀ w, ht M r w ρ ↔ ht M r w ρ' := fun w => ihr w ρ ρ' (fun v hv => h v (Or.inr hv))
    cases c <;> simp only [ht, hl, hr]
  | quant q vs f ih =>
    intro w ρ ρ' h
    cases q <;> simp only [ht]
    · exact bindAll_agree (S := f.FV) (ih w) (fun v hv hn => h v ⟨hv, hn⟩)
    · exact bindEx_agree (S := f.FV) (ih w) (fun v hv hn => h v ⟨hv, hn⟩)

theorem sat_agree (I : Interp) (F : Formula) (ρ ρ' : Asg) (h : ∀ v, F.FV v → ρ v = ρ' v) :
    sat I F ρ ↔ sat I F ρ' := by
  have := ht_agree ⟨I.pred, I.pred, I.fc⟩ F .there ρ ρ' h
  rwa [ht_there_eq_sat, ht_there_eq_sat] at this

/-- Binding a variable the body does not depend on is vacuous. -/
theorem bindAll_cons_orphan {x : Var} {xs : List Var} {P : Asg → Prop} {S : Var → Prop}
    (hP : ∀ ρ ρ', (∀ v, S v → ρ v = ρ' v) → (P ρ ↔ P ρ')) (hx : ¬ S x) (ρ : Asg) :
    bindAll (x :: xs) P ρ ↔ bindAll xs P ρ := by
  simp only [bindAll]
  have key : ∀ d, bindAll xs P (ρ.set x d) ↔ bindAll xs P ρ := fun d =>
    bindAll_agree hP (fun v hv _ => by
      have : v ≠ x := fun e => hx (e ▸ hv)
      exact Asg.set_other _ _ this)
  constructor
  · intro h
    obtain ⟨d, hd⟩ := exists_inSort x.sort
    exact (key d).mp (h d hd)
  · intro h d _; exact (key d).mpr h

theorem bindEx_cons_orphan {x : Var} {xs : List Var} {P : Asg → Prop} {S : Var → Prop}
    (hP : ∀ ρ ρ', (∀ v, S v → ρ v = ρ' v) → (P ρ ↔ P ρ')) (hx : ¬ S x) (ρ : Asg) :
    bindEx (x :: xs) P ρ ↔ bindEx xs P ρ := by
  simp only [bindEx]
  have key : ∀ d, bindEx xs P (ρ.set x d) ↔ bindEx xs P ρ := fun d =>
    bindEx_agree hP (fun v hv _ => by
      have : v ≠ x := fun e => hx (e ▸ hv)
      exact Asg.set_other _ _ this)
  constructor
  · rintro ⟨d, _, h⟩; exact (key d).mp h
  · intro h
    obtain ⟨d, hd⟩ := exists_inSort x.sort
    exact ⟨d, hd, (key d).mpr h⟩

end Anthem
