/-
  Round trip for atoms, literals, comparisons and bodies at the character level.
-/
import AnthemModel.Proofs.AspTermRT
namespace Anthem.Asp

/-! ## printers -/

/-- `t1, t2, …` -/
def argsL : List Term → List Char
  | [] => []
  | [t] => t.printL
  | t :: t' :: ts => t.printL ++ ',' :: ' ' :: argsL (t' :: ts)

/-- `, t` for every term -/
def argsTailL : List Term → List Char
  | [] => []
  | t :: ts => ',' :: ' ' :: (t.printL ++ argsTailL ts)

theorem argsL_cons (t : Term) (ts : List Term) : argsL (t :: ts) = t.printL ++ argsTailL ts := by
  induction ts generalizing t with
  | nil => simp [argsL, argsTailL]
  | cons t' ts ih => simp only [argsL, argsTailL, ih t']

def Atom.printL (a : Atom) : List Char :=
  if a.args.isEmpty then a.pred.toList else a.pred.toList ++ '(' :: (argsL a.args ++ [')'])

theorem intercalate_args (ts : List Term) :
    (", ".intercalate (ts.map Term.print)).toList = argsL ts := by
  induction ts with
  | nil => rfl
  | cons t ts ih =>
    cases ts with
    | nil => simp [argsL, Term.print_toList]
    | cons t' ts =>
      simp only [List.map_cons, String.intercalate_cons_cons, String.toList_append, Term.print_toList]
      simp only [List.map_cons] at ih
      rw [ih]
      simp only [argsL, List.append_assoc]
      rfl

theorem Atom.print_toList (a : Atom) : a.print.toList = a.printL := by
  unfold Atom.print Atom.printL
  split
  · rfl
  · simp only [String.toList_append, intercalate_args]
    simp

def Atom.WF (a : Atom) : Prop :=
  SymName a.pred.toList ∧ a.pred.toList ≠ ['n', 'o', 't'] ∧ ∀ t ∈ a.args, t.WF

/-! ## argument lists -/

theorem lexBinop_comma (r : List Char) : lexBinop (skip (',' :: r)) = none := by
  rw [skip_cons_solid r ⟨by decide, by decide⟩]; rfl

/-- what follows an argument: the next `, t` or the closing parenthesis -/
theorem argsTail_follow (ts : List Term) (rest : List Char) :
    NoId (argsTailL ts ++ ')' :: rest) ∧ lexBinop (skip (argsTailL ts ++ ')' :: rest)) = none := by
  cases ts with
  | nil => exact ⟨noId_cons _ (by decide), lexBinop_paren_close rest⟩
  | cons t ts => exact ⟨noId_cons _ (by decide), lexBinop_comma _⟩

theorem termArgs_printL : ∀ (ts : List Term), (∀ t ∈ ts, t.WF) → ∀ (rest : List Char) (f : Nat),
    (argsTailL ts ++ ')' :: rest).length < f →
    termArgs f (argsTailL ts ++ ')' :: rest) = (ts, ')' :: rest) := by
  intro ts
  induction ts with
  | nil =>
    intro _ rest f hf
    obtain ⟨f0, rfl⟩ : ∃ f0, f = f0 + 1 := ⟨f - 1, by omega⟩
    simp [argsTailL, termArgs, skip_cons_solid rest (show Solid ')' from ⟨by decide, by decide⟩)]
  | cons t ts ih =>
    intro hwf rest f hf
    obtain ⟨f0, rfl⟩ : ∃ f0, f = f0 + 1 := ⟨f - 1, by omega⟩
    have ht := hwf t List.mem_cons_self
    obtain ⟨h1, h2⟩ := argsTail_follow ts rest
    have hsk : skip (' ' :: (t.printL ++ argsTailL ts ++ ')' :: rest)) = t.printL ++ (argsTailL ts ++ ')' :: rest) := by
      rw [skip_space, List.append_assoc]
      exact skip_of_startsSolid ((Term.printL_startsSolid t ht).append _)
    have hterm : termL (2 * (' ' :: (t.printL ++ argsTailL ts ++ ')' :: rest)).length + 2)
        (skip (' ' :: (t.printL ++ argsTailL ts ++ ')' :: rest))) = some (t, argsTailL ts ++ ')' :: rest) := by
      rw [hsk]
      exact termL_printL t ht _ h1 h2 _ (by simp only [List.length_cons, List.length_append]; omega)
    simp only [argsTailL, List.cons_append, List.append_assoc, List.length_cons, List.length_append] at hf ⊢
    simp only [termArgs, skip_cons_solid _ (show Solid ',' from ⟨by decide, by decide⟩)]
    simp only [List.append_assoc] at hterm
    rw [hterm]
    simp only
    rw [ih (fun u hu => hwf u (List.mem_cons_of_mem _ hu)) rest f0
      (by simp only [List.length_append, List.length_cons]; omega)]

/-! ## atoms -/

/-- what may follow an atom: not an identifier character and, after white space, no `(` -/
def AtomFollow (rest : List Char) : Prop := NoId rest ∧ ∀ r, skip rest ≠ '(' :: r

theorem atomL_printL (a : Atom) (ha : a.WF) (rest : List Char) (hr : AtomFollow rest) :
    atomL (a.printL ++ rest) = some (a, rest) := by
  obtain ⟨pred, args⟩ := a
  obtain ⟨hs, hne, hargs⟩ := ha
  simp only at hs hne hargs
  cases args with
  | nil =>
    simp only [Atom.printL, List.isEmpty_nil, if_true]
    simp only [atomL, lexSymbol_append pred.toList rest hs hne hr.1, String.ofList_toList]
    split
    · rename_i r1 heq; exact absurd heq (hr.2 r1)
    · rfl
  | cons t ts =>
    have ht := hargs t List.mem_cons_self
    simp only [Atom.printL, List.isEmpty_cons, Bool.false_eq_true, if_false, List.append_assoc, List.cons_append,
      List.nil_append, argsL_cons]
    have hlex := lexSymbol_append pred.toList ('(' :: (t.printL ++ (argsTailL ts ++ ')' :: rest))) hs hne
      (noId_cons _ (by decide))
    obtain ⟨h1, h2⟩ := argsTail_follow ts rest
    have hsk : skip (t.printL ++ (argsTailL ts ++ ')' :: rest)) = t.printL ++ (argsTailL ts ++ ')' :: rest) :=
      skip_of_startsSolid ((Term.printL_startsSolid t ht).append _)
    have hterm : termL (2 * (t.printL ++ (argsTailL ts ++ ')' :: rest)).length + 2)
        (skip (t.printL ++ (argsTailL ts ++ ')' :: rest))) = some (t, argsTailL ts ++ ')' :: rest) := by
      rw [hsk]
      exact termL_printL t ht _ h1 h2 _ (by omega)
    have hrest := termArgs_printL ts (fun u hu => hargs u (List.mem_cons_of_mem _ hu)) rest
      ((argsTailL ts ++ ')' :: rest).length + 1) (by omega)
    simp only [atomL, hlex, skip_cons_solid _ (show Solid '(' from ⟨by decide, by decide⟩), hterm, hrest,
      skip_cons_solid rest (show Solid ')' from ⟨by decide, by decide⟩), String.ofList_toList]

end Anthem.Asp
