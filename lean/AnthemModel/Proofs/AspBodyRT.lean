/-
  Round trip for body atoms (literals with every sign, comparisons) and bodies.
-/
import AnthemModel.Proofs.AspAtomRT
namespace Anthem.Asp

def Rel.printL : Rel → List Char
  | .eq => ['='] | .ne => ['!', '='] | .lt => ['<'] | .le => ['<', '='] | .gt => ['>'] | .ge => ['>', '=']

def BodyAtom.printL : BodyAtom → List Char
  | .lit ⟨.pos, a⟩ => a.printL
  | .lit ⟨.neg, a⟩ => 'n' :: 'o' :: 't' :: ' ' :: a.printL
  | .lit ⟨.negneg, a⟩ => 'n' :: 'o' :: 't' :: ' ' :: 'n' :: 'o' :: 't' :: ' ' :: a.printL
  | .cmp rel l r => l.printL ++ ' ' :: (rel.printL ++ ' ' :: r.printL)

theorem Rel.print_toList (r : Rel) : r.print.toList = r.printL := by cases r <;> rfl

theorem BodyAtom.print_toList (b : BodyAtom) : b.print.toList = b.printL := by
  cases b with
  | lit l =>
    obtain ⟨s, a⟩ := l
    cases s <;> simp [BodyAtom.print, BodyAtom.printL, String.toList_append, Atom.print_toList]
  | cmp rel l r =>
    simp [BodyAtom.print, BodyAtom.printL, String.toList_append, Term.print_toList, Rel.print_toList]

def BodyAtom.WF : BodyAtom → Prop
  | .lit l => l.atom.WF
  | .cmp _ l r => l.WF ∧ r.WF

/-- what follows a body atom: `,` or the final `.` (not the beginning of `..`) -/
def BodyFollow (rest : List Char) : Prop :=
  (∃ r, rest = ',' :: r) ∨ (∃ r, rest = '.' :: r ∧ ∀ r', r ≠ '.' :: r')

theorem BodyFollow.noId {rest : List Char} (h : BodyFollow rest) : NoId rest := by
  rcases h with ⟨r, rfl⟩ | ⟨r, rfl, _⟩
  · exact noId_cons _ (by decide)
  · exact noId_cons _ (by decide)

theorem BodyFollow.skip_eq {rest : List Char} (h : BodyFollow rest) : skip rest = rest := by
  rcases h with ⟨r, rfl⟩ | ⟨r, rfl, _⟩
  · exact skip_cons_solid _ ⟨by decide, by decide⟩
  · exact skip_cons_solid _ ⟨by decide, by decide⟩

theorem BodyFollow.noBinop {rest : List Char} (h : BodyFollow rest) : lexBinop (skip rest) = none := by
  rw [h.skip_eq]
  rcases h with ⟨r, rfl⟩ | ⟨r, rfl, hr⟩
  · rfl
  · cases r with
    | nil => rfl
    | cons c r'' =>
      have hc : c ≠ '.' := fun e => hr r'' (by rw [e])
      unfold lexBinop
      split
      all_goals first
        | rfl
        | (rename_i heq; injection heq with e1 e2; first
            | exact absurd e1 (by decide)
            | (injection e2 with e3 _; exact absurd e3 hc))

theorem BodyFollow.noRelation {rest : List Char} (h : BodyFollow rest) : lexRelation (skip rest) = none := by
  rw [h.skip_eq]
  rcases h with ⟨r, rfl⟩ | ⟨r, rfl, _⟩ <;> rfl

theorem BodyFollow.atomFollow {rest : List Char} (h : BodyFollow rest) : AtomFollow rest := by
  refine ⟨h.noId, fun r => ?_⟩
  rw [h.skip_eq]
  rcases h with ⟨r', rfl⟩ | ⟨r', rfl, _⟩ <;> (intro e; injection e with e1 _; exact absurd e1 (by decide))

/-! ## comparisons -/

theorem lexRelation_print (rel : Rel) (Y : List Char) :
    lexRelation (rel.printL ++ ' ' :: Y) = some (rel, ' ' :: Y) := by
  cases rel <;> rfl

theorem relation_follow (rel : Rel) (Y : List Char) :
    NoId (' ' :: (rel.printL ++ ' ' :: Y)) ∧ lexBinop (skip (' ' :: (rel.printL ++ ' ' :: Y))) = none := by
  refine ⟨noId_cons _ (by decide), ?_⟩
  rw [skip_space]
  cases rel <;> (simp only [Rel.printL, List.cons_append, List.nil_append]; rw [skip_cons_solid _ ⟨by decide, by decide⟩]; rfl)

theorem skip_relation (rel : Rel) (Y : List Char) : skip (rel.printL ++ ' ' :: Y) = rel.printL ++ ' ' :: Y := by
  cases rel <;> exact skip_cons_solid _ ⟨by decide, by decide⟩

theorem comparisonL_printL (rel : Rel) (l r : Term) (hl : l.WF) (hr : r.WF) (rest : List Char)
    (hrest : BodyFollow rest) :
    comparisonL ((BodyAtom.cmp rel l r).printL ++ rest) = some (.cmp rel l r, rest) := by
  simp only [BodyAtom.printL, List.append_assoc, List.cons_append]
  obtain ⟨h1, h2⟩ := relation_follow rel (r.printL ++ rest)
  have ht1 := termL_printL l hl (' ' :: (rel.printL ++ ' ' :: (r.printL ++ rest))) h1 h2
    (2 * (l.printL ++ ' ' :: (rel.printL ++ ' ' :: (r.printL ++ rest))).length + 1) (by omega)
  have hsk : skip (' ' :: (r.printL ++ rest)) = r.printL ++ rest := by
    rw [skip_space]; exact skip_of_startsSolid ((Term.printL_startsSolid r hr).append rest)
  have ht2 : termL (2 * (' ' :: (r.printL ++ rest)).length + 2) (skip (' ' :: (r.printL ++ rest))) = some (r, rest) := by
    rw [hsk]
    exact termL_printL r hr rest hrest.noId hrest.noBinop _ (by simp only [List.length_cons]; omega)
  have hsk1 : skip (' ' :: (rel.printL ++ ' ' :: (r.printL ++ rest))) = rel.printL ++ ' ' :: (r.printL ++ rest) := by
    rw [skip_space, skip_relation]
  simp only [comparisonL, ht1, hsk1, lexRelation_print, ht2]

/-! ## literals -/

theorem operand_fail (f : Nat) (cs : List Char) (hs : skip cs = cs) (hn : lexNegative cs = none)
    (h0 : lexPre cs = none) (hv : lexVariable cs = none) (hp : ∀ r, cs ≠ '(' :: r) :
    operand (f + 1) cs = none := by
  simp only [operand, lexNegs_none (cs.length + 1) true cs (by simpa using hn), hs, h0, hv]
  try (split
       · rename_i r1 heq; exact absurd heq (hp r1)
       · rfl)

/-- a text that starts with the keyword `not` is no term -/
theorem termL_not (f : Nat) (Y : List Char) : termL f ('n' :: 'o' :: 't' :: ' ' :: Y) = none := by
  cases f with
  | zero => rfl
  | succ f =>
    rw [termL_succ]
    cases f with
    | zero => rfl
    | succ f =>
      have hop : operand (f + 1) ('n' :: 'o' :: 't' :: ' ' :: Y) = none := by
        refine operand_fail f _ (skip_cons_solid _ ⟨by decide, by decide⟩)
          (lexNegative_of_head _ ⟨by decide, by decide⟩ (by decide)) ?_ ?_ ?_
        · simp [lexPre, stripPrefix, lexInteger, isNonzeroDigit, lexSymbol, startsNotWord, startsNegation, isWs, isIdChar]
        · simp [lexVariable]
        · intro r e; injection e with e1 _; exact absurd e1 (by decide)
      simp only [seqT, hop]

theorem comparisonL_not (Y : List Char) : comparisonL ('n' :: 'o' :: 't' :: ' ' :: Y) = none := by
  simp only [comparisonL, termL_not]

/-- an atom in front of a body follower is no comparison: it reads as the term `pred`, and no
    relation follows -/
theorem comparisonL_atom (a : Atom) (ha : a.WF) (rest : List Char) (hrest : BodyFollow rest) :
    comparisonL (a.printL ++ rest) = none := by
  obtain ⟨pred, args⟩ := a
  obtain ⟨hs, hne, hargs⟩ := ha
  simp only at hs hne hargs
  have hwf : (Term.pre (.sym pred)).WF := ⟨hs, hne⟩
  cases args with
  | nil =>
    simp only [Atom.printL, List.isEmpty_nil, if_true]
    have ht := termL_printL (.pre (.sym pred)) hwf rest hrest.noId hrest.noBinop
      (2 * (pred.toList ++ rest).length + 1) (by simp only [Term.printL, Pre.printL]; omega)
    simp only [Term.printL, Pre.printL] at ht
    simp only [comparisonL, ht, hrest.noRelation]
  | cons t ts =>
    have e : (Atom.printL ⟨pred, t :: ts⟩) ++ rest = pred.toList ++ '(' :: (argsL (t :: ts) ++ ')' :: rest) := by
      simp [Atom.printL]
    rw [e]
    have hb : lexBinop (skip ('(' :: (argsL (t :: ts) ++ ')' :: rest))) = none := by
      rw [skip_cons_solid _ ⟨by decide, by decide⟩]; rfl
    have ht := termL_printL (.pre (.sym pred)) hwf ('(' :: (argsL (t :: ts) ++ ')' :: rest))
      (noId_cons _ (by decide)) hb
      (2 * (pred.toList ++ '(' :: (argsL (t :: ts) ++ ')' :: rest)).length + 1)
      (by simp only [Term.printL, Pre.printL]; omega)
    simp only [Term.printL, Pre.printL] at ht
    have hrel : lexRelation (skip ('(' :: (argsL (t :: ts) ++ ')' :: rest))) = none := by
      rw [skip_cons_solid _ ⟨by decide, by decide⟩]; rfl
    simp only [comparisonL, ht, hrel]

theorem startsNegation_atom (a : Atom) (ha : a.WF) (rest : List Char) (hr : NoId rest) :
    startsNegation (a.printL ++ rest) = false := by
  obtain ⟨pred, args⟩ := a
  obtain ⟨hs, hne, _⟩ := ha
  simp only at hs hne
  cases args with
  | nil =>
    simp only [Atom.printL, List.isEmpty_nil, if_true]
    exact startsNegation_sym _ _ hs hne hr
  | cons t ts =>
    simp only [Atom.printL, List.isEmpty_cons, Bool.false_eq_true, if_false, List.append_assoc, List.cons_append]
    exact startsNegation_sym _ _ hs hne (noId_cons _ (by decide))

theorem Atom.printL_startsSolid (a : Atom) (ha : a.WF) : StartsSolid a.printL := by
  unfold Atom.printL
  split
  · exact ha.1.startsSolid
  · exact ha.1.startsSolid.append _

theorem literalL_printL (l : Literal) (hl : l.atom.WF) (rest : List Char) (hrest : BodyFollow rest) :
    literalL ((BodyAtom.lit l).printL ++ rest) = some (l, rest) := by
  obtain ⟨s, a⟩ := l
  simp only at hl
  have hat := atomL_printL a hl rest hrest.atomFollow
  have hneg := startsNegation_atom a hl rest hrest.noId
  have hsk : skip (a.printL ++ rest) = a.printL ++ rest :=
    skip_of_startsSolid ((Atom.printL_startsSolid a hl).append rest)
  cases s with
  | pos =>
    simp only [BodyAtom.printL, literalL, signL, hneg, Bool.false_eq_true, if_false, hsk, hat]
  | neg =>
    have h1 : startsNegation ('n' :: 'o' :: 't' :: ' ' :: (a.printL ++ rest)) = true := by
      simp [startsNegation, isWs]
    simp only [BodyAtom.printL, List.cons_append, literalL, signL, h1, if_true, List.drop_succ_cons, List.drop_zero,
      skip_space, hsk, hneg, Bool.false_eq_true, if_false, hat]
  | negneg =>
    have h1 : ∀ Y, startsNegation ('n' :: 'o' :: 't' :: ' ' :: Y) = true := by
      intro Y; simp [startsNegation, isWs]
    have hsk2 : skip ('n' :: 'o' :: 't' :: ' ' :: (a.printL ++ rest)) = 'n' :: 'o' :: 't' :: ' ' :: (a.printL ++ rest) :=
      skip_cons_solid _ ⟨by decide, by decide⟩
    simp only [BodyAtom.printL, List.cons_append, literalL, signL, h1, if_true, List.drop_succ_cons, List.drop_zero,
      skip_space, hsk2, hsk, hat]

/-! ## body atoms and bodies -/

theorem atomicFormulaL_printL (b : BodyAtom) (hb : b.WF) (rest : List Char) (hrest : BodyFollow rest) :
    atomicFormulaL (b.printL ++ rest) = some (b, rest) := by
  cases b with
  | cmp rel l r => simp only [atomicFormulaL, comparisonL_printL rel l r hb.1 hb.2 rest hrest]
  | lit l =>
    have hlit := literalL_printL l hb rest hrest
    obtain ⟨s, a⟩ := l
    have hcmp : comparisonL ((BodyAtom.lit ⟨s, a⟩).printL ++ rest) = none := by
      cases s with
      | pos => exact comparisonL_atom a hb rest hrest
      | neg => exact comparisonL_not _
      | negneg => exact comparisonL_not _
    simp only [atomicFormulaL, hcmp, hlit]

/-- `, b` for every body atom -/
def bodyTailL : List BodyAtom → List Char
  | [] => []
  | b :: bs => ',' :: ' ' :: (b.printL ++ bodyTailL bs)

def bodyPrintL : List BodyAtom → List Char
  | [] => []
  | b :: bs => b.printL ++ bodyTailL bs

theorem bodyTail_follow (bs : List BodyAtom) (rest : List Char) (hrest : ∀ r', rest ≠ '.' :: r') :
    BodyFollow (bodyTailL bs ++ '.' :: rest) := by
  cases bs with
  | nil => exact Or.inr ⟨rest, rfl, hrest⟩
  | cons b bs => exact Or.inl ⟨_, rfl⟩

theorem BodyAtom.printL_startsSolid (b : BodyAtom) (hb : b.WF) : StartsSolid b.printL := by
  cases b with
  | cmp rel l r =>
    simp only [BodyAtom.printL]
    exact (Term.printL_startsSolid l hb.1).append _
  | lit l =>
    obtain ⟨s, a⟩ := l
    cases s with
    | pos => exact Atom.printL_startsSolid a hb
    | neg => exact ⟨'n', _, rfl, by decide, by decide⟩
    | negneg => exact ⟨'n', _, rfl, by decide, by decide⟩

theorem bodyRest_printL : ∀ (bs : List BodyAtom), (∀ b ∈ bs, b.WF) → ∀ (rest : List Char),
    (∀ r', rest ≠ '.' :: r') → ∀ (f : Nat), (bodyTailL bs ++ '.' :: rest).length < f →
    bodyRest f (bodyTailL bs ++ '.' :: rest) = (bs, '.' :: rest) := by
  intro bs
  induction bs with
  | nil =>
    intro _ rest _ f hf
    obtain ⟨f0, rfl⟩ : ∃ f0, f = f0 + 1 := ⟨f - 1, by omega⟩
    simp [bodyTailL, bodyRest, skip_cons_solid rest (show Solid '.' from ⟨by decide, by decide⟩)]
  | cons b bs ih =>
    intro hwf rest hrest f hf
    obtain ⟨f0, rfl⟩ : ∃ f0, f = f0 + 1 := ⟨f - 1, by omega⟩
    have hb := hwf b List.mem_cons_self
    have hfollow := bodyTail_follow bs rest hrest
    have hsk : skip (' ' :: (b.printL ++ (bodyTailL bs ++ '.' :: rest))) = b.printL ++ (bodyTailL bs ++ '.' :: rest) := by
      rw [skip_space]; exact skip_of_startsSolid ((BodyAtom.printL_startsSolid b hb).append _)
    have hat := atomicFormulaL_printL b hb _ hfollow
    simp only [bodyTailL, List.cons_append, List.append_assoc, List.length_cons, List.length_append] at hf ⊢
    simp only [bodyRest, skip_cons_solid _ (show Solid ',' from ⟨by decide, by decide⟩), Bool.or_true, decide_true,
      Bool.true_or, if_true, hsk, hat]
    rw [ih (fun u hu => hwf u (List.mem_cons_of_mem _ hu)) rest hrest f0
      (by simp only [List.length_append, List.length_cons]; omega)]

theorem bodyL_printL (bs : List BodyAtom) (hwf : ∀ b ∈ bs, b.WF) (hne : bs ≠ []) (rest : List Char)
    (hrest : ∀ r', rest ≠ '.' :: r') :
    bodyL (bodyPrintL bs ++ '.' :: rest) = (bs, '.' :: rest) := by
  cases bs with
  | nil => exact absurd rfl hne
  | cons b bs =>
    have hb := hwf b List.mem_cons_self
    have hat := atomicFormulaL_printL b hb _ (bodyTail_follow bs rest hrest)
    simp only [bodyPrintL, List.append_assoc, bodyL, hat]
    rw [bodyRest_printL bs (fun u hu => hwf u (List.mem_cons_of_mem _ hu)) rest hrest _ (by omega)]

end Anthem.Asp
