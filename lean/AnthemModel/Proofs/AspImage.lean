/-
  Every tree the parser model builds has names of the grammar's lexical shape: symbolic constants
  and predicate symbols are `_?[a-z][A-Za-z0-9_]*`, variables are `[A-Z][A-Za-z0-9]*`. With it, the
  only hypothesis left in the round trip of an accepted text is that no name is `not`.
-/
import AnthemModel.Proofs.AspProgramRT
namespace Anthem.Asp

def Term.Shaped : Term → Prop
  | .pre (.sym s) => SymName s.toList
  | .pre _ => True
  | .var x => VarName x.toList
  | .neg a => a.Shaped
  | .bin _ l r => l.Shaped ∧ r.Shaped

def Atom.Shaped (a : Atom) : Prop := SymName a.pred.toList ∧ ∀ t ∈ a.args, t.Shaped

def BodyAtom.Shaped : BodyAtom → Prop
  | .lit l => l.atom.Shaped
  | .cmp _ l r => l.Shaped ∧ r.Shaped

def Head.Shaped : Head → Prop
  | .basic a | .choice a => a.Shaped
  | .falsity => True

def Rule.Shaped (r : Rule) : Prop := r.head.Shaped ∧ ∀ b ∈ r.body, b.Shaped
def Program.Shaped (p : Program) : Prop := ∀ r ∈ p, r.Shaped

/-- no symbolic constant or predicate symbol is `not` -/
def Term.NoNot : Term → Prop
  | .pre (.sym s) => s.toList ≠ ['n', 'o', 't']
  | .pre _ => True
  | .var _ => True
  | .neg a => a.NoNot
  | .bin _ l r => l.NoNot ∧ r.NoNot

def Atom.NoNot (a : Atom) : Prop := a.pred.toList ≠ ['n', 'o', 't'] ∧ ∀ t ∈ a.args, t.NoNot

def BodyAtom.NoNot : BodyAtom → Prop
  | .lit l => l.atom.NoNot
  | .cmp _ l r => l.NoNot ∧ r.NoNot

def Head.NoNot : Head → Prop
  | .basic a | .choice a => a.NoNot
  | .falsity => True

def Rule.NoNot (r : Rule) : Prop := r.head.NoNot ∧ ∀ b ∈ r.body, b.NoNot
def Program.NoNot (p : Program) : Prop := ∀ r ∈ p, r.NoNot

theorem Term.wf_of (t : Term) : t.Shaped → t.NoNot → t.WF := by
  induction t with
  | pre p => cases p <;> simp [Term.Shaped, Term.NoNot, Term.WF] <;> exact fun a b => ⟨a, b⟩
  | var x => exact fun h _ => h
  | neg a ih => exact ih
  | bin op l r ihl ihr => exact fun h1 h2 => ⟨ihl h1.1 h2.1, ihr h1.2 h2.2⟩

theorem Atom.wf_of (a : Atom) (h1 : a.Shaped) (h2 : a.NoNot) : a.WF :=
  ⟨h1.1, h2.1, fun t ht => (t.wf_of (h1.2 t ht) (h2.2 t ht))⟩

theorem Program.wf_of (p : Program) (h1 : p.Shaped) (h2 : p.NoNot) : p.WF := by
  intro r hr
  obtain ⟨s1, s2⟩ := h1 r hr
  obtain ⟨n1, n2⟩ := h2 r hr
  refine ⟨?_, fun b hb => ?_⟩
  · cases hh : r.head with
    | basic a => rw [hh] at s1 n1; exact Atom.wf_of a s1 n1
    | choice a => rw [hh] at s1 n1; exact Atom.wf_of a s1 n1
    | falsity => trivial
  · have sb := s2 b hb
    have nb := n2 b hb
    cases b with
    | lit l => exact Atom.wf_of l.atom sb nb
    | cmp rel l r' => exact ⟨l.wf_of sb.1 nb.1, r'.wf_of sb.2 nb.2⟩

/-! ## lexers -/

theorem takeWhile_all (p : Char → Bool) (l : List Char) : ∀ x ∈ l.takeWhile p, p x = true := by
  induction l with
  | nil => intro x hx; simp at hx
  | cons a l ih =>
    intro x hx
    simp only [List.takeWhile] at hx
    split at hx
    · rename_i ha
      rcases List.mem_cons.mp hx with rfl | hx
      · exact ha
      · exact ih x hx
    · simp at hx

theorem lexSymbol_shape {cs l r : List Char} (h : lexSymbol cs = some (l, r)) : SymName l := by
  unfold lexSymbol at h
  split at h
  · cases h
  · split at h
    · rename_i c r' _
      split at h
      · rename_i hc
        injection h with h; injection h with h1 _
        subst h1
        exact Or.inr ⟨c, _, rfl, hc, takeWhile_all _ _⟩
      · cases h
    · rename_i c r' _ _
      split at h
      · rename_i hc
        injection h with h; injection h with h1 _
        subst h1
        exact Or.inl ⟨c, _, rfl, hc, takeWhile_all _ _⟩
      · cases h
    · cases h

theorem lexVariable_shape {cs l r : List Char} (h : lexVariable cs = some (l, r)) : VarName l := by
  unfold lexVariable at h
  split at h
  · rename_i c r'
    split at h
    · rename_i hc
      injection h with h; injection h with h1 _
      subst h1
      exact ⟨c, _, rfl, hc, takeWhile_all _ _⟩
    · cases h
  · cases h

theorem lexPre_shape {cs : List Char} {p : Pre} {r : List Char} (h : lexPre cs = some (p, r)) :
    (Term.pre p).Shaped := by
  unfold lexPre at h
  split at h
  · injection h with h; injection h with h1 _; subst h1; trivial
  · split at h
    · injection h with h; injection h with h1 _; subst h1; trivial
    · split at h
      · injection h with h; injection h with h1 _; subst h1; trivial
      · split at h
        · rename_i s r' hs
          injection h with h; injection h with h1 _; subst h1
          simp only [Term.Shaped, String.toList_ofList]
          exact lexSymbol_shape hs
        · split at h
          · injection h with h; injection h with h1 _; subst h1; trivial
          · split at h
            · injection h with h; injection h with h1 _; subst h1; trivial
            · cases h

/-! ## the Pratt parser keeps shapes -/

def TokShaped (ts : List Tok) : Prop := ∀ t, Tok.prim t ∈ ts → t.Shaped

theorem TokShaped.tail {a : Tok} {ts : List Tok} (h : TokShaped (a :: ts)) : TokShaped ts :=
  fun t ht => h t (List.mem_cons_of_mem _ ht)

theorem TokShaped.append {a b : List Tok} (ha : TokShaped a) (hb : TokShaped b) : TokShaped (a ++ b) := by
  intro t ht
  rcases List.mem_append.mp ht with h | h
  · exact ha t h
  · exact hb t h

theorem pratt_shape : ∀ (f : Nat),
    (∀ rbp toks t r, TokShaped toks → prattExpr f rbp toks = some (t, r) → t.Shaped ∧ TokShaped r) ∧
    (∀ rbp lhs toks t r, lhs.Shaped → TokShaped toks → prattLoop f rbp lhs toks = some (t, r) →
      t.Shaped ∧ TokShaped r) := by
  intro f
  induction f with
  | zero => exact ⟨fun _ _ _ _ _ h => by simp [prattExpr] at h, fun _ _ _ _ _ _ _ h => by simp [prattLoop] at h⟩
  | succ f ih =>
    obtain ⟨ihE, ihL⟩ := ih
    refine ⟨?_, ?_⟩
    · intro rbp toks t r hts h
      simp only [prattExpr] at h
      split at h
      · rename_i r0
        split at h
        · rename_i a r' ha
          obtain ⟨sa, sr⟩ := ihE 49 r0 a r' hts.tail ha
          exact ihL rbp (.neg a) r' t r sa sr h
        · cases h
      · rename_i t0 r0
        exact ihL rbp t0 r0 t r (hts t0 List.mem_cons_self) hts.tail h
      · cases h
    · intro rbp lhs toks t r hl hts h
      simp only [prattLoop] at h
      split at h
      · injection h with h; injection h with h1 h2; subst h1; subst h2
        exact ⟨hl, fun _ hx => by cases hx⟩
      · rename_i o r0
        split at h
        · split at h
          · rename_i rhs r' hr
            obtain ⟨sr, st⟩ := ihE o.bp r0 rhs r' hts.tail hr
            exact ihL rbp (.bin o lhs rhs) r' t r ⟨hl, sr⟩ st h
          · cases h
        · injection h with h; injection h with h1 h2; subst h1; subst h2
          exact ⟨hl, hts⟩
      · rename_i r0
        split at h
        · cases h
        · injection h with h; injection h with h1 h2; subst h1; subst h2
          exact ⟨hl, hts⟩
      · cases h

theorem pratt_shaped {toks : List Tok} {t : Term} (hts : TokShaped toks) (h : pratt toks = some t) : t.Shaped := by
  unfold pratt at h
  split at h
  · rename_i t' heq
    injection h with h; subst h
    exact ((pratt_shape _).1 0 toks _ [] hts heq).1
  · cases h

/-! ## terms -/

theorem lexNegs_shaped : ∀ (n : Nat) (first : Bool) (cs : List Char), TokShaped (lexNegs n first cs).1 := by
  intro n
  induction n with
  | zero => intro _ _ t ht; simp [lexNegs] at ht
  | succ n ih =>
    intro first cs t ht
    simp only [lexNegs] at ht
    split at ht
    · rename_i r _
      simp only [List.mem_cons, reduceCtorEq, false_or] at ht
      exact ih false r t ht
    · simp at ht

theorem term_shape : ∀ (f : Nat),
    (∀ cs ts r, operand f cs = some (ts, r) → TokShaped ts) ∧
    (∀ cs, TokShaped (tailT f cs).1) ∧
    (∀ cs t r, termL f cs = some (t, r) → t.Shaped) := by
  intro f
  induction f with
  | zero =>
    exact ⟨fun _ _ _ h => by simp [operand] at h, fun _ t ht => by simp [tailT] at ht,
      fun _ _ _ h => by simp [termL] at h⟩
  | succ f ih =>
    obtain ⟨ihO, ihT, ihL⟩ := ih
    have single : ∀ (negs : List Tok) (t : Term), TokShaped negs → t.Shaped → TokShaped (negs ++ [Tok.prim t]) := by
      intro negs t hn ht
      refine hn.append ?_
      intro u hu
      simp only [List.mem_singleton, Tok.prim.injEq] at hu
      subst hu; exact ht
    refine ⟨?_, ?_, ?_⟩
    · intro cs ts r h
      simp only [operand] at h
      have hn := lexNegs_shaped (cs.length + 1) true cs
      split at h
      · rename_i p r' hp
        injection h with h; injection h with h1 _; subst h1
        exact single _ _ hn (lexPre_shape hp)
      · split at h
        · rename_i x r' hx
          injection h with h; injection h with h1 _; subst h1
          refine single _ _ hn ?_
          simp only [Term.Shaped, String.toList_ofList]
          exact lexVariable_shape hx
        · split at h
          · rename_i r1 _
            split at h
            · rename_i t r2 ht
              split at h
              · injection h with h; injection h with h1 _; subst h1
                exact single _ _ hn (ihL _ _ _ ht)
              · cases h
            · cases h
          · cases h
    · intro cs
      simp only [tailT]
      split
      · rename_i o r _
        split
        · rename_i ts r' hop
          intro t ht
          simp only [List.cons_append, List.mem_cons, reduceCtorEq, false_or] at ht
          exact ((ihO _ _ _ hop).append (ihT r')) t ht
        · intro t ht; simp at ht
      · intro t ht; simp at ht
    · intro cs t r h
      simp only [termL] at h
      split at h
      · rename_i ts r' hop
        split at h
        · rename_i t' hp
          injection h with h; injection h with h1 _; subst h1
          exact pratt_shaped ((ihO _ _ _ hop).append (ihT r')) hp
        · cases h
      · cases h

theorem termL_shape {f : Nat} {cs : List Char} {t : Term} {r : List Char} (h : termL f cs = some (t, r)) :
    t.Shaped := (term_shape f).2.2 cs t r h

/-! ## atoms, bodies, rules, programs -/

theorem termArgs_shape : ∀ (f : Nat) (cs : List Char), ∀ t ∈ (termArgs f cs).1, t.Shaped := by
  intro f
  induction f with
  | zero => intro cs t ht; simp [termArgs] at ht
  | succ f ih =>
    intro cs t ht
    simp only [termArgs] at ht
    split at ht
    · rename_i r _
      split at ht
      · rename_i t' r' hterm
        simp only [List.mem_cons] at ht
        rcases ht with rfl | ht
        · exact termL_shape hterm
        · exact ih r' t ht
      · simp at ht
    · simp at ht

theorem atomL_shape {cs : List Char} {a : Atom} {r : List Char} (h : atomL cs = some (a, r)) : a.Shaped := by
  unfold atomL at h
  split at h
  · cases h
  · rename_i s r0 hs
    have hsym : SymName (String.ofList s).toList := by
      rw [String.toList_ofList]; exact lexSymbol_shape hs
    have hno : (⟨String.ofList s, []⟩ : Atom).Shaped := ⟨hsym, fun t ht => by cases ht⟩
    simp only at h
    split at h
    · rename_i r1 _
      split at h
      · rename_i t r2 hterm
        split at h
        · injection h with h; injection h with h1 _; subst h1
          refine ⟨hsym, fun u hu => ?_⟩
          simp only [List.mem_cons] at hu
          rcases hu with rfl | hu
          · exact termL_shape hterm
          · exact termArgs_shape _ _ u hu
        · injection h with h; injection h with h1 _; subst h1; exact hno
      · split at h
        · injection h with h; injection h with h1 _; subst h1; exact hno
        · injection h with h; injection h with h1 _; subst h1; exact hno
    · injection h with h; injection h with h1 _; subst h1; exact hno

theorem atomicFormulaL_shape {cs : List Char} {b : BodyAtom} {r : List Char}
    (h : atomicFormulaL cs = some (b, r)) : b.Shaped := by
  unfold atomicFormulaL at h
  split at h
  · rename_i x hc
    injection h with h; subst h
    unfold comparisonL at hc
    split at hc
    · rename_i l r1 hl
      split at hc
      · rename_i rel r2 _
        split at hc
        · rename_i rhs r3 hr
          injection hc with hc; injection hc with h1 _; subst h1
          exact ⟨termL_shape hl, termL_shape hr⟩
        · cases hc
      · cases hc
    · cases hc
  · split at h
    · rename_i l r' hl
      injection h with h; injection h with h1 _; subst h1
      unfold literalL at hl
      simp only at hl
      split at hl
      · rename_i a r'' ha
        injection hl with hl; injection hl with h1 _; subst h1
        exact atomL_shape ha
      · cases hl
    · cases h

theorem bodyRest_shape : ∀ (f : Nat) (cs : List Char), ∀ b ∈ (bodyRest f cs).1, b.Shaped := by
  intro f
  induction f with
  | zero => intro cs b hb; simp [bodyRest] at hb
  | succ f ih =>
    intro cs b hb
    simp only [bodyRest] at hb
    split at hb
    · rename_i c r _
      split at hb
      · split at hb
        · rename_i a r' ha
          simp only [List.mem_cons] at hb
          rcases hb with rfl | hb
          · exact atomicFormulaL_shape ha
          · exact ih r' b hb
        · simp at hb
      · simp at hb
    · simp at hb

theorem bodyL_shape (cs : List Char) : ∀ b ∈ (bodyL cs).1, b.Shaped := by
  intro b hb
  unfold bodyL at hb
  split at hb
  · rename_i a r ha
    simp only [List.mem_cons] at hb
    rcases hb with rfl | hb
    · exact atomicFormulaL_shape ha
    · exact bodyRest_shape _ _ b hb
  · simp at hb

theorem headL_shape (cs : List Char) : (headL cs).1.Shaped := by
  unfold headL
  split
  · rename_i a r ha; exact atomL_shape ha
  · simp only
    split
    · rename_i x hx
      split at hx
      · rename_i r
        split at hx
        · rename_i a r1 ha
          split at hx
          · injection hx with hx; subst hx; exact atomL_shape ha
          · cases hx
        · cases hx
      · cases hx
    · split <;> trivial

theorem neckBodyL_shape (r : List Char) : ∀ b ∈ (neckBodyL r).1, b.Shaped := by
  unfold neckBodyL
  split
  · exact bodyL_shape _
  · intro b hb; simp at hb

theorem ruleL_shape {cs : List Char} {r : Rule} {rest : List Char} (h : ruleL cs = some (r, rest)) : r.Shaped := by
  unfold ruleL at h
  split at h
  · cases h
  · unfold ruleBodyL at h
    split at h
    · injection h with h; injection h with h1 _; subst h1
      exact ⟨headL_shape _, neckBodyL_shape _⟩
    · cases h

theorem rulesL_shape : ∀ (f : Nat) (cs : List Char), ∀ r ∈ (rulesL f cs).1, r.Shaped := by
  intro f
  induction f with
  | zero => intro cs r hr; simp [rulesL] at hr
  | succ f ih =>
    intro cs r hr
    simp only [rulesL] at hr
    split at hr
    · rename_i r0 rest h0
      simp only [List.mem_cons] at hr
      rcases hr with rfl | hr
      · exact ruleL_shape h0
      · exact ih _ r hr
    · simp at hr

/-- **Every accepted text yields a tree whose names have the grammar's lexical shape.** -/
theorem parseProgram_shaped {text : String} {p : Program} (h : parseProgram text = some p) : p.Shaped := by
  unfold parseProgram parseProgramL at h
  simp only at h
  split at h
  · injection h with h; subst h
    exact rulesL_shape _ _
  · cases h

end Anthem.Asp
