/-
  The image of the mini-gringo parser is well-formed: since fix a1dc9d0 (`not` is no name) every tree
  the parser builds has names of the grammar's lexical shape *other than `not`*, so the round trip
  of an accepted text needs no hypothesis at all.
-/
import AnthemModel.Proofs.AspImage
namespace Anthem.Asp

/-! ## lexers -/

theorem takeWhile_allW (p : Char → Bool) (l : List Char) : ∀ x ∈ l.takeWhile p, p x = true := by
  induction l with
  | nil => intro x hx; simp at hx
  | cons a l ih =>
    intro x hx
    simp only [List.takeWhile] at hx
    split at hx
    · rename_i ha
      rcases List.mem_cons.mp hx with rfl | hx
      · exact ha
      · exact ih x hx
    · simp at hx

theorem lexSymbol_shapeW {cs l r : List Char} (h : lexSymbol cs = some (l, r)) : SymName l := by
  unfold lexSymbol at h
  split at h
  · cases h
  · split at h
    · rename_i c r' _
      split at h
      · rename_i hc
        injection h with h; injection h with h1 _
        subst h1
        exact Or.inr ⟨c, _, rfl, hc, takeWhile_allW _ _⟩
      · cases h
    · rename_i c r' _ _
      split at h
      · rename_i hc
        injection h with h; injection h with h1 _
        subst h1
        exact Or.inl ⟨c, _, rfl, hc, takeWhile_allW _ _⟩
      · cases h
    · cases h

theorem dropWhile_head' (p : Char → Bool) (l : List Char) : ∀ c r, l.dropWhile p = c :: r → p c = false := by
  induction l with
  | nil => intro c r h; simp at h
  | cons a l ih =>
    intro c r h
    simp only [List.dropWhile] at h
    split at h
    · exact ih c r h
    · rename_i ha
      injection h with h1 _; subst h1; simpa using ha

/-- the symbol lexer never returns the name `not` (fix a1dc9d0) -/
theorem lexSymbol_not_not {cs l r : List Char} (h : lexSymbol cs = some (l, r)) : l ≠ ['n', 'o', 't'] := by
  intro e
  unfold lexSymbol at h
  split at h
  · cases h
  · rename_i hnw
    have key : ∀ (c : Char) (r' : List Char), cs = c :: r' → c.isLower = true →
        l = c :: r'.takeWhile isIdChar → False := by
      intro c r' hcs hc hl
      rw [e] at hl
      injection hl with h1 h2
      subst h1
      -- r' = 'o' :: 't' :: rest with rest not starting with an identifier character
      have hsplit := List.takeWhile_append_dropWhile (p := isIdChar) (l := r')
      rw [← h2] at hsplit
      apply hnw
      rw [hcs, ← hsplit]
      simp only [List.cons_append, List.nil_append, startsNotWord]
      cases hd : r'.dropWhile isIdChar with
      | nil => rfl
      | cons d ds => simp [dropWhile_head' isIdChar r' d ds hd]
    split at h
    · rename_i c r' _
      split at h
      · injection h with h; injection h with h1 _
        rw [e] at h1; injection h1 with h1 _; exact absurd h1 (by decide)
      · cases h
    · rename_i _ c r' _
      split at h
      · rename_i hc
        injection h with h; injection h with h1 _
        exact key c r' rfl hc h1.symm
      · cases h
    · cases h

theorem lexVariable_shapeW {cs l r : List Char} (h : lexVariable cs = some (l, r)) : VarName l := by
  unfold lexVariable at h
  split at h
  · rename_i c r'
    split at h
    · rename_i hc
      injection h with h; injection h with h1 _
      subst h1
      exact ⟨c, _, rfl, hc, takeWhile_allW _ _⟩
    · cases h
  · cases h

theorem lexPre_shapeW {cs : List Char} {p : Pre} {r : List Char} (h : lexPre cs = some (p, r)) :
    (Term.pre p).WF := by
  unfold lexPre at h
  split at h
  · injection h with h; injection h with h1 _; subst h1; trivial
  · split at h
    · injection h with h; injection h with h1 _; subst h1; trivial
    · split at h
      · injection h with h; injection h with h1 _; subst h1; trivial
      · split at h
        · rename_i s r' hs
          injection h with h; injection h with h1 _; subst h1
          simp only [Term.WF, String.toList_ofList]
          exact ⟨lexSymbol_shapeW hs, lexSymbol_not_not hs⟩
        · split at h
          · injection h with h; injection h with h1 _; subst h1; trivial
          · split at h
            · injection h with h; injection h with h1 _; subst h1; trivial
            · cases h

/-! ## the Pratt parser keeps shapes -/

def TokWFsW (ts : List Tok) : Prop := ∀ t, Tok.prim t ∈ ts → t.WF

theorem TokWFsW.tail {a : Tok} {ts : List Tok} (h : TokWFsW (a :: ts)) : TokWFsW ts :=
  fun t ht => h t (List.mem_cons_of_mem _ ht)

theorem TokWFsW.append {a b : List Tok} (ha : TokWFsW a) (hb : TokWFsW b) : TokWFsW (a ++ b) := by
  intro t ht
  rcases List.mem_append.mp ht with h | h
  · exact ha t h
  · exact hb t h

theorem pratt_shapeW : ∀ (f : Nat),
    (∀ rbp toks t r, TokWFsW toks → prattExpr f rbp toks = some (t, r) → t.WF ∧ TokWFsW r) ∧
    (∀ rbp lhs toks t r, lhs.WF → TokWFsW toks → prattLoop f rbp lhs toks = some (t, r) →
      t.WF ∧ TokWFsW r) := by
  intro f
  induction f with
  | zero => exact ⟨fun _ _ _ _ _ h => by simp [prattExpr] at h, fun _ _ _ _ _ _ _ h => by simp [prattLoop] at h⟩
  | succ f ih =>
    obtain ⟨ihE, ihL⟩ := ih
    refine ⟨?_, ?_⟩
    · intro rbp toks t r hts h
      simp only [prattExpr] at h
      split at h
      · rename_i r0
        split at h
        · rename_i a r' ha
          obtain ⟨sa, sr⟩ := ihE 49 r0 a r' hts.tail ha
          exact ihL rbp (.neg a) r' t r sa sr h
        · cases h
      · rename_i t0 r0
        exact ihL rbp t0 r0 t r (hts t0 List.mem_cons_self) hts.tail h
      · cases h
    · intro rbp lhs toks t r hl hts h
      simp only [prattLoop] at h
      split at h
      · injection h with h; injection h with h1 h2; subst h1; subst h2
        exact ⟨hl, fun _ hx => by cases hx⟩
      · rename_i o r0
        split at h
        · split at h
          · rename_i rhs r' hr
            obtain ⟨sr, st⟩ := ihE o.bp r0 rhs r' hts.tail hr
            exact ihL rbp (.bin o lhs rhs) r' t r ⟨hl, sr⟩ st h
          · cases h
        · injection h with h; injection h with h1 h2; subst h1; subst h2
          exact ⟨hl, hts⟩
      · rename_i r0
        split at h
        · cases h
        · injection h with h; injection h with h1 h2; subst h1; subst h2
          exact ⟨hl, hts⟩
      · cases h

theorem pratt_shapedW {toks : List Tok} {t : Term} (hts : TokWFsW toks) (h : pratt toks = some t) : t.WF := by
  unfold pratt at h
  split at h
  · rename_i t' heq
    injection h with h; subst h
    exact ((pratt_shapeW _).1 0 toks _ [] hts heq).1
  · cases h

/-! ## terms -/

theorem lexNegs_shapedW : ∀ (n : Nat) (first : Bool) (cs : List Char), TokWFsW (lexNegs n first cs).1 := by
  intro n
  induction n with
  | zero => intro _ _ t ht; simp [lexNegs] at ht
  | succ n ih =>
    intro first cs t ht
    simp only [lexNegs] at ht
    split at ht
    · rename_i r _
      simp only [List.mem_cons, reduceCtorEq, false_or] at ht
      exact ih false r t ht
    · simp at ht

theorem term_shapeW : ∀ (f : Nat),
    (∀ cs ts r, operand f cs = some (ts, r) → TokWFsW ts) ∧
    (∀ cs, TokWFsW (tailT f cs).1) ∧
    (∀ cs t r, termL f cs = some (t, r) → t.WF) := by
  intro f
  induction f with
  | zero =>
    exact ⟨fun _ _ _ h => by simp [operand] at h, fun _ t ht => by simp [tailT] at ht,
      fun _ _ _ h => by simp [termL] at h⟩
  | succ f ih =>
    obtain ⟨ihO, ihT, ihL⟩ := ih
    have single : ∀ (negs : List Tok) (t : Term), TokWFsW negs → t.WF → TokWFsW (negs ++ [Tok.prim t]) := by
      intro negs t hn ht
      refine hn.append ?_
      intro u hu
      simp only [List.mem_singleton, Tok.prim.injEq] at hu
      subst hu; exact ht
    refine ⟨?_, ?_, ?_⟩
    · intro cs ts r h
      simp only [operand] at h
      have hn := lexNegs_shapedW (cs.length + 1) true cs
      split at h
      · rename_i p r' hp
        injection h with h; injection h with h1 _; subst h1
        exact single _ _ hn (lexPre_shapeW hp)
      · split at h
        · rename_i x r' hx
          injection h with h; injection h with h1 _; subst h1
          refine single _ _ hn ?_
          simp only [Term.WF, String.toList_ofList]
          exact lexVariable_shapeW hx
        · split at h
          · rename_i r1 _
            split at h
            · rename_i t r2 ht
              split at h
              · injection h with h; injection h with h1 _; subst h1
                exact single _ _ hn (ihL _ _ _ ht)
              · cases h
            · cases h
          · cases h
    · intro cs
      simp only [tailT]
      split
      · rename_i o r _
        split
        · rename_i ts r' hop
          intro t ht
          simp only [List.cons_append, List.mem_cons, reduceCtorEq, false_or] at ht
          exact ((ihO _ _ _ hop).append (ihT r')) t ht
        · intro t ht; simp at ht
      · intro t ht; simp at ht
    · intro cs t r h
      simp only [termL] at h
      split at h
      · rename_i ts r' hop
        split at h
        · rename_i t' hp
          injection h with h; injection h with h1 _; subst h1
          exact pratt_shapedW ((ihO _ _ _ hop).append (ihT r')) hp
        · cases h
      · cases h

theorem termL_shapeW {f : Nat} {cs : List Char} {t : Term} {r : List Char} (h : termL f cs = some (t, r)) :
    t.WF := (term_shapeW f).2.2 cs t r h

/-! ## atoms, bodies, rules, programs -/

theorem termArgs_shapeW : ∀ (f : Nat) (cs : List Char), ∀ t ∈ (termArgs f cs).1, t.WF := by
  intro f
  induction f with
  | zero => intro cs t ht; simp [termArgs] at ht
  | succ f ih =>
    intro cs t ht
    simp only [termArgs] at ht
    split at ht
    · rename_i r _
      split at ht
      · rename_i t' r' hterm
        simp only [List.mem_cons] at ht
        rcases ht with rfl | ht
        · exact termL_shapeW hterm
        · exact ih r' t ht
      · simp at ht
    · simp at ht

theorem atomL_shapeW {cs : List Char} {a : Atom} {r : List Char} (h : atomL cs = some (a, r)) : a.WF := by
  unfold atomL at h
  split at h
  · cases h
  · rename_i s r0 hs
    have hsym : SymName (String.ofList s).toList := by
      rw [String.toList_ofList]; exact lexSymbol_shapeW hs
    have hnn : (String.ofList s).toList ≠ ['n', 'o', 't'] := by
      rw [String.toList_ofList]; exact lexSymbol_not_not hs
    have hno : (⟨String.ofList s, []⟩ : Atom).WF := ⟨hsym, hnn, fun t ht => by cases ht⟩
    simp only at h
    split at h
    · rename_i r1 _
      split at h
      · rename_i t r2 hterm
        split at h
        · injection h with h; injection h with h1 _; subst h1
          refine ⟨hsym, hnn, fun u hu => ?_⟩
          simp only [List.mem_cons] at hu
          rcases hu with rfl | hu
          · exact termL_shapeW hterm
          · exact termArgs_shapeW _ _ u hu
        · injection h with h; injection h with h1 _; subst h1; exact hno
      · split at h
        · injection h with h; injection h with h1 _; subst h1; exact hno
        · injection h with h; injection h with h1 _; subst h1; exact hno
    · injection h with h; injection h with h1 _; subst h1; exact hno

theorem atomicFormulaL_shapeW {cs : List Char} {b : BodyAtom} {r : List Char}
    (h : atomicFormulaL cs = some (b, r)) : b.WF := by
  unfold atomicFormulaL at h
  split at h
  · rename_i x hc
    injection h with h; subst h
    unfold comparisonL at hc
    split at hc
    · rename_i l r1 hl
      split at hc
      · rename_i rel r2 _
        split at hc
        · rename_i rhs r3 hr
          injection hc with hc; injection hc with h1 _; subst h1
          exact ⟨termL_shapeW hl, termL_shapeW hr⟩
        · cases hc
      · cases hc
    · cases hc
  · split at h
    · rename_i l r' hl
      injection h with h; injection h with h1 _; subst h1
      unfold literalL at hl
      simp only at hl
      split at hl
      · rename_i a r'' ha
        injection hl with hl; injection hl with h1 _; subst h1
        exact atomL_shapeW ha
      · cases hl
    · cases h

theorem bodyRest_shapeW : ∀ (f : Nat) (cs : List Char), ∀ b ∈ (bodyRest f cs).1, b.WF := by
  intro f
  induction f with
  | zero => intro cs b hb; simp [bodyRest] at hb
  | succ f ih =>
    intro cs b hb
    simp only [bodyRest] at hb
    split at hb
    · rename_i c r _
      split at hb
      · split at hb
        · rename_i a r' ha
          simp only [List.mem_cons] at hb
          rcases hb with rfl | hb
          · exact atomicFormulaL_shapeW ha
          · exact ih r' b hb
        · simp at hb
      · simp at hb
    · simp at hb

theorem bodyL_shapeW (cs : List Char) : ∀ b ∈ (bodyL cs).1, b.WF := by
  intro b hb
  unfold bodyL at hb
  split at hb
  · rename_i a r ha
    simp only [List.mem_cons] at hb
    rcases hb with rfl | hb
    · exact atomicFormulaL_shapeW ha
    · exact bodyRest_shapeW _ _ b hb
  · simp at hb

theorem headL_shapeW (cs : List Char) : (headL cs).1.WF := by
  unfold headL
  split
  · rename_i a r ha; exact atomL_shapeW ha
  · simp only
    split
    · rename_i x hx
      split at hx
      · rename_i r
        split at hx
        · rename_i a r1 ha
          split at hx
          · injection hx with hx; subst hx; exact atomL_shapeW ha
          · cases hx
        · cases hx
      · cases hx
    · split <;> trivial

theorem neckBodyL_shapeW (r : List Char) : ∀ b ∈ (neckBodyL r).1, b.WF := by
  unfold neckBodyL
  split
  · exact bodyL_shapeW _
  · intro b hb; simp at hb

theorem ruleL_shapeW {cs : List Char} {r : Rule} {rest : List Char} (h : ruleL cs = some (r, rest)) : r.WF := by
  unfold ruleL at h
  split at h
  · cases h
  · unfold ruleBodyL at h
    split at h
    · injection h with h; injection h with h1 _; subst h1
      exact ⟨headL_shapeW _, neckBodyL_shapeW _⟩
    · cases h

theorem rulesL_shapeW : ∀ (f : Nat) (cs : List Char), ∀ r ∈ (rulesL f cs).1, r.WF := by
  intro f
  induction f with
  | zero => intro cs r hr; simp [rulesL] at hr
  | succ f ih =>
    intro cs r hr
    simp only [rulesL] at hr
    split at hr
    · rename_i r0 rest h0
      simp only [List.mem_cons] at hr
      rcases hr with rfl | hr
      · exact ruleL_shapeW h0
      · exact ih _ r hr
    · simp at hr

/-- **Every accepted text yields a tree whose names have the grammar's lexical shape.** -/
theorem parseProgram_shapedW {text : String} {p : Program} (h : parseProgram text = some p) : p.WF := by
  unfold parseProgram parseProgramL at h
  simp only at h
  split at h
  · injection h with h; subst h
    exact rulesL_shapeW _ _
  · cases h


end Anthem.Asp
