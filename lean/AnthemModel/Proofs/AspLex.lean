/-
  Lexical facts for the mini-gringo round trip: the character-list printers, the shape of
  printed tokens, and what the lexers of Model/AspParse do on a printed token followed by a
  character that cannot continue it.
-/
import AnthemModel.Model.AspParse
import AnthemModel.Model.Print
import AnthemModel.Proofs.PrattInv
namespace Anthem.Asp

/-! ## white space -/

@[simp] theorem skip_nil : skip [] = [] := rfl

theorem skip_cons_ws {c : Char} (cs : List Char) (h : isWs c = true) : skip (c :: cs) = skip cs := by
  simp [skip, skipAux, h]

@[simp] theorem skip_space (cs : List Char) : skip (' ' :: cs) = skip cs := skip_cons_ws cs (by decide)
@[simp] theorem skip_newline (cs : List Char) : skip ('\n' :: cs) = skip cs := skip_cons_ws cs (by decide)

/-- a character at which skipping stops -/
def Solid (c : Char) : Prop := isWs c = false ∧ c ≠ '%'

theorem skip_cons_solid {c : Char} (cs : List Char) (h : Solid c) : skip (c :: cs) = c :: cs := by
  simp [skip, skipAux, h.1, h.2]

/-- the text starts with a character at which skipping stops -/
def StartsSolid (cs : List Char) : Prop := ∃ c r, cs = c :: r ∧ Solid c

theorem skip_of_startsSolid {cs : List Char} (h : StartsSolid cs) : skip cs = cs := by
  obtain ⟨c, r, rfl, hc⟩ := h
  exact skip_cons_solid r hc

theorem StartsSolid.append {cs : List Char} (h : StartsSolid cs) (r : List Char) : StartsSolid (cs ++ r) := by
  obtain ⟨c, r', rfl, hc⟩ := h
  exact ⟨c, r' ++ r, rfl, hc⟩

/-! ## `takeWhile`/`dropWhile` on a token followed by something else -/

/-- the next character (if any) does not satisfy `p` -/
def StopsAt (p : Char → Bool) (rest : List Char) : Prop := ∀ c r, rest = c :: r → p c = false

theorem takeWhile_append_stop {p : Char → Bool} {w rest : List Char} (hw : ∀ c ∈ w, p c = true)
    (hr : StopsAt p rest) : (w ++ rest).takeWhile p = w ∧ (w ++ rest).dropWhile p = rest := by
  induction w with
  | nil =>
    cases rest with
    | nil => simp
    | cons c r => simp [List.takeWhile, List.dropWhile, hr c r rfl]
  | cons a w ih =>
    have ha := hw a List.mem_cons_self
    obtain ⟨i1, i2⟩ := ih (fun c hc => hw c (List.mem_cons_of_mem _ hc))
    simp [List.takeWhile, List.dropWhile, ha, i1, i2]

/-- no identifier character follows -/
def NoId (rest : List Char) : Prop := StopsAt isIdChar rest

theorem NoId.alnum {rest : List Char} (h : NoId rest) : StopsAt Char.isAlphanum rest := by
  intro c r e
  have := h c r e
  simp only [isIdChar, Bool.or_eq_false_iff] at this
  exact this.1

theorem NoId.digit {rest : List Char} (h : NoId rest) : StopsAt Char.isDigit rest := by
  intro c r e
  have := h.alnum c r e
  simp only [Char.isAlphanum, Bool.or_eq_false_iff] at this
  exact this.2

theorem noId_cons {c : Char} (r : List Char) (h : isIdChar c = false) : NoId (c :: r) := by
  intro c' r' e
  injection e with e1 _
  subst e1; exact h

theorem noId_nil : NoId [] := fun _ _ e => by cases e

/-! ## names -/

/-- the characters of a symbolic constant / predicate symbol: `_? [a-z] [A-Za-z0-9_]*` -/
def SymName (l : List Char) : Prop :=
  (∃ c w, l = c :: w ∧ c.isLower = true ∧ ∀ x ∈ w, isIdChar x = true) ∨
  (∃ c w, l = '_' :: c :: w ∧ c.isLower = true ∧ ∀ x ∈ w, isIdChar x = true)

/-- the characters of a variable: `[A-Z] [A-Za-z0-9]*` -/
def VarName (l : List Char) : Prop :=
  ∃ c w, l = c :: w ∧ c.isUpper = true ∧ ∀ x ∈ w, x.isAlphanum = true

theorem lower_solid {c : Char} (h : c.isLower = true) : Solid c := by
  simp only [Char.isLower, Bool.and_eq_true, decide_eq_true_eq] at h
  constructor
  · simp only [isWs, Bool.or_eq_false_iff, decide_eq_false_iff_not]
    refine ⟨⟨?_, ?_⟩, ?_⟩ <;> (intro e; subst e; revert h; decide)
  · intro e; subst e; revert h; decide

theorem upper_solid {c : Char} (h : c.isUpper = true) : Solid c := by
  simp only [Char.isUpper, Bool.and_eq_true, decide_eq_true_eq] at h
  constructor
  · simp only [isWs, Bool.or_eq_false_iff, decide_eq_false_iff_not]
    refine ⟨⟨?_, ?_⟩, ?_⟩ <;> (intro e; subst e; revert h; decide)
  · intro e; subst e; revert h; decide

theorem SymName.startsSolid {l : List Char} (h : SymName l) : StartsSolid l := by
  rcases h with ⟨c, w, rfl, hc, _⟩ | ⟨c, w, rfl, _, _⟩
  · exact ⟨c, w, rfl, lower_solid hc⟩
  · exact ⟨'_', c :: w, rfl, by decide, by decide⟩

theorem VarName.startsSolid {l : List Char} (h : VarName l) : StartsSolid l := by
  obtain ⟨c, w, rfl, hc, _⟩ := h
  exact ⟨c, w, rfl, upper_solid hc⟩

theorem startsNegation_false_of_fourth {a b c d : Char} (r : List Char) (h : isWs d = false) :
    startsNegation (a :: b :: c :: d :: r) = false := by
  unfold startsNegation
  split
  · rename_i rest heq
    injection heq with _ heq; injection heq with _ heq; injection heq with _ heq
    subst heq; simpa using h
  · rfl

theorem idChar_not_ws {c : Char} (h : isIdChar c = true) : isWs c = false := by
  simp only [isWs, Bool.or_eq_false_iff, decide_eq_false_iff_not]
  refine ⟨⟨?_, ?_⟩, ?_⟩ <;> (intro e; subst e; revert h; decide)

/-- a name other than `not` is never read as the negation keyword, whatever non-identifier
    character follows -/
theorem startsNegation_name (l rest : List Char) (hl : ∀ x ∈ l, isIdChar x = true)
    (hne : l ≠ ['n', 'o', 't']) (hr : NoId rest) (hnw : ∀ c r, rest = c :: r → isWs c = false ∨ l ≠ ['n', 'o', 't']) :
    startsNegation (l ++ rest) = false ∨ (l.length < 3) := by
  match l, hl, hne with
  | [], _, _ => right; simp
  | [_], _, _ => right; simp
  | [_, _], _, _ => right; simp
  | [a, b, c], _, hne =>
    left
    unfold startsNegation
    split
    · rename_i rest' heq
      simp only [List.cons_append, List.nil_append, List.cons.injEq] at heq
      obtain ⟨rfl, rfl, rfl, _⟩ := heq
      exact absurd rfl hne
    · rfl
  | a :: b :: c :: d :: w, hl, _ =>
    left
    exact startsNegation_false_of_fourth _ (idChar_not_ws (hl d (by simp)))

theorem startsNegation_short (l rest : List Char) (hlen : l.length < 3) (hl : l ≠ [])
    (hr : NoId rest) : startsNegation (l ++ rest) = false := by
  unfold startsNegation
  split
  · rename_i rest' heq
    match l, hlen, hl with
    | [a], _, _ =>
      simp only [List.cons_append, List.nil_append, List.cons.injEq] at heq
      have h1 : isIdChar 'o' = false := hr 'o' _ heq.2
      exact absurd h1 (by decide)
    | [a, b], _, _ =>
      simp only [List.cons_append, List.nil_append, List.cons.injEq] at heq
      have h1 : isIdChar 't' = false := hr 't' _ heq.2.2
      exact absurd h1 (by decide)
  · rfl

theorem lower_idChar {c : Char} (h : c.isLower = true) : isIdChar c = true := by
  simp [isIdChar, Char.isAlphanum, Char.isAlpha, h]

theorem SymName.idChars {l : List Char} (h : SymName l) : ∀ x ∈ l, isIdChar x = true := by
  rcases h with ⟨c, w, rfl, hc, hw⟩ | ⟨c, w, rfl, hc, hw⟩
  · intro x hx
    rcases List.mem_cons.mp hx with rfl | hx
    · exact lower_idChar hc
    · exact hw x hx
  · intro x hx
    rcases List.mem_cons.mp hx with rfl | hx
    · decide
    · rcases List.mem_cons.mp hx with rfl | hx
      · exact lower_idChar hc
      · exact hw x hx

theorem startsNegation_sym (l rest : List Char) (h : SymName l) (hne : l ≠ ['n', 'o', 't']) (hr : NoId rest) :
    startsNegation (l ++ rest) = false := by
  rcases startsNegation_name l rest h.idChars hne hr (fun _ _ _ => Or.inr hne) with h1 | h1
  · exact h1
  · refine startsNegation_short l rest h1 ?_ hr
    rcases h with ⟨c, w, rfl, _, _⟩ | ⟨c, w, rfl, _, _⟩ <;> simp

/-- a name other than `not`, followed by a non-identifier character, is not the word `not` -/
theorem startsNotWord_name (l rest : List Char) (hl : ∀ x ∈ l, isIdChar x = true) (hne0 : l ≠ [])
    (hne : l ≠ ['n', 'o', 't']) (hr : NoId rest) : startsNotWord (l ++ rest) = false := by
  unfold startsNotWord
  split
  · rename_i rest' heq
    match l, hl, hne0, hne with
    | [a], _, _, _ =>
      simp only [List.cons_append, List.nil_append, List.cons.injEq] at heq
      have h1 : isIdChar 'o' = false := hr 'o' _ heq.2
      exact absurd h1 (by decide)
    | [a, b], _, _, _ =>
      simp only [List.cons_append, List.nil_append, List.cons.injEq] at heq
      have h1 : isIdChar 't' = false := hr 't' _ heq.2.2
      exact absurd h1 (by decide)
    | [a, b, c], _, _, hne =>
      simp only [List.cons_append, List.nil_append, List.cons.injEq] at heq
      obtain ⟨rfl, rfl, rfl, _⟩ := heq
      exact absurd rfl hne
    | a :: b :: c :: d :: w, hl, _, _ =>
      simp only [List.cons_append, List.cons.injEq] at heq
      obtain ⟨_, _, _, rfl⟩ := heq
      simp [hl d (by simp)]
  · rfl

theorem SymName.ne_nil' {l : List Char} (h : SymName l) : l ≠ [] := by
  rcases h with ⟨c, w, rfl, _, _⟩ | ⟨c, w, rfl, _, _⟩ <;> simp

theorem lexSymbol_append (l rest : List Char) (h : SymName l) (hne : l ≠ ['n', 'o', 't']) (hr : NoId rest) :
    lexSymbol (l ++ rest) = some (l, rest) := by
  unfold lexSymbol
  rw [startsNotWord_name l rest h.idChars (SymName.ne_nil' h) hne hr]
  simp only [Bool.false_eq_true, if_false]
  rcases h with ⟨c, w, rfl, hc, hw⟩ | ⟨c, w, rfl, hc, hw⟩
  · obtain ⟨t1, t2⟩ := takeWhile_append_stop (p := isIdChar) hw hr
    have hcu : c ≠ '_' := by intro e; subst e; revert hc; decide
    simp only [List.cons_append]
    split
    · rename_i heq; injection heq with e _; exact absurd e hcu
    · rename_i c' r' _ heq
      injection heq with e1 e2
      subst e1; subst e2
      simp [hc, t1, t2]
    · rename_i heq; cases heq
  · obtain ⟨t1, t2⟩ := takeWhile_append_stop (p := isIdChar) hw hr
    simp [hc, t1, t2]

theorem lexVariable_append (l rest : List Char) (h : VarName l) (hr : NoId rest) :
    lexVariable (l ++ rest) = some (l, rest) := by
  obtain ⟨c, w, rfl, hc, hw⟩ := h
  obtain ⟨t1, t2⟩ := takeWhile_append_stop (p := Char.isAlphanum) hw hr.alnum
  simp [lexVariable, hc, t1, t2]

/-! ## numerals -/

theorem digit_isDigit {n : Nat} (h : n < 10) : n.digitChar.isDigit = true := by
  rw [Nat.isDigit_digitChar]; simpa using h

theorem toDigits_all_digit (n : Nat) : ∀ c ∈ Nat.toDigits 10 n, c.isDigit = true :=
  fun _ hc => Nat.isDigit_of_mem_toDigits (by decide) (by decide) hc

/-- the decimal digits of a positive number start with a non-zero digit -/
theorem toDigits_head_nonzero : ∀ n : Nat, 0 < n →
    ∃ c ds, Nat.toDigits 10 n = c :: ds ∧ isNonzeroDigit c = true := by
  intro n
  induction n using Nat.strongRecOn with
  | _ n ih =>
    intro hn
    by_cases hlt : n < 10
    · refine ⟨n.digitChar, [], Nat.toDigits_of_lt_base hlt, ?_⟩
      simp only [isNonzeroDigit, Bool.and_eq_true, digit_isDigit hlt, true_and, bne_iff_ne, ne_eq,
        Nat.digitChar_eq_zero]
      omega
    · have h10 : 10 ≤ n := by omega
      have hq : 0 < n / 10 := Nat.div_pos h10 (by decide)
      obtain ⟨c, ds, hcd, hc⟩ := ih (n / 10) (Nat.div_lt_self hn (by decide)) hq
      have happ := Nat.toDigits_append_toDigits (b := 10) (n := n / 10) (d := n % 10) (by decide) hq
        (Nat.mod_lt _ (by decide))
      rw [Nat.div_add_mod] at happ
      refine ⟨c, ds ++ Nat.toDigits 10 (n % 10), ?_, hc⟩
      rw [← happ, hcd]; rfl

theorem intL_nonneg (m : Nat) : (toString (Int.ofNat m)).toList = Nat.toDigits 10 m := by
  rw [Int.toString_eq_repr, Int.repr_eq_if]
  simp [Nat.toList_repr]

theorem intL_neg (m : Nat) : (toString (Int.negSucc m)).toList = '-' :: Nat.toDigits 10 (m + 1) := by
  rw [Int.toString_eq_repr, Int.repr_eq_if]
  have : ¬ (0 : Int) ≤ Int.negSucc m := by omega
  simp only [this, if_false, String.toList_append]
  have e : (-Int.negSucc m).toNat = m + 1 := by omega
  rw [e, Nat.toList_repr]; rfl

theorem nonzeroDigit_ne_zero {c : Char} (h : isNonzeroDigit c = true) : c ≠ '0' ∧ c ≠ '-' ∧ c.isDigit = true := by
  simp only [isNonzeroDigit, Bool.and_eq_true, bne_iff_ne, ne_eq] at h
  refine ⟨h.2, ?_, h.1⟩
  intro e; subst e; revert h; decide

/-- lexing the decimal rendering of an integer, followed by a non-digit -/
theorem lexInteger_append (n : Int) (rest : List Char) (hr : StopsAt Char.isDigit rest) :
    lexInteger ((toString n).toList ++ rest) = some (n, rest) := by
  cases n with
  | ofNat m =>
    rw [intL_nonneg]
    by_cases hm : m = 0
    · subst hm
      simp [Nat.toDigits_zero, lexInteger]
    · obtain ⟨c, ds, hcd, hc⟩ := toDigits_head_nonzero m (by omega)
      obtain ⟨h0, hminus, hd⟩ := nonzeroDigit_ne_zero hc
      have hds : ∀ x ∈ ds, x.isDigit = true := fun x hx =>
        toDigits_all_digit m x (by rw [hcd]; exact List.mem_cons_of_mem _ hx)
      obtain ⟨t1, t2⟩ := takeWhile_append_stop (p := Char.isDigit) hds hr
      have hval : Nat.ofDigitChars 10 (c :: ds) 0 = m := by rw [← hcd]; exact Nat.ofDigitChars_ten_toDigits
      rw [hcd]
      simp only [List.cons_append]
      unfold lexInteger
      split
      · rename_i heq; injection heq with e _; exact absurd e h0
      · rename_i heq; injection heq with e _; exact absurd e hminus
      · rename_i c' r' _ _ heq
        injection heq with e1 e2
        subst e1; subst e2
        simp only [hc, if_true, t1, t2, hval]
        rfl
      · rename_i heq; cases heq
  | negSucc m =>
    rw [intL_neg]
    obtain ⟨c, ds, hcd, hc⟩ := toDigits_head_nonzero (m + 1) (by omega)
    have hds : ∀ x ∈ ds, x.isDigit = true := fun x hx =>
      toDigits_all_digit (m + 1) x (by rw [hcd]; exact List.mem_cons_of_mem _ hx)
    obtain ⟨t1, t2⟩ := takeWhile_append_stop (p := Char.isDigit) hds hr
    have hval : Nat.ofDigitChars 10 (c :: ds) 0 = m + 1 := by rw [← hcd]; exact Nat.ofDigitChars_ten_toDigits
    rw [hcd]
    simp only [List.cons_append, lexInteger, hc, if_true, t1, t2, hval]
    rfl

end Anthem.Asp
