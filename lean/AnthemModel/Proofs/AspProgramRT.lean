/-
  Round trip for heads, rules and programs; the statement about `String`s.
-/
import AnthemModel.Proofs.AspBodyRT
namespace Anthem.Asp

/-! ## printers -/

def Head.printL : Head → List Char
  | .basic a => a.printL
  | .choice a => '{' :: (a.printL ++ ['}'])
  | .falsity => []

def neckL (r : Rule) : List Char :=
  if r.head = .falsity ∨ !r.body.isEmpty then [' ', ':', '-', ' '] else []

def Rule.printL (r : Rule) : List Char := r.head.printL ++ (neckL r ++ (bodyPrintL r.body ++ ['.']))

def progPrintL : Program → List Char
  | [] => []
  | r :: rs => r.printL ++ '\n' :: progPrintL rs

theorem Head.print_toList (h : Head) : h.print.toList = h.printL := by
  cases h <;> simp [Head.print, Head.printL, String.toList_append, Atom.print_toList]

theorem intercalate_body (bs : List BodyAtom) :
    (", ".intercalate (bs.map BodyAtom.print)).toList = bodyPrintL bs := by
  cases bs with
  | nil => rfl
  | cons b bs =>
    induction bs generalizing b with
    | nil => simp [bodyPrintL, bodyTailL, BodyAtom.print_toList]
    | cons b' bs ih =>
      simp only [List.map_cons, String.intercalate_cons_cons, String.toList_append, BodyAtom.print_toList]
      have := ih b'
      simp only [List.map_cons] at this
      rw [this]
      simp only [bodyPrintL, bodyTailL, List.append_assoc]
      rfl

theorem Rule.print_toList (r : Rule) : r.print.toList = r.printL := by
  unfold Rule.print Rule.printL neckL
  simp only [String.toList_append, Head.print_toList, intercalate_body]
  split <;> simp <;> rfl

theorem printProgram_toList (p : Program) : (printProgram p).toList = progPrintL p := by
  unfold printProgram
  induction p with
  | nil => rfl
  | cons r rs ih =>
    simp only [List.map_cons, String.join_cons, String.toList_append, Rule.print_toList, ih, progPrintL]
    simp

/-! ## well-formedness -/

def Head.WF : Head → Prop
  | .basic a | .choice a => a.WF
  | .falsity => True

def Rule.WF (r : Rule) : Prop := r.head.WF ∧ ∀ b ∈ r.body, b.WF

/-- every predicate symbol and symbolic constant is an identifier of the grammar other than `not`,
    every variable a variable of the grammar -/
def Program.WF (p : Program) : Prop := ∀ r ∈ p, r.WF

/-! ## pieces -/

theorem atomL_none_of_head (c : Char) (r : List Char) (h1 : c.isLower = false) (h2 : c ≠ '_') (h3 : c ≠ 'n') :
    atomL (c :: r) = none := by
  have hs : lexSymbol (c :: r) = none := by
    unfold lexSymbol
    have : startsNotWord (c :: r) = false := by
      unfold startsNotWord
      split
      · rename_i heq; injection heq with e _; exact absurd e h3
      · rfl
    rw [this]
    simp only [Bool.false_eq_true, if_false]
    split
    · rename_i heq; injection heq with e _; exact absurd e h2
    · rename_i c' r' _ heq
      injection heq with e1 _
      subst e1; simp [h1]
    · rename_i heq; cases heq
  simp only [atomL, hs]

theorem termL_dot (f : Nat) (rest : List Char) : termL f ('.' :: rest) = none := by
  cases f with
  | zero => rfl
  | succ f =>
    rw [termL_succ]
    cases f with
    | zero => rfl
    | succ f =>
      have hop : operand (f + 1) ('.' :: rest) = none := by
        refine operand_fail f _ (skip_cons_solid _ ⟨by decide, by decide⟩)
          (lexNegative_of_head _ ⟨by decide, by decide⟩ (by decide)) ?_ ?_ ?_
        · simp [lexPre, stripPrefix, lexInteger, isNonzeroDigit, lexSymbol, startsNotWord, startsNegation]
        · simp [lexVariable]
        · intro r e; injection e with e1 _; exact absurd e1 (by decide)
      simp only [seqT, hop]

/-- an empty body in front of the final `.` -/
theorem bodyL_dot (rest : List Char) : bodyL ('.' :: rest) = ([], '.' :: rest) := by
  have h1 : comparisonL ('.' :: rest) = none := by simp only [comparisonL, termL_dot]
  have h2 : literalL ('.' :: rest) = none := by
    have : startsNegation ('.' :: rest) = false := by simp [startsNegation]
    simp only [literalL, signL, this, Bool.false_eq_true, if_false,
      skip_cons_solid rest (show Solid '.' from ⟨by decide, by decide⟩),
      atomL_none_of_head '.' rest (by decide) (by decide) (by decide)]
  simp only [bodyL, atomicFormulaL, h1, h2]

theorem bodyPrintL_startsSolid (bs : List BodyAtom) (hwf : ∀ b ∈ bs, b.WF) (hne : bs ≠ []) (X : List Char) :
    StartsSolid (bodyPrintL bs ++ X) := by
  cases bs with
  | nil => exact absurd rfl hne
  | cons b bs =>
    simp only [bodyPrintL, List.append_assoc]
    exact (BodyAtom.printL_startsSolid b (hwf b List.mem_cons_self)).append _

/-- the neck and the body (possibly empty), up to the final `.` -/
theorem neckBody_some (bs : List BodyAtom) (hwf : ∀ b ∈ bs, b.WF) (rest : List Char)
    (hrest : ∀ r', rest ≠ '.' :: r') :
    neckBodyL (' ' :: ':' :: '-' :: ' ' :: (bodyPrintL bs ++ '.' :: rest)) = (bs, '.' :: rest) := by
  simp only [neckBodyL, skip_space, skip_cons_solid _ (show Solid ':' from ⟨by decide, by decide⟩)]
  by_cases hne : bs = []
  · subst hne
    simp only [bodyPrintL, List.nil_append, skip_cons_solid rest (show Solid '.' from ⟨by decide, by decide⟩), bodyL_dot]
  · rw [skip_of_startsSolid (bodyPrintL_startsSolid bs hwf hne _), bodyL_printL bs hwf hne rest hrest]

theorem neckBody_none (rest : List Char) : neckBodyL ('.' :: rest) = ([], '.' :: rest) := by
  simp only [neckBodyL, skip_cons_solid rest (show Solid '.' from ⟨by decide, by decide⟩)]
  rfl

/-! ## rules -/

theorem atomFollow_dot (rest : List Char) : AtomFollow ('.' :: rest) :=
  ⟨noId_cons _ (by decide), fun r => by
    rw [skip_cons_solid rest ⟨by decide, by decide⟩]
    intro e; injection e with e1 _; exact absurd e1 (by decide)⟩

theorem atomFollow_neck (X : List Char) : AtomFollow (' ' :: ':' :: '-' :: X) :=
  ⟨noId_cons _ (by decide), fun r => by
    rw [skip_space, skip_cons_solid _ ⟨by decide, by decide⟩]
    intro e; injection e with e1 _; exact absurd e1 (by decide)⟩

theorem atomFollow_brace (X : List Char) : AtomFollow ('}' :: X) :=
  ⟨noId_cons _ (by decide), fun r => by
    rw [skip_cons_solid _ ⟨by decide, by decide⟩]
    intro e; injection e with e1 _; exact absurd e1 (by decide)⟩

/-- the head of a printed rule, in front of what follows it (`.` or ` :- `) -/
theorem headL_printL (h : Head) (hh : h.WF) (F : List Char)
    (hF : (∃ r, F = '.' :: r) ∨ (∃ X, F = ' ' :: ':' :: '-' :: X)) :
    headL (skip (h.printL ++ F)) = (h, if h = .falsity then skip F else F) := by
  have hAF : AtomFollow F := by
    rcases hF with ⟨r, rfl⟩ | ⟨X, rfl⟩
    · exact atomFollow_dot r
    · exact atomFollow_neck X
  cases h with
  | basic a =>
    show headL (skip (a.printL ++ F)) = _
    rw [skip_of_startsSolid ((Atom.printL_startsSolid a hh).append F)]
    simp only [headL, atomL_printL a hh F hAF]
    simp
  | choice a =>
    have e : (Head.choice a).printL ++ F = '{' :: (a.printL ++ '}' :: F) := by simp [Head.printL]
    rw [e, skip_cons_solid _ ⟨by decide, by decide⟩]
    have h1 : atomL ('{' :: (a.printL ++ '}' :: F)) = none :=
      atomL_none_of_head '{' _ (by decide) (by decide) (by decide)
    have h2 : atomL (skip (a.printL ++ '}' :: F)) = some (a, '}' :: F) := by
      rw [skip_of_startsSolid ((Atom.printL_startsSolid a hh).append _)]
      exact atomL_printL a hh _ (atomFollow_brace F)
    simp only [headL, h1, h2, skip_cons_solid F (show Solid '}' from ⟨by decide, by decide⟩)]
    simp
  | falsity =>
    simp only [Head.printL, List.nil_append, if_true]
    rcases hF with ⟨r, rfl⟩ | ⟨X, rfl⟩
    · rw [skip_cons_solid r ⟨by decide, by decide⟩]
      simp only [headL, atomL_none_of_head '.' r (by decide) (by decide) (by decide)]
      simp [stripPrefix]
    · rw [skip_space, skip_cons_solid _ ⟨by decide, by decide⟩]
      simp only [headL, atomL_none_of_head ':' _ (by decide) (by decide) (by decide)]
      simp [stripPrefix]

theorem ruleBodyL_printL (r : Rule) (hr : r.WF) (rest : List Char) (hrest : ∀ r', rest ≠ '.' :: r') :
    ruleBodyL (r.printL ++ rest) = some (r, rest) := by
  obtain ⟨h, bs⟩ := r
  obtain ⟨hh, hb⟩ := hr
  simp only at hh hb
  by_cases hneck : h = .falsity ∨ (!bs.isEmpty) = true
  · -- ` :- body.`
    have hneck' : h = .falsity ∨ ¬ bs = [] := by simpa using hneck
    have e : (Rule.printL ⟨h, bs⟩) ++ rest = h.printL ++ (' ' :: ':' :: '-' :: ' ' :: (bodyPrintL bs ++ '.' :: rest)) := by
      simp [Rule.printL, neckL, hneck']
    rw [e]
    have hhead := headL_printL h hh (' ' :: ':' :: '-' :: ' ' :: (bodyPrintL bs ++ '.' :: rest)) (Or.inr ⟨_, rfl⟩)
    have hnb := neckBody_some bs hb rest hrest
    have hnb' : neckBodyL (skip (' ' :: ':' :: '-' :: ' ' :: (bodyPrintL bs ++ '.' :: rest))) = (bs, '.' :: rest) := by
      -- the constraint case: the head consumed the leading blank
      simp only [neckBodyL, skip_space, skip_cons_solid _ (show Solid ':' from ⟨by decide, by decide⟩)] at hnb ⊢
      exact hnb
    by_cases hf : h = .falsity
    · simp only [hf, if_true] at hhead
      subst hf
      simp only [ruleBodyL, hhead, hnb', skip_cons_solid rest (show Solid '.' from ⟨by decide, by decide⟩)]
    · simp only [hf, if_false] at hhead
      simp only [ruleBodyL, hhead, hnb, skip_cons_solid rest (show Solid '.' from ⟨by decide, by decide⟩)]
  · -- a fact
    have hbs : bs = [] := by
      cases bs with
      | nil => rfl
      | cons b bs => exact absurd (Or.inr (by simp)) hneck
    have hnf : h ≠ .falsity := fun e => hneck (Or.inl e)
    subst hbs
    have e : (Rule.printL ⟨h, []⟩) ++ rest = h.printL ++ ('.' :: rest) := by
      simp [Rule.printL, neckL, hnf, bodyPrintL]
    rw [e]
    have hhead := headL_printL h hh ('.' :: rest) (Or.inl ⟨_, rfl⟩)
    simp only [hnf, if_false] at hhead
    simp only [ruleBodyL, hhead, neckBody_none, skip_cons_solid rest (show Solid '.' from ⟨by decide, by decide⟩)]

theorem skip_solid_or_nil (cs : List Char) : skip cs = [] ∨ StartsSolid (skip cs) := by
  suffices h : ∀ (b : Bool), skipAux b cs = [] ∨ StartsSolid (skipAux b cs) from h false
  induction cs with
  | nil => intro b; cases b <;> exact Or.inl rfl
  | cons c cs ih =>
    intro b
    cases b with
    | true =>
      simp only [skipAux]
      split
      · exact ih false
      · exact ih true
    | false =>
      simp only [skipAux]
      split
      · exact ih false
      · split
        · exact ih true
        · rename_i h1 h2
          exact Or.inr ⟨c, cs, rfl, by simpa using h1, h2⟩

theorem skip_idem (cs : List Char) : skip (skip cs) = skip cs := by
  rcases skip_solid_or_nil cs with h | h
  · rw [h]; rfl
  · exact skip_of_startsSolid h

/-- a rule is read the same after skipping white space in front of it (unless a `.` comes first) -/
theorem ruleL_skip (cs : List Char) (h1 : ∀ r, cs ≠ '.' :: r) (h2 : ∀ r, skip cs ≠ '.' :: r) :
    ruleL (skip cs) = ruleL cs := by
  have a1 : ruleL cs = ruleBodyL cs := by
    unfold ruleL
    split
    · rename_i r; exact absurd rfl (h1 r)
    · rfl
  have a2 : ruleL (skip cs) = ruleBodyL (skip cs) := by
    unfold ruleL
    split
    · rename_i r heq; exact absurd heq (h2 r)
    · rfl
  rw [a1, a2]
  simp only [ruleBodyL, skip_idem]

theorem Rule.printL_skip_head (r : Rule) (hr : r.WF) (rest : List Char) :
    (∀ r', r.printL ++ rest ≠ '.' :: r') ∧ (∀ r', skip (r.printL ++ rest) ≠ '.' :: r') := by
  obtain ⟨h, bs⟩ := r
  obtain ⟨hh, hb⟩ := hr
  simp only at hh hb
  have key : ∀ (c : Char) (X : List Char), Solid c → c ≠ '.' →
      (∀ r', c :: X ≠ '.' :: r') ∧ (∀ r', skip (c :: X) ≠ '.' :: r') := by
    intro c X hs hne
    refine ⟨fun r' e => ?_, fun r' e => ?_⟩
    · injection e with e1 _; exact hne e1
    · rw [skip_cons_solid X hs] at e; injection e with e1 _; exact hne e1
  cases h with
  | basic a =>
    obtain ⟨c, w, e, hs⟩ := (Atom.printL_startsSolid a hh)
    have hid : c ≠ '.' := by
      have hsym := hh.1
      have : isIdChar c = true := by
        have hin : c ∈ a.pred.toList := by
          unfold Atom.printL at e
          split at e
          · rw [e]; exact List.mem_cons_self
          · rcases hsym with ⟨c', w', e', _, _⟩ | ⟨c', w', e', _, _⟩
            · rw [e'] at e ⊢; simp only [List.cons_append, List.cons.injEq] at e; rw [e.1]; exact List.mem_cons_self
            · rw [e'] at e ⊢; simp only [List.cons_append, List.cons.injEq] at e; rw [e.1]; exact List.mem_cons_self
        exact hsym.idChars c hin
      intro e'; subst e'; revert this; decide
    simp only [Rule.printL, Head.printL, e, List.cons_append]
    exact key c _ hs hid
  | choice a =>
    simp only [Rule.printL, Head.printL, List.cons_append]
    exact key '{' _ ⟨by decide, by decide⟩ (by decide)
  | falsity =>
    have e : (Rule.printL ⟨.falsity, bs⟩) ++ rest = ' ' :: ':' :: '-' :: ' ' :: (bodyPrintL bs ++ '.' :: rest) := by
      simp [Rule.printL, neckL, Head.printL]
    rw [e]
    refine ⟨fun r' e' => ?_, fun r' e' => ?_⟩
    · injection e' with e1 _; exact absurd e1 (by decide)
    · rw [skip_space, skip_cons_solid _ ⟨by decide, by decide⟩] at e'
      injection e' with e1 _; exact absurd e1 (by decide)

theorem ruleL_printL (r : Rule) (hr : r.WF) (rest : List Char) (hrest : ∀ r', rest ≠ '.' :: r') :
    ruleL (skip (r.printL ++ rest)) = some (r, rest) := by
  obtain ⟨h1, h2⟩ := Rule.printL_skip_head r hr rest
  rw [ruleL_skip _ h1 h2]
  have a1 : ruleL (r.printL ++ rest) = ruleBodyL (r.printL ++ rest) := by
    unfold ruleL
    split
    · rename_i r' heq; exact absurd heq (h1 r')
    · rfl
  rw [a1, ruleBodyL_printL r hr rest hrest]

/-! ## programs -/

theorem ruleL_nil : ruleL [] = none := by
  simp [ruleL, ruleBodyL, headL, atomL, lexSymbol, startsNotWord, startsNegation, stripPrefix, neckBodyL]

theorem rulesL_printL : ∀ (p : Program), p.WF → ∀ (f : Nat), (progPrintL p).length < f →
    rulesL f (skip (progPrintL p)) = (p, []) := by
  intro p
  induction p with
  | nil =>
    intro _ f hf
    obtain ⟨f0, rfl⟩ : ∃ f0, f = f0 + 1 := ⟨f - 1, by omega⟩
    simp [progPrintL, rulesL, ruleL_nil]
  | cons r rs ih =>
    intro hwf f hf
    obtain ⟨f0, rfl⟩ : ∃ f0, f = f0 + 1 := ⟨f - 1, by omega⟩
    have hr := hwf r List.mem_cons_self
    have hrule := ruleL_printL r hr ('\n' :: progPrintL rs) (fun r' e => by injection e with e1 _; exact absurd e1 (by decide))
    simp only [progPrintL, List.length_append, List.length_cons] at hf ⊢
    simp only [rulesL, hrule, skip_newline]
    rw [ih (fun u hu => hwf u (List.mem_cons_of_mem _ hu)) f0 (by omega)]

/-- a program starts where its first rule starts: nothing to skip, or a constraint's blank -/
theorem rulesL_skip_first (p : Program) (hwf : p.WF) (f : Nat) (hf : (progPrintL p).length < f) :
    rulesL f (progPrintL p) = (p, []) := by
  cases p with
  | nil =>
    obtain ⟨f0, rfl⟩ : ∃ f0, f = f0 + 1 := ⟨f - 1, by omega⟩
    simp [progPrintL, rulesL, ruleL_nil]
  | cons r rs =>
    obtain ⟨f0, rfl⟩ : ∃ f0, f = f0 + 1 := ⟨f - 1, by omega⟩
    have hr := hwf r List.mem_cons_self
    obtain ⟨h1, h2⟩ := Rule.printL_skip_head r hr ('\n' :: progPrintL rs)
    have hrule := ruleL_printL r hr ('\n' :: progPrintL rs) (fun r' e => by injection e with e1 _; exact absurd e1 (by decide))
    rw [ruleL_skip _ h1 h2] at hrule
    simp only [progPrintL, List.length_append, List.length_cons] at hf ⊢
    simp only [rulesL, hrule, skip_newline]
    rw [rulesL_printL rs (fun u hu => hwf u (List.mem_cons_of_mem _ hu)) f0 (by omega)]

/-- **Round trip, character lists.** -/
theorem parseProgramL_printL (p : Program) (hwf : p.WF) : parseProgramL (progPrintL p) = some p := by
  simp only [parseProgramL, rulesL_skip_first p hwf _ (Nat.lt_succ_self _), skip_nil]

/-- **Round trip.** Parsing the printed text of a well-formed program returns the program. -/
theorem parseProgram_printProgram (p : Program) (hwf : p.WF) : parseProgram (printProgram p) = some p := by
  unfold parseProgram
  rw [printProgram_toList]
  exact parseProgramL_printL p hwf

end Anthem.Asp
