/-
  Round trip for terms at the character level: lexing the printed text of a term (followed by
  text that cannot continue it) yields exactly the pair sequence `flat t`, hence - with
  `pratt_flat_eq` - parsing the printed text yields the term.
-/
import AnthemModel.Proofs.AspLex
namespace Anthem.Asp

/-! ## character-list printers -/

def Pre.printL : Pre → List Char
  | .inf => "#inf".toList
  | .sup => "#sup".toList
  | .num n => (toString n).toList
  | .sym s => s.toList

def parenLL (b : Bool) (l : List Char) : List Char := if b then '(' :: (l ++ [')']) else l

def Op.printL : Op → List Char
  | .add => " + ".toList
  | .sub => " - ".toList
  | .mul => " * ".toList
  | .div => " / ".toList
  | .mod => " \\ ".toList
  | .interval => "..".toList

def Term.printL : Term → List Char
  | .pre p => p.printL
  | .var x => x.toList
  | .neg a => '-' :: parenLL (0 < a.prec) a.printL
  | .bin op l r =>
    parenLL ((Term.bin op l r).prec < l.prec) l.printL ++ op.printL ++
      parenLL ((Term.bin op l r).prec < r.prec || (Term.bin op l r).prec = r.prec) r.printL

theorem Pre.print_toList (p : Pre) : p.print.toList = p.printL := by cases p <;> rfl

theorem parenIf_toList (b : Bool) (s : String) : (parenIf b s).toList = parenLL b s.toList := by
  cases b <;> simp [parenIf, parenLL, String.toList_append]

theorem Op.print_toList (o : Op) : o.print.toList = o.printL := by cases o <;> rfl

theorem Term.print_toList : ∀ t : Term, t.print.toList = t.printL
  | .pre p => by simp [Term.print, Term.printL, Pre.print_toList]
  | .var x => by simp [Term.print, Term.printL]
  | .neg a => by
    simp only [Term.print, Term.printL, String.toList_append, parenIf_toList, Term.print_toList a]
    rfl
  | .bin op l r => by
    simp only [Term.print, Term.printL, String.toList_append, parenIf_toList, Term.print_toList l,
      Term.print_toList r, Op.print_toList]

/-! ## well-formed names -/

/-- every symbolic constant is an identifier of the grammar other than `not`, every variable a
    variable of the grammar (true of every tree the parser builds, except for the name `not`) -/
def Term.WF : Term → Prop
  | .pre (.sym s) => SymName s.toList ∧ s.toList ≠ ['n', 'o', 't']
  | .pre _ => True
  | .var x => VarName x.toList
  | .neg a => a.WF
  | .bin _ l r => l.WF ∧ r.WF

/-! ## primaries -/

theorem stripPrefix_head_ne {p c : Char} (ps cs : List Char) (h : p ≠ c) : stripPrefix (p :: ps) (c :: cs) = none := by
  simp [stripPrefix, h]

theorem intL_head (n : Int) : ∃ c r, (toString n).toList = c :: r ∧ (c.isDigit = true ∨ c = '-') := by
  cases n with
  | ofNat m =>
    rw [intL_nonneg]
    cases h : Nat.toDigits 10 m with
    | nil => exact absurd h Nat.toDigits_ne_nil
    | cons c r => exact ⟨c, r, rfl, Or.inl (toDigits_all_digit m c (by rw [h]; exact List.mem_cons_self))⟩
  | negSucc m => rw [intL_neg]; exact ⟨'-', _, rfl, Or.inr rfl⟩

theorem digit_ne_hash {c : Char} (h : c.isDigit = true ∨ c = '-') : '#' ≠ c := by
  intro e; subst e; rcases h with h | h <;> revert h <;> decide

theorem lexPre_append (p : Pre) (rest : List Char) (hp : (Term.pre p).WF) (hr : NoId rest) :
    lexPre (p.printL ++ rest) = some (p, rest) := by
  cases p with
  | inf =>
    have h1 : stripPrefix "#infimum".toList ("#inf".toList ++ rest) = none := by
      cases rest with
      | nil => rfl
      | cons c r =>
        have hc : isIdChar c = false := hr c r rfl
        have : 'i' ≠ c := by intro e; subst e; revert hc; decide
        simp [stripPrefix, this]
    simp only [Pre.printL, lexPre, h1]
    simp [stripPrefix]
  | sup =>
    have h1 : stripPrefix "#supremum".toList ("#sup".toList ++ rest) = none := by
      cases rest with
      | nil => rfl
      | cons c r =>
        have hc : isIdChar c = false := hr c r rfl
        have : 'r' ≠ c := by intro e; subst e; revert hc; decide
        simp [stripPrefix, this]
    have h2 : lexInteger ("#sup".toList ++ rest) = none := by simp [lexInteger, isNonzeroDigit]
    have h3 : lexSymbol ("#sup".toList ++ rest) = none := by simp [lexSymbol, startsNotWord, startsNegation]
    simp only [Pre.printL, lexPre, h1, h2, h3]
    simp [stripPrefix]
  | num n =>
    obtain ⟨c, r, hcr, hc⟩ := intL_head n
    have hh := digit_ne_hash hc
    have h1 : stripPrefix "#infimum".toList ((toString n).toList ++ rest) = none := by
      rw [hcr]; exact stripPrefix_head_ne _ _ hh
    have h2 : stripPrefix "#inf".toList ((toString n).toList ++ rest) = none := by
      rw [hcr]; exact stripPrefix_head_ne _ _ hh
    simp only [Pre.printL, lexPre, h1, h2, lexInteger_append n rest hr.digit]
  | sym s =>
    obtain ⟨hs, hne⟩ := hp
    have hsolid := hs.startsSolid
    have hid := hs.idChars
    obtain ⟨c, r, hcr, _⟩ := hsolid
    have hcid : isIdChar c = true := hid c (by rw [hcr]; exact List.mem_cons_self)
    have hh : '#' ≠ c := by intro e; subst e; revert hcid; decide
    have h1 : stripPrefix "#infimum".toList (s.toList ++ rest) = none := by
      rw [hcr]; exact stripPrefix_head_ne _ _ hh
    have h2 : stripPrefix "#inf".toList (s.toList ++ rest) = none := by
      rw [hcr]; exact stripPrefix_head_ne _ _ hh
    have h3 : lexInteger (s.toList ++ rest) = none := by
      rcases hs with ⟨c', w, e, hc', _⟩ | ⟨c', w, e, hc', _⟩
      · rw [e]
        have a1 : c' ≠ '0' := by intro e; subst e; revert hc'; decide
        have a2 : c' ≠ '-' := by intro e; subst e; revert hc'; decide
        have a3 : isNonzeroDigit c' = false := by
          simp only [isNonzeroDigit, Bool.and_eq_false_iff]
          left
          simp only [Char.isLower, Bool.and_eq_true, decide_eq_true_eq] at hc'
          simp only [Char.isDigit, Bool.and_eq_false_iff, decide_eq_false_iff_not]
          right
          have : c'.val ≥ 97 := hc'.1
          intro h; have : c'.val ≤ 57 := h
          exact absurd (Nat.le_trans ‹c'.val ≥ 97› this) (by decide)
        simp only [List.cons_append]
        unfold lexInteger
        split
        · rename_i heq; injection heq with e' _; exact absurd e' a1
        · rename_i heq; injection heq with e' _; exact absurd e' a2
        · rename_i c'' r'' _ _ heq
          injection heq with e1 _
          subst e1; simp [a3]
        · rename_i heq; cases heq
      · rw [e]; simp [lexInteger, isNonzeroDigit]
    simp only [Pre.printL, lexPre, h1, h2, h3, lexSymbol_append s.toList rest hs hne hr, String.ofList_toList]

theorem lexPre_upper (c : Char) (r : List Char) (hc : c.isUpper = true) : lexPre (c :: r) = none := by
  have hh : '#' ≠ c := by intro e; subst e; revert hc; decide
  have a1 : c ≠ '0' := by intro e; subst e; revert hc; decide
  have a2 : c ≠ '-' := by intro e; subst e; revert hc; decide
  have a4 : c ≠ '_' := by intro e; subst e; revert hc; decide
  have a5 : c ≠ 'n' := by intro e; subst e; revert hc; decide
  have a3 : isNonzeroDigit c = false := by
    simp only [isNonzeroDigit, Bool.and_eq_false_iff]
    left
    simp only [Char.isUpper, Bool.and_eq_true, decide_eq_true_eq] at hc
    simp only [Char.isDigit, Bool.and_eq_false_iff, decide_eq_false_iff_not]
    right
    intro h
    have h1 : c.val ≥ 65 := hc.1
    have h2 : c.val ≤ 57 := h
    exact absurd (Nat.le_trans h1 h2) (by decide)
  have hlow : c.isLower = false := by
    simp only [Char.isUpper, Bool.and_eq_true, decide_eq_true_eq] at hc
    simp only [Char.isLower, Bool.and_eq_false_iff, decide_eq_false_iff_not]
    left
    intro h
    have h1 : c.val ≥ 97 := h
    have h2 : c.val ≤ 90 := hc.2
    exact absurd (Nat.le_trans h1 h2) (by decide)
  have h3 : lexInteger (c :: r) = none := by
    unfold lexInteger
    split
    · rename_i heq; injection heq with e' _; exact absurd e' a1
    · rename_i heq; injection heq with e' _; exact absurd e' a2
    · rename_i c'' r'' _ _ heq
      injection heq with e1 _
      subst e1; simp [a3]
    · rename_i heq; cases heq
  have h4 : lexSymbol (c :: r) = none := by
    unfold lexSymbol
    have : startsNotWord (c :: r) = false := by
      unfold startsNotWord
      split
      · rename_i heq; injection heq with e' _; exact absurd e' a5
      · rfl
    rw [this]
    simp only [Bool.false_eq_true, if_false]
    split
    · rename_i heq; injection heq with e' _; exact absurd e' a4
    · rename_i c'' r'' _ heq
      injection heq with e1 _
      subst e1; simp [hlow]
    · rename_i heq; cases heq
  have e1 : stripPrefix "#infimum".toList (c :: r) = none := stripPrefix_head_ne _ _ hh
  have e2 : stripPrefix "#inf".toList (c :: r) = none := stripPrefix_head_ne _ _ hh
  have e3 : stripPrefix "#supremum".toList (c :: r) = none := stripPrefix_head_ne _ _ hh
  have e4 : stripPrefix "#sup".toList (c :: r) = none := stripPrefix_head_ne _ _ hh
  simp only [lexPre, e1, e2, e3, e4, h3, h4]

theorem lexPre_paren (r : List Char) : lexPre ('(' :: r) = none := by
  simp [lexPre, stripPrefix, lexInteger, isNonzeroDigit, lexSymbol, startsNotWord, startsNegation]

theorem lexVariable_paren (r : List Char) : lexVariable ('(' :: r) = none := by
  simp [lexVariable]

/-! ## shapes of printed terms -/

theorem upper_not_nzdigit {c : Char} (hc : c.isUpper = true) : isNonzeroDigit c = false := by
  simp only [isNonzeroDigit, Bool.and_eq_false_iff]
  left
  simp only [Char.isUpper, Bool.and_eq_true, decide_eq_true_eq] at hc
  simp only [Char.isDigit, Bool.and_eq_false_iff, decide_eq_false_iff_not]
  right
  intro h
  have h1 : c.val ≥ 65 := hc.1
  have h2 : c.val ≤ 57 := h
  exact absurd (Nat.le_trans h1 h2) (by decide)

theorem lower_not_nzdigit {c : Char} (hc : c.isLower = true) : isNonzeroDigit c = false := by
  simp only [isNonzeroDigit, Bool.and_eq_false_iff]
  left
  simp only [Char.isLower, Bool.and_eq_true, decide_eq_true_eq] at hc
  simp only [Char.isDigit, Bool.and_eq_false_iff, decide_eq_false_iff_not]
  right
  intro h
  have h1 : c.val ≥ 97 := hc.1
  have h2 : c.val ≤ 57 := h
  exact absurd (Nat.le_trans h1 h2) (by decide)

theorem digit_solid {c : Char} (h : c.isDigit = true) : Solid c := by
  simp only [Char.isDigit, Bool.and_eq_true, decide_eq_true_eq] at h
  constructor
  · simp only [isWs, Bool.or_eq_false_iff, decide_eq_false_iff_not]
    refine ⟨⟨?_, ?_⟩, ?_⟩ <;> (intro e; subst e; revert h; decide)
  · intro e; subst e; revert h; decide

theorem Pre.printL_startsSolid (p : Pre) (hp : (Term.pre p).WF) : StartsSolid p.printL := by
  cases p with
  | inf => exact ⟨'#', _, rfl, by decide, by decide⟩
  | sup => exact ⟨'#', _, rfl, by decide, by decide⟩
  | num n =>
    obtain ⟨c, r, hcr, hc⟩ := intL_head n
    refine ⟨c, r, hcr, ?_⟩
    rcases hc with hc | rfl
    · exact digit_solid hc
    · exact ⟨by decide, by decide⟩
  | sym s => exact hp.1.startsSolid

theorem parenLL_startsSolid (b : Bool) {l : List Char} (h : StartsSolid l) : StartsSolid (parenLL b l) := by
  cases b
  · exact h
  · exact ⟨'(', _, rfl, by decide, by decide⟩

theorem Term.printL_startsSolid : ∀ t : Term, t.WF → StartsSolid t.printL
  | .pre p, h => Pre.printL_startsSolid p h
  | .var x, h => VarName.startsSolid h
  | .neg a, _ => ⟨'-', _, rfl, by decide, by decide⟩
  | .bin op l r, h => by
    simp only [Term.printL, List.append_assoc]
    exact (parenLL_startsSolid _ (Term.printL_startsSolid l h.1)).append _

/-- after a prefix minus, an unparenthesised operand never begins like the digits of a numeral -/
theorem lexInteger_minus_printL (a : Term) (ha : a.WF) (hp : ¬ 0 < a.prec) (rest : List Char) :
    lexInteger ('-' :: (a.printL ++ rest)) = none := by
  have key : ∀ (c : Char) (r : List Char), isNonzeroDigit c = false → lexInteger ('-' :: c :: r) = none := by
    intro c r h; simp [lexInteger, h]
  cases a with
  | pre p =>
    cases p with
    | inf => exact key '#' _ (by decide)
    | sup => exact key '#' _ (by decide)
    | num n =>
      cases n with
      | ofNat m =>
        cases m with
        | zero => simp only [Term.printL, Pre.printL]; rw [intL_nonneg]; exact key '0' _ (by decide)
        | succ m => simp [Term.prec] at hp; omega
      | negSucc m => simp only [Term.printL, Pre.printL]; rw [intL_neg]; exact key '-' _ (by decide)
    | sym s =>
      rcases ha.1 with ⟨c, w, e, hc, _⟩ | ⟨c, w, e, _, _⟩
      · simp only [Term.printL, Pre.printL, e]; exact key c _ (lower_not_nzdigit hc)
      · simp only [Term.printL, Pre.printL, e]; exact key '_' _ (by decide)
  | var x =>
    obtain ⟨c, w, e, hc, _⟩ := ha
    simp only [Term.printL, e]; exact key c _ (upper_not_nzdigit hc)
  | neg b => exact key '-' _ (by decide)
  | bin op l r => rw [bin_prec] at hp; have := op.bp_le; omega

/-! ## the pieces of the term parser -/

/-- `unary_operator* ~ primary ~ (binary_operator ~ unary_operator* ~ primary)*`: the pair sequence -/
def seqT (f : Nat) (cs : List Char) : Option (List Tok × List Char) :=
  match operand f cs with
  | some (ts, r) => some (ts ++ (tailT f r).1, (tailT f r).2)
  | none => none

theorem termL_succ (f : Nat) (cs : List Char) :
    termL (f + 1) cs = match seqT f cs with
      | some (ts, r') => (match pratt ts with | some t => some (t, r') | none => none)
      | none => none := by
  simp only [termL, seqT]
  cases operand f cs with
  | none => rfl
  | some x => rfl

theorem tailT_succ (f : Nat) (cs : List Char) :
    tailT (f + 1) cs = match lexBinop (skip cs) with
      | some (o, r) => (match seqT f (skip r) with
        | some (ts, r'') => (.op o :: ts, r'')
        | none => ([], cs))
      | none => ([], cs) := by
  simp only [tailT, seqT]
  cases lexBinop (skip cs) with
  | none => rfl
  | some x =>
    obtain ⟨o, r⟩ := x
    simp only
    cases operand f (skip r) with
    | none => rfl
    | some y => rfl

theorem tailT_stop (f : Nat) (rest : List Char) (h : lexBinop (skip rest) = none) : tailT f rest = ([], rest) := by
  cases f with
  | zero => rfl
  | succ f => rw [tailT_succ, h]

theorem lexNegative_of_integer {cs : List Char} {x : Int × List Char} (h : lexInteger cs = some x) :
    lexNegative cs = none := by simp [lexNegative, h]

theorem lexNegative_of_head {c : Char} (r : List Char) (hs : Solid c) (hne : c ≠ '-') :
    lexNegative (c :: r) = none := by
  unfold lexNegative
  cases lexInteger (c :: r) with
  | some _ => rfl
  | none =>
    simp only [skip_cons_solid r hs]
    split
    · rename_i heq; injection heq with e _; exact absurd e hne
    · rfl

theorem lexNegative_minus (X : List Char) (h : lexInteger ('-' :: X) = none) : lexNegative ('-' :: X) = some X := by
  simp [lexNegative, h, skip_cons_solid X (show Solid '-' from ⟨by decide, by decide⟩)]

theorem lexNegs_none (n : Nat) (first : Bool) (cs : List Char)
    (h : lexNegative (if first then cs else skip cs) = none) : lexNegs n first cs = ([], cs) := by
  cases n with
  | zero => rfl
  | succ n => simp [lexNegs, h]

theorem lexNegs_first {cs : List Char} (h : skip cs = cs) (n : Nat) : lexNegs n true cs = lexNegs n false cs := by
  cases n with
  | zero => rfl
  | succ n => simp [lexNegs, h]

theorem lexNegs_succ_some (n : Nat) (first : Bool) (cs r : List Char)
    (h : lexNegative (if first then cs else skip cs) = some r) :
    lexNegs (n + 1) first cs = (.neg :: (lexNegs n false r).1, (lexNegs n false r).2) := by
  simp [lexNegs, h]

/-- an operand that starts with a primary (no prefix minus in front): a precomputed term -/
theorem operand_pre (f : Nat) (cs : List Char) (hs : skip cs = cs) (hn : lexNegative cs = none)
    {p : Pre} {r' : List Char} (h : lexPre cs = some (p, r')) :
    operand (f + 1) cs = some ([.prim (.pre p)], r') := by
  simp only [operand, lexNegs_none (cs.length + 1) true cs (by simpa using hn), hs, List.nil_append, h]

/-- … a variable -/
theorem operand_var (f : Nat) (cs : List Char) (hs : skip cs = cs) (hn : lexNegative cs = none)
    {x r' : List Char} (h0 : lexPre cs = none) (h : lexVariable cs = some (x, r')) :
    operand (f + 1) cs = some ([.prim (.var (String.ofList x))], r') := by
  simp only [operand, lexNegs_none (cs.length + 1) true cs (by simpa using hn), hs, List.nil_append, h0, h]

/-- … a parenthesised term -/
theorem operand_paren (f : Nat) (r1 r2 r3 : List Char) (t : Term)
    (h1 : termL f (skip r1) = some (t, r2)) (h2 : skip r2 = ')' :: r3) :
    operand (f + 1) ('(' :: r1) = some ([.prim t], r3) := by
  have hs : skip ('(' :: r1) = '(' :: r1 := skip_cons_solid r1 ⟨by decide, by decide⟩
  have hn : lexNegative ('(' :: r1) = none := lexNegative_of_head r1 ⟨by decide, by decide⟩ (by decide)
  simp only [operand, lexNegs_none (('(' :: r1).length + 1) true ('(' :: r1) (by simpa using hn), hs,
    List.nil_append, lexPre_paren, lexVariable_paren, h1, h2]

/-- a prefix minus in front of an operand -/
theorem operand_minus (f : Nat) (X : List Char) (hX : skip X = X) (hi : lexInteger ('-' :: X) = none) :
    operand (f + 1) ('-' :: X) = (operand (f + 1) X).map (fun p => (.neg :: p.1, p.2)) := by
  have h1 : lexNegs (('-' :: X).length + 1) true ('-' :: X) =
      (.neg :: (lexNegs (X.length + 1) true X).1, (lexNegs (X.length + 1) true X).2) := by
    rw [lexNegs_first hX]
    exact lexNegs_succ_some _ true _ X (by simpa using lexNegative_minus X hi)
  simp only [operand, h1, List.cons_append]
  cases lexPre (skip (lexNegs (X.length + 1) true X).2) with
  | some x => rfl
  | none =>
    simp only
    cases lexVariable (skip (lexNegs (X.length + 1) true X).2) with
    | some x => rfl
    | none =>
      simp only
      split
      · rename_i r1 _
        cases termL f (skip r1) with
        | none => rfl
        | some y =>
          simp only
          split <;> rfl
      · rfl

/-! ## the main induction -/

theorem seqT_minus (f : Nat) (X : List Char) (hX : skip X = X) (hi : lexInteger ('-' :: X) = none) :
    seqT (f + 1) ('-' :: X) = (seqT (f + 1) X).map (fun p => (.neg :: p.1, p.2)) := by
  simp only [seqT, operand_minus f X hX hi]
  cases operand (f + 1) X with
  | none => rfl
  | some x => rfl

/-- lexing the printed term, followed by `rest`, gives the pairs of the term followed by whatever
    the operator loop finds in `rest` -/
def SeqOK (t : Term) : Prop :=
  ∀ (rest : List Char) (toks' : List Tok) (r' : List Char), NoId rest →
    (∀ f, 2 * rest.length < f → tailT f rest = (toks', r')) →
    ∀ f, 2 * (t.printL ++ rest).length < f → seqT f (t.printL ++ rest) = some (flat t ++ toks', r')

theorem lexBinop_paren_close (rest : List Char) : lexBinop (skip (')' :: rest)) = none := by
  rw [skip_cons_solid rest ⟨by decide, by decide⟩]; rfl

/-- parsing the printed term in front of a closing parenthesis -/
theorem termL_of_seqOK {t : Term} (hT : SeqOK t) (rest : List Char) (f : Nat)
    (hf : 2 * (t.printL ++ ')' :: rest).length < f) :
    termL (f + 1) (t.printL ++ ')' :: rest) = some (t, ')' :: rest) := by
  rw [termL_succ, hT (')' :: rest) [] (')' :: rest) (noId_cons rest (by decide))
    (fun f' _ => tailT_stop f' _ (lexBinop_paren_close rest)) f hf]
  simp only [List.append_nil, pratt_flat_eq]

theorem seq_paren {t : Term} (hT : SeqOK t) (ht : t.WF) (rest : List Char) (toks' : List Tok) (r' : List Char)
    (htail : ∀ f, 2 * rest.length < f → tailT f rest = (toks', r'))
    (f : Nat) (hf : 2 * ('(' :: (t.printL ++ ')' :: rest)).length < f) :
    seqT f ('(' :: (t.printL ++ ')' :: rest)) = some (Tok.prim t :: toks', r') := by
  simp only [List.length_cons, List.length_append] at hf
  obtain ⟨f1, rfl⟩ : ∃ f1, f = f1 + 2 := ⟨f - 2, by omega⟩
  have hs : skip (t.printL ++ ')' :: rest) = t.printL ++ ')' :: rest :=
    skip_of_startsSolid ((Term.printL_startsSolid t ht).append _)
  have h1 : termL (f1 + 1) (skip (t.printL ++ ')' :: rest)) = some (t, ')' :: rest) := by
    rw [hs]
    exact termL_of_seqOK hT rest f1 (by simp only [List.length_append, List.length_cons]; omega)
  have hop := operand_paren (f1 + 1) (t.printL ++ ')' :: rest) (')' :: rest) rest t h1
    (skip_cons_solid rest ⟨by decide, by decide⟩)
  simp only [seqT, hop, htail (f1 + 1 + 1) (by omega)]
  rfl

def argL (b : Bool) (t : Term) : List Char := parenLL b t.printL
def flatArg (b : Bool) (t : Term) : List Tok := if b then [.prim t] else flat t

theorem argL_startsSolid (b : Bool) (t : Term) (ht : t.WF) : StartsSolid (argL b t) :=
  parenLL_startsSolid b (Term.printL_startsSolid t ht)

theorem seq_arg {t : Term} (hT : SeqOK t) (ht : t.WF) (b : Bool) (rest : List Char) (toks' : List Tok)
    (r' : List Char) (hr : NoId rest) (htail : ∀ f, 2 * rest.length < f → tailT f rest = (toks', r'))
    (f : Nat) (hf : 2 * (argL b t ++ rest).length < f) :
    seqT f (argL b t ++ rest) = some (flatArg b t ++ toks', r') := by
  cases b with
  | false => exact hT rest toks' r' hr htail f hf
  | true =>
    have e : argL true t ++ rest = '(' :: (t.printL ++ ')' :: rest) := by
      simp [argL, parenLL]
    rw [e] at hf ⊢
    rw [seq_paren hT ht rest toks' r' htail f hf]
    rfl

theorem binop_lex (op : Op) (Y : List Char) (hY : StartsSolid Y) :
    ∃ r, lexBinop (skip (op.printL ++ Y)) = some (op, r) ∧ skip r = Y ∧ r.length ≤ Y.length + 1 := by
  have hsY := skip_of_startsSolid hY
  cases op with
  | add =>
    refine ⟨' ' :: Y, ?_, by rw [skip_space, hsY], by simp⟩
    show lexBinop (skip (' ' :: '+' :: ' ' :: Y)) = _
    rw [skip_space, skip_cons_solid _ ⟨by decide, by decide⟩]; rfl
  | sub =>
    refine ⟨' ' :: Y, ?_, by rw [skip_space, hsY], by simp⟩
    show lexBinop (skip (' ' :: '-' :: ' ' :: Y)) = _
    rw [skip_space, skip_cons_solid _ ⟨by decide, by decide⟩]; rfl
  | mul =>
    refine ⟨' ' :: Y, ?_, by rw [skip_space, hsY], by simp⟩
    show lexBinop (skip (' ' :: '*' :: ' ' :: Y)) = _
    rw [skip_space, skip_cons_solid _ ⟨by decide, by decide⟩]; rfl
  | div =>
    refine ⟨' ' :: Y, ?_, by rw [skip_space, hsY], by simp⟩
    show lexBinop (skip (' ' :: '/' :: ' ' :: Y)) = _
    rw [skip_space, skip_cons_solid _ ⟨by decide, by decide⟩]; rfl
  | mod =>
    refine ⟨' ' :: Y, ?_, by rw [skip_space, hsY], by simp⟩
    show lexBinop (skip (' ' :: '\\' :: ' ' :: Y)) = _
    rw [skip_space, skip_cons_solid _ ⟨by decide, by decide⟩]; rfl
  | interval =>
    refine ⟨Y, ?_, hsY, by simp⟩
    show lexBinop (skip ('.' :: '.' :: Y)) = _
    rw [skip_cons_solid _ ⟨by decide, by decide⟩]
    rfl

theorem Op.printL_noId (op : Op) (Y : List Char) : NoId (op.printL ++ Y) := by
  cases op
  all_goals first
    | exact noId_cons (c := ' ') _ (by decide)
    | exact noId_cons (c := '.') _ (by decide)

theorem Op.printL_length (op : Op) : 2 ≤ op.printL.length := by cases op <;> decide

/-- **Lexing inverts printing, for every well-formed term.** -/
theorem seqOK : ∀ t : Term, t.WF → SeqOK t := by
  intro t
  induction t with
  | pre p =>
    intro ht rest toks' r' hr htail f hf
    obtain ⟨f0, rfl⟩ : ∃ f0, f = f0 + 1 := ⟨f - 1, by omega⟩
    have hsolid := (Pre.printL_startsSolid p ht).append rest
    have hlex := lexPre_append p rest ht hr
    have hneg : lexNegative (p.printL ++ rest) = none := by
      cases p with
      | num n => exact lexNegative_of_integer (lexInteger_append n rest hr.digit)
      | inf => exact lexNegative_of_head _ ⟨by decide, by decide⟩ (by decide)
      | sup => exact lexNegative_of_head _ ⟨by decide, by decide⟩ (by decide)
      | sym s =>
        obtain ⟨c, w, e, hc⟩ := hsolid
        have hid : isIdChar c = true := by
          have := ht.1.idChars
          rcases ht.1 with ⟨c', w', e', _, _⟩ | ⟨c', w', e', _, _⟩
          · simp only [Pre.printL, e', List.cons_append, List.cons.injEq] at e
            rw [← e.1]; exact this c' (by rw [e']; exact List.mem_cons_self)
          · simp only [Pre.printL, e', List.cons_append, List.cons.injEq] at e
            rw [← e.1]; decide
        rw [e]
        exact lexNegative_of_head _ hc (by intro e'; subst e'; revert hid; decide)
    have hop := operand_pre f0 (p.printL ++ rest) (skip_of_startsSolid hsolid) hneg hlex
    simp only [Term.printL, seqT, hop, htail (f0 + 1) (by simp only [List.length_append] at hf; omega)]
    rfl
  | var x =>
    intro ht rest toks' r' hr htail f hf
    obtain ⟨f0, rfl⟩ : ∃ f0, f = f0 + 1 := ⟨f - 1, by omega⟩
    have hsolid := (VarName.startsSolid ht).append rest
    obtain ⟨c, w, e, hc, hw⟩ := ht
    have hneg : lexNegative (x.toList ++ rest) = none := by
      rw [e]
      exact lexNegative_of_head _ (upper_solid hc) (by intro e'; subst e'; revert hc; decide)
    have h0 : lexPre (x.toList ++ rest) = none := by rw [e]; exact lexPre_upper c _ hc
    have hv := lexVariable_append x.toList rest ⟨c, w, e, hc, hw⟩ hr
    have hop := operand_var f0 (x.toList ++ rest) (skip_of_startsSolid hsolid) hneg h0 hv
    simp only [Term.printL, seqT, hop, htail (f0 + 1) (by simp only [List.length_append] at hf; omega),
      String.ofList_toList]
    rfl
  | neg a iha =>
    intro ht rest toks' r' hr htail f hf
    have hTa := iha ht
    obtain ⟨f0, rfl⟩ : ∃ f0, f = f0 + 1 := ⟨f - 1, by omega⟩
    simp only [Term.printL, List.cons_append, List.length_cons] at hf ⊢
    by_cases hp : 0 < a.prec
    · have e : parenLL (decide (0 < a.prec)) a.printL ++ rest = '(' :: (a.printL ++ ')' :: rest) := by
        simp [hp, parenLL]
      rw [e] at hf ⊢
      rw [seqT_minus f0 _ (skip_cons_solid _ ⟨by decide, by decide⟩) (by simp [lexInteger, isNonzeroDigit]),
        seq_paren hTa ht rest toks' r' htail (f0 + 1) (by omega)]
      simp [flat, hp]
    · have e : parenLL (decide (0 < a.prec)) a.printL ++ rest = a.printL ++ rest := by
        simp [hp, parenLL]
      rw [e] at hf ⊢
      rw [seqT_minus f0 _ (skip_of_startsSolid ((Term.printL_startsSolid a ht).append rest))
          (lexInteger_minus_printL a ht hp rest),
        hTa rest toks' r' hr htail (f0 + 1) (by omega)]
      simp [flat, hp]
  | bin op l r ihl ihr =>
    intro ht rest toks' r' hr htail f hf
    have hTl := ihl ht.1
    have hTr := ihr ht.2
    -- the right operand
    have hright := seq_arg hTr ht.2 ((Term.bin op l r).prec < r.prec || (Term.bin op l r).prec = r.prec)
      rest toks' r' hr htail
    -- the operator and the right operand, as the continuation of the left operand
    have htail_l : ∀ f, 2 * (op.printL ++ (argL ((Term.bin op l r).prec < r.prec || (Term.bin op l r).prec = r.prec) r ++ rest)).length < f →
        tailT f (op.printL ++ (argL ((Term.bin op l r).prec < r.prec || (Term.bin op l r).prec = r.prec) r ++ rest)) =
          (.op op :: (flatArg ((Term.bin op l r).prec < r.prec || (Term.bin op l r).prec = r.prec) r ++ toks'), r') := by
      intro f hf2
      obtain ⟨f0, rfl⟩ : ∃ f0, f = f0 + 1 := ⟨f - 1, by omega⟩
      obtain ⟨rr, h1, h2, h3⟩ := binop_lex op _ ((argL_startsSolid _ r ht.2).append rest)
      have hlen := op.printL_length
      simp only [List.length_append] at hf2 h3
      rw [tailT_succ, h1]
      simp only [h2]
      rw [hright f0 (by simp only [List.length_append]; omega)]
    have hleft := seq_arg hTl ht.1 ((Term.bin op l r).prec < l.prec) _ _ r' (op.printL_noId _) htail_l f
      (by simpa [Term.printL, argL, List.append_assoc] using hf)
    have e : (Term.bin op l r).printL ++ rest =
        argL ((Term.bin op l r).prec < l.prec) l ++ (op.printL ++
          (argL ((Term.bin op l r).prec < r.prec || (Term.bin op l r).prec = r.prec) r ++ rest)) := by
      simp [Term.printL, argL, List.append_assoc]
    rw [e, hleft]
    simp [flat, flatArg, List.append_assoc]

/-- **Parsing the printed text of a term returns the term** (in front of text that starts with a
    character that continues neither a name nor a numeral and - after white space - no operator). -/
theorem termL_printL (t : Term) (ht : t.WF) (rest : List Char) (hr : NoId rest)
    (hb : lexBinop (skip rest) = none) (f : Nat) (hf : 2 * (t.printL ++ rest).length < f) :
    termL (f + 1) (t.printL ++ rest) = some (t, rest) := by
  rw [termL_succ, seqOK t ht rest [] rest hr (fun f' _ => tailT_stop f' rest hb) f hf]
  simp only [List.append_nil, pratt_flat_eq]

end Anthem.Asp
