/-
  Freshness of `choose_fresh_variable_names` (used by tau*, and by restrict_quantifier_domain):
  the chosen names are pairwise distinct, not among the taken names, and there are `arity` of them.
  Pigeonhole on the injective family `variant ++ toString j`.
-/
import Std.Data.String.ToNat
import AnthemModel.Model.Fresh
namespace Anthem

theorem cand_inj (variant : String) {i j : Nat} (h : variant ++ toString i = variant ++ toString j) :
    i = j := by
  simp only [String.append_right_inj] at h
  exact Nat.repr_injective h

/-- among `blocked.length + 1` consecutive candidates one is not blocked -/
theorem exists_free_candidate (variant : String) (blocked : List String) (m : Nat) :
    ∃ j, m ≤ j ∧ j ≤ m + blocked.length ∧ variant ++ toString j ∉ blocked := by
  by_cases h : ∃ j, m ≤ j ∧ j ≤ m + blocked.length ∧ variant ++ toString j ∉ blocked
  · exact h
  · exfalso
    have hall : ∀ j, m ≤ j → j ≤ m + blocked.length → variant ++ toString j ∈ blocked := by
      intro j h1 h2
      exact Classical.not_not.mp fun hn => h ⟨j, h1, h2, hn⟩
    let L := (List.range' m (blocked.length + 1)).map (fun j => variant ++ toString j)
    have hnd : L.Nodup := by
      have hr : (List.range' m (blocked.length + 1)).Nodup := List.nodup_range'
      exact List.Pairwise.map _ (fun a b hab hc => hab (cand_inj variant hc)) hr
    have hsub : L ⊆ blocked := by
      intro x hx
      simp only [L, List.mem_map, List.mem_range'_1] at hx
      obtain ⟨j, ⟨h1, h2⟩, rfl⟩ := hx
      exact hall j h1 (by omega)
    have := hnd.length_le_of_subset hsub
    simp [L] at this
    omega

theorem searchName_spec (variant : String) (taken fresh : List String) :
    ∀ (fuel m : Nat),
      (∃ j, m ≤ j ∧ j ≤ m + fuel ∧ variant ++ toString j ∉ taken ∧ variant ++ toString j ∉ fresh) →
      searchName variant taken fresh fuel m ∉ taken ∧ searchName variant taken fresh fuel m ∉ fresh := by
  intro fuel
  induction fuel with
  | zero =>
    intro m ⟨j, h1, h2, h3, h4⟩
    have : j = m := by omega
    subst this
    exact ⟨h3, h4⟩
  | succ fuel ih =>
    intro m ⟨j, h1, h2, h3, h4⟩
    simp only [searchName]
    split
    · rename_i hmem
      simp only [Bool.or_eq_true, decide_eq_true_eq] at hmem
      have hne : j ≠ m := by
        intro e; subst e
        rcases hmem with hm | hm
        · exact h3 hm
        · exact h4 hm
      exact ih (m + 1) ⟨j, by omega, by omega, h3, h4⟩
    · rename_i hmem
      simp only [Bool.or_eq_true, decide_eq_true_eq, not_or] at hmem
      exact hmem

theorem searchName_fresh (variant : String) (taken fresh : List String) (m : Nat) :
    searchName variant taken fresh (taken.length + fresh.length + 1) m ∉ taken ∧
    searchName variant taken fresh (taken.length + fresh.length + 1) m ∉ fresh := by
  apply searchName_spec
  obtain ⟨j, h1, h2, h3⟩ := exists_free_candidate variant (taken ++ fresh) m
  simp only [List.length_append, List.mem_append, not_or] at h2 h3
  exact ⟨j, h1, by omega, h3.1, h3.2⟩

theorem chooseFreshLoop_spec (variant : String) (taken : List String) :
    ∀ (ns : List Nat) (fresh : List String), fresh.Nodup → (∀ x ∈ fresh, x ∉ taken) →
      (chooseFreshLoop variant taken ns fresh).Nodup ∧
      (∀ x ∈ chooseFreshLoop variant taken ns fresh, x ∉ taken) ∧
      (chooseFreshLoop variant taken ns fresh).length = fresh.length + ns.length := by
  intro ns
  induction ns with
  | nil => intro fresh h1 h2; exact ⟨h1, h2, rfl⟩
  | cons n ns ih =>
    intro fresh h1 h2
    simp only [chooseFreshLoop]
    obtain ⟨hc1, hc2⟩ := searchName_fresh variant taken fresh n
    have := ih (fresh ++ [searchName variant taken fresh (taken.length + fresh.length + 1) n])
      (by
        rw [List.nodup_append]
        refine ⟨h1, (by simp), ?_⟩
        intro a ha b hb
        simp only [List.mem_singleton] at hb
        subst hb
        exact fun e => hc2 (e ▸ ha))
      (by
        intro x hx
        simp only [List.mem_append, List.mem_singleton] at hx
        rcases hx with hx | rfl
        · exact h2 x hx
        · exact hc1)
    refine ⟨this.1, this.2.1, ?_⟩
    rw [this.2.2]; simp; omega

/-- `choose_fresh_variable_names` returns `arity` pairwise distinct names, none of them taken. -/
theorem chooseFresh_spec (taken : List String) (variant : String) (arity : Nat) :
    (chooseFresh taken variant arity).Nodup ∧ (∀ x ∈ chooseFresh taken variant arity, x ∉ taken) ∧
    (chooseFresh taken variant arity).length = arity := by
  unfold chooseFresh
  split
  · rename_i h
    have : arity = 0 := by omega
    subst this
    exact ⟨List.nodup_nil, by simp, rfl⟩
  · rename_i h
    split
    · have := chooseFreshLoop_spec variant taken (List.range' 1 arity) [] List.nodup_nil (by simp)
      refine ⟨this.1, this.2.1, ?_⟩
      rw [this.2.2]; simp
    · rename_i hv
      have := chooseFreshLoop_spec variant taken (List.range' 1 (arity - 1)) [variant]
        ((by simp)) (by intro x hx; simp only [List.mem_singleton] at hx; subst hx; exact hv)
      refine ⟨this.1, this.2.1, ?_⟩
      rw [this.2.2]; simp; omega

/-- the single name chosen for arity 1 is not taken (the `headD` default is never used) -/
theorem chooseFresh_one (taken : List String) (variant : String) :
    (chooseFresh taken variant 1).headD variant ∉ taken := by
  obtain ⟨_, h2, h3⟩ := chooseFresh_spec taken variant 1
  match h : chooseFresh taken variant 1 with
  | [] => rw [h] at h3; simp at h3
  | x :: _ => simp only [List.headD]; exact h2 x (by rw [h]; exact List.mem_cons_self)

end Anthem
