/-
  C04, formula level: what `completion` builds from the tau* theory of a program.
  Part 1: tau* formulas are closed and have the shape `completion` expects.
-/
import AnthemModel.Proofs.Fages
import AnthemModel.Proofs.RewritesFV
import AnthemModel.Proofs.StrongSem
import AnthemModel.Model.Completion
namespace Anthem
open Asp

/-! ## free variables of tau* formulas -/

/-- a general-sorted variable named by one of `names` -/
def GenIn (names : List String) (v : Var) : Prop := v.sort = .general ∧ v.name ∈ names

theorem FV_cmp1 {l t : GTerm} {r : Rel} {v : Var} (h : (cmp1 l r t).FV v) : v ∈ l.vars ∨ v ∈ t.vars := by
  simp only [cmp1, Formula.FV] at h
  rcases mem_cmp_vars.mp h with h | ⟨g, hg, h⟩
  · exact Or.inl h
  · simp only [List.mem_singleton] at hg; subst hg; exact Or.inr h

theorem preToGTerm_vars (p : Pre) : (preToGTerm p).vars = [] := by
  cases p <;> rfl

theorem val_FV : ∀ (t : Term) (z v : Var), (val t z).FV v → v = z ∨ GenIn t.vars v := by
  intro t
  induction t with
  | pre p =>
    intro z v h
    simp only [val] at h
    rcases FV_cmp1 h with h | h
    · rw [toTerm_vars, List.mem_singleton] at h; exact Or.inl h
    · rw [preToGTerm_vars] at h; cases h
  | var x =>
    intro z v h
    simp only [val] at h
    rcases FV_cmp1 h with h | h
    · rw [toTerm_vars, List.mem_singleton] at h; exact Or.inl h
    · simp only [GTerm.vars, List.mem_singleton] at h
      subst h
      exact Or.inr ⟨rfl, by simp [Term.vars]⟩
  | neg a ih =>
    intro z v h
    simp only [val, totalFunction, Formula.FV] at h
    obtain ⟨h1, h2⟩ := h
    simp only [List.mem_cons, List.not_mem_nil, or_false, not_or] at h2
    rcases h1 with (h1 | h1) | h1
    · rcases FV_cmp1 h1 with h | h
      · rw [toTerm_vars, List.mem_singleton] at h; exact Or.inl h
      · simp only [GTerm.vars, ITerm.vars, mem_ext, List.mem_singleton] at h
        rcases h with h | h
        · exact absurd h h2.1
        · exact absurd h h2.2
    · rcases FV_cmp1 h1 with h | h
      · simp only [GTerm.vars, ITerm.vars, List.mem_singleton] at h; exact absurd h h2.1
      · simp [GTerm.vars, ITerm.vars] at h
    · rcases ih _ v h1 with h | h
      · exact absurd h h2.2
      · exact Or.inr h
  | bin op l r ihl ihr =>
    intro z v h
    have hl : ∀ zz, (val l zz).FV v → v = zz ∨ GenIn (Term.bin op l r).vars v := fun zz hh =>
      (ihl zz v hh).imp id fun hg => ⟨hg.1, by simp [Term.vars, mem_ext, hg.2]⟩
    have hr : ∀ zz, (val r zz).FV v → v = zz ∨ GenIn (Term.bin op l r).vars v := fun zz hh =>
      (ihr zz v hh).imp id fun hg => ⟨hg.1, by simp [Term.vars, mem_ext, hg.2]⟩
    have total : ∀ (iop : IOp) (i j : String), (totalFunction (val l ⟨i, .integer⟩) (val r ⟨j, .integer⟩) iop i j z).FV v →
        v = z ∨ GenIn (Term.bin op l r).vars v := by
      intro iop i j h
      simp only [totalFunction, Formula.FV] at h
      obtain ⟨h1, h2⟩ := h
      simp only [List.mem_cons, List.not_mem_nil, or_false, not_or] at h2
      rcases h1 with (h1 | h1) | h1
      · rcases FV_cmp1 h1 with h | h
        · rw [toTerm_vars, List.mem_singleton] at h; exact Or.inl h
        · simp only [GTerm.vars, ITerm.vars, mem_ext, List.mem_singleton] at h
          rcases h with h | h
          · exact absurd h h2.1
          · exact absurd h h2.2
      · rcases hl _ h1 with h | h
        · exact absurd h h2.1
        · exact Or.inr h
      · rcases hr _ h1 with h | h
        · exact absurd h h2.2
        · exact Or.inr h
    simp only [val] at h
    cases op with
    | add => exact total _ _ _ h
    | sub => exact total _ _ _ h
    | mul => exact total _ _ _ h
    | div | mod =>
      all_goals
        simp only [partialFunction, Formula.FV] at h
        obtain ⟨h1, h2⟩ := h
        simp only [List.mem_cons, List.not_mem_nil, or_false, not_or] at h2
        rcases h1 with ((h1 | (h1 | h1)) | ((h1 | h1) | h1)) | h1
        · rcases FV_cmp1 h1 with h | h
          · simp only [GTerm.vars, ITerm.vars, List.mem_singleton] at h; exact absurd h h2.1
          · simp only [GTerm.vars, ITerm.vars, mem_ext, List.mem_singleton] at h
            rcases h with (h | h) | h
            · exact absurd h h2.2.1
            · exact absurd h h2.2.2.1
            · exact absurd h h2.2.2.2
        · rcases hl _ h1 with h | h
          · exact absurd h h2.1
          · exact Or.inr h
        · rcases hr _ h1 with h | h
          · exact absurd h h2.2.1
          · exact Or.inr h
        · rcases FV_cmp1 h1 with h | h
          · simp only [GTerm.vars, ITerm.vars, List.mem_singleton] at h; exact absurd h h2.2.1
          · simp [GTerm.vars, ITerm.vars] at h
        · rcases FV_cmp1 h1 with h | h
          · simp only [GTerm.vars, ITerm.vars, List.mem_singleton] at h; exact absurd h h2.2.2.2
          · simp [GTerm.vars, ITerm.vars] at h
        · rcases FV_cmp1 h1 with h | h
          · simp only [GTerm.vars, ITerm.vars, List.mem_singleton] at h; exact absurd h h2.2.2.2
          · simp only [GTerm.vars, ITerm.vars, List.mem_singleton] at h; exact absurd h h2.2.1
        · rcases FV_cmp1 h1 with h | h
          · rw [toTerm_vars, List.mem_singleton] at h; exact Or.inl h
          · simp only [GTerm.vars, ITerm.vars, List.mem_singleton] at h
            split at h
            · exact absurd h h2.2.2.1
            · exact absurd h h2.2.2.2
    | interval =>
      simp only [intervalFormula, Formula.FV] at h
      obtain ⟨h1, h2⟩ := h
      simp only [List.mem_cons, List.not_mem_nil, or_false, not_or] at h2
      rcases h1 with ((h1 | h1) | h1) | h1
      · rcases hl _ h1 with h | h
        · exact absurd h h2.1
        · exact Or.inr h
      · rcases hr _ h1 with h | h
        · exact absurd h h2.2.1
        · exact Or.inr h
      · rcases FV_cmp1 h1 with h | h
        · rw [toTerm_vars, List.mem_singleton] at h; exact Or.inl h
        · simp only [GTerm.vars, ITerm.vars, List.mem_singleton] at h; exact absurd h h2.2.2
      · rcases mem_cmp_vars.mp h1 with h | ⟨g, hg, h⟩
        · simp only [GTerm.vars, ITerm.vars, List.mem_singleton] at h; exact absurd h h2.1
        · simp only [List.mem_cons, List.not_mem_nil, or_false] at hg
          rcases hg with rfl | rfl
          · simp only [GTerm.vars, ITerm.vars, List.mem_singleton] at h; exact absurd h h2.2.2
          · simp only [GTerm.vars, ITerm.vars, List.mem_singleton] at h; exact absurd h h2.2.1

theorem FV_signed {s : Sign} {A : Formula} {v : Var} (h : (signed s A).FV v) : A.FV v := by
  cases s <;> exact h

theorem genIn_mem_sortedGeneral {names : List String} {v : Var} (h : GenIn names v) : v ∈ sortedGeneral names := by
  obtain ⟨n, s⟩ := v
  obtain ⟨hs, hn⟩ := h
  simp only at hs hn
  subst hs
  exact mem_sortedGeneral.mpr ⟨n, hn, rfl⟩

theorem FV_atom_vars {p : String} {zs : List String} {v : Var}
    (h : (Formula.atomic (.atom ⟨p, zs.map GTerm.var⟩)).FV v) : GenIn zs v := by
  simp only [Formula.FV, AtomicF.vars] at h
  rw [mem_foldl_ext] at h
  simp only [List.not_mem_nil, false_or, List.mem_map] at h
  obtain ⟨t, ⟨z, hz, rfl⟩, hv⟩ := h
  simp only [GTerm.vars, List.mem_singleton] at hv
  subst hv
  exact ⟨rfl, hz⟩

theorem valsConj_FV {args : List Term} {zs : List String} {v : Var}
    (h : (conjoin ((args.zip zs).map fun (t, z) => val t ⟨z, .general⟩)).FV v) :
    GenIn zs v ∨ ∃ t ∈ args, GenIn t.vars v := by
  obtain ⟨f, hf, hv⟩ := FV_conjoin h
  simp only [List.mem_map, Prod.exists] at hf
  obtain ⟨t, z, hm, rfl⟩ := hf
  rcases val_FV t _ v hv with rfl | hg
  · exact Or.inl ⟨rfl, (List.of_mem_zip hm).2⟩
  · exact Or.inr ⟨t, (List.of_mem_zip hm).1, hg⟩

theorem tauB_FV (f : BodyAtom) (v : Var) (h : (tauB f).FV v) : GenIn f.vars v := by
  cases f with
  | lit l =>
    obtain ⟨s, a⟩ := l
    unfold tauB at h
    simp only at h
    split at h
    · obtain ⟨h1, h2⟩ := h
      have hnz : ¬ GenIn (chooseFresh (BodyAtom.lit ⟨s, a⟩).vars "Z" a.args.length) v := by
        intro hg
        apply h2
        obtain ⟨n, srt⟩ := v
        obtain ⟨hs, hn⟩ := hg
        simp only at hs hn
        subst hs
        exact List.mem_map.mpr ⟨n, hn, rfl⟩
      rcases h1 with h1 | h1
      · rcases valsConj_FV h1 with hg | ⟨t, ht, hg⟩
        · exact absurd hg hnz
        · exact ⟨hg.1, mem_atom_vars.mpr ⟨t, ht, hg.2⟩⟩
      · exact absurd (FV_atom_vars (FV_signed h1)) hnz
    · have := FV_signed h
      simp [Formula.FV, AtomicF.vars] at this
  | cmp rel l r =>
    unfold tauB at h
    simp only at h
    obtain ⟨h1, h2⟩ := h
    simp only [List.mem_cons, List.not_mem_nil, or_false, not_or] at h2
    rcases h1 with (h1 | h1) | h1
    · rcases val_FV l _ v h1 with h | hg
      · exact absurd h h2.1
      · exact ⟨hg.1, by simp [BodyAtom.vars, mem_ext, hg.2]⟩
    · rcases val_FV r _ v h1 with h | hg
      · exact absurd h h2.2
      · exact ⟨hg.1, by simp [BodyAtom.vars, mem_ext, hg.2]⟩
    · rcases FV_cmp1 h1 with h | h
      · simp only [GTerm.vars, List.mem_singleton] at h; exact absurd h h2.1
      · simp only [GTerm.vars, List.mem_singleton] at h; exact absurd h h2.2

theorem tauBody_FV (b : List BodyAtom) (v : Var) (h : (tauBody b).FV v) : GenIn (bodyVars b) v := by
  unfold tauBody at h
  obtain ⟨F, hF, hv⟩ := FV_conjoin h
  obtain ⟨f, hf, rfl⟩ := List.mem_map.mp hF
  have := tauB_FV f v hv
  exact ⟨this.1, mem_bodyVars.mpr ⟨f, hf, this.2⟩⟩

/-- **every tau\* formula is closed** -/
theorem tauStarRule_closed (r : Rule) (globals : List String) (v : Var) : ¬ (tauStarRule r globals).FV v := by
  have hbody : ∀ v, (tauBody r.body).FV v → GenIn r.vars v := fun v hv =>
    ⟨(tauBody_FV r.body v hv).1, body_vars_subset r _ (tauBody_FV r.body v hv).2⟩
  have hclose : ∀ (names : List String) (G : Formula), (∀ v, G.FV v → GenIn names v) →
      ¬ (if (sortedGeneral names).isEmpty then G else .quant .all (sortedGeneral names) G).FV v := by
    intro names G hG hv
    split at hv
    · rename_i he
      have := sortedGeneral_isEmpty he
      subst this
      exact absurd (hG v hv).2 (by simp)
    · exact hv.2 (genIn_mem_sortedGeneral (hG v hv.1))
  intro hv
  cases hh : r.head with
  | falsity =>
    unfold tauStarRule at hv
    simp only [hh] at hv
    refine hclose r.vars _ (fun v hv => ?_) hv
    rcases hv with hv | hv
    · exact hbody v hv
    · exact absurd hv (FV_fls v)
  | basic a | choice a =>
    all_goals
      first
        | rw [tauStarRule_basic r a globals hh] at hv
        | rw [tauStarRule_choice r a globals hh] at hv
      have hargs := head_vars_subset r a (by simp [hh])
      unfold headRuleFormula at hv
      split at hv
      · obtain ⟨h1, h2⟩ := hv
        apply h2
        apply genIn_mem_sortedGeneral
        have hcore : ∀ v, (Formula.bin .and (conjoin ((a.args.zip (globals.take a.args.length)).map
            fun (t, v) => val t ⟨v, .general⟩)) (tauBody r.body)).FV v →
            GenIn (r.vars ++ globals.take a.args.length) v := by
          intro v hv
          rcases hv with hv | hv
          · rcases valsConj_FV hv with hg | ⟨t, ht, hg⟩
            · exact ⟨hg.1, List.mem_append_right _ hg.2⟩
            · exact ⟨hg.1, List.mem_append_left _ (hargs t ht _ hg.2)⟩
          · exact ⟨(hbody v hv).1, List.mem_append_left _ (hbody v hv).2⟩
        have hhead : ∀ v, (Formula.atomic (.atom ⟨a.pred, (globals.take a.args.length).map GTerm.var⟩)).FV v →
            GenIn (r.vars ++ globals.take a.args.length) v := fun v hv =>
          ⟨(FV_atom_vars hv).1, List.mem_append_right _ (FV_atom_vars hv).2⟩
        rcases h1 with h1 | h1
        · split at h1
          · rcases h1 with h1 | h1
            · exact hcore v h1
            · exact hhead v h1
          · exact hcore v h1
        · exact hhead v h1
      · refine hclose r.vars _ (fun v hv => ?_) hv
        have hhead : ¬ (Formula.atomic (.atom ⟨a.pred, []⟩)).FV v := by simp [Formula.FV, AtomicF.vars]
        rcases hv with hv | hv
        · split at hv
          · rcases hv with hv | hv
            · exact hbody v hv
            · exact absurd hv hhead
          · exact hbody v hv
        · exact absurd hv hhead

theorem tauStarRule_fv_nil (r : Rule) (globals : List String) : (tauStarRule r globals).fv = [] :=
  List.eq_nil_iff_forall_not_mem.mpr fun v hv => tauStarRule_closed r globals v (Formula.mem_fv.mp hv)

/-! ## the components `completion` extracts from a tau* theory -/

/-- head atom of the tau* formula of a rule with head `a` -/
def tauHeadAtom (a : Asp.Atom) (globals : List String) : Anthem.Atom :=
  ⟨a.pred, (globals.take a.args.length).map GTerm.var⟩

/-- antecedent of the tau* formula of a rule with head `a` -/
def tauRuleBody (choice : Bool) (a : Asp.Atom) (r : Rule) (globals : List String) : Formula :=
  let core :=
    if a.args.length > 0 then
      Formula.bin .and (conjoin ((a.args.zip (globals.take a.args.length)).map fun (t, v) => val t ⟨v, .general⟩))
        (tauBody r.body)
    else tauBody r.body
  if choice then .bin .and core (.not (.not (.atomic (.atom (tauHeadAtom a globals))))) else core

def ruleComponent (r : Rule) (globals : List String) : Component :=
  match r.head with
  | .falsity => .constraint (.bin .imp (tauBody r.body) .fls)
  | .basic a => .partialDef (tauRuleBody false a r globals) (tauHeadAtom a globals)
  | .choice a => .partialDef (tauRuleBody true a r globals) (tauHeadAtom a globals)

theorem allUnique_iff_nodup' {α} [DecidableEq α] (l : List α) : allUnique l = true ↔ l.Nodup := by
  induction l with
  | nil => simp [allUnique]
  | cons x xs ih => simp [allUnique, ih]

theorem splitImplication_head (body : Formula) (p : String) (zs : List String) (hn : zs.Nodup) :
    splitImplication (.bin .imp body (.atomic (.atom ⟨p, zs.map GTerm.var⟩))) =
      some (.partialDef body ⟨p, zs.map GTerm.var⟩) := by
  have hmap : (zs.map GTerm.var).map GTerm.asVar? = zs.map fun z => some (⟨z, .general⟩ : Var) := by
    rw [List.map_map]; rfl
  have h2 : allUnique ((zs.map GTerm.var).map GTerm.asVar?) = true := by
    rw [allUnique_iff_nodup', hmap]
    exact List.Pairwise.map _ (fun a b hab hc => hab (by injection hc with hc; injection hc)) hn
  unfold splitImplication
  simp
  exact ⟨fun x _ => by simp [GTerm.asVar?], by simpa [List.map_map] using h2⟩

theorem splitImplication_fls (body : Formula) :
    splitImplication (.bin .imp body .fls) = some (.constraint (.bin .imp body .fls)) := by
  unfold splitImplication
  simp [Formula.fls]

theorem split_quant (vs : List Var) (A B : Formula) (h : (Formula.quant .all vs (.bin .imp A B)).fv = []) :
    split (.quant .all vs (.bin .imp A B)) = splitImplication (.bin .imp A B) := by
  unfold split
  rw [h]; rfl

theorem split_imp (A B : Formula) (h : (Formula.bin .imp A B).fv = []) :
    split (.bin .imp A B) = splitImplication (.bin .imp A B) := by
  unfold split
  rw [h]; rfl

theorem split_close (names : List String) (A B : Formula)
    (h : (if (sortedGeneral names).isEmpty then Formula.bin .imp A B
      else .quant .all (sortedGeneral names) (.bin .imp A B)).fv = []) :
    split (if (sortedGeneral names).isEmpty then Formula.bin .imp A B
      else .quant .all (sortedGeneral names) (.bin .imp A B)) = splitImplication (.bin .imp A B) := by
  by_cases he : (sortedGeneral names).isEmpty = true
  · rw [if_pos he] at h ⊢; exact split_imp A B h
  · rw [if_neg he] at h ⊢; exact split_quant _ A B h

theorem headRuleFormula_split (choice : Bool) (a : Asp.Atom) (r : Rule) (globals : List String)
    (hn : globals.Nodup) (hfv : (headRuleFormula choice a r globals).fv = []) :
    split (headRuleFormula choice a r globals) =
      some (.partialDef (tauRuleBody choice a r globals) (tauHeadAtom a globals)) := by
  have hfn : (globals.take a.args.length).Nodup := hn.sublist (List.take_sublist _ _)
  unfold headRuleFormula at hfv ⊢
  unfold tauRuleBody tauHeadAtom
  by_cases hpos : a.args.length > 0
  · simp only [hpos, if_true] at hfv ⊢
    rw [split_quant _ _ _ hfv]
    exact splitImplication_head _ _ _ hfn
  · have h0 : a.args.length = 0 := by omega
    simp only [hpos, if_false] at hfv ⊢
    rw [split_close _ _ _ hfv]
    have := splitImplication_head (if choice = true then
        Formula.bin .and (tauBody r.body) (.not (.not (.atomic (.atom ⟨a.pred, []⟩)))) else tauBody r.body)
      a.pred [] List.nodup_nil
    simp only [List.map_nil] at this
    simp only [h0, List.take_zero, List.map_nil]
    exact this

theorem tauStarRule_split (r : Rule) (globals : List String) (hn : globals.Nodup) :
    split (tauStarRule r globals) = some (ruleComponent r globals) := by
  have hfv := tauStarRule_fv_nil r globals
  cases hh : r.head with
  | falsity =>
    unfold tauStarRule at hfv ⊢
    unfold ruleComponent
    simp only [hh] at hfv ⊢
    rw [split_close _ _ _ hfv]
    exact splitImplication_fls _
  | basic a =>
    rw [tauStarRule_basic r a globals hh] at hfv ⊢
    unfold ruleComponent
    rw [hh]
    exact headRuleFormula_split false a r globals hn hfv
  | choice a =>
    rw [tauStarRule_choice r a globals hh] at hfv ⊢
    unfold ruleComponent
    rw [hh]
    exact headRuleFormula_split true a r globals hn hfv

/-! ## grouping the partial definitions -/

def collectStep (acc : Definitions × List Formula) (c : Component) : Definitions × List Formula :=
  match c with
  | .constraint f => (acc.1, acc.2 ++ [f])
  | .partialDef f a => (acc.1.push a f, acc.2)

def collect (cs : List Component) (init : Definitions × List Formula) : Definitions × List Formula :=
  cs.foldl collectStep init

theorem components_foldlM (globals : List String) (hn : globals.Nodup) : ∀ (rules : List Rule)
    (init : Definitions × List Formula),
    (rules.map fun r => tauStarRule r globals).foldlM (fun (acc : Definitions × List Formula) formula =>
      match split formula with
      | none => none
      | some (.constraint c) => some (acc.1, acc.2 ++ [c])
      | some (.partialDef f a) => some (acc.1.push a f, acc.2)) init =
    some (collect (rules.map fun r => ruleComponent r globals) init) := by
  intro rules
  induction rules with
  | nil => intro init; rfl
  | cons r rs ih =>
    intro init
    simp only [List.map_cons, List.foldlM_cons, tauStarRule_split r globals hn]
    cases hc : ruleComponent r globals with
    | constraint f => simp only [Option.bind_eq_bind, Option.bind_some]; rw [ih]; simp [collect, collectStep, hc]
    | partialDef f a => simp only [Option.bind_eq_bind, Option.bind_some]; rw [ih]; simp [collect, collectStep, hc]

theorem components_tauStar (P : Program) (hp : globalsPanic P = false) :
    components (tauStar P) = some (collect (P.map fun r => ruleComponent r (chooseFreshGlobals P)) ([], [])) := by
  unfold components tauStar
  exact components_foldlM _ (chooseFreshGlobals_spec P hp).1 P ([], [])

/-- keys are pairwise distinct, and the entry of an atom lists exactly the bodies pushed for it -/
def DefsSpec (d : Definitions) (pushed : Anthem.Atom → Formula → Prop) : Prop :=
  (d.map (·.1)).Nodup ∧ ∀ a f, (∃ fs, (a, fs) ∈ d ∧ f ∈ fs) ↔ pushed a f

theorem push_spec (d : Definitions) (pushed : Anthem.Atom → Formula → Prop) (h : DefsSpec d pushed)
    (a : Anthem.Atom) (f : Formula) :
    DefsSpec (d.push a f) (fun a' f' => pushed a' f' ∨ (a' = a ∧ f' = f)) := by
  obtain ⟨hnd, hmem⟩ := h
  unfold Definitions.push
  split
  · rename_i hany
    simp only [List.any_eq_true, decide_eq_true_eq] at hany
    refine ⟨?_, ?_⟩
    · have : (d.map fun e => if e.1 = a then (e.1, e.2 ++ [f]) else e).map (·.1) = d.map (·.1) := by
        rw [List.map_map]
        apply List.map_congr_left
        intro e _
        simp only [Function.comp]
        split <;> rfl
      rw [this]; exact hnd
    · intro a' f'
      simp only [List.mem_map]
      constructor
      · rintro ⟨fs, ⟨e, he, heq⟩, hf⟩
        split at heq
        · rename_i hea
          injection heq with h1 h2
          subst h1; subst h2
          rcases List.mem_append.mp hf with hf | hf
          · exact Or.inl ((hmem _ _).mp ⟨e.2, he, hf⟩)
          · simp only [List.mem_singleton] at hf
            exact Or.inr ⟨hea, hf⟩
        · subst heq
          exact Or.inl ((hmem _ _).mp ⟨fs, he, hf⟩)
      · rintro (hp | ⟨rfl, rfl⟩)
        · obtain ⟨fs, he, hf⟩ := (hmem _ _).mpr hp
          by_cases hea : a' = a
          · exact ⟨fs ++ [f], ⟨(a', fs), he, by simp [hea]⟩, List.mem_append_left _ hf⟩
          · exact ⟨fs, ⟨(a', fs), he, by simp [hea]⟩, hf⟩
        · obtain ⟨e, he, hea⟩ := hany
          exact ⟨e.2 ++ [f'], ⟨e, he, by simp [hea]⟩, by simp⟩
  · rename_i hany
    simp only [List.any_eq_true, decide_eq_true_eq, not_exists, not_and] at hany
    refine ⟨?_, ?_⟩
    · rw [List.map_append, List.nodup_append]
      refine ⟨hnd, by simp, ?_⟩
      intro x hx y hy
      simp only [List.map_cons, List.map_nil, List.mem_singleton] at hy
      subst hy
      obtain ⟨e, he, rfl⟩ := List.mem_map.mp hx
      exact hany e he
    · intro a' f'
      simp only [List.mem_append, List.mem_singleton, Prod.mk.injEq]
      constructor
      · rintro ⟨fs, he | ⟨rfl, rfl⟩, hf⟩
        · exact Or.inl ((hmem _ _).mp ⟨fs, he, hf⟩)
        · simp only [List.mem_singleton] at hf
          exact Or.inr ⟨rfl, hf⟩
      · rintro (hp | ⟨rfl, rfl⟩)
        · obtain ⟨fs, he, hf⟩ := (hmem _ _).mpr hp
          exact ⟨fs, Or.inl he, hf⟩
        · exact ⟨[f'], Or.inr ⟨rfl, rfl⟩, by simp⟩

theorem collect_spec : ∀ (cs : List Component) (init : Definitions × List Formula)
    (pushed : Anthem.Atom → Formula → Prop), DefsSpec init.1 pushed →
    DefsSpec (collect cs init).1 (fun a f => pushed a f ∨ Component.partialDef f a ∈ cs) ∧
    (∀ c, c ∈ (collect cs init).2 ↔ c ∈ init.2 ∨ Component.constraint c ∈ cs) := by
  intro cs
  induction cs with
  | nil =>
    intro init pushed h
    refine ⟨⟨h.1, fun a f => ?_⟩, fun c => by simp [collect]⟩
    simpa [collect] using h.2 a f
  | cons c cs ih =>
    intro init pushed h
    simp only [collect, List.foldl_cons, collectStep]
    cases c with
    | constraint f =>
      have := ih (init.1, init.2 ++ [f]) pushed h
      simp only [collect] at this
      refine ⟨?_, ?_⟩
      · have h1 := this.1
        refine ⟨h1.1, fun a g => (h1.2 a g).trans ?_⟩
        simp
      · intro c'
        rw [this.2 c']
        simp only [List.mem_append, List.mem_cons, List.not_mem_nil, or_false, Component.constraint.injEq]
        constructor
        · rintro ((h | h) | h)
          · exact Or.inl h
          · exact Or.inr (Or.inl h)
          · exact Or.inr (Or.inr h)
        · rintro (h | h | h)
          · exact Or.inl (Or.inl h)
          · exact Or.inl (Or.inr h)
          · exact Or.inr h
    | partialDef f a =>
      have := ih (init.1.push a f, init.2) _ (push_spec init.1 pushed h a f)
      simp only [collect] at this
      refine ⟨?_, ?_⟩
      · have h1 := this.1
        refine ⟨h1.1, fun a' g => (h1.2 a' g).trans ?_⟩
        simp only [List.mem_cons, Component.partialDef.injEq]
        constructor
        · rintro ((h | ⟨rfl, rfl⟩) | h)
          · exact Or.inl h
          · exact Or.inr (Or.inl ⟨rfl, rfl⟩)
          · exact Or.inr (Or.inr h)
        · rintro (h | ⟨rfl, rfl⟩ | h)
          · exact Or.inl (Or.inl h)
          · exact Or.inl (Or.inr ⟨rfl, rfl⟩)
          · exact Or.inr h
      · intro c'
        rw [this.2 c']
        simp

/-! ## the tail of `completion`: empty definitions, head mismatches, inputs -/

theorem atomFromPred_predicate (p : Pred) : (atomFromPred p).predicate = p := by
  obtain ⟨s, n⟩ := p
  simp [atomFromPred, Anthem.Atom.predicate, (chooseFresh_spec ["V"] "V" n).2.2]

theorem mem_explicitPreds (explicit : Definitions) (q : Pred) :
    q ∈ explicit.foldl (fun acc e => ins acc e.1.predicate) [] ↔ ∃ e ∈ explicit, e.1.predicate = q := by
  suffices h : ∀ (l : Definitions) (init : List Pred),
      q ∈ l.foldl (fun acc e => ins acc e.1.predicate) init ↔ q ∈ init ∨ ∃ e ∈ l, e.1.predicate = q by
    simpa using h explicit []
  intro l
  induction l with
  | nil => intro init; simp
  | cons e l ih =>
    intro init
    simp only [List.foldl_cons, ih, mem_ins, List.mem_cons, exists_eq_or_imp]
    constructor
    · rintro ((h | h) | h)
      · exact Or.inl h
      · exact Or.inr (Or.inl h.symm)
      · exact Or.inr (Or.inr h)
    · rintro (h | h | h)
      · exact Or.inl (Or.inl h)
      · exact Or.inl (Or.inr h.symm)
      · exact Or.inr h

/-- entries are explicit ones or empty definitions of predicates without explicit definition -/
def TailInv (explicit : Definitions) (d : Definitions) : Prop :=
  ∀ e ∈ d, e ∈ explicit ∨ (e.2 = [] ∧ e.1 = atomFromPred e.1.predicate ∧ ∀ e' ∈ explicit, e'.1.predicate ≠ e.1.predicate)

theorem addEmpty_mem (explicit d : Definitions) (hinv : TailInv explicit d) (p : Pred)
    (hp : ∀ e' ∈ explicit, e'.1.predicate ≠ p) :
    (∀ e, e ∈ d.addEmpty p ↔ e ∈ d ∨ e = (atomFromPred p, [])) ∧ TailInv explicit (d.addEmpty p) := by
  have hmem : ∀ e, e ∈ d.addEmpty p ↔ e ∈ d ∨ e = (atomFromPred p, []) := by
    intro e
    unfold Definitions.addEmpty
    simp only
    split
    · rename_i hany
      simp only [List.any_eq_true, decide_eq_true_eq] at hany
      obtain ⟨e0, he0, hk⟩ := hany
      have hsame : (d.map fun e => if e.1 = atomFromPred p then (atomFromPred p, []) else e) = d := by
        conv => rhs; rw [← List.map_id d]
        apply List.map_congr_left
        intro x hx
        simp only [id]
        split
        · rename_i hxa
          rcases hinv x hx with h | ⟨h2, _, _⟩
          · exact absurd (by rw [hxa, atomFromPred_predicate]) (hp x h)
          · rw [← hxa, ← h2]
        · rfl
      rw [hsame]
      constructor
      · exact Or.inl
      · rintro (h | rfl)
        · exact h
        · rcases hinv e0 he0 with h | ⟨h2, _, _⟩
          · exact absurd (by rw [hk, atomFromPred_predicate]) (hp e0 h)
          · have : e0 = (atomFromPred p, []) := by rw [← hk, ← h2]
            rw [← this]; exact he0
    · simp [List.mem_append]
  refine ⟨hmem, ?_⟩
  intro e he
  rcases (hmem e).mp he with h | rfl
  · exact hinv e h
  · right
    refine ⟨rfl, ?_, ?_⟩
    · simp only [atomFromPred_predicate]
    · simp only [atomFromPred_predicate]; exact hp

theorem addEmpty_fold (explicit : Definitions) : ∀ (ps : List Pred) (d : Definitions), TailInv explicit d →
    (∀ p ∈ ps, ∀ e' ∈ explicit, e'.1.predicate ≠ p) →
    (∀ e, e ∈ ps.foldl Definitions.addEmpty d ↔ e ∈ d ∨ ∃ p ∈ ps, e = (atomFromPred p, [])) ∧
      TailInv explicit (ps.foldl Definitions.addEmpty d) := by
  intro ps
  induction ps with
  | nil => intro d hinv _; exact ⟨fun e => by simp, hinv⟩
  | cons p ps ih =>
    intro d hinv hps
    obtain ⟨h1, h2⟩ := addEmpty_mem explicit d hinv p (hps p List.mem_cons_self)
    obtain ⟨h3, h4⟩ := ih (d.addEmpty p) h2 fun q hq => hps q (List.mem_cons_of_mem _ hq)
    refine ⟨fun e => ?_, h4⟩
    simp only [List.foldl_cons]
    rw [h3, h1]
    simp only [List.mem_cons, exists_eq_or_imp]
    exact or_assoc

theorem hasHeadMismatches_false (d : Definitions)
    (h : ∀ e ∈ d, ∀ e' ∈ d, e.1.predicate = e'.1.predicate → e.1 = e'.1) : hasHeadMismatches d = false := by
  unfold hasHeadMismatches
  rw [Bool.eq_false_iff]
  intro hany
  simp only [List.any_eq_true, Bool.and_eq_true, decide_eq_true_eq] at hany
  obtain ⟨e, he, e', he', hp, hne⟩ := hany
  exact hne (h e he e' he' hp)

/-- **The formulas of `completion`**, given the components and that explicit definitions of one
    predicate share their head atom. -/
theorem completion_formulas (t : Theory) (inputs : List Pred) (explicit : Definitions) (constraints : List Formula)
    (hc : components t = some (explicit, constraints))
    (hkeys : ∀ e ∈ explicit, ∀ e' ∈ explicit, e.1.predicate = e'.1.predicate → e.1 = e'.1) :
    ∃ Γ, completion t inputs = some Γ ∧ ∀ F, F ∈ Γ ↔
      (∃ c ∈ constraints, F = c.universalClosure) ∨
      (∃ e ∈ explicit, e.1.predicate ∉ inputs ∧ F = completeDefinition e.1 e.2) ∨
      (∃ p ∈ t.preds, p ∉ inputs ∧ (∀ e ∈ explicit, e.1.predicate ≠ p) ∧ F = completeDefinition (atomFromPred p) []) := by
  unfold completion
  simp only [hc]
  have hps : ∀ p ∈ t.preds.filter (· ∉ explicit.foldl (fun acc e => ins acc e.1.predicate) []),
      ∀ e' ∈ explicit, e'.1.predicate ≠ p := by
    intro p hp e' he' heq
    simp only [List.mem_filter, decide_eq_true_eq] at hp
    exact hp.2 ((mem_explicitPreds explicit p).mpr ⟨e', he', heq⟩)
  obtain ⟨hmem, hinv⟩ := addEmpty_fold explicit _ explicit (fun e he => Or.inl he) hps
  have hmis : hasHeadMismatches ((t.preds.filter (· ∉ explicit.foldl (fun acc e => ins acc e.1.predicate) [])).foldl
      Definitions.addEmpty explicit) = false := by
    apply hasHeadMismatches_false
    intro e he e' he' hp
    rcases hinv e he with h | ⟨_, h2, h3⟩ <;> rcases hinv e' he' with h' | ⟨_, h2', h3'⟩
    · exact hkeys e h e' h' hp
    · exact absurd hp (h3' e h)
    · exact absurd hp.symm (h3 e' h')
    · rw [h2, h2', hp]
  rw [hmis]
  simp only [Bool.false_eq_true, if_false]
  refine ⟨_, rfl, fun F => ?_⟩
  simp only [List.mem_append, List.mem_map, List.mem_filter, decide_eq_true_eq]
  constructor
  · rintro (⟨c, hc', rfl⟩ | ⟨e, ⟨he, hin⟩, rfl⟩)
    · exact Or.inl ⟨c, hc', rfl⟩
    · rcases (hmem e).mp he with h | ⟨p, hp, rfl⟩
      · exact Or.inr (Or.inl ⟨e, h, hin, rfl⟩)
      · simp only [List.mem_filter, decide_eq_true_eq] at hp
        rw [atomFromPred_predicate] at hin
        exact Or.inr (Or.inr ⟨p, hp.1, hin, hps p (by simp [List.mem_filter, hp]), rfl⟩)
  · rintro (⟨c, hc', rfl⟩ | ⟨e, he, hin, rfl⟩ | ⟨p, hp, hin, hne, rfl⟩)
    · exact Or.inl ⟨c, hc', rfl⟩
    · exact Or.inr ⟨e, ⟨(hmem e).mpr (Or.inl he), hin⟩, rfl⟩
    · refine Or.inr ⟨(atomFromPred p, []), ⟨(hmem _).mpr (Or.inr ⟨p, ?_, rfl⟩), ?_⟩, rfl⟩
      · simp only [List.mem_filter, decide_eq_true_eq]
        refine ⟨hp, fun hm => ?_⟩
        obtain ⟨e, he, heq⟩ := (mem_explicitPreds explicit p).mp hm
        exact hne e he heq
      · rw [atomFromPred_predicate]; exact hin

/-! ## meaning of one completed definition -/

theorem sat_disjoin (I : Interp) (ρ : Asg) (fs : List Formula) :
    sat I (disjoin fs) ρ ↔ ∃ f ∈ fs, sat I f ρ := by
  cases fs with
  | nil => simp [disjoin, Formula.fls, sat, AtomicF.sat]
  | cons f fs =>
    simp only [disjoin]
    suffices h : ∀ (l : List Formula) (acc : Formula),
        sat I (l.foldl (fun acc e => Formula.bin .or acc e) acc) ρ ↔ sat I acc ρ ∨ ∃ g ∈ l, sat I g ρ by
      rw [h fs f]; simp
    intro l
    induction l with
    | nil => intro acc; simp
    | cons e l ih =>
      intro acc
      simp only [List.foldl_cons, ih, sat, List.mem_cons, exists_eq_or_imp]
      exact or_assoc

theorem ht_same (T : PredI) (fc : FcI) (F : Formula) : ∀ (w : World) (ρ : Asg),
    ht ⟨T, T, fc⟩ F w ρ ↔ sat ⟨T, fc⟩ F ρ := by
  induction F with
  | atomic a => intro w ρ; cases w <;> rfl
  | not f ih => intro w ρ; simp only [ht, sat, ih]
  | bin c l r ihl ihr =>
    intro w ρ
    cases c <;> simp only [ht, sat, ihl, ihr, and_self]
    exact ⟨fun h => ⟨h.1, h.2⟩, fun h => ⟨h.1, h.2⟩⟩
  | quant q vs f ih =>
    intro w ρ
    cases q
    · simp only [ht, sat]; exact bindAll_congr (fun τ => ih w τ) ρ
    · simp only [ht, sat]; exact bindEx_congr (fun τ => ih w τ) ρ

theorem mem_headAtom_vars (q : String) (fvars : List String) (v : Var) :
    v ∈ (Anthem.Atom.vars ⟨q, fvars.map GTerm.var⟩) ↔ v ∈ fvars.map fun z => (⟨z, .general⟩ : Var) := by
  simp only [Anthem.Atom.vars, AtomicF.vars]
  rw [mem_foldl_ext]
  simp only [List.not_mem_nil, false_or, List.mem_map]
  constructor
  · rintro ⟨t, ⟨z, hz, rfl⟩, hv⟩
    simp only [GTerm.vars, List.mem_singleton] at hv
    exact ⟨z, hz, hv.symm⟩
  · rintro ⟨z, hz, rfl⟩
    exact ⟨.var z, ⟨z, hz, rfl⟩, by simp [GTerm.vars]⟩

/-- existential closure over the free variables other than `v`, all of them general-sorted -/
theorem bindEx_rest (I : Interp) (f : Formula) (v : List Var) (hgen : ∀ x, f.FV x → x.sort = .general) (τ : Asg) :
    bindEx (f.fv.filter (· ∉ v)) (sat I f) τ ↔ ∃ τ', (∀ x ∈ v, τ' x = τ x) ∧ sat I f τ' := by
  rw [bindEx_iff]
  constructor
  · rintro ⟨τ', hτ', hs⟩
    refine ⟨τ', fun x hx => hτ'.1 x (by simp [List.mem_filter, hx]), hs⟩
  · rintro ⟨τ'', hag, hs⟩
    let τ' : Asg := fun x => if x ∈ f.fv.filter (· ∉ v) then τ'' x else τ x
    refine ⟨τ', ⟨fun x hx => (by show (if _ then _ else _) = _; rw [if_neg hx]), fun x hx => ?_⟩, ?_⟩
    · have : f.FV x := Formula.mem_fv.mp (List.mem_filter.mp hx).1
      rw [hgen x this]; trivial
    · refine (sat_agree I f τ' τ'' fun x hx => ?_).mpr hs
      by_cases hxu : x ∈ f.fv.filter (· ∉ v)
      · show (if _ then _ else _) = _; rw [if_pos hxu]
      · show (if _ then _ else _) = _
        rw [if_neg hxu]
        have hxv : x ∈ v := by
          refine Classical.byContradiction fun hnv => hxu ?_
          exact List.mem_filter.mpr ⟨Formula.mem_fv.mpr hx, by simpa using hnv⟩
        exact (hag x hxv).symm

theorem completeDefinition_sem (I : Interp) (q : String) (fvars : List String) (hn : fvars.Nodup)
    (bodies : List Formula) (hgen : ∀ f ∈ bodies, ∀ x, f.FV x → x.sort = .general) (ρ : Asg) :
    sat I (completeDefinition ⟨q, fvars.map GTerm.var⟩ bodies) ρ ↔
      ∀ ds : List Dom, ds.length = fvars.length →
        (I.pred q ds ↔ ∃ f ∈ bodies, ∃ τ' : Asg, fvars.map (fun z => τ' ⟨z, .general⟩) = ds ∧ sat I f τ') := by
  unfold completeDefinition
  simp only
  rw [sat_quantify]
  simp only [sat]
  rw [bindAll_perm (mem_headAtom_vars q fvars), bindAll_fresh_general _ hn]
  refine forall_congr' fun ds => imp_congr_right fun hds => ?_
  have hm := assignGen_map ρ fvars ds hn hds.symm
  have hatom : AtomicF.sat I.pred I.fc (assignGen ρ fvars ds) (.atom ⟨q, fvars.map GTerm.var⟩) ↔ I.pred q ds := by
    simp only [AtomicF.sat, List.map_map]
    rw [show (GTerm.eval I.fc (assignGen ρ fvars ds) ∘ GTerm.var) = fun z => assignGen ρ fvars ds ⟨z, .general⟩ from rfl, hm]
  rw [hatom, sat_disjoin]
  refine iff_congr Iff.rfl ?_
  have key : ∀ f ∈ bodies, (sat I (f.quantify .ex (f.fv.filter (· ∉ Anthem.Atom.vars ⟨q, fvars.map GTerm.var⟩)))
      (assignGen ρ fvars ds) ↔ ∃ τ' : Asg, fvars.map (fun z => τ' ⟨z, .general⟩) = ds ∧ sat I f τ') := by
    intro f hf
    rw [sat_quantify]
    simp only [sat]
    rw [bindEx_rest I f _ (hgen f hf)]
    constructor
    · rintro ⟨τ', hag, hs⟩
      refine ⟨τ', ?_, hs⟩
      rw [← hm]
      apply List.map_congr_left
      intro z hz
      exact hag _ ((mem_headAtom_vars q fvars _).mpr (List.mem_map.mpr ⟨z, hz, rfl⟩))
    · rintro ⟨τ', hmap, hs⟩
      refine ⟨τ', fun x hx => ?_, hs⟩
      obtain ⟨z, hz, rfl⟩ := List.mem_map.mp ((mem_headAtom_vars q fvars x).mp hx)
      exact List.map_inj_left.mp (hmap.trans hm.symm) z hz
  constructor
  · rintro ⟨F, hF, hs⟩
    obtain ⟨f, hf, rfl⟩ := List.mem_map.mp hF
    exact ⟨f, hf, (key f hf).mp hs⟩
  · rintro ⟨f, hf, h⟩
    exact ⟨_, List.mem_map.mpr ⟨f, hf, rfl⟩, (key f hf).mpr h⟩

/-! ## the bodies collected for a head atom -/

theorem tauRuleBody_sat (T : PredI) (fc : FcI) (ch : Bool) (a : Asp.Atom) (r : Rule) (globals : List String)
    (hlen : a.args.length ≤ globals.length) (τ : Asg) :
    sat ⟨T, fc⟩ (tauRuleBody ch a r globals) τ ↔
      (valsList (σOf τ) a.args ((globals.take a.args.length).map (σOf τ)) ∧
        bodySat ⟨T, T, fc⟩ .there (σOf τ) r.body ∧
        (ch = true → T a.pred ((globals.take a.args.length).map (σOf τ)))) := by
  rw [← ht_same T fc _ .there τ]
  have hfl : (globals.take a.args.length).length = a.args.length := by rw [List.length_take]; omega
  have hz := valsZip ⟨T, T, fc⟩ .there τ a.args (globals.take a.args.length) hfl.symm
  have hcore : ht ⟨T, T, fc⟩ (if a.args.length > 0 then
      Formula.bin .and (conjoin ((a.args.zip (globals.take a.args.length)).map fun (t, v) => val t ⟨v, .general⟩))
        (tauBody r.body) else tauBody r.body) .there τ ↔
      (valsList (σOf τ) a.args ((globals.take a.args.length).map (σOf τ)) ∧
        bodySat ⟨T, T, fc⟩ .there (σOf τ) r.body) := by
    split
    · simp only [ht, ht_conjoin, tauBody_sem]
      rw [hz]; rfl
    · rename_i hpos
      have h0 : a.args = [] := by
        cases h : a.args with
        | nil => rfl
        | cons _ _ => rw [h] at hpos; simp at hpos
      rw [tauBody_sem, h0]
      simp [valsList]
  unfold tauRuleBody
  cases ch with
  | false => simp only [Bool.false_eq_true, if_false, false_imp_iff, and_true]; exact hcore
  | true =>
    simp only [if_true, true_imp_iff]
    rw [show ∀ (A B : Formula), ht ⟨T, T, fc⟩ (.bin .and A B) .there τ ↔
        (ht ⟨T, T, fc⟩ A .there τ ∧ ht ⟨T, T, fc⟩ B .there τ) from fun _ _ => Iff.rfl, hcore]
    unfold tauHeadAtom
    rw [ht_notnot_atom_vars, and_assoc]

theorem tauRuleBody_general (ch : Bool) (a : Asp.Atom) (r : Rule) (globals : List String) (x : Var)
    (h : (tauRuleBody ch a r globals).FV x) : x.sort = .general := by
  have hcore : (if a.args.length > 0 then
      Formula.bin .and (conjoin ((a.args.zip (globals.take a.args.length)).map fun (t, v) => val t ⟨v, .general⟩))
        (tauBody r.body) else tauBody r.body).FV x → x.sort = .general := by
    intro h
    split at h
    · rcases h with h | h
      · rcases valsConj_FV h with hg | ⟨t, _, hg⟩
        · exact hg.1
        · exact hg.1
      · exact (tauBody_FV r.body x h).1
    · exact (tauBody_FV r.body x h).1
  unfold tauRuleBody at h
  cases ch with
  | false => simp only [Bool.false_eq_true, if_false] at h; exact hcore h
  | true =>
    simp only [if_true] at h
    rcases h with h | h
    · exact hcore h
    · exact (FV_atom_vars (p := a.pred) (zs := globals.take a.args.length) h).1

/-- the head of a rule, with the flag saying whether it is a choice -/
def HeadOf (r : Rule) (a : Asp.Atom) (ch : Bool) : Prop :=
  (r.head = .basic a ∧ ch = false) ∨ (r.head = .choice a ∧ ch = true)

theorem mem_comps_partialDef (P : Program) (globals : List String) (f : Formula) (A : Anthem.Atom) :
    Component.partialDef f A ∈ P.map (fun r => ruleComponent r globals) ↔
      ∃ r ∈ P, ∃ a ch, HeadOf r a ch ∧ f = tauRuleBody ch a r globals ∧ A = tauHeadAtom a globals := by
  simp only [List.mem_map]
  constructor
  · rintro ⟨r, hr, hc⟩
    unfold ruleComponent at hc
    cases hh : r.head with
    | falsity => rw [hh] at hc; cases hc
    | basic a =>
      rw [hh] at hc
      injection hc with h1 h2
      exact ⟨r, hr, a, false, Or.inl ⟨hh, rfl⟩, h1.symm, h2.symm⟩
    | choice a =>
      rw [hh] at hc
      injection hc with h1 h2
      exact ⟨r, hr, a, true, Or.inr ⟨hh, rfl⟩, h1.symm, h2.symm⟩
  · rintro ⟨r, hr, a, ch, hh, rfl, rfl⟩
    refine ⟨r, hr, ?_⟩
    unfold ruleComponent
    rcases hh with ⟨hh, rfl⟩ | ⟨hh, rfl⟩ <;> rw [hh]

theorem mem_comps_constraint (P : Program) (globals : List String) (c : Formula) :
    Component.constraint c ∈ P.map (fun r => ruleComponent r globals) ↔
      ∃ r ∈ P, r.head = .falsity ∧ c = .bin .imp (tauBody r.body) .fls := by
  simp only [List.mem_map]
  constructor
  · rintro ⟨r, hr, hc⟩
    unfold ruleComponent at hc
    cases hh : r.head with
    | falsity => rw [hh] at hc; injection hc with h1; exact ⟨r, hr, hh, h1.symm⟩
    | basic a => rw [hh] at hc; cases hc
    | choice a => rw [hh] at hc; cases hc
  · rintro ⟨r, hr, hh, rfl⟩
    exact ⟨r, hr, by unfold ruleComponent; rw [hh]⟩

theorem tauHeadAtom_eq {a a' : Asp.Atom} {globals : List String} (h1 : a.args.length ≤ globals.length)
    (h2 : a'.args.length ≤ globals.length) :
    tauHeadAtom a globals = tauHeadAtom a' globals ↔ a.pred = a'.pred ∧ a.args.length = a'.args.length := by
  unfold tauHeadAtom
  constructor
  · intro h
    injection h with hp ha
    refine ⟨hp, ?_⟩
    have := congrArg List.length ha
    simp only [List.length_map, List.length_take] at this
    omega
  · rintro ⟨hp, hl⟩
    rw [hp, hl]

theorem tauHeadAtom_predicate (a : Asp.Atom) (globals : List String) (h : a.args.length ≤ globals.length) :
    (tauHeadAtom a globals).predicate = a.predicate := by
  simp only [tauHeadAtom, Anthem.Atom.predicate, Asp.Atom.predicate, List.length_map, List.length_take]
  congr 1
  omega

theorem push_nonempty (d : Definitions) (h : ∀ e ∈ d, e.2 ≠ []) (a : Anthem.Atom) (f : Formula) :
    ∀ e ∈ d.push a f, e.2 ≠ [] := by
  intro e he
  unfold Definitions.push at he
  split at he
  · obtain ⟨e0, he0, heq⟩ := List.mem_map.mp he
    split at heq
    · rw [← heq]; simp
    · rw [← heq]; exact h e0 he0
  · rcases List.mem_append.mp he with he | he
    · exact h e he
    · simp only [List.mem_singleton] at he; rw [he]; simp

theorem collect_nonempty : ∀ (cs : List Component) (init : Definitions × List Formula),
    (∀ e ∈ init.1, e.2 ≠ []) → ∀ e ∈ (collect cs init).1, e.2 ≠ [] := by
  intro cs
  induction cs with
  | nil => intro init h; exact h
  | cons c cs ih =>
    intro init h
    simp only [collect, List.foldl_cons]
    cases c with
    | constraint f => exact ih _ h
    | partialDef f a => exact ih _ (push_nonempty init.1 h a f)

/-! ## the predicates of the tau* theory -/

theorem preds_conjoin {fs : List Formula} {f : Formula} {q : Pred} (hf : f ∈ fs) (hq : q ∈ f.preds) :
    q ∈ (conjoin fs).preds := by
  cases fs with
  | nil => cases hf
  | cons f0 fs =>
    simp only [conjoin]
    suffices hs : ∀ (l : List Formula) (acc : Formula), (q ∈ acc.preds ∨ ∃ g ∈ l, q ∈ g.preds) →
        q ∈ (l.foldl (fun acc e => Formula.bin .and acc e) acc).preds by
      rcases List.mem_cons.mp hf with rfl | hf
      · exact hs fs _ (Or.inl hq)
      · exact hs fs _ (Or.inr ⟨f, hf, hq⟩)
    intro l
    induction l with
    | nil => intro acc h; rcases h with h | ⟨g, hg, _⟩; exact h; cases hg
    | cons e l ih =>
      intro acc h
      apply ih
      rcases h with h | ⟨g, hg, h⟩
      · exact Or.inl (by simp only [Formula.preds, mem_ext]; exact Or.inl h)
      · rcases List.mem_cons.mp hg with rfl | hg
        · exact Or.inl (by simp only [Formula.preds, mem_ext]; exact Or.inr h)
        · exact Or.inr ⟨g, hg, h⟩

theorem preds_signed (s : Sign) (A : Formula) : (signed s A).preds = A.preds := by
  cases s <;> rfl

theorem tauB_preds (f : BodyAtom) (q : Pred) (h : q ∈ f.preds) : q ∈ (tauB f).preds := by
  cases f with
  | cmp _ _ _ => simp [BodyAtom.preds] at h
  | lit l =>
    obtain ⟨s, a⟩ := l
    simp only [BodyAtom.preds, List.mem_singleton] at h
    subst h
    unfold tauB
    simp only
    split
    · simp only [Formula.preds, mem_ext, preds_signed, AtomicF.preds, Anthem.Atom.predicate, List.length_map,
        (chooseFresh_spec (BodyAtom.lit ⟨s, a⟩).vars "Z" a.args.length).2.2, List.mem_singleton]
      exact Or.inr rfl
    · rename_i hpos
      have h0 : a.args.length = 0 := by omega
      simp [preds_signed, Formula.preds, AtomicF.preds, Anthem.Atom.predicate, Asp.Atom.predicate, h0]

theorem tauBody_preds (b : List BodyAtom) (q : Pred) (h : q ∈ bodyPreds b) : q ∈ (tauBody b).preds := by
  obtain ⟨f, hf, hq⟩ := mem_bodyPreds.mp h
  exact preds_conjoin (List.mem_map.mpr ⟨f, hf, rfl⟩) (tauB_preds f q hq)

theorem tauStarRule_preds (r : Rule) (globals : List String) (hlen : r.head.arity ≤ globals.length)
    (q : Pred) (h : q ∈ r.preds) : q ∈ (tauStarRule r globals).preds := by
  unfold Rule.preds at h
  rw [mem_ext] at h
  cases hh : r.head with
  | falsity =>
    rw [hh] at h
    simp only [Head.predicate, List.not_mem_nil, false_or] at h
    unfold tauStarRule
    simp only [hh]
    split <;> (simp only [Formula.preds, mem_ext]; exact Or.inl (tauBody_preds r.body q h))
  | basic a | choice a =>
    all_goals
      first
        | rw [tauStarRule_basic r a globals hh]
        | rw [tauStarRule_choice r a globals hh]
      rw [hh] at h hlen
      simp only [Head.predicate, List.mem_singleton, Head.arity] at h hlen
      have hhead : q = a.predicate → q ∈ (Formula.atomic (.atom (tauHeadAtom a globals))).preds := by
        intro e
        simp only [Formula.preds, AtomicF.preds, List.mem_singleton]
        rw [tauHeadAtom_predicate a globals hlen]; exact e
      unfold headRuleFormula
      split
      · simp only [Formula.preds, mem_ext]
        rcases h with h | h
        · exact Or.inr (hhead h)
        · left
          split <;> simp only [Formula.preds, mem_ext]
          · exact Or.inl (Or.inr (tauBody_preds r.body q h))
          · exact Or.inr (tauBody_preds r.body q h)
      · rename_i hpos
        have h0 : a.args.length = 0 := by omega
        have hhead0 : q = a.predicate → q ∈ (Formula.atomic (.atom ⟨a.pred, []⟩)).preds := by
          intro e
          simp [Formula.preds, AtomicF.preds, Anthem.Atom.predicate, Asp.Atom.predicate, e, h0]
        have key : ∀ G : Formula, q ∈ G.preds →
            q ∈ (if (sortedGeneral r.vars).isEmpty then G else .quant .all (sortedGeneral r.vars) G).preds := by
          intro G hG; split <;> exact hG
        apply key
        simp only [Formula.preds, mem_ext]
        rcases h with h | h
        · exact Or.inr (hhead0 h)
        · left
          split
          · simp only [Formula.preds, mem_ext]; exact Or.inl (tauBody_preds r.body q h)
          · exact tauBody_preds r.body q h

theorem tauStar_preds (P : Program) (hp : globalsPanic P = false) (q : Pred) (h : q ∈ P.preds) :
    q ∈ Theory.preds (tauStar P) := by
  obtain ⟨r, hr, hq⟩ := mem_program_preds.mp h
  unfold Theory.preds
  rw [mem_foldl_ext]
  refine Or.inr ⟨tauStarRule r (chooseFreshGlobals P), List.mem_map.mpr ⟨r, hr, rfl⟩, ?_⟩
  exact tauStarRule_preds r _ (by rw [(chooseFreshGlobals_spec P hp).2.2]; exact arity_le_maxHeadArity P r hr) q hq

/-! ## assembling: the completion of the tau* theory of a program -/

theorem mem_headPreds (P : Program) (q : Pred) : q ∈ P.headPreds ↔ ∃ r ∈ P, r.head.predicate = some q := by
  unfold Program.headPreds
  suffices h : ∀ (l : Program) (init : List Pred),
      q ∈ l.foldl headPredStep init ↔ q ∈ init ∨ ∃ r ∈ l, r.head.predicate = some q by
    simpa using h P []
  intro l
  induction l with
  | nil => intro init; simp
  | cons r l ih =>
    intro init
    simp only [List.foldl_cons, ih, List.mem_cons, exists_eq_or_imp]
    unfold headPredStep
    cases hh : r.head.predicate with
    | none => simp
    | some q' =>
      simp only [mem_ins, Option.some.injEq]
      constructor
      · rintro ((h | h) | h)
        · exact Or.inl h
        · exact Or.inr (Or.inl h.symm)
        · exact Or.inr (Or.inr h)
      · rintro (h | h | h)
        · exact Or.inl (Or.inl h)
        · exact Or.inl (Or.inr h.symm)
        · exact Or.inr h

theorem keys_unique {d : Definitions} (hnd : (d.map (·.1)).Nodup) {A : Anthem.Atom} {fs fs' : List Formula}
    (h : (A, fs) ∈ d) (h' : (A, fs') ∈ d) : fs = fs' := by
  induction d with
  | nil => cases h
  | cons e d ih =>
    simp only [List.map_cons, List.nodup_cons] at hnd
    have hkey : ∀ gs, (A, gs) ∈ d → A ∈ d.map (·.1) := fun gs hg => List.mem_map.mpr ⟨(A, gs), hg, rfl⟩
    rcases List.mem_cons.mp h with h | h <;> rcases List.mem_cons.mp h' with h' | h'
    · rw [← h] at h'; injection h' with _ e2; exact e2.symm
    · rw [← h] at hnd; exact absurd (hkey _ h') hnd.1
    · rw [← h'] at hnd; exact absurd (hkey _ h) hnd.1
    · exact ih hnd.2 h h'

theorem headOf_predicate {r : Rule} {a : Asp.Atom} {ch : Bool} (h : HeadOf r a ch) :
    r.head.predicate = some a.predicate := by
  rcases h with ⟨h, _⟩ | ⟨h, _⟩ <;> rw [h] <;> rfl

theorem headOf_arity {r : Rule} {a : Asp.Atom} {ch : Bool} (h : HeadOf r a ch) : r.head.arity = a.args.length := by
  rcases h with ⟨h, _⟩ | ⟨h, _⟩ <;> rw [h] <;> rfl

/-- a well-sorted assignment standing for a substitution -/
def asgOf (σ : Subst) : Asg := fun v =>
  match v.sort with
  | .general => σ v.name
  | .integer => .num 0
  | .symbol => .sym ""

theorem asgOf_ws (σ : Subst) : WSAsg (asgOf σ) := by
  intro v; obtain ⟨n, s⟩ := v; cases s <;> simp [asgOf, Dom.inSort]

theorem σOf_asgOf (σ : Subst) : σOf (asgOf σ) = σ := rfl

theorem constraint_sem (T : PredI) (fc : FcI) (r : Rule) (hh : r.head = .falsity) (ρ : Asg) :
    sat ⟨T, fc⟩ (Formula.bin .imp (tauBody r.body) .fls).universalClosure ρ ↔ ruleSat ⟨T, T, fc⟩ .there r := by
  rw [← ht_same T fc _ .there ρ, ht_universalClosure]
  unfold ruleSat
  rw [hh]
  simp only [headSat]
  constructor
  · intro h σ
    have := h (asgOf σ) (asgOf_ws σ)
    simp only [ht, tauBody_sem, Formula.fls, AtomicF.sat, σOf_asgOf] at this
    exact this
  · intro h τ _
    simp only [ht, tauBody_sem, Formula.fls, AtomicF.sat]
    exact h (σOf τ)

/-- the reference form of one completed definition -/
def DefHolds (P : Program) (T : PredI) (fc : FcI) (q : String) (n : Nat) : Prop :=
  ∀ ds : List Dom, ds.length = n →
    (T q ds ↔ ∃ r ∈ P, ∃ a ch, HeadOf r a ch ∧ a.pred = q ∧ a.args.length = n ∧
      ∃ σ : Subst, valsList σ a.args ds ∧ bodySat ⟨T, T, fc⟩ .there σ r.body ∧ (ch = true → T q ds))

theorem entry_sem (P : Program) (hp : globalsPanic P = false) (T : PredI) (fc : FcI) (ρ : Asg)
    (A : Anthem.Atom) (fs : List Formula)
    (hA : (A, fs) ∈ (collect (P.map fun r => ruleComponent r (chooseFreshGlobals P)) ([], [])).1)
    (a0 : Asp.Atom) (hlen0 : a0.args.length ≤ (chooseFreshGlobals P).length)
    (hA0 : A = tauHeadAtom a0 (chooseFreshGlobals P)) :
    sat ⟨T, fc⟩ (completeDefinition A fs) ρ ↔ DefHolds P T fc a0.pred a0.args.length := by
  obtain ⟨hn, hfresh, hglen⟩ := chooseFreshGlobals_spec P hp
  obtain ⟨hspec, _⟩ := collect_spec (P.map fun r => ruleComponent r (chooseFreshGlobals P)) ([], [])
    (fun _ _ => False) ⟨List.nodup_nil, by simp⟩
  simp only [false_or] at hspec
  have hfl : ((chooseFreshGlobals P).take a0.args.length).length = a0.args.length := by
    rw [List.length_take]; omega
  have hfn : ((chooseFreshGlobals P).take a0.args.length).Nodup := hn.sublist (List.take_sublist _ _)
  have hfs : ∀ f, f ∈ fs ↔ Component.partialDef f A ∈ P.map fun r => ruleComponent r (chooseFreshGlobals P) := by
    intro f
    constructor
    · intro hf; exact (hspec.2 A f).mp ⟨fs, hA, hf⟩
    · intro hc
      obtain ⟨fs', hA', hf⟩ := (hspec.2 A f).mpr hc
      rw [keys_unique hspec.1 hA hA']; exact hf
  have hgen : ∀ f ∈ fs, ∀ x, f.FV x → x.sort = .general := by
    intro f hf x hx
    obtain ⟨r, _, a, ch, _, rfl, _⟩ := (mem_comps_partialDef P _ f A).mp ((hfs f).mp hf)
    exact tauRuleBody_general ch a r _ x hx
  rw [hA0]
  unfold tauHeadAtom
  rw [completeDefinition_sem ⟨T, fc⟩ a0.pred _ hfn fs hgen ρ, hfl]
  unfold DefHolds
  refine forall_congr' fun ds => imp_congr_right fun hds => iff_congr Iff.rfl ?_
  constructor
  · rintro ⟨f, hf, τ', hmap, hs⟩
    obtain ⟨r, hr, a, ch, hh, rfl, hAa⟩ := (mem_comps_partialDef P _ f A).mp ((hfs f).mp hf)
    have hla : a.args.length ≤ (chooseFreshGlobals P).length := by
      rw [hglen, ← headOf_arity hh]; exact arity_le_maxHeadArity P r hr
    rw [hA0] at hAa
    obtain ⟨hp', hl'⟩ := (tauHeadAtom_eq hlen0 hla).mp hAa
    rw [tauRuleBody_sat T fc ch a r _ hla τ', ← hl'] at hs
    have hm : ((chooseFreshGlobals P).take a0.args.length).map (σOf τ') = ds := hmap
    rw [hm, ← hp'] at hs
    exact ⟨r, hr, a, ch, hh, hp'.symm, hl'.symm, σOf τ', hs⟩
  · rintro ⟨r, hr, a, ch, hh, hpa, hla', σ, hv, hb, hc⟩
    have hla : a.args.length ≤ (chooseFreshGlobals P).length := by
      rw [hglen, ← headOf_arity hh]; exact arity_le_maxHeadArity P r hr
    have hAa : A = tauHeadAtom a (chooseFreshGlobals P) := by
      rw [hA0]; exact (tauHeadAtom_eq hlen0 hla).mpr ⟨hpa.symm, hla'.symm⟩
    refine ⟨tauRuleBody ch a r _, (hfs _).mpr ((mem_comps_partialDef P _ _ A).mpr
      ⟨r, hr, a, ch, hh, rfl, hAa⟩), assignGen (fun v => σ v.name) ((chooseFreshGlobals P).take a0.args.length) ds, ?_, ?_⟩
    · exact assignGen_map _ _ ds hfn (by rw [hfl, hds])
    · rw [tauRuleBody_sat T fc ch a r _ hla, hla']
      have hm : ((chooseFreshGlobals P).take a0.args.length).map
          (σOf (assignGen (fun v => σ v.name) ((chooseFreshGlobals P).take a0.args.length) ds)) = ds :=
        assignGen_map _ _ ds hfn (by rw [hfl, hds])
      rw [hm, hpa]
      have hag : ∀ x ∈ r.vars, σOf (assignGen (fun v => σ v.name) ((chooseFreshGlobals P).take a0.args.length) ds) x = σ x := by
        intro x hx
        show assignGen _ _ ds ⟨x, .general⟩ = σ x
        rw [assignGen_other]
        intro z hz e
        injection e with e; subst e
        exact hfresh _ (List.mem_of_mem_take hz) (rule_vars_subset P r hr _ hx)
      have hsub := head_vars_subset r a (by rcases hh with ⟨h, _⟩ | ⟨h, _⟩ <;> simp [h])
      refine ⟨(valsList_congr a.args ds fun t ht x hx => hag x (hsub t ht x hx)).mpr hv,
        (bodySat_congr _ _ r.body fun x hx => hag x (body_vars_subset r x hx)).mpr hb, hc⟩

theorem emptyDefinition_sem (T : PredI) (fc : FcI) (p : Pred) (ρ : Asg) :
    sat ⟨T, fc⟩ (completeDefinition (atomFromPred p) []) ρ ↔ ∀ ds : List Dom, ds.length = p.arity → ¬ T p.symbol ds := by
  obtain ⟨hnd, _, hl⟩ := chooseFresh_spec ["V"] "V" p.arity
  unfold atomFromPred
  rw [completeDefinition_sem ⟨T, fc⟩ p.symbol _ hnd [] (by simp) ρ, hl]
  simp

/-- **C04: the completion of the tau\* theory of a tight program has exactly the stable models.** -/
theorem completion_tight (P : Program) (ins : List Pred) (htight : isTight P = true)
    (hp : globalsPanic P = false) (hins : ∀ q ∈ ins, q ∉ P.headPreds) :
    ∃ Γ, completion (tauStar P) ins = some Γ ∧
      ∀ (T : PredI) (fc : FcI) (ρ : Asg),
        (∀ q a, T q a → (⟨q, a.length⟩ : Pred) ∈ ext P.preds ins) →
        ((∀ F ∈ Γ, sat ⟨T, fc⟩ F ρ) ↔ Stable P ins T fc) := by
  obtain ⟨hn, hfresh, hglen⟩ := chooseFreshGlobals_spec P hp
  have hcomp := components_tauStar P hp
  obtain ⟨hspec, hcons⟩ := collect_spec (P.map fun r => ruleComponent r (chooseFreshGlobals P)) ([], [])
    (fun _ _ => False) ⟨List.nodup_nil, by simp⟩
  simp only [false_or, List.not_mem_nil] at hspec hcons
  have hne := collect_nonempty (P.map fun r => ruleComponent r (chooseFreshGlobals P)) ([], []) (by simp)
  -- every entry comes from a rule head
  have hentry : ∀ e ∈ (collect (P.map fun r => ruleComponent r (chooseFreshGlobals P)) ([], [])).1,
      ∃ r ∈ P, ∃ a ch, HeadOf r a ch ∧ e.1 = tauHeadAtom a (chooseFreshGlobals P) ∧
        a.args.length ≤ (chooseFreshGlobals P).length := by
    intro e he
    obtain ⟨f, hf⟩ := List.exists_mem_of_ne_nil _ (hne e he)
    obtain ⟨r, hr, a, ch, hh, _, hA⟩ := (mem_comps_partialDef P _ f e.1).mp ((hspec.2 e.1 f).mp ⟨e.2, he, hf⟩)
    exact ⟨r, hr, a, ch, hh, hA, by rw [hglen, ← headOf_arity hh]; exact arity_le_maxHeadArity P r hr⟩
  have hkeys : ∀ e ∈ (collect (P.map fun r => ruleComponent r (chooseFreshGlobals P)) ([], [])).1,
      ∀ e' ∈ (collect (P.map fun r => ruleComponent r (chooseFreshGlobals P)) ([], [])).1,
      e.1.predicate = e'.1.predicate → e.1 = e'.1 := by
    intro e he e' he' hpe
    obtain ⟨_, _, a, _, _, hA, hl⟩ := hentry e he
    obtain ⟨_, _, a', _, _, hA', hl'⟩ := hentry e' he'
    rw [hA, hA'] at hpe ⊢
    rw [tauHeadAtom_predicate a _ hl, tauHeadAtom_predicate a' _ hl'] at hpe
    simp only [Asp.Atom.predicate, Pred.mk.injEq] at hpe
    exact (tauHeadAtom_eq hl hl').mpr hpe
  obtain ⟨Γ, hΓ, hmem⟩ := completion_formulas (tauStar P) ins _ _ hcomp hkeys
  refine ⟨Γ, hΓ, fun T fc ρ hsig => ?_⟩
  rw [tight_stable_iff_supported P htight ins T fc]
  -- an entry exists for every rule head
  have hexists : ∀ r ∈ P, ∀ a ch, HeadOf r a ch →
      ∃ fs, (tauHeadAtom a (chooseFreshGlobals P), fs) ∈
        (collect (P.map fun r => ruleComponent r (chooseFreshGlobals P)) ([], [])).1 := by
    intro r hr a ch hh
    obtain ⟨fs, hfs, _⟩ := (hspec.2 _ _).mpr ((mem_comps_partialDef P _ _ _).mpr ⟨r, hr, a, ch, hh, rfl, rfl⟩)
    exact ⟨fs, hfs⟩
  have hla : ∀ r ∈ P, ∀ a ch, HeadOf r a ch → a.args.length ≤ (chooseFreshGlobals P).length := by
    intro r hr a ch hh
    rw [hglen, ← headOf_arity hh]; exact arity_le_maxHeadArity P r hr
  have hnotin : ∀ r ∈ P, ∀ a ch, HeadOf r a ch → a.predicate ∉ ins := fun r hr a ch hh hin =>
    hins _ hin ((mem_headPreds P _).mpr ⟨r, hr, headOf_predicate hh⟩)
  constructor
  · -- completion ⇒ supported model
    intro hall
    have hdef : ∀ r ∈ P, ∀ a ch, HeadOf r a ch → DefHolds P T fc a.pred a.args.length := by
      intro r hr a ch hh
      obtain ⟨fs, hfs⟩ := hexists r hr a ch hh
      have hF := hall _ ((hmem _).mpr (Or.inr (Or.inl ⟨_, hfs, by
        rw [tauHeadAtom_predicate a _ (hla r hr a ch hh)]; exact hnotin r hr a ch hh, rfl⟩)))
      exact (entry_sem P hp T fc ρ _ fs hfs a (hla r hr a ch hh) rfl).mp hF
    refine ⟨?_, ?_⟩
    · intro r hr
      cases hh : r.head with
      | falsity =>
        have hF := hall _ ((hmem _).mpr (Or.inl ⟨_, (hcons _).mpr ((mem_comps_constraint P _ _).mpr
          ⟨r, hr, hh, rfl⟩), rfl⟩))
        exact (constraint_sem T fc r hh ρ).mp hF
      | basic a =>
        have hd := hdef r hr a false (Or.inl ⟨hh, rfl⟩)
        intro σ
        have : bodySat ⟨T, T, fc⟩ .there σ r.body → headSat ⟨T, T, fc⟩ .there σ r.head := by
          intro hb
          rw [hh]
          intro ds hv
          exact (hd ds (valsList_length hv)).mpr ⟨r, hr, a, false, Or.inl ⟨hh, rfl⟩, rfl, rfl, σ, hv, hb,
            fun e => by cases e⟩
        exact ⟨this, this⟩
      | choice a =>
        intro σ
        have : bodySat ⟨T, T, fc⟩ .there σ r.body → headSat ⟨T, T, fc⟩ .there σ r.head := by
          intro _
          rw [hh]
          intro ds _
          exact Classical.em _
        exact ⟨this, this⟩
    · intro q ds hT hni
      -- the predicate belongs to the program
      have hqP : (⟨q, ds.length⟩ : Pred) ∈ P.preds := by
        rcases mem_ext.mp (hsig q ds hT) with h | h
        · exact h
        · exact absurd h hni
      by_cases hex : ∃ e ∈ (collect (P.map fun r => ruleComponent r (chooseFreshGlobals P)) ([], [])).1,
          e.1.predicate = ⟨q, ds.length⟩
      · obtain ⟨e, he, hpe⟩ := hex
        obtain ⟨r0, hr0, a0, ch0, hh0, hA0, hl0⟩ := hentry e he
        rw [hA0, tauHeadAtom_predicate a0 _ hl0] at hpe
        simp only [Asp.Atom.predicate, Pred.mk.injEq] at hpe
        have hd := hdef r0 hr0 a0 ch0 hh0
        rw [hpe.1, hpe.2] at hd
        obtain ⟨r, hr, a, ch, hh, hpa, _, σ, hv, hb, _⟩ := (hd ds rfl).mp hT
        exact ⟨r, hr, a, by rcases hh with ⟨h, _⟩ | ⟨h, _⟩ <;> simp [h], hpa, σ, hv, hb⟩
      · -- no definition: the empty definition says the predicate is empty
        have hno : ∀ e ∈ (collect (P.map fun r => ruleComponent r (chooseFreshGlobals P)) ([], [])).1,
            e.1.predicate ≠ ⟨q, ds.length⟩ := fun e he hpe => hex ⟨e, he, hpe⟩
        have hF := hall _ ((hmem _).mpr (Or.inr (Or.inr ⟨⟨q, ds.length⟩, tauStar_preds P hp _ hqP, hni, hno, rfl⟩)))
        exact absurd hT ((emptyDefinition_sem T fc ⟨q, ds.length⟩ ρ).mp hF ds rfl)
  · -- supported model ⇒ completion
    rintro ⟨hmodel, hsupp⟩ F hF
    rcases (hmem F).mp hF with ⟨c, hc, rfl⟩ | ⟨e, he, hin, rfl⟩ | ⟨p, _, hin, hno, rfl⟩
    · obtain ⟨r, hr, hh, rfl⟩ := (mem_comps_constraint P _ c).mp ((hcons c).mp hc)
      exact (constraint_sem T fc r hh ρ).mpr (hmodel r hr)
    · obtain ⟨r0, hr0, a0, ch0, hh0, hA0, hl0⟩ := hentry e he
      rw [show e = (e.1, e.2) from rfl] at he
      refine (entry_sem P hp T fc ρ e.1 e.2 he a0 hl0 hA0).mpr ?_
      rw [hA0, tauHeadAtom_predicate a0 _ hl0] at hin
      intro ds hds
      constructor
      · intro hT
        have hni : (⟨a0.pred, ds.length⟩ : Pred) ∉ ins := by
          rw [hds]; exact hin
        obtain ⟨r, hr, a, hh, hpa, σ, hv, hb⟩ := hsupp a0.pred ds hT hni
        have hlen : a.args.length = a0.args.length := by rw [← valsList_length hv, hds]
        rcases hh with hh | hh
        · exact ⟨r, hr, a, false, Or.inl ⟨hh, rfl⟩, hpa, hlen, σ, hv, hb, fun e => by cases e⟩
        · exact ⟨r, hr, a, true, Or.inr ⟨hh, rfl⟩, hpa, hlen, σ, hv, hb, fun _ => hT⟩
      · rintro ⟨r, hr, a, ch, hh, hpa, _, σ, hv, hb, hc⟩
        rcases hh with ⟨hh, rfl⟩ | ⟨hh, rfl⟩
        · have := (hmodel r hr σ).2 hb
          rw [hh] at this
          rw [← hpa]; exact this ds hv
        · exact hc rfl
    · refine (emptyDefinition_sem T fc p ρ).mpr fun ds hds hT => ?_
      have hni : (⟨p.symbol, ds.length⟩ : Pred) ∉ ins := by rw [hds]; exact hin
      obtain ⟨r, hr, a, hh, hpa, σ, hv, _⟩ := hsupp p.symbol ds hT hni
      have hh' : HeadOf r a (if r.head = .choice a then true else false) := by
        rcases hh with hh | hh
        · left; simp [hh]
        · right; simp [hh]
      obtain ⟨fs, hfs⟩ := hexists r hr a _ hh'
      refine hno _ hfs ?_
      rw [tauHeadAtom_predicate a _ (hla r hr a _ hh')]
      simp only [Asp.Atom.predicate]
      rw [hpa, ← valsList_length hv, hds]

end Anthem
