/-
  C04, formula level: what `completion` builds from the tau* theory of a program.
  Part 1: tau* formulas are closed and have the shape `completion` expects.
-/
import AnthemModel.Proofs.Fages
import AnthemModel.Proofs.RewritesFV
import AnthemModel.Proofs.StrongSem
import AnthemModel.Model.Completion
namespace Anthem
open Asp

/-! ## free variables of tau* formulas -/

/-- a general-sorted variable named by one of `names` -/
def GenIn (names : List String) (v : Var) : Prop := v.sort = .general ∧ v.name ∈ names

theorem FV_cmp1 {l t : GTerm} {r : Rel} {v : Var} (h : (cmp1 l r t).FV v) : v ∈ l.vars ∨ v ∈ t.vars := by
  simp only [cmp1, Formula.FV] at h
  rcases mem_cmp_vars.mp h with h | ⟨g, hg, h⟩
  · exact Or.inl h
  · simp only [List.mem_singleton] at hg; subst hg; exact Or.inr h

theorem preToGTerm_vars (p : Pre) : (preToGTerm p).vars = [] := by
  cases p <;> rfl

theorem val_FV : ∀ (t : Term) (z v : Var), (val t z).FV v → v = z ∨ GenIn t.vars v := by
  intro t
  induction t with
  | pre p =>
    intro z v h
    simp only [val] at h
    rcases FV_cmp1 h with h | h
    · rw [toTerm_vars, List.mem_singleton] at h; exact Or.inl h
    · rw [preToGTerm_vars] at h; cases h
  | var x =>
    intro z v h
    simp only [val] at h
    rcases FV_cmp1 h with h | h
    · rw [toTerm_vars, List.mem_singleton] at h; exact Or.inl h
    · simp only [GTerm.vars, List.mem_singleton] at h
      subst h
      exact Or.inr ⟨rfl, by simp [Term.vars]⟩
  | neg a ih =>
    intro z v h
    simp only [val, totalFunction, Formula.FV] at h
    obtain ⟨h1, h2⟩ := h
    simp only [List.mem_cons, List.not_mem_nil, or_false, not_or] at h2
    rcases h1 with (h1 | h1) | h1
    · rcases FV_cmp1 h1 with h | h
      · rw [toTerm_vars, List.mem_singleton] at h; exact Or.inl h
      · simp only [GTerm.vars, ITerm.vars, mem_ext, List.mem_singleton] at h
        rcases h with h | h
        · exact absurd h h2.1
        · exact absurd h h2.2
    · rcases FV_cmp1 h1 with h | h
      · simp only [GTerm.vars, ITerm.vars, List.mem_singleton] at h; exact absurd h h2.1
      · simp [GTerm.vars, ITerm.vars] at h
    · rcases ih _ v h1 with h | h
      · exact absurd h h2.2
      · exact Or.inr h
  | bin op l r ihl ihr =>
    intro z v h
    have hl : ∀ zz, (val l zz).FV v → v = zz ∨ GenIn (Term.bin op l r).vars v := fun zz hh =>
      (ihl zz v hh).imp id fun hg => ⟨hg.1, by simp [Term.vars, mem_ext, hg.2]⟩
    have hr : ∀ zz, (val r zz).FV v → v = zz ∨ GenIn (Term.bin op l r).vars v := fun zz hh =>
      (ihr zz v hh).imp id fun hg => ⟨hg.1, by simp [Term.vars, mem_ext, hg.2]⟩
    have total : ∀ (iop : IOp) (i j : String), (totalFunction (val l ⟨i, .integer⟩) (val r ⟨j, .integer⟩) iop i j z).FV v →
        v = z ∨ GenIn (Term.bin op l r).vars v := by
      intro iop i j h
      simp only [totalFunction, Formula.FV] at h
      obtain ⟨h1, h2⟩ := h
      simp only [List.mem_cons, List.not_mem_nil, or_false, not_or] at h2
      rcases h1 with (h1 | h1) | h1
      · rcases FV_cmp1 h1 with h | h
        · rw [toTerm_vars, List.mem_singleton] at h; exact Or.inl h
        · simp only [GTerm.vars, ITerm.vars, mem_ext, List.mem_singleton] at h
          rcases h with h | h
          · exact absurd h h2.1
          · exact absurd h h2.2
      · rcases hl _ h1 with h | h
        · exact absurd h h2.1
        · exact Or.inr h
      · rcases hr _ h1 with h | h
        · exact absurd h h2.2
        · exact Or.inr h
    simp only [val] at h
    cases op with
    | add => exact total _ _ _ h
    | sub => exact total _ _ _ h
    | mul => exact total _ _ _ h
    | div | mod =>
      all_goals
        simp only [partialFunction, Formula.FV] at h
        obtain ⟨h1, h2⟩ := h
        simp only [List.mem_cons, List.not_mem_nil, or_false, not_or] at h2
        rcases h1 with ((h1 | (h1 | h1)) | ((h1 | h1) | h1)) | h1
        · rcases FV_cmp1 h1 with h | h
          · simp only [GTerm.vars, ITerm.vars, List.mem_singleton] at h; exact absurd h h2.1
          · simp only [GTerm.vars, ITerm.vars, mem_ext, List.mem_singleton] at h
            rcases h with (h | h) | h
            · exact absurd h h2.2.1
            · exact absurd h h2.2.2.1
            · exact absurd h h2.2.2.2
        · rcases hl _ h1 with h | h
          · exact absurd h h2.1
          · exact Or.inr h
        · rcases hr _ h1 with h | h
          · exact absurd h h2.2.1
          · exact Or.inr h
        · rcases FV_cmp1 h1 with h | h
          · simp only [GTerm.vars, ITerm.vars, List.mem_singleton] at h; exact absurd h h2.2.1
          · simp [GTerm.vars, ITerm.vars] at h
        · rcases FV_cmp1 h1 with h | h
          · simp only [GTerm.vars, ITerm.vars, List.mem_singleton] at h; exact absurd h h2.2.2.2
          · simp [GTerm.vars, ITerm.vars] at h
        · rcases FV_cmp1 h1 with h | h
          · simp only [GTerm.vars, ITerm.vars, List.mem_singleton] at h; exact absurd h h2.2.2.2
          · simp only [GTerm.vars, ITerm.vars, List.mem_singleton] at h; exact absurd h h2.2.1
        · rcases FV_cmp1 h1 with h | h
          · rw [toTerm_vars, List.mem_singleton] at h; exact Or.inl h
          · simp only [GTerm.vars, ITerm.vars, List.mem_singleton] at h
            split at h
            · exact absurd h h2.2.2.1
            · exact absurd h h2.2.2.2
    | interval =>
      simp only [intervalFormula, Formula.FV] at h
      obtain ⟨h1, h2⟩ := h
      simp only [List.mem_cons, List.not_mem_nil, or_false, not_or] at h2
      rcases h1 with ((h1 | h1) | h1) | h1
      · rcases hl _ h1 with h | h
        · exact absurd h h2.1
        · exact Or.inr h
      · rcases hr _ h1 with h | h
        · exact absurd h h2.2.1
        · exact Or.inr h
      · rcases FV_cmp1 h1 with h | h
        · rw [toTerm_vars, List.mem_singleton] at h; exact Or.inl h
        · simp only [GTerm.vars, ITerm.vars, List.mem_singleton] at h; exact absurd h h2.2.2
      · rcases mem_cmp_vars.mp h1 with h | ⟨g, hg, h⟩
        · simp only [GTerm.vars, ITerm.vars, List.mem_singleton] at h; exact absurd h h2.1
        · simp only [List.mem_cons, List.not_mem_nil, or_false] at hg
          rcases hg with rfl | rfl
          · simp only [GTerm.vars, ITerm.vars, List.mem_singleton] at h; exact absurd h h2.2.2
          · simp only [GTerm.vars, ITerm.vars, List.mem_singleton] at h; exact absurd h h2.2.1

theorem FV_signed {s : Sign} {A : Formula} {v : Var} (h : (signed s A).FV v) : A.FV v := by
  cases s <;> exact h

theorem genIn_mem_sortedGeneral {names : List String} {v : Var} (h : GenIn names v) : v ∈ sortedGeneral names := by
  obtain ⟨n, s⟩ := v
  obtain ⟨hs, hn⟩ := h
  simp only at hs hn
  subst hs
  exact mem_sortedGeneral.mpr ⟨n, hn, rfl⟩

theorem FV_atom_vars {p : String} {zs : List String} {v : Var}
    (h : (Formula.atomic (.atom ⟨p, zs.map GTerm.var⟩)).FV v) : GenIn zs v := by
  simp only [Formula.FV, AtomicF.vars] at h
  rw [mem_foldl_ext] at h
  simp only [List.not_mem_nil, false_or, List.mem_map] at h
  obtain ⟨t, ⟨z, hz, rfl⟩, hv⟩ := h
  simp only [GTerm.vars, List.mem_singleton] at hv
  subst hv
  exact ⟨rfl, hz⟩

theorem valsConj_FV {args : List Term} {zs : List String} {v : Var}
    (h : (conjoin ((args.zip zs).map fun (t, z) => val t ⟨z, .general⟩)).FV v) :
    GenIn zs v ∨ ∃ t ∈ args, GenIn t.vars v := by
  obtain ⟨f, hf, hv⟩ := FV_conjoin h
  simp only [List.mem_map, Prod.exists] at hf
  obtain ⟨t, z, hm, rfl⟩ := hf
  rcases val_FV t _ v hv with rfl | hg
  · exact Or.inl ⟨rfl, (List.of_mem_zip hm).2⟩
  · exact Or.inr ⟨t, (List.of_mem_zip hm).1, hg⟩

theorem tauB_FV (f : BodyAtom) (v : Var) (h : (tauB f).FV v) : GenIn f.vars v := by
  cases f with
  | lit l =>
    obtain ⟨s, a⟩ := l
    unfold tauB at h
    simp only at h
    split at h
    · obtain ⟨h1, h2⟩ := h
      have hnz : ¬ GenIn (chooseFresh (BodyAtom.lit ⟨s, a⟩).vars "Z" a.args.length) v := by
        intro hg
        apply h2
        obtain ⟨n, srt⟩ := v
        obtain ⟨hs, hn⟩ := hg
        simp only at hs hn
        subst hs
        exact List.mem_map.mpr ⟨n, hn, rfl⟩
      rcases h1 with h1 | h1
      · rcases valsConj_FV h1 with hg | ⟨t, ht, hg⟩
        · exact absurd hg hnz
        · exact ⟨hg.1, mem_atom_vars.mpr ⟨t, ht, hg.2⟩⟩
      · exact absurd (FV_atom_vars (FV_signed h1)) hnz
    · have := FV_signed h
      simp [Formula.FV, AtomicF.vars] at this
  | cmp rel l r =>
    unfold tauB at h
    simp only at h
    obtain ⟨h1, h2⟩ := h
    simp only [List.mem_cons, List.not_mem_nil, or_false, not_or] at h2
    rcases h1 with (h1 | h1) | h1
    · rcases val_FV l _ v h1 with h | hg
      · exact absurd h h2.1
      · exact ⟨hg.1, by simp [BodyAtom.vars, mem_ext, hg.2]⟩
    · rcases val_FV r _ v h1 with h | hg
      · exact absurd h h2.2
      · exact ⟨hg.1, by simp [BodyAtom.vars, mem_ext, hg.2]⟩
    · rcases FV_cmp1 h1 with h | h
      · simp only [GTerm.vars, List.mem_singleton] at h; exact absurd h h2.1
      · simp only [GTerm.vars, List.mem_singleton] at h; exact absurd h h2.2

theorem tauBody_FV (b : List BodyAtom) (v : Var) (h : (tauBody b).FV v) : GenIn (bodyVars b) v := by
  unfold tauBody at h
  obtain ⟨F, hF, hv⟩ := FV_conjoin h
  obtain ⟨f, hf, rfl⟩ := List.mem_map.mp hF
  have := tauB_FV f v hv
  exact ⟨this.1, mem_bodyVars.mpr ⟨f, hf, this.2⟩⟩

/-- **every tau\* formula is closed** -/
theorem tauStarRule_closed (r : Rule) (globals : List String) (v : Var) : ¬ (tauStarRule r globals).FV v := by
  have hbody : ∀ v, (tauBody r.body).FV v → GenIn r.vars v := fun v hv =>
    ⟨(tauBody_FV r.body v hv).1, body_vars_subset r _ (tauBody_FV r.body v hv).2⟩
  have hclose : ∀ (names : List String) (G : Formula), (∀ v, G.FV v → GenIn names v) →
      ¬ (if (sortedGeneral names).isEmpty then G else .quant .all (sortedGeneral names) G).FV v := by
    intro names G hG hv
    split at hv
    · rename_i he
      have := sortedGeneral_isEmpty he
      subst this
      exact absurd (hG v hv).2 (by simp)
    · exact hv.2 (genIn_mem_sortedGeneral (hG v hv.1))
  intro hv
  cases hh : r.head with
  | falsity =>
    unfold tauStarRule at hv
    simp only [hh] at hv
    refine hclose r.vars _ (fun v hv => ?_) hv
    rcases hv with hv | hv
    · exact hbody v hv
    · exact absurd hv (FV_fls v)
  | basic a | choice a =>
    all_goals
      first
        | rw [tauStarRule_basic r a globals hh] at hv
        | rw [tauStarRule_choice r a globals hh] at hv
      have hargs := head_vars_subset r a (by simp [hh])
      unfold headRuleFormula at hv
      split at hv
      · obtain ⟨h1, h2⟩ := hv
        apply h2
        apply genIn_mem_sortedGeneral
        have hcore : ∀ v, (Formula.bin .and (conjoin ((a.args.zip (globals.take a.args.length)).map
            fun (t, v) => val t ⟨v, .general⟩)) (tauBody r.body)).FV v →
            GenIn (r.vars ++ globals.take a.args.length) v := by
          intro v hv
          rcases hv with hv | hv
          · rcases valsConj_FV hv with hg | ⟨t, ht, hg⟩
            · exact ⟨hg.1, List.mem_append_right _ hg.2⟩
            · exact ⟨hg.1, List.mem_append_left _ (hargs t ht _ hg.2)⟩
          · exact ⟨(hbody v hv).1, List.mem_append_left _ (hbody v hv).2⟩
        have hhead : ∀ v, (Formula.atomic (.atom ⟨a.pred, (globals.take a.args.length).map GTerm.var⟩)).FV v →
            GenIn (r.vars ++ globals.take a.args.length) v := fun v hv =>
          ⟨(FV_atom_vars hv).1, List.mem_append_right _ (FV_atom_vars hv).2⟩
        rcases h1 with h1 | h1
        · split at h1
          · rcases h1 with h1 | h1
            · exact hcore v h1
            · exact hhead v h1
          · exact hcore v h1
        · exact hhead v h1
      · refine hclose r.vars _ (fun v hv => ?_) hv
        have hhead : ¬ (Formula.atomic (.atom ⟨a.pred, []⟩)).FV v := by simp [Formula.FV, AtomicF.vars]
        rcases hv with hv | hv
        · split at hv
          · rcases hv with hv | hv
            · exact hbody v hv
            · exact absurd hv hhead
          · exact hbody v hv
        · exact absurd hv hhead

theorem tauStarRule_fv_nil (r : Rule) (globals : List String) : (tauStarRule r globals).fv = [] :=
  List.eq_nil_iff_forall_not_mem.mpr fun v hv => tauStarRule_closed r globals v (Formula.mem_fv.mp hv)

/-! ## the components `completion` extracts from a tau* theory -/

/-- head atom of the tau* formula of a rule with head `a` -/
def tauHeadAtom (a : Asp.Atom) (globals : List String) : Anthem.Atom :=
  ⟨a.pred, (globals.take a.args.length).map GTerm.var⟩

/-- antecedent of the tau* formula of a rule with head `a` -/
def tauRuleBody (choice : Bool) (a : Asp.Atom) (r : Rule) (globals : List String) : Formula :=
  let core :=
    if a.args.length > 0 then
      Formula.bin .and (conjoin ((a.args.zip (globals.take a.args.length)).map fun (t, v) => val t ⟨v, .general⟩))
        (tauBody r.body)
    else tauBody r.body
  if choice then .bin .and core (.not (.not (.atomic (.atom (tauHeadAtom a globals))))) else core

def ruleComponent (r : Rule) (globals : List String) : Component :=
  match r.head with
  | .falsity => .constraint (.bin .imp (tauBody r.body) .fls)
  | .basic a => .partialDef (tauRuleBody false a r globals) (tauHeadAtom a globals)
  | .choice a => .partialDef (tauRuleBody true a r globals) (tauHeadAtom a globals)

theorem allUnique_iff_nodup' {α} [DecidableEq α] (l : List α) : allUnique l = true ↔ l.Nodup := by
  induction l with
  | nil => simp [allUnique]
  | cons x xs ih => simp [allUnique, ih]

theorem splitImplication_head (body : Formula) (p : String) (zs : List String) (hn : zs.Nodup) :
    splitImplication (.bin .imp body (.atomic (.atom ⟨p, zs.map GTerm.var⟩))) =
      some (.partialDef body ⟨p, zs.map GTerm.var⟩) := by
  have hmap : (zs.map GTerm.var).map GTerm.asVar? = zs.map fun z => some (⟨z, .general⟩ : Var) := by
    rw [List.map_map]; rfl
  have h2 : allUnique ((zs.map GTerm.var).map GTerm.asVar?) = true := by
    rw [allUnique_iff_nodup', hmap]
    exact List.Pairwise.map _ (fun a b hab hc => hab (by injection hc with hc; injection hc)) hn
  unfold splitImplication
  simp
  exact ⟨fun x _ => by simp [GTerm.asVar?], by simpa [List.map_map] using h2⟩

theorem splitImplication_fls (body : Formula) :
    splitImplication (.bin .imp body .fls) = some (.constraint (.bin .imp body .fls)) := by
  unfold splitImplication
  simp [Formula.fls]

theorem split_quant (vs : List Var) (A B : Formula) (h : (Formula.quant .all vs (.bin .imp A B)).fv = []) :
    split (.quant .all vs (.bin .imp A B)) = splitImplication (.bin .imp A B) := by
  unfold split
  rw [h]; rfl

theorem split_imp (A B : Formula) (h : (Formula.bin .imp A B).fv = []) :
    split (.bin .imp A B) = splitImplication (.bin .imp A B) := by
  unfold split
  rw [h]; rfl

theorem split_close (names : List String) (A B : Formula)
    (h : (if (sortedGeneral names).isEmpty then Formula.bin .imp A B
      else .quant .all (sortedGeneral names) (.bin .imp A B)).fv = []) :
    split (if (sortedGeneral names).isEmpty then Formula.bin .imp A B
      else .quant .all (sortedGeneral names) (.bin .imp A B)) = splitImplication (.bin .imp A B) := by
  by_cases he : (sortedGeneral names).isEmpty = true
  · rw [if_pos he] at h ⊢; exact split_imp A B h
  · rw [if_neg he] at h ⊢; exact split_quant _ A B h

theorem headRuleFormula_split (choice : Bool) (a : Asp.Atom) (r : Rule) (globals : List String)
    (hn : globals.Nodup) (hfv : (headRuleFormula choice a r globals).fv = []) :
    split (headRuleFormula choice a r globals) =
      some (.partialDef (tauRuleBody choice a r globals) (tauHeadAtom a globals)) := by
  have hfn : (globals.take a.args.length).Nodup := hn.sublist (List.take_sublist _ _)
  unfold headRuleFormula at hfv ⊢
  unfold tauRuleBody tauHeadAtom
  by_cases hpos : a.args.length > 0
  · simp only [hpos, if_true] at hfv ⊢
    rw [split_quant _ _ _ hfv]
    exact splitImplication_head _ _ _ hfn
  · have h0 : a.args.length = 0 := by omega
    simp only [hpos, if_false] at hfv ⊢
    rw [split_close _ _ _ hfv]
    have := splitImplication_head (if choice = true then
        Formula.bin .and (tauBody r.body) (.not (.not (.atomic (.atom ⟨a.pred, []⟩)))) else tauBody r.body)
      a.pred [] List.nodup_nil
    simp only [List.map_nil] at this
    simp only [h0, List.take_zero, List.map_nil]
    exact this

theorem tauStarRule_split (r : Rule) (globals : List String) (hn : globals.Nodup) :
    split (tauStarRule r globals) = some (ruleComponent r globals) := by
  have hfv := tauStarRule_fv_nil r globals
  cases hh : r.head with
  | falsity =>
    unfold tauStarRule at hfv ⊢
    unfold ruleComponent
    simp only [hh] at hfv ⊢
    rw [split_close _ _ _ hfv]
    exact splitImplication_fls _
  | basic a =>
    rw [tauStarRule_basic r a globals hh] at hfv ⊢
    unfold ruleComponent
    rw [hh]
    exact headRuleFormula_split false a r globals hn hfv
  | choice a =>
    rw [tauStarRule_choice r a globals hh] at hfv ⊢
    unfold ruleComponent
    rw [hh]
    exact headRuleFormula_split true a r globals hn hfv

/-! ## grouping the partial definitions -/

def collectStep (acc : Definitions × List Formula) (c : Component) : Definitions × List Formula :=
  match c with
  | .constraint f => (acc.1, acc.2 ++ [f])
  | .partialDef f a => (acc.1.push a f, acc.2)

def collect (cs : List Component) (init : Definitions × List Formula) : Definitions × List Formula :=
  cs.foldl collectStep init

theorem components_foldlM (globals : List String) (hn : globals.Nodup) : ∀ (rules : List Rule)
    (init : Definitions × List Formula),
    (rules.map fun r => tauStarRule r globals).foldlM (fun (acc : Definitions × List Formula) formula =>
      match split formula with
      | none => none
      | some (.constraint c) => some (acc.1, acc.2 ++ [c])
      | some (.partialDef f a) => some (acc.1.push a f, acc.2)) init =
    some (collect (rules.map fun r => ruleComponent r globals) init) := by
  intro rules
  induction rules with
  | nil => intro init; rfl
  | cons r rs ih =>
    intro init
    simp only [List.map_cons, List.foldlM_cons, tauStarRule_split r globals hn]
    cases hc : ruleComponent r globals with
    | constraint f => simp only [Option.bind_eq_bind, Option.bind_some]; rw [ih]; simp [collect, collectStep, hc]
    | partialDef f a => simp only [Option.bind_eq_bind, Option.bind_some]; rw [ih]; simp [collect, collectStep, hc]

theorem components_tauStar (P : Program) (hp : globalsPanic P = false) :
    components (tauStar P) = some (collect (P.map fun r => ruleComponent r (chooseFreshGlobals P)) ([], [])) := by
  unfold components tauStar
  exact components_foldlM _ (chooseFreshGlobals_spec P hp).1 P ([], [])

/-- keys are pairwise distinct, and the entry of an atom lists exactly the bodies pushed for it -/
def DefsSpec (d : Definitions) (pushed : Anthem.Atom → Formula → Prop) : Prop :=
  (d.map (·.1)).Nodup ∧ ∀ a f, (∃ fs, (a, fs) ∈ d ∧ f ∈ fs) ↔ pushed a f

theorem push_spec (d : Definitions) (pushed : Anthem.Atom → Formula → Prop) (h : DefsSpec d pushed)
    (a : Anthem.Atom) (f : Formula) :
    DefsSpec (d.push a f) (fun a' f' => pushed a' f' ∨ (a' = a ∧ f' = f)) := by
  obtain ⟨hnd, hmem⟩ := h
  unfold Definitions.push
  split
  · rename_i hany
    simp only [List.any_eq_true, decide_eq_true_eq] at hany
    refine ⟨?_, ?_⟩
    · have : (d.map fun e => if e.1 = a then (e.1, e.2 ++ [f]) else e).map (·.1) = d.map (·.1) := by
        rw [List.map_map]
        apply List.map_congr_left
        intro e _
        simp only [Function.comp]
        split <;> rfl
      rw [this]; exact hnd
    · intro a' f'
      simp only [List.mem_map]
      constructor
      · rintro ⟨fs, ⟨e, he, heq⟩, hf⟩
        split at heq
        · rename_i hea
          injection heq with h1 h2
          subst h1; subst h2
          rcases List.mem_append.mp hf with hf | hf
          · exact Or.inl ((hmem _ _).mp ⟨e.2, he, hf⟩)
          · simp only [List.mem_singleton] at hf
            exact Or.inr ⟨hea, hf⟩
        · subst heq
          exact Or.inl ((hmem _ _).mp ⟨fs, he, hf⟩)
      · rintro (hp | ⟨rfl, rfl⟩)
        · obtain ⟨fs, he, hf⟩ := (hmem _ _).mpr hp
          by_cases hea : a' = a
          · exact ⟨fs ++ [f], ⟨(a', fs), he, by simp [hea]⟩, List.mem_append_left _ hf⟩
          · exact ⟨fs, ⟨(a', fs), he, by simp [hea]⟩, hf⟩
        · obtain ⟨e, he, hea⟩ := hany
          exact ⟨e.2 ++ [f'], ⟨e, he, by simp [hea]⟩, by simp⟩
  · rename_i hany
    simp only [List.any_eq_true, decide_eq_true_eq, not_exists, not_and] at hany
    refine ⟨?_, ?_⟩
    · rw [List.map_append, List.nodup_append]
      refine ⟨hnd, by simp, ?_⟩
      intro x hx y hy
      simp only [List.map_cons, List.map_nil, List.mem_singleton] at hy
      subst hy
      obtain ⟨e, he, rfl⟩ := List.mem_map.mp hx
      exact hany e he
    · intro a' f'
      simp only [List.mem_append, List.mem_singleton, Prod.mk.injEq]
      constructor
      · rintro ⟨fs, he | ⟨rfl, rfl⟩, hf⟩
        · exact Or.inl ((hmem _ _).mp ⟨fs, he, hf⟩)
        · simp only [List.mem_singleton] at hf
          exact Or.inr ⟨rfl, hf⟩
      · rintro (hp | ⟨rfl, rfl⟩)
        · obtain ⟨fs, he, hf⟩ := (hmem _ _).mpr hp
          exact ⟨fs, Or.inl he, hf⟩
        · exact ⟨[f'], Or.inr ⟨rfl, rfl⟩, by simp⟩

theorem collect_spec : ∀ (cs : List Component) (init : Definitions × List Formula)
    (pushed : Anthem.Atom → Formula → Prop), DefsSpec init.1 pushed →
    DefsSpec (collect cs init).1 (fun a f => pushed a f ∨ Component.partialDef f a ∈ cs) ∧
    (∀ c, c ∈ (collect cs init).2 ↔ c ∈ init.2 ∨ Component.constraint c ∈ cs) := by
  intro cs
  induction cs with
  | nil =>
    intro init pushed h
    refine ⟨⟨h.1, fun a f => ?_⟩, fun c => by simp [collect]⟩
    simpa [collect] using h.2 a f
  | cons c cs ih =>
    intro init pushed h
    simp only [collect, List.foldl_cons, collectStep]
    cases c with
    | constraint f =>
      have := ih (init.1, init.2 ++ [f]) pushed h
      simp only [collect] at this
      refine ⟨?_, ?_⟩
      · have h1 := this.1
        refine ⟨h1.1, fun a g => (h1.2 a g).trans ?_⟩
        simp
      · intro c'
        rw [this.2 c']
        simp only [List.mem_append, List.mem_cons, List.not_mem_nil, or_false, Component.constraint.injEq]
        constructor
        · rintro ((h | h) | h)
          · exact Or.inl h
          · exact Or.inr (Or.inl h)
          · exact Or.inr (Or.inr h)
        · rintro (h | h | h)
          · exact Or.inl (Or.inl h)
          · exact Or.inl (Or.inr h)
          · exact Or.inr h
    | partialDef f a =>
      have := ih (init.1.push a f, init.2) _ (push_spec init.1 pushed h a f)
      simp only [collect] at this
      refine ⟨?_, ?_⟩
      · have h1 := this.1
        refine ⟨h1.1, fun a' g => (h1.2 a' g).trans ?_⟩
        simp only [List.mem_cons, Component.partialDef.injEq]
        constructor
        · rintro ((h | ⟨rfl, rfl⟩) | h)
          · exact Or.inl h
          · exact Or.inr (Or.inl ⟨rfl, rfl⟩)
          · exact Or.inr (Or.inr h)
        · rintro (h | ⟨rfl, rfl⟩ | h)
          · exact Or.inl (Or.inl h)
          · exact Or.inl (Or.inr ⟨rfl, rfl⟩)
          · exact Or.inr h
      · intro c'
        rw [this.2 c']
        simp

/-! ## the tail of `completion`: empty definitions, head mismatches, inputs -/

theorem atomFromPred_predicate (p : Pred) : (atomFromPred p).predicate = p := by
  obtain ⟨s, n⟩ := p
  simp [atomFromPred, Anthem.Atom.predicate, (chooseFresh_spec ["V"] "V" n).2.2]

theorem mem_explicitPreds (explicit : Definitions) (q : Pred) :
    q ∈ explicit.foldl (fun acc e => ins acc e.1.predicate) [] ↔ ∃ e ∈ explicit, e.1.predicate = q := by
  suffices h : ∀ (l : Definitions) (init : List Pred),
      q ∈ l.foldl (fun acc e => ins acc e.1.predicate) init ↔ q ∈ init ∨ ∃ e ∈ l, e.1.predicate = q by
    simpa using h explicit []
  intro l
  induction l with
  | nil => intro init; simp
  | cons e l ih =>
    intro init
    simp only [List.foldl_cons, ih, mem_ins, List.mem_cons, exists_eq_or_imp]
    constructor
    · rintro ((h | h) | h)
      · exact Or.inl h
      · exact Or.inr (Or.inl h.symm)
      · exact Or.inr (Or.inr h)
    · rintro (h | h | h)
      · exact Or.inl (Or.inl h)
      · exact Or.inl (Or.inr h.symm)
      · exact Or.inr h

/-- entries are explicit ones or empty definitions of predicates without explicit definition -/
def TailInv (explicit : Definitions) (d : Definitions) : Prop :=
  ∀ e ∈ d, e ∈ explicit ∨ (e.2 = [] ∧ e.1 = atomFromPred e.1.predicate ∧ ∀ e' ∈ explicit, e'.1.predicate ≠ e.1.predicate)

theorem addEmpty_mem (explicit d : Definitions) (hinv : TailInv explicit d) (p : Pred)
    (hp : ∀ e' ∈ explicit, e'.1.predicate ≠ p) :
    (∀ e, e ∈ d.addEmpty p ↔ e ∈ d ∨ e = (atomFromPred p, [])) ∧ TailInv explicit (d.addEmpty p) := by
  have hmem : ∀ e, e ∈ d.addEmpty p ↔ e ∈ d ∨ e = (atomFromPred p, []) := by
    intro e
    unfold Definitions.addEmpty
    simp only
    split
    · rename_i hany
      simp only [List.any_eq_true, decide_eq_true_eq] at hany
      obtain ⟨e0, he0, hk⟩ := hany
      have hsame : (d.map fun e => if e.1 = atomFromPred p then (atomFromPred p, []) else e) = d := by
        conv => rhs; rw [← List.map_id d]
        apply List.map_congr_left
        intro x hx
        simp only [id]
        split
        · rename_i hxa
          rcases hinv x hx with h | ⟨h2, _, _⟩
          · exact absurd (by rw [hxa, atomFromPred_predicate]) (hp x h)
          · rw [← hxa, ← h2]
        · rfl
      rw [hsame]
      constructor
      · exact Or.inl
      · rintro (h | rfl)
        · exact h
        · rcases hinv e0 he0 with h | ⟨h2, _, _⟩
          · exact absurd (by rw [hk, atomFromPred_predicate]) (hp e0 h)
          · have : e0 = (atomFromPred p, []) := by rw [← hk, ← h2]
            rw [← this]; exact he0
    · simp [List.mem_append]
  refine ⟨hmem, ?_⟩
  intro e he
  rcases (hmem e).mp he with h | rfl
  · exact hinv e h
  · right
    refine ⟨rfl, ?_, ?_⟩
    · simp only [atomFromPred_predicate]
    · simp only [atomFromPred_predicate]; exact hp

theorem addEmpty_fold (explicit : Definitions) : ∀ (ps : List Pred) (d : Definitions), TailInv explicit d →
    (∀ p ∈ ps, ∀ e' ∈ explicit, e'.1.predicate ≠ p) →
    (∀ e, e ∈ ps.foldl Definitions.addEmpty d ↔ e ∈ d ∨ ∃ p ∈ ps, e = (atomFromPred p, [])) ∧
      TailInv explicit (ps.foldl Definitions.addEmpty d) := by
  intro ps
  induction ps with
  | nil => intro d hinv _; exact ⟨fun e => by simp, hinv⟩
  | cons p ps ih =>
    intro d hinv hps
    obtain ⟨h1, h2⟩ := addEmpty_mem explicit d hinv p (hps p List.mem_cons_self)
    obtain ⟨h3, h4⟩ := ih (d.addEmpty p) h2 fun q hq => hps q (List.mem_cons_of_mem _ hq)
    refine ⟨fun e => ?_, h4⟩
    simp only [List.foldl_cons]
    rw [h3, h1]
    simp only [List.mem_cons, exists_eq_or_imp]
    exact or_assoc

theorem hasHeadMismatches_false (d : Definitions)
    (h : ∀ e ∈ d, ∀ e' ∈ d, e.1.predicate = e'.1.predicate → e.1 = e'.1) : hasHeadMismatches d = false := by
  unfold hasHeadMismatches
  rw [Bool.eq_false_iff]
  intro hany
  simp only [List.any_eq_true, Bool.and_eq_true, decide_eq_true_eq] at hany
  obtain ⟨e, he, e', he', hp, hne⟩ := hany
  exact hne (h e he e' he' hp)

/-- **The formulas of `completion`**, given the components and that explicit definitions of one
    predicate share their head atom. -/
theorem completion_formulas (t : Theory) (inputs : List Pred) (explicit : Definitions) (constraints : List Formula)
    (hc : components t = some (explicit, constraints))
    (hkeys : ∀ e ∈ explicit, ∀ e' ∈ explicit, e.1.predicate = e'.1.predicate → e.1 = e'.1) :
    ∃ Γ, completion t inputs = some Γ ∧ ∀ F, F ∈ Γ ↔
      (∃ c ∈ constraints, F = c.universalClosure) ∨
      (∃ e ∈ explicit, e.1.predicate ∉ inputs ∧ F = completeDefinition e.1 e.2) ∨
      (∃ p ∈ t.preds, p ∉ inputs ∧ (∀ e ∈ explicit, e.1.predicate ≠ p) ∧ F = completeDefinition (atomFromPred p) []) := by
  unfold completion
  simp only [hc]
  have hps : ∀ p ∈ t.preds.filter (· ∉ explicit.foldl (fun acc e => ins acc e.1.predicate) []),
      ∀ e' ∈ explicit, e'.1.predicate ≠ p := by
    intro p hp e' he' heq
    simp only [List.mem_filter, decide_eq_true_eq] at hp
    exact hp.2 ((mem_explicitPreds explicit p).mpr ⟨e', he', heq⟩)
  obtain ⟨hmem, hinv⟩ := addEmpty_fold explicit _ explicit (fun e he => Or.inl he) hps
  have hmis : hasHeadMismatches ((t.preds.filter (· ∉ explicit.foldl (fun acc e => ins acc e.1.predicate) [])).foldl
      Definitions.addEmpty explicit) = false := by
    apply hasHeadMismatches_false
    intro e he e' he' hp
    rcases hinv e he with h | ⟨_, h2, h3⟩ <;> rcases hinv e' he' with h' | ⟨_, h2', h3'⟩
    · exact hkeys e h e' h' hp
    · exact absurd hp (h3' e h)
    · exact absurd hp.symm (h3 e' h')
    · rw [h2, h2', hp]
  rw [hmis]
  simp only [Bool.false_eq_true, if_false]
  refine ⟨_, rfl, fun F => ?_⟩
  simp only [List.mem_append, List.mem_map, List.mem_filter, decide_eq_true_eq]
  constructor
  · rintro (⟨c, hc', rfl⟩ | ⟨e, ⟨he, hin⟩, rfl⟩)
    · exact Or.inl ⟨c, hc', rfl⟩
    · rcases (hmem e).mp he with h | ⟨p, hp, rfl⟩
      · exact Or.inr (Or.inl ⟨e, h, hin, rfl⟩)
      · simp only [List.mem_filter, decide_eq_true_eq] at hp
        rw [atomFromPred_predicate] at hin
        exact Or.inr (Or.inr ⟨p, hp.1, hin, hps p (by simp [List.mem_filter, hp]), rfl⟩)
  · rintro (⟨c, hc', rfl⟩ | ⟨e, he, hin, rfl⟩ | ⟨p, hp, hin, hne, rfl⟩)
    · exact Or.inl ⟨c, hc', rfl⟩
    · exact Or.inr ⟨e, ⟨(hmem e).mpr (Or.inl he), hin⟩, rfl⟩
    · refine Or.inr ⟨(atomFromPred p, []), ⟨(hmem _).mpr (Or.inr ⟨p, ?_, rfl⟩), ?_⟩, rfl⟩
      · simp only [List.mem_filter, decide_eq_true_eq]
        refine ⟨hp, fun hm => ?_⟩
        obtain ⟨e, he, heq⟩ := (mem_explicitPreds explicit p).mp hm
        exact hne e he heq
      · rw [atomFromPred_predicate]; exact hin

/-! ## meaning of one completed definition -/

theorem sat_disjoin (I : Interp) (ρ : Asg) (fs : List Formula) :
    sat I (disjoin fs) ρ ↔ ∃ f ∈ fs, sat I f ρ := by
  cases fs with
  | nil => simp [disjoin, Formula.fls, sat, AtomicF.sat]
  | cons f fs =>
    simp only [disjoin]
    suffices h : ∀ (l : List Formula) (acc : Formula),
        sat I (l.foldl (fun acc e => Formula.bin .or acc e) acc) ρ ↔ sat I acc ρ ∨ ∃ g ∈ l, sat I g ρ by
      rw [h fs f]; simp
    intro l
    induction l with
    | nil => intro acc; simp
    | cons e l ih =>
      intro acc
      simp only [List.foldl_cons, ih, sat, List.mem_cons, exists_eq_or_imp]
      exact or_assoc

theorem ht_same (T : PredI) (fc : FcI) (F : Formula) : ∀ (w : World) (ρ : Asg),
    ht ⟨T, T, fc⟩ F w ρ ↔ sat ⟨T, fc⟩ F ρ := by
  induction F with
  | atomic a => intro w ρ; cases w <;> rfl
  | not f ih => intro w ρ; simp only [ht, sat, ih]
  | bin c l r ihl ihr =>
    intro w ρ
    cases c <;> simp only [ht, sat, ihl, ihr, and_self]
    exact ⟨fun h => ⟨h.1, h.2⟩, fun h => ⟨h.1, h.2⟩⟩
  | quant q vs f ih =>
    intro w ρ
    cases q
    · simp only [ht, sat]; exact bindAll_congr (fun τ => ih w τ) ρ
    · simp only [ht, sat]; exact bindEx_congr (fun τ => ih w τ) ρ

theorem mem_headAtom_vars (q : String) (fvars : List String) (v : Var) :
    v ∈ (Anthem.Atom.vars ⟨q, fvars.map GTerm.var⟩) ↔ v ∈ fvars.map fun z => (⟨z, .general⟩ : Var) := by
  simp only [Anthem.Atom.vars, AtomicF.vars]
  rw [mem_foldl_ext]
  simp only [List.not_mem_nil, false_or, List.mem_map]
  constructor
  · rintro ⟨t, ⟨z, hz, rfl⟩, hv⟩
    simp only [GTerm.vars, List.mem_singleton] at hv
    exact ⟨z, hz, hv.symm⟩
  · rintro ⟨z, hz, rfl⟩
    exact ⟨.var z, ⟨z, hz, rfl⟩, by simp [GTerm.vars]⟩

/-- existential closure over the free variables other than `v`, all of them general-sorted -/
theorem bindEx_rest (I : Interp) (f : Formula) (v : List Var) (hgen : ∀ x, f.FV x → x.sort = .general) (τ : Asg) :
    bindEx (f.fv.filter (· ∉ v)) (sat I f) τ ↔ ∃ τ', (∀ x ∈ v, τ' x = τ x) ∧ sat I f τ' := by
  rw [bindEx_iff]
  constructor
  · rintro ⟨τ', hτ', hs⟩
    refine ⟨τ', fun x hx => hτ'.1 x (by simp [List.mem_filter, hx]), hs⟩
  · rintro ⟨τ'', hag, hs⟩
    let τ' : Asg := fun x => if x ∈ f.fv.filter (· ∉ v) then τ'' x else τ x
    refine ⟨τ', ⟨fun x hx => (by show (if _ then _ else _) = _; rw [if_neg hx]), fun x hx => ?_⟩, ?_⟩
    · have : f.FV x := Formula.mem_fv.mp (List.mem_filter.mp hx).1
      rw [hgen x this]; trivial
    · refine (sat_agree I f τ' τ'' fun x hx => ?_).mpr hs
      by_cases hxu : x ∈ f.fv.filter (· ∉ v)
      · show (if _ then _ else _) = _; rw [if_pos hxu]
      · show (if _ then _ else _) = _
        rw [if_neg hxu]
        have hxv : x ∈ v := by
          refine Classical.byContradiction fun hnv => hxu ?_
          exact List.mem_filter.mpr ⟨Formula.mem_fv.mpr hx, by simpa using hnv⟩
        exact (hag x hxv).symm

theorem completeDefinition_sem (I : Interp) (q : String) (fvars : List String) (hn : fvars.Nodup)
    (bodies : List Formula) (hgen : ∀ f ∈ bodies, ∀ x, f.FV x → x.sort = .general) (ρ : Asg) :
    sat I (completeDefinition ⟨q, fvars.map GTerm.var⟩ bodies) ρ ↔
      ∀ ds : List Dom, ds.length = fvars.length →
        (I.pred q ds ↔ ∃ f ∈ bodies, ∃ τ' : Asg, fvars.map (fun z => τ' ⟨z, .general⟩) = ds ∧ sat I f τ') := by
  unfold completeDefinition
  simp only
  rw [sat_quantify]
  simp only [sat]
  rw [bindAll_perm (mem_headAtom_vars q fvars), bindAll_fresh_general _ hn]
  refine forall_congr' fun ds => imp_congr_right fun hds => ?_
  have hm := assignGen_map ρ fvars ds hn hds.symm
  have hatom : AtomicF.sat I.pred I.fc (assignGen ρ fvars ds) (.atom ⟨q, fvars.map GTerm.var⟩) ↔ I.pred q ds := by
    simp only [AtomicF.sat, List.map_map]
    rw [show (GTerm.eval I.fc (assignGen ρ fvars ds) ∘ GTerm.var) = fun z => assignGen ρ fvars ds ⟨z, .general⟩ from rfl, hm]
  rw [hatom, sat_disjoin]
  refine iff_congr Iff.rfl ?_
  have key : ∀ f ∈ bodies, (sat I (f.quantify .ex (f.fv.filter (· ∉ Anthem.Atom.vars ⟨q, fvars.map GTerm.var⟩)))
      (assignGen ρ fvars ds) ↔ ∃ τ' : Asg, fvars.map (fun z => τ' ⟨z, .general⟩) = ds ∧ sat I f τ') := by
    intro f hf
    rw [sat_quantify]
    simp only [sat]
    rw [bindEx_rest I f _ (hgen f hf)]
    constructor
    · rintro ⟨τ', hag, hs⟩
      refine ⟨τ', ?_, hs⟩
      rw [← hm]
      apply List.map_congr_left
      intro z hz
      exact hag _ ((mem_headAtom_vars q fvars _).mpr (List.mem_map.mpr ⟨z, hz, rfl⟩))
    · rintro ⟨τ', hmap, hs⟩
      refine ⟨τ', fun x hx => ?_, hs⟩
      obtain ⟨z, hz, rfl⟩ := List.mem_map.mp ((mem_headAtom_vars q fvars x).mp hx)
      exact List.map_inj_left.mp (hmap.trans hm.symm) z hz
  constructor
  · rintro ⟨F, hF, hs⟩
    obtain ⟨f, hf, rfl⟩ := List.mem_map.mp hF
    exact ⟨f, hf, (key f hf).mp hs⟩
  · rintro ⟨f, hf, h⟩
    exact ⟨_, List.mem_map.mpr ⟨f, hf, rfl⟩, (key f hf).mpr h⟩

end Anthem
