/-
  HT-equivalence and classical equivalence are congruences; hence a meaning-preserving rewrite
  stays meaning-preserving when applied post-order, composed, or iterated (DESIGN.md 3.5, C07).
-/
import AnthemModel.Semantics.Fol
import AnthemModel.Model.Simplify
namespace Anthem

theorem HTEquiv.refl (F : Formula) : HTEquiv F F := fun _ _ _ _ => Iff.rfl
theorem HTEquiv.symm {F G : Formula} (h : HTEquiv F G) : HTEquiv G F :=
  fun M hs w ρ => (h M hs w ρ).symm
theorem HTEquiv.trans {F G H : Formula} (h₁ : HTEquiv F G) (h₂ : HTEquiv G H) : HTEquiv F H :=
  fun M hs w ρ => (h₁ M hs w ρ).trans (h₂ M hs w ρ)

theorem ClassEquiv.refl (F : Formula) : ClassEquiv F F := fun _ _ => Iff.rfl
theorem ClassEquiv.symm {F G : Formula} (h : ClassEquiv F G) : ClassEquiv G F :=
  fun I ρ => (h I ρ).symm
theorem ClassEquiv.trans {F G H : Formula} (h₁ : ClassEquiv F G) (h₂ : ClassEquiv G H) :
    ClassEquiv F H := fun I ρ => (h₁ I ρ).trans (h₂ I ρ)

theorem HTEquiv.not {F G : Formula} (h : HTEquiv F G) : HTEquiv (.not F) (.not G) := by
  intro M hs w ρ; simp only [ht]; exact not_congr (h M hs .there ρ)

theorem HTEquiv.bin {F F' G G' : Formula} (c : Conn) (h₁ : HTEquiv F F') (h₂ : HTEquiv G G') :
    HTEquiv (.bin c F G) (.bin c F' G') := by
  intro M hs w ρ
  cases c <;> simp only [ht, h₁ M hs w ρ, h₂ M hs w ρ, h₁ M hs .there ρ, h₂ M hs .there ρ]

theorem HTEquiv.quant {F G : Formula} (q : Quant) (vs : List Var) (h : HTEquiv F G) :
    HTEquiv (.quant q vs F) (.quant q vs G) := by
  intro M hs w ρ
  cases q <;> simp only [ht]
  · exact bindAll_congr (fun ρ => h M hs w ρ) ρ
  · exact bindEx_congr (fun ρ => h M hs w ρ) ρ

theorem ClassEquiv.not {F G : Formula} (h : ClassEquiv F G) : ClassEquiv (.not F) (.not G) := by
  intro I ρ; simp only [sat]; exact not_congr (h I ρ)

theorem ClassEquiv.bin {F F' G G' : Formula} (c : Conn) (h₁ : ClassEquiv F F')
    (h₂ : ClassEquiv G G') : ClassEquiv (.bin c F G) (.bin c F' G') := by
  intro I ρ
  cases c <;> simp only [sat, h₁ I ρ, h₂ I ρ]

theorem ClassEquiv.quant {F G : Formula} (q : Quant) (vs : List Var) (h : ClassEquiv F G) :
    ClassEquiv (.quant q vs F) (.quant q vs G) := by
  intro I ρ
  cases q <;> simp only [sat]
  · exact bindAll_congr (fun ρ => h I ρ) ρ
  · exact bindEx_congr (fun ρ => h I ρ) ρ

/-- HT-equivalence implies classical equivalence (take `H = T`). -/
theorem HTEquiv.toClass {F G : Formula} (h : HTEquiv F G) : ClassEquiv F G := by
  intro I ρ
  have := h ⟨I.pred, I.pred, I.fc⟩ (fun _ _ x => x) .there ρ
  rwa [ht_there_eq_sat, ht_there_eq_sat] at this

/-- Post-order application of a meaning-preserving rewrite preserves meaning (HT). -/
theorem applyPost_htEquiv {f : Formula → Formula} (hf : ∀ F, HTEquiv (f F) F) :
    ∀ F, HTEquiv (applyPost f F) F := by
  intro F
  induction F with
  | atomic a => exact hf _
  | not g ih => exact (hf _).trans ih.not
  | bin c l r ihl ihr => exact (hf _).trans (HTEquiv.bin c ihl ihr)
  | quant q vs g ih => exact (hf _).trans (ih.quant q vs)

theorem applyPost_classEquiv {f : Formula → Formula} (hf : ∀ F, ClassEquiv (f F) F) :
    ∀ F, ClassEquiv (applyPost f F) F := by
  intro F
  induction F with
  | atomic a => exact hf _
  | not g ih => exact (hf _).trans ih.not
  | bin c l r ihl ihr => exact (hf _).trans (ClassEquiv.bin c ihl ihr)
  | quant q vs g ih => exact (hf _).trans (ih.quant q vs)

/-- `compose` of meaning-preserving rewrites. -/
theorem compose_htEquiv {fs : List (Formula → Formula)} (h : ∀ f ∈ fs, ∀ F, HTEquiv (f F) F) :
    ∀ F, HTEquiv (compose fs F) F := by
  induction fs with
  | nil => intro F; exact HTEquiv.refl F
  | cons f fs ih =>
    intro F
    show HTEquiv (fs.foldl (fun x f => f x) (f F)) F
    exact (ih (fun g hg => h g (List.mem_cons_of_mem _ hg)) (f F)).trans (h f List.mem_cons_self F)

theorem compose_classEquiv {fs : List (Formula → Formula)}
    (h : ∀ f ∈ fs, ∀ F, ClassEquiv (f F) F) : ∀ F, ClassEquiv (compose fs F) F := by
  induction fs with
  | nil => intro F; exact ClassEquiv.refl F
  | cons f fs ih =>
    intro F
    show ClassEquiv (fs.foldl (fun x f => f x) (f F)) F
    exact (ih (fun g hg => h g (List.mem_cons_of_mem _ hg)) (f F)).trans (h f List.mem_cons_self F)

/-- The bounded fixpoint loop returns a formula equivalent to its input, for every bound and
    whether or not it converged. -/
theorem applyFixpointFuel_htEquiv {f : Formula → Formula} (hf : ∀ F, HTEquiv (f F) F) :
    ∀ n F, HTEquiv (applyFixpointFuel f n F).1 F := by
  intro n
  induction n with
  | zero => intro F; exact applyPost_htEquiv hf F
  | succ n ih =>
    intro F
    simp only [applyFixpointFuel]
    split
    · exact applyPost_htEquiv hf F
    · exact (ih _).trans (applyPost_htEquiv hf F)

theorem applyFixpointFuel_classEquiv {f : Formula → Formula} (hf : ∀ F, ClassEquiv (f F) F) :
    ∀ n F, ClassEquiv (applyFixpointFuel f n F).1 F := by
  intro n
  induction n with
  | zero => intro F; exact applyPost_classEquiv hf F
  | succ n ih =>
    intro F
    simp only [applyFixpointFuel]
    split
    · exact applyPost_classEquiv hf F
    · exact (ih _).trans (applyPost_classEquiv hf F)

end Anthem
