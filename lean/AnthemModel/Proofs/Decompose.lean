/-
  C19 core: both decompositions of a problem are refuted by exactly the interpretations that make
  all axioms true and some conjecture false; breaking equivalences preserves the joint meaning.
-/
import AnthemModel.Model.Problem
import AnthemModel.Proofs.Agree
namespace Anthem

/-- `J` (with assignment `ρ` for any free variables) refutes a problem: all axioms true, some
    conjecture false. -/
def Refutes (J : Interp) (ρ : Asg) (P : Problem) : Prop :=
  (∀ a ∈ P.formulas, a.role = .axiom → sat J a.formula ρ) ∧
  ∃ c ∈ P.formulas, c.role = .conjecture ∧ ¬ sat J c.formula ρ

theorem mem_indexFrom {α} {l : List α} {k : Nat} {x : α} :
    x ∈ l ↔ ∃ i, (i, x) ∈ indexFrom k l := by
  induction l generalizing k with
  | nil => simp [indexFrom]
  | cons y ys ih =>
    simp only [indexFrom, List.mem_cons, Prod.mk.injEq]
    constructor
    · rintro (rfl | h)
      · exact ⟨k, Or.inl ⟨rfl, rfl⟩⟩
      · obtain ⟨i, hi⟩ := (ih (k := k + 1)).mp h; exact ⟨i, Or.inr hi⟩
    · rintro ⟨i, ⟨_, rfl⟩ | h⟩
      · exact Or.inl rfl
      · exact Or.inr ((ih (k := k + 1)).mpr ⟨i, h⟩)

theorem mem_axioms {p : Problem} {a : AnnF} : a ∈ p.axioms ↔ a ∈ p.formulas ∧ a.role = .axiom := by
  simp [Problem.axioms]

theorem mem_conjectures {p : Problem} {a : AnnF} :
    a ∈ p.conjectures ↔ a ∈ p.formulas ∧ a.role = .conjecture := by
  simp [Problem.conjectures]

theorem refutes_ax_conj (J : Interp) (ρ : Asg) (name : String) (ax : List AnnF) (c : AnnF)
    (hax : ∀ a ∈ ax, a.role = .axiom) (hc : c.role = .conjecture) :
    Refutes J ρ ⟨name, ax ++ [c]⟩ ↔ (∀ a ∈ ax, sat J a.formula ρ) ∧ ¬ sat J c.formula ρ := by
  simp only [Refutes, List.mem_append, List.mem_singleton]
  constructor
  · rintro ⟨h1, d, hd, hdr, hds⟩
    refine ⟨fun a ha => h1 a (Or.inl ha) (hax a ha), ?_⟩
    rcases hd with hd | rfl
    · rw [hax d hd] at hdr; cases hdr
    · exact hds
  · rintro ⟨h1, h2⟩
    refine ⟨?_, c, Or.inr rfl, hc, h2⟩
    rintro a (ha | rfl) hr
    · exact h1 a ha
    · rw [hc] at hr; cases hr

/-- **Independent decomposition.** -/
theorem independent_refutes (J : Interp) (ρ : Asg) (p : Problem) :
    (∃ P ∈ p.decomposeIndependent, Refutes J ρ P) ↔
      (∀ a ∈ p.axioms, sat J a.formula ρ) ∧ ∃ c ∈ p.conjectures, ¬ sat J c.formula ρ := by
  simp only [Problem.decomposeIndependent, List.mem_map, Prod.exists]
  constructor
  · rintro ⟨P, ⟨i, c, hic, rfl⟩, hr⟩
    have hc : c ∈ p.conjectures := mem_indexFrom.mpr ⟨i, hic⟩
    rw [refutes_ax_conj J ρ _ _ c (fun a ha => (mem_axioms.mp ha).2) (mem_conjectures.mp hc).2] at hr
    exact ⟨hr.1, c, hc, hr.2⟩
  · rintro ⟨h1, c, hc, h2⟩
    obtain ⟨i, hi⟩ := (mem_indexFrom (k := 0)).mp hc
    refine ⟨_, ⟨i, c, hi, rfl⟩, ?_⟩
    rw [refutes_ax_conj J ρ _ _ c (fun a ha => (mem_axioms.mp ha).2) (mem_conjectures.mp hc).2]
    exact ⟨h1, h2⟩

theorem setLastAxiom_formulas (l : List AnnF) :
    (setLastAxiom l).map (·.formula) = l.map (·.formula) := by
  induction l with
  | nil => rfl
  | cons a l ih =>
    cases l with
    | nil => rfl
    | cons b rest => simp only [setLastAxiom, List.map_cons] at ih ⊢; rw [ih]

/-- all elements but possibly the last are axioms -/
def InitAxioms : List AnnF → Prop
  | [] => True
  | [_] => True
  | a :: b :: rest => a.role = .axiom ∧ InitAxioms (b :: rest)

theorem setLastAxiom_roles (l : List AnnF) (h : InitAxioms l) :
    ∀ a ∈ setLastAxiom l, a.role = .axiom := by
  induction l with
  | nil => simp [setLastAxiom]
  | cons a l ih =>
    cases l with
    | nil => simp [setLastAxiom]
    | cons b rest =>
      simp only [setLastAxiom, List.mem_cons]
      rintro x (rfl | hx)
      · exact h.1
      · exact ih h.2 x (by simpa [setLastAxiom] using hx)

theorem initAxioms_append (l : List AnnF) (c : AnnF) (h : ∀ a ∈ l, a.role = .axiom) :
    InitAxioms (l ++ [c]) := by
  induction l with
  | nil => trivial
  | cons a l ih =>
    cases l with
    | nil => exact ⟨h a (by simp), trivial⟩
    | cons b rest =>
      exact ⟨h a (by simp), ih (fun x hx => h x (List.mem_cons_of_mem _ hx))⟩

theorem forall_sat_setLast (J : Interp) (ρ : Asg) (l : List AnnF) :
    (∀ a ∈ setLastAxiom l, sat J a.formula ρ) ↔ ∀ a ∈ l, sat J a.formula ρ := by
  have h := setLastAxiom_formulas l
  have key : ∀ l' : List AnnF, (∀ a ∈ l', sat J a.formula ρ) ↔ ∀ f ∈ l'.map (·.formula), sat J f ρ := by
    intro l'; simp
  rw [key, key, h]

theorem seqLoop_refutes (J : Interp) (ρ : Asg) (name : String) :
    ∀ (cs : List AnnF) (i : Nat) (acc : List AnnF), InitAxioms acc →
      (∀ c ∈ cs, c.role = .conjecture) →
      ((∃ P ∈ seqLoop name i acc cs, Refutes J ρ P) ↔
        (∀ a ∈ acc, sat J a.formula ρ) ∧ ∃ c ∈ cs, ¬ sat J c.formula ρ) := by
  intro cs
  induction cs with
  | nil => intro i acc _ _; simp [seqLoop]
  | cons c cs ih =>
    intro i acc hacc hcs
    have hc : c.role = .conjecture := hcs c List.mem_cons_self
    have hroles := setLastAxiom_roles acc hacc
    simp only [seqLoop, List.mem_cons, exists_eq_or_imp]
    rw [refutes_ax_conj J ρ _ _ c hroles hc, forall_sat_setLast,
      ih (i + 1) _ (initAxioms_append _ c hroles) (fun x hx => hcs x (List.mem_cons_of_mem _ hx))]
    simp only [List.mem_append, List.mem_singleton]
    constructor
    · rintro (⟨h1, h2⟩ | ⟨h1, d, hd, h2⟩)
      · exact ⟨h1, Or.inl h2⟩
      · refine ⟨?_, Or.inr ⟨d, hd, h2⟩⟩
        exact (forall_sat_setLast J ρ acc).mp (fun a ha => h1 a (Or.inl ha))
    · rintro ⟨h1, h2 | ⟨d, hd, h2⟩⟩
      · exact Or.inl ⟨h1, h2⟩
      · by_cases hsc : sat J c.formula ρ
        · refine Or.inr ⟨?_, d, hd, h2⟩
          rintro a (ha | rfl)
          · exact (forall_sat_setLast J ρ acc).mpr h1 a ha
          · exact hsc
        · exact Or.inl ⟨h1, hsc⟩

theorem initAxioms_of_all (l : List AnnF) (h : ∀ a ∈ l, a.role = .axiom) : InitAxioms l := by
  induction l with
  | nil => trivial
  | cons a l ih =>
    cases l with
    | nil => trivial
    | cons b rest => exact ⟨h a (by simp), ih (fun x hx => h x (List.mem_cons_of_mem _ hx))⟩

/-- **Sequential decomposition.** -/
theorem sequential_refutes (J : Interp) (ρ : Asg) (p : Problem) :
    (∃ P ∈ p.decomposeSequential, Refutes J ρ P) ↔
      (∀ a ∈ p.axioms, sat J a.formula ρ) ∧ ∃ c ∈ p.conjectures, ¬ sat J c.formula ρ :=
  seqLoop_refutes J ρ p.name p.conjectures 0 p.axioms
    (initAxioms_of_all _ (fun _ ha => (mem_axioms.mp ha).2))
    (fun _ hc => (mem_conjectures.mp hc).2)

/-! ## breaking equivalences -/

theorem sat_quantify (I : Interp) (f : Formula) (q : Quant) (vs : List Var) (ρ : Asg) :
    sat I (f.quantify q vs) ρ ↔ sat I (.quant q vs f) ρ := by
  unfold Formula.quantify
  split
  · rename_i h
    have : vs = [] := List.isEmpty_iff.mp h
    subst this
    cases q <;> simp [sat, bindAll, bindEx]
  · exact Iff.rfl

theorem bindAll_forall_mem {α} (vs : List Var) (l : List α) (P : α → Asg → Prop) (ρ : Asg) :
    bindAll vs (fun ρ' => ∀ x ∈ l, P x ρ') ρ ↔ ∀ x ∈ l, bindAll vs (P x) ρ := by
  simp only [bindAll_iff]
  exact ⟨fun h x hx τ hτ => h τ hτ x hx, fun h τ hτ x hx => h x hx τ hτ⟩

/-- **Breaking equivalences** keeps the joint classical meaning. -/
theorem break_equiv (I : Interp) : ∀ (F : Formula) (ρ : Asg),
    (∀ G ∈ breakEquivalencesFormula F, sat I G ρ) ↔ sat I F ρ := by
  intro F
  induction F with
  | atomic a => intro ρ; simp [breakEquivalencesFormula]
  | not f _ => intro ρ; simp [breakEquivalencesFormula]
  | bin c l r _ _ =>
    intro ρ
    cases c <;> simp [breakEquivalencesFormula, sat]
    exact ⟨fun ⟨a, b⟩ => ⟨a, b⟩, fun h => ⟨h.1, h.2⟩⟩
  | quant q vs f ih =>
    intro ρ
    cases q
    · simp only [breakEquivalencesFormula, List.mem_map, forall_exists_index, and_imp,
        forall_apply_eq_imp_iff₂, sat_quantify, sat]
      rw [← bindAll_forall_mem vs (breakEquivalencesFormula f) (fun G ρ' => sat I G ρ') ρ]
      exact bindAll_congr ih ρ
    · simp [breakEquivalencesFormula]

/-- … and the joint HT meaning (both worlds). -/
theorem break_equiv_ht (M : HTI) : ∀ (F : Formula) (w : World) (ρ : Asg),
    (∀ G ∈ breakEquivalencesFormula F, ht M G w ρ) ↔ ht M F w ρ := by
  intro F
  induction F with
  | atomic a => intro w ρ; simp [breakEquivalencesFormula]
  | not f _ => intro w ρ; simp [breakEquivalencesFormula]
  | bin c l r _ _ =>
    intro w ρ
    cases c <;> simp [breakEquivalencesFormula, ht]
  | quant q vs f ih =>
    intro w ρ
    cases q
    · simp only [breakEquivalencesFormula, List.mem_map, forall_exists_index, and_imp,
        forall_apply_eq_imp_iff₂]
      have hq : ∀ G, ht M (G.quantify .all vs) w ρ ↔ bindAll vs (ht M G w) ρ := fun G => by
        unfold Formula.quantify
        split
        · rename_i h
          have : vs = [] := List.isEmpty_iff.mp h
          subst this; simp [bindAll]
        · simp [ht]
      simp only [hq, ht]
      rw [← bindAll_forall_mem vs (breakEquivalencesFormula f) (fun G ρ' => ht M G w ρ') ρ]
      exact bindAll_congr (ih w) ρ
    · simp [breakEquivalencesFormula]

end Anthem
