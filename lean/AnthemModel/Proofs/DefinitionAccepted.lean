/-
  Accepted definitions of proof outlines (moved here from Props/C13 so that other proofs can build
  on them): what `checkDefinition` accepts, and conservativity.
-/
import AnthemModel.Model.External
import AnthemModel.Proofs.DefinitionSem
namespace Anthem.Outline

/-- An accepted definition: a universally closed equivalence whose left side is an atom whose
    arguments are pairwise distinct variables - the same set as the (pairwise distinct) quantified
    variables -, defining a predicate that is not taken, with a right side that has no other free
    variables and mentions only taken predicates. (Distinctness of the head arguments holds since
    the repair `fix: reject a definition whose head repeats a variable`; before it
    `forall X (d(X,X) <-> in(X))` was accepted.) -/
theorem definition_accepted_implies (f : Formula) (taken : List Pred) (p : Pred)
    (h : checkDefinition f taken = .ok p) :
    ∃ (vars : List Var) (a : Atom) (rhs : Formula) (tv : List Var),
      f = .quant .all vars (.bin .iff (.atomic (.atom a)) rhs) ∧ p = a.predicate ∧ p ∉ taken ∧
      (∀ x ∈ rhs.fv, x ∈ vars.foldl ins []) ∧ (∀ q ∈ rhs.preds, q ∈ taken) ∧
      ¬ (vars.foldl ins []).length < vars.length ∧
      a.args.mapM GTerm.asVar? = some tv ∧ sameSet (vars.foldl ins []) (tv.foldl ins []) = true ∧
      tv.Nodup := by
  unfold checkDefinition at h
  split at h
  · rename_i vars a rhs
    simp only at h
    split at h
    · cases h
    · rename_i hlen
      split at h
      · cases h
      · rename_i tv htv
        refine ⟨vars, a, rhs, tv, rfl, ?_⟩
        split at h
        · cases h
        · rename_i hsame
          split at h
          · cases h
          · rename_i htaken
            split at h
            · cases h
            · rename_i hfv
              split at h
              · cases h
              · rename_i hpreds
                injection h with h
                have hsame' : sameSet (vars.foldl ins []) (tv.foldl ins []) = true ∧ a.args.length = vars.length := by
                  simpa using hsame
                refine ⟨h.symm, h ▸ htaken, ?_, ?_, hlen, htv, hsame'.1,
                  head_args_nodup vars tv hlen hsame'.1 (by rw [mapM_asVar_length _ _ htv]; exact hsame'.2)⟩
                · intro x hx
                  simp only [List.any_eq_true, not_exists, not_and, decide_eq_true_eq] at hfv
                  exact Classical.not_not.mp (hfv x hx)
                · intro q hq
                  simp only [List.any_eq_true, not_exists, not_and, decide_eq_true_eq] at hpreds
                  exact Classical.not_not.mp (hpreds q hq)
  · cases h

/-- **Accepted definitions are conservative**: whatever the interpretation, changing it on the
    defined predicate alone (same symbol and arity; everything else untouched) makes the definition
    true under every assignment. So a definition - even one that the letter of the property
    would refuse, see the two known findings - never makes a claim about the task's predicates
    available. -/
theorem definition_conservative (f : Formula) (taken : List Pred) (p : Pred)
    (h : checkDefinition f taken = .ok p) (I : Interp) :
    ∃ P' : PredI,
      (∀ q ds, ¬ (q = p.symbol ∧ ds.length = p.arity) → (P' q ds ↔ I.pred q ds)) ∧
      ∀ ρ, sat ⟨P', I.fc⟩ f ρ := by
  obtain ⟨vars, a, rhs, tv, rfl, rfl, hnt, hfv, hpreds, _, htv, hsame, _⟩ :=
    definition_accepted_implies f taken p h
  refine ⟨definedPred I vars a rhs, fun q ds hq => definedPred_elsewhere I vars a rhs q ds hq, fun ρ => ?_⟩
  simp only [sameSet, Bool.and_eq_true, List.all_eq_true, decide_eq_true_eq] at hsame
  refine definition_conservative_core I vars a rhs tv htv (fun v => ?_) (fun x hx => ?_)
    (fun hin => hnt (hpreds _ hin)) ρ
  · constructor
    · intro hv
      have := hsame.1 v ((mem_foldl_ins vars [] v).mpr (Or.inr hv))
      rcases (mem_foldl_ins tv [] v).mp this with h0 | h0
      · cases h0
      · exact h0
    · intro hv
      have := hsame.2 v ((mem_foldl_ins tv [] v).mpr (Or.inr hv))
      rcases (mem_foldl_ins vars [] v).mp this with h0 | h0
      · cases h0
      · exact h0
  · rcases (mem_foldl_ins vars [] x).mp (hfv x hx) with h0 | h0
    · cases h0
    · exact h0

end Anthem.Outline
