/-
  Definitions accepted by `CheckInternal::definition` are conservative: every interpretation can
  be changed on the defined predicate alone so that the definition becomes true. This holds even
  when the head repeats a variable (`forall X (d(X,X) <-> F)`), which the check accepts.
-/
import AnthemModel.Model.External
import AnthemModel.Proofs.SubstFull
import AnthemModel.Proofs.RewritesClassic
import AnthemModel.Proofs.ExternalSem
namespace Anthem

theorem mapM_asVar_cons {t : GTerm} {ts : List GTerm} {tv : List Var}
    (h : (t :: ts).mapM GTerm.asVar? = some tv) :
    ∃ v tv', tv = v :: tv' ∧ t.asVar? = some v ∧ ts.mapM GTerm.asVar? = some tv' := by
  rw [List.mapM_cons] at h
  cases h1 : t.asVar? with
  | none => simp [h1] at h
  | some v =>
    cases h2 : ts.mapM GTerm.asVar? with
    | none => simp [h1, h2] at h
    | some tv' =>
      simp [h1, h2] at h
      exact ⟨v, tv', h.symm, rfl, rfl⟩

/-- two assignments that are well-sorted on the head variables and give the head arguments the
    same values agree on the head variables -/
theorem head_args_determine (fc : FcI) (ρ ρ' : Asg) : ∀ (args : List GTerm) (tv : List Var),
    args.mapM GTerm.asVar? = some tv →
    (∀ v ∈ tv, (ρ v).inSort v.sort) → (∀ v ∈ tv, (ρ' v).inSort v.sort) →
    args.map (GTerm.eval fc ρ) = args.map (GTerm.eval fc ρ') → ∀ v ∈ tv, ρ v = ρ' v := by
  intro args
  induction args with
  | nil =>
    intro tv h _ _ _ v hv
    simp at h
    subst h
    cases hv
  | cons t ts ih =>
    intro tv h hw hw' he v hv
    obtain ⟨x, tv', rfl, hx, hrest⟩ := mapM_asVar_cons h
    simp only [List.map_cons, List.cons.injEq] at he
    rcases List.mem_cons.mp hv with rfl | hv'
    · have e := he.1
      rw [asVar?_some hx, toTerm_eval', toTerm_eval',
        vval_of_inSort (hw _ List.mem_cons_self), vval_of_inSort (hw' _ List.mem_cons_self)] at e
      exact e
    · exact ih tv' hrest (fun u hu => hw u (List.mem_cons_of_mem _ hu))
        (fun u hu => hw' u (List.mem_cons_of_mem _ hu)) he.2 v hv'

/-- the interpretation of the defined predicate read off the right-hand side -/
def definedPred (I : Interp) (vars : List Var) (a : Atom) (rhs : Formula) : PredI :=
  fun q ds =>
    (q = a.pred ∧ ds.length = a.args.length ∧
      ∃ ρ : Asg, (∀ v ∈ vars, (ρ v).inSort v.sort) ∧ a.args.map (GTerm.eval I.fc ρ) = ds ∧ sat I rhs ρ) ∨
    (¬ (q = a.pred ∧ ds.length = a.args.length) ∧ I.pred q ds)

/-- **Definitions are conservative.** For a universally closed equivalence `forall vars (a <-> rhs)`
    whose head arguments are variables covering exactly the quantified variables, whose right side
    has no other free variables and does not mention the head predicate: the interpretation that
    differs from `I` on the head predicate only (`definedPred`) satisfies it under every
    assignment. -/
theorem definition_conservative_core (I : Interp) (vars : List Var) (a : Atom) (rhs : Formula)
    (tv : List Var) (htv : a.args.mapM GTerm.asVar? = some tv)
    (hcover : ∀ v, v ∈ vars ↔ v ∈ tv)
    (hfv : ∀ x ∈ rhs.fv, x ∈ vars) (hp : a.predicate ∉ rhs.preds) (ρ : Asg) :
    sat ⟨definedPred I vars a rhs, I.fc⟩ (.quant .all vars (.bin .iff (.atomic (.atom a)) rhs)) ρ := by
  simp only [sat]
  rw [bindAll_iff]
  intro τ hτ
  have hrhs : sat ⟨definedPred I vars a rhs, I.fc⟩ rhs τ ↔ sat I rhs τ := by
    refine sat_congr_preds I.fc _ _ rhs τ fun q hq ds hlen => ?_
    have hne : ¬ (q.symbol = a.pred ∧ ds.length = a.args.length) := by
      rintro ⟨h1, h2⟩
      apply hp
      have : q = a.predicate := by
        obtain ⟨qs, qa⟩ := q
        simp only [Atom.predicate, Pred.mk.injEq]
        exact ⟨h1, by simp only at hlen; omega⟩
      exact this ▸ hq
    simp only [definedPred]
    constructor
    · rintro (⟨h1, h2, _⟩ | ⟨_, h⟩)
      · exact absurd ⟨h1, h2⟩ hne
      · exact h
    · exact fun h => Or.inr ⟨hne, h⟩
  rw [hrhs]
  simp only [AtomicF.sat, definedPred]
  have hτs : ∀ v ∈ vars, (τ v).inSort v.sort := hτ.2
  constructor
  · rintro (⟨_, _, ρ', hws, he, hs⟩ | ⟨hn, _⟩)
    · have hag := head_args_determine I.fc ρ' τ a.args tv htv
        (fun v hv => hws v ((hcover v).mpr hv)) (fun v hv => hτs v ((hcover v).mpr hv)) he
      refine (sat_agree I rhs ρ' τ fun v hv => ?_).mp hs
      exact hag v ((hcover v).mp (hfv v (Formula.mem_fv.mpr hv)))
    · exact absurd (by simp) hn
  · intro hs
    exact Or.inl ⟨by simp, by simp, τ, hτs, rfl, hs⟩

theorem definedPred_elsewhere (I : Interp) (vars : List Var) (a : Atom) (rhs : Formula)
    (q : String) (ds : List Dom) (h : ¬ (q = a.pred ∧ ds.length = a.args.length)) :
    definedPred I vars a rhs q ds ↔ I.pred q ds := by
  simp only [definedPred]
  constructor
  · rintro (⟨h1, h2, _⟩ | ⟨_, h'⟩)
    · exact absurd ⟨h1, h2⟩ h
    · exact h'
  · exact fun h' => Or.inr ⟨h, h'⟩

end Anthem

namespace Anthem

theorem ins_length_le {α} [DecidableEq α] (s : List α) (a : α) : (ins s a).length ≤ s.length + 1 := by
  unfold ins; split <;> simp

theorem ins_nodup {α} [DecidableEq α] {s : List α} (h : s.Nodup) (a : α) : (ins s a).Nodup := by
  unfold ins
  split
  · exact h
  · rename_i hm
    exact List.nodup_append.mpr ⟨h, (by simp), fun x hx y hy => by
      rw [List.mem_singleton] at hy; subst hy; exact fun e => hm (e ▸ hx)⟩

theorem foldl_ins_nodup {α} [DecidableEq α] (l : List α) : ∀ {init : List α}, init.Nodup →
    (l.foldl ins init).Nodup := by
  induction l with
  | nil => exact fun h => h
  | cons x l ih => exact fun h => ih (ins_nodup h x)

theorem foldl_ins_length_le {α} [DecidableEq α] (l : List α) : ∀ (init : List α),
    (l.foldl ins init).length ≤ init.length + l.length := by
  induction l with
  | nil => intro init; simp
  | cons x l ih =>
    intro init
    have h1 := ih (ins init x)
    have h2 := ins_length_le init x
    simp only [List.foldl_cons, List.length_cons]
    omega

/-- no element is dropped exactly when the list had no duplicates (and shared nothing with the
    initial set) -/
theorem nodup_of_foldl_ins_length {α} [DecidableEq α] (l : List α) : ∀ (init : List α),
    (l.foldl ins init).length = init.length + l.length → l.Nodup ∧ ∀ x ∈ l, x ∉ init := by
  induction l with
  | nil => intro init _; exact ⟨List.nodup_nil, fun x hx => (by cases hx)⟩
  | cons x l ih =>
    intro init h
    simp only [List.foldl_cons, List.length_cons] at h
    have h1 := foldl_ins_length_le l (ins init x)
    have h2 := ins_length_le init x
    have hx : x ∉ init := by
      intro hm
      have : ins init x = init := by unfold ins; simp [hm]
      rw [this] at h1 h
      omega
    have hlen : (ins init x).length = init.length + 1 := by unfold ins; simp [hx]
    obtain ⟨ih1, ih2⟩ := ih (ins init x) (by omega)
    refine ⟨List.nodup_cons.mpr ⟨fun hm => ih2 x hm (mem_ins.mpr (Or.inr rfl)), ih1⟩, ?_⟩
    intro y hy
    rcases List.mem_cons.mp hy with rfl | hy'
    · exact hx
    · exact fun hm => ih2 y hy' (mem_ins.mpr (Or.inl hm))

theorem mapM_asVar_length : ∀ (args : List GTerm) (tv : List Var),
    args.mapM GTerm.asVar? = some tv → tv.length = args.length := by
  intro args
  induction args with
  | nil => intro tv h; simp at h; subst h; rfl
  | cons t ts ih =>
    intro tv h
    obtain ⟨x, tv', rfl, _, hrest⟩ := mapM_asVar_cons h
    simp [ih tv' hrest]

/-- head arguments that cover the (distinct) quantified variables and are exactly as many are
    themselves pairwise distinct -/
theorem head_args_nodup (vars tv : List Var)
    (hlen : ¬ (vars.foldl ins []).length < vars.length)
    (hsame : sameSet (vars.foldl ins []) (tv.foldl ins []) = true)
    (hcount : tv.length = vars.length) : tv.Nodup := by
  simp only [sameSet, Bool.and_eq_true, List.all_eq_true, decide_eq_true_eq] at hsame
  have n1 : (vars.foldl ins []).Nodup := foldl_ins_nodup vars List.nodup_nil
  have n2 : (tv.foldl ins []).Nodup := foldl_ins_nodup tv List.nodup_nil
  have l1 := n1.length_le_of_subset (fun x hx => hsame.1 x hx)
  have l3 := foldl_ins_length_le vars []
  have l4 := foldl_ins_length_le tv []
  simp only [List.length_nil, Nat.zero_add] at l3 l4
  exact (nodup_of_foldl_ins_length tv [] (by simp only [List.length_nil, Nat.zero_add]; omega)).1

end Anthem
