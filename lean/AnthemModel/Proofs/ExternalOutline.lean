/-
  C02 with a proof outline: if no emitted problem of a task with an outline has a countermodel,
  then none of the problems of the same task *without* the outline has one - the lemmas and
  definitions of an accepted outline only help the prover, they do not change what is claimed.
-/
import AnthemModel.Proofs.OutlineDefs
import AnthemModel.Proofs.ExternalSemGen
namespace Anthem.Outline

attribute [local irreducible] Problem.renameConflictingSymbols
open Asp

theorem sat_agree_base (base : List Pred) (J : Interp) (P' : PredI)
    (hagree : ∀ q ds, (⟨q, ds.length⟩ : Pred) ∈ base → (P' q ds ↔ J.pred q ds)) (F : Formula)
    (hF : ∀ q ∈ F.preds, q ∈ base) (ρ : Asg) : sat ⟨P', J.fc⟩ F ρ ↔ sat J F ρ := by
  have := sat_congr_preds J.fc P' J.pred F ρ (fun q hq ds hlen => by
    have hb := hF q hq
    have e : (⟨q.symbol, ds.length⟩ : Pred) = q := by cases q; simp only at hlen; simp [hlen]
    exact hagree q.symbol ds (by rw [e]; exact hb))
  exact this

/-- one direction -/
theorem direction_sound (base : List Pred) (name dirName : String) (stable prem : List AnnF) (concSrc defs : List SAnn)
    (brk : Bool) (lemmas : List GeneralLemma) (dec : Decomposition)
    (hroles : ∀ a ∈ stable ++ prem, a.role = .axiom)
    (hpredsAx : ∀ a ∈ stable ++ prem, ∀ q ∈ a.formula.preds, q ∈ base)
    (hpredsC : ∀ a ∈ concSrc, ∀ q ∈ a.formula.preds, q ∈ base)
    (hext : DefsExt base defs) (hgood : ∀ l ∈ lemmas, GLGood l)
    (hnc0 : (mkProblem0 name [stable, prem, [], concSrc.flatMap (conjOf brk)]).renameConflictingSymbols =
      mkProblem0 name [stable, prem, [], concSrc.flatMap (conjOf brk)])
    (hnc1 : (mkProblem0 name [stable, prem, lemmas.flatMap (·.consequences), concSrc.flatMap (conjOf brk)]).renameConflictingSymbols =
      mkProblem0 name [stable, prem, lemmas.flatMap (·.consequences), concSrc.flatMap (conjOf brk)])
    (hncO : NoConflictOutline dirName (stable ++ prem ++ defs.map (·.toProblem .axiom)) lemmas)
    (hvalidO : ∀ P ∈ outlineProblems dirName (stable ++ prem ++ defs.map (·.toProblem .axiom)) lemmas,
      ∀ J ρ, ¬ Refutes J ρ P)
    (hvalidF : ∀ P ∈ (mkProblem name [stable, prem, lemmas.flatMap (·.consequences), concSrc.flatMap (conjOf brk)]).decompose dec,
      ∀ J ρ, ¬ Refutes J ρ P) :
    ∀ P ∈ (mkProblem name [stable, prem, [], concSrc.flatMap (conjOf brk)]).decompose dec, ∀ J ρ, ¬ Refutes J ρ P := by
  intro P hP J ρ href
  obtain ⟨hax, hncj⟩ := (mk_refutes J ρ name _ dec hnc0).mp ⟨P, hP, href⟩
  simp only [List.forall_mem_cons, List.not_mem_nil, false_imp_iff, implies_true, and_true, true_and] at hax hncj
  obtain ⟨P', hagree, hdefs⟩ := hext J
  -- the conclusions: truth of all conjectures of a side transfers between J and J'
  have hconc : ∀ (I : Interp), (∀ c ∈ concSrc.flatMap (conjOf brk), c.role = .conjecture → sat I c.formula ρ) ↔
      ∀ a ∈ concSrc, sat I a.formula ρ := by
    intro I
    simp only [List.mem_flatMap, forall_exists_index, and_imp]
    constructor
    · intro hh a ha
      refine ((conjOf_sem I ρ brk a).2).mp fun c hc => ?_
      exact hh c a ha hc ((conjOf_sem I ρ brk a).1 c hc)
    · intro hh c a ha hc _
      exact ((conjOf_sem I ρ brk a).2).mpr (hh a ha) c hc
  have hconcRole : ∀ c ∈ concSrc.flatMap (conjOf brk), c.role = .conjecture := by
    intro c hc
    simp only [List.mem_flatMap] at hc
    obtain ⟨a, _, hc⟩ := hc
    exact (conjOf_sem J ρ brk a).1 c hc
  have hsrc : (∀ a ∈ concSrc, sat ⟨P', J.fc⟩ a.formula ρ) ↔ ∀ a ∈ concSrc, sat J a.formula ρ :=
    forall_congr' fun a => forall_congr' fun ha => sat_agree_base base J P' hagree a.formula (hpredsC a ha) ρ
  -- the axioms of the direction are true in J'
  have haxJ' : ∀ a ∈ stable ++ prem, sat ⟨P', J.fc⟩ a.formula ρ := by
    intro a ha
    rw [sat_agree_base base J P' hagree a.formula (hpredsAx a ha) ρ]
    rcases List.mem_append.mp ha with h1 | h1
    · exact hax.1 a h1 (hroles a ha)
    · exact hax.2.1 a h1 (hroles a ha)
  have hax0 : ∀ a ∈ stable ++ prem ++ defs.map (·.toProblem .axiom), sat ⟨P', J.fc⟩ a.formula ρ := by
    intro a ha
    rcases List.mem_append.mp ha with h1 | h1
    · exact haxJ' a h1
    · obtain ⟨d, hd, rfl⟩ := List.mem_map.mp h1
      exact hdefs d hd ρ
  -- every lemma is true in J'
  have hlem := outline_sound dirName _ lemmas (fun l hl => (hgood l hl).1) (fun l hl => (hgood l hl).2.1) hncO
    ⟨P', J.fc⟩ ρ (fun P hP => hvalidO P hP _ ρ) hax0
  -- so J' refutes the final problem
  have hfinal := (mk_refutes ⟨P', J.fc⟩ ρ name [stable, prem, lemmas.flatMap (·.consequences), concSrc.flatMap (conjOf brk)] dec hnc1).mpr
  simp only [List.forall_mem_cons, List.not_mem_nil, false_imp_iff, implies_true, and_true] at hfinal
  have hA : (∀ a ∈ stable, a.role = .axiom → sat ⟨P', J.fc⟩ a.formula ρ) ∧
      (∀ a ∈ prem, a.role = .axiom → sat ⟨P', J.fc⟩ a.formula ρ) ∧
      (∀ a ∈ lemmas.flatMap (·.consequences), a.role = .axiom → sat ⟨P', J.fc⟩ a.formula ρ) ∧
      ∀ a ∈ concSrc.flatMap (conjOf brk), a.role = .axiom → sat ⟨P', J.fc⟩ a.formula ρ := by
    refine ⟨fun a ha _ => haxJ' a (List.mem_append.mpr (Or.inl ha)),
      fun a ha _ => haxJ' a (List.mem_append.mpr (Or.inr ha)), ?_, ?_⟩
    · intro a ha _
      simp only [List.mem_flatMap] at ha
      obtain ⟨l, hl, ha⟩ := ha
      exact hlem l hl a ha
    · intro c hc hr
      rw [hconcRole c hc] at hr
      cases hr
  have hB : ¬ ((∀ a ∈ stable, a.role = .conjecture → sat ⟨P', J.fc⟩ a.formula ρ) ∧
      (∀ a ∈ prem, a.role = .conjecture → sat ⟨P', J.fc⟩ a.formula ρ) ∧
      (∀ a ∈ lemmas.flatMap (·.consequences), a.role = .conjecture → sat ⟨P', J.fc⟩ a.formula ρ) ∧
      ∀ a ∈ concSrc.flatMap (conjOf brk), a.role = .conjecture → sat ⟨P', J.fc⟩ a.formula ρ) := by
    intro hall
    apply hncj
    refine ⟨?_, ?_, (hconc J).mpr (hsrc.mp ((hconc _).mp hall.2.2.2))⟩
    · intro a ha hr
      rw [hroles a (List.mem_append.mpr (Or.inl ha))] at hr
      cases hr
    · intro a ha hr
      rw [hroles a (List.mem_append.mpr (Or.inr ha))] at hr
      cases hr
  obtain ⟨Q, hQ, hrefQ⟩ := hfinal ⟨hA, hB⟩
  exact hvalidF Q hQ _ ρ hrefQ

/-- the side conditions: `rename_conflicting_symbols` is the identity on every assembled problem -/
structure NoConflictAll (a : Assembled) (fconc bconc : List SAnn) (brk : Bool) (po : ProofOutline) : Prop where
  fwd0 : (mkProblem0 "forward_problem" [a.stable, a.fwdPremises, [], fconc.flatMap (conjOf brk)]).renameConflictingSymbols =
    mkProblem0 "forward_problem" [a.stable, a.fwdPremises, [], fconc.flatMap (conjOf brk)]
  bwd0 : (mkProblem0 "backward_problem" [a.stable, a.bwdPremises, [], bconc.flatMap (conjOf brk)]).renameConflictingSymbols =
    mkProblem0 "backward_problem" [a.stable, a.bwdPremises, [], bconc.flatMap (conjOf brk)]
  fwd1 : (mkProblem0 "forward_problem" [a.stable, a.fwdPremises, po.forwardLemmas.flatMap (·.consequences),
      fconc.flatMap (conjOf brk)]).renameConflictingSymbols =
    mkProblem0 "forward_problem" [a.stable, a.fwdPremises, po.forwardLemmas.flatMap (·.consequences), fconc.flatMap (conjOf brk)]
  bwd1 : (mkProblem0 "backward_problem" [a.stable, a.bwdPremises, po.backwardLemmas.flatMap (·.consequences),
      bconc.flatMap (conjOf brk)]).renameConflictingSymbols =
    mkProblem0 "backward_problem" [a.stable, a.bwdPremises, po.backwardLemmas.flatMap (·.consequences), bconc.flatMap (conjOf brk)]
  fwdO : NoConflictOutline "forward" (a.stable ++ a.fwdPremises ++ po.forwardDefinitions.map (·.toProblem .axiom)) po.forwardLemmas
  bwdO : NoConflictOutline "backward" (a.stable ++ a.bwdPremises ++ po.backwardDefinitions.map (·.toProblem .axiom)) po.backwardLemmas

/-- **An accepted outline does not change what is claimed.** For the problems assembled from a
    specification side, the program side and the user-guide assumptions: if none of the problems
    emitted *with* the outline (outline problems and the final problems, which use the lemmas as
    axioms) has a countermodel, then none of the problems emitted *without* it has one. -/
theorem assembled_outline_sound (t : ExternalTask) (left ugAss : List SAnn) (ΓR : Theory) (po : ProofOutline)
    (base : List Pred) (hgood : POGood po)
    (hdefs : DefsExt base po.forwardDefinitions ∧ DefsExt base po.backwardDefinitions)
    (hbase : ∀ a ∈ ugAss ++ left ++ rightSide t ΓR, ∀ q ∈ a.formula.preds, q ∈ base)
    (hnc : NoConflictAll (assembledGen t left ugAss ΓR) ((rightSide t ΓR).filter isSpec) (left.filter lBwdConc) t.breakEq po)
    (hvalid : ∀ P ∈ assembledProblems (assembledGen t left ugAss ΓR) po t.decomposition t.direction,
      ∀ J ρ, ¬ Refutes J ρ P) :
    ∀ P ∈ assembledProblems (assembledGen t left ugAss ΓR) {} t.decomposition t.direction, ∀ J ρ, ¬ Refutes J ρ P := by
  have hU : ∀ a ∈ ugAss, ∀ q ∈ a.formula.preds, q ∈ base := fun a ha => hbase a (by simp [ha])
  have hL : ∀ a ∈ left, ∀ q ∈ a.formula.preds, q ∈ base := fun a ha => hbase a (by simp [ha])
  have hR : ∀ a ∈ rightSide t ΓR, ∀ q ∈ a.formula.preds, q ∈ base := fun a ha => hbase a (by simp [ha])
  have haxroles : ∀ (l : List SAnn), ∀ a ∈ l.map (·.toProblem .axiom), a.role = .axiom := by
    intro l a ha
    obtain ⟨a0, _, rfl⟩ := List.mem_map.mp ha
    rfl
  have haxpreds : ∀ (l : List SAnn), (∀ a ∈ l, ∀ q ∈ a.formula.preds, q ∈ base) →
      ∀ a ∈ l.map (·.toProblem .axiom), ∀ q ∈ a.formula.preds, q ∈ base := by
    intro l hl a ha
    obtain ⟨a0, ha0, rfl⟩ := List.mem_map.mp ha
    exact hl a0 ha0
  have hfilt : ∀ (l : List SAnn) (p : SAnn → Bool), (∀ a ∈ l, ∀ q ∈ a.formula.preds, q ∈ base) →
      ∀ a ∈ l.filter p, ∀ q ∈ a.formula.preds, q ∈ base := fun l p hl a ha => hl a (List.mem_filter.mp ha).1
  -- roles and predicates of the stable part and the premises
  have hstableR : ∀ a ∈ (assembledGen t left ugAss ΓR).stable, a.role = .axiom := by
    unfold assembledGen
    simp only [List.forall_mem_append]
    exact ⟨⟨haxroles _, haxroles _⟩, haxroles _⟩
  have hstableP : ∀ a ∈ (assembledGen t left ugAss ΓR).stable, ∀ q ∈ a.formula.preds, q ∈ base := by
    unfold assembledGen
    simp only [List.forall_mem_append]
    exact ⟨⟨haxpreds _ hU, haxpreds _ (hfilt _ _ hL)⟩, haxpreds _ (hfilt _ _ hR)⟩
  intro P hP J ρ href
  unfold assembledProblems at hP hvalid
  simp only [List.mem_append] at hP hvalid
  have e1 : ∀ ax, outlineProblems "forward" ax ({} : ProofOutline).forwardLemmas = [] := fun _ => rfl
  have e2 : ∀ ax, outlineProblems "backward" ax ({} : ProofOutline).backwardLemmas = [] := fun _ => rfl
  rcases hP with hP | hP
  · split at hP
    · rename_i hd
      rw [e1] at hP
      simp only [List.nil_append] at hP
      have hvF : ∀ Q, Q ∈ outlineProblems "forward" ((assembledGen t left ugAss ΓR).stable ++ (assembledGen t left ugAss ΓR).fwdPremises ++
            po.forwardDefinitions.map (·.toProblem .axiom)) po.forwardLemmas ++
          (mkProblem "forward_problem" [(assembledGen t left ugAss ΓR).stable, (assembledGen t left ugAss ΓR).fwdPremises,
            po.forwardLemmas.flatMap (·.consequences), (assembledGen t left ugAss ΓR).fwdConclusions]).decompose t.decomposition →
          ∀ J ρ, ¬ Refutes J ρ Q := by
        intro Q hQ
        refine hvalid Q (Or.inl ?_)
        rw [if_pos hd]; exact hQ
      refine direction_sound base "forward_problem" "forward" _ _ ((rightSide t ΓR).filter isSpec) po.forwardDefinitions
        t.breakEq po.forwardLemmas t.decomposition ?_ ?_ (hfilt _ _ hR) hdefs.1 hgood.1 hnc.fwd0 hnc.fwd1 hnc.fwdO
        (fun Q hQ => hvF Q (List.mem_append.mpr (Or.inl hQ))) (fun Q hQ => hvF Q (List.mem_append.mpr (Or.inr hQ)))
        P hP J ρ href
      · intro a ha
        rcases List.mem_append.mp ha with h1 | h1
        · exact hstableR a h1
        · exact haxroles _ a h1
      · intro a ha
        rcases List.mem_append.mp ha with h1 | h1
        · exact hstableP a h1
        · exact haxpreds _ (hfilt _ _ hL) a h1
    · cases hP
  · split at hP
    · rename_i hd
      rw [e2] at hP
      simp only [List.nil_append] at hP
      have hvB : ∀ Q, Q ∈ outlineProblems "backward" ((assembledGen t left ugAss ΓR).stable ++ (assembledGen t left ugAss ΓR).bwdPremises ++
            po.backwardDefinitions.map (·.toProblem .axiom)) po.backwardLemmas ++
          (mkProblem "backward_problem" [(assembledGen t left ugAss ΓR).stable, (assembledGen t left ugAss ΓR).bwdPremises,
            po.backwardLemmas.flatMap (·.consequences), (assembledGen t left ugAss ΓR).bwdConclusions]).decompose t.decomposition →
          ∀ J ρ, ¬ Refutes J ρ Q := by
        intro Q hQ
        refine hvalid Q (Or.inr ?_)
        rw [if_pos hd]; exact hQ
      refine direction_sound base "backward_problem" "backward" _ _ (left.filter lBwdConc) po.backwardDefinitions
        t.breakEq po.backwardLemmas t.decomposition ?_ ?_ (hfilt _ _ hL) hdefs.2 hgood.2 hnc.bwd0 hnc.bwd1 hnc.bwdO
        (fun Q hQ => hvB Q (List.mem_append.mpr (Or.inl hQ))) (fun Q hQ => hvB Q (List.mem_append.mpr (Or.inr hQ)))
        P hP J ρ href
      · intro a ha
        rcases List.mem_append.mp ha with h1 | h1
        · exact hstableR a h1
        · exact haxroles _ a h1
      · intro a ha
        rcases List.mem_append.mp ha with h1 | h1
        · exact hstableP a h1
        · exact haxpreds _ (hfilt _ _ hR) a h1
    · cases hP

end Anthem.Outline
