/-
  C02 with a proof outline, at the level of the task: if no emitted problem of an accepted task
  (with placeholders and a proof outline) has a countermodel, then no interpretation witnesses a
  difference between the two sides.
-/
import AnthemModel.Proofs.ExternalOutline
import AnthemModel.Proofs.ExternalSemPh
namespace Anthem.Outline
open Asp

/-- the predicates that are taken when the outline starts -/
def takenOf (t : ExternalTask) (left : List SAnn) (ΓR : Theory) : List Pred :=
  (rightSide t ΓR).foldl (fun acc a => ext acc a.formula.preds)
    (left.foldl (fun acc a => ext acc a.formula.preds) t.userGuide.inputs)

/-- the pipeline for an arbitrary accepted task -/
theorem externalProblems_outline (t : ExternalTask) (fuel : Nat) (ps : List Problem)
    (h : externalProblems t fuel = .ok ps) :
    precheck t = none ∧ ∃ (left : List SAnn) (ΓR : Theory) (po : ProofOutline), RolesAS left ∧
      (match t.specification with
        | .inl PL => ∃ ΓL, theoryTranslate t t.phMap fuel PL = .ok ΓL ∧ left = controlTranslate t.userGuide.publicPreds ΓL
        | .inr S => left = S.map (SAnn.replacePlaceholders t.phMap)) ∧
      theoryTranslate t t.phMap fuel t.program = .ok ΓR ∧
      proofOutlineFrom t.proofOutline (takenOf t left ΓR) t.phMap = .ok po ∧
      ps = assembledProblems (assembledGen t left t.ugAss ΓR) po t.decomposition t.direction := by
  unfold externalProblems at h
  cases hpre : precheck t with
  | some e => simp [hpre] at h
  | none =>
    refine ⟨rfl, ?_⟩
    simp only [hpre] at h
    have tail : ∀ (left : List SAnn), RolesAS left →
        (do
          let rightTh ← theoryTranslate t t.phMap fuel t.program
          let right := (controlTranslate t.userGuide.publicPreds rightTh).map fun a =>
            { a with formula := a.formula.renamePreds t.clashMap }
          let ugAss ← t.userGuide.formulas.foldl (ugAssStep t.userGuide t.phMap) (.ok [])
          let taken := right.foldl (fun acc a => ext acc a.formula.preds)
            (left.foldl (fun acc a => ext acc a.formula.preds) t.userGuide.inputs)
          let po ← proofOutlineFrom t.proofOutline taken t.phMap
          let asm ← assemble left right ugAss t.breakEq
          pure (assembledProblems asm po t.decomposition t.direction)) = Outcome.ok ps →
        ∃ ΓR po, theoryTranslate t t.phMap fuel t.program = .ok ΓR ∧
          proofOutlineFrom t.proofOutline (takenOf t left ΓR) t.phMap = .ok po ∧
          ps = assembledProblems (assembledGen t left t.ugAss ΓR) po t.decomposition t.direction := by
      intro left hroles h
      cases hR : theoryTranslate t t.phMap fuel t.program with
      | err e => simp [hR] at h
      | panic s => simp [hR] at h
      | timeout => simp [hR] at h
      | ok ΓR =>
        simp only [hR, Outcome.ok_bind, Outcome.pure_eq] at h
        cases hU : t.userGuide.formulas.foldl (ugAssStep t.userGuide t.phMap) (.ok []) with
        | err e => simp [hU] at h
        | panic s => simp [hU] at h
        | timeout => simp [hU] at h
        | ok ugAss =>
          have hug := ugAss_fold_ph t.userGuide t.phMap _ [] ugAss hU
          simp only [List.nil_append] at hug
          simp only [hU, Outcome.ok_bind] at h
          cases hPO : proofOutlineFrom t.proofOutline (takenOf t left ΓR) t.phMap with
          | err e => unfold takenOf rightSide at hPO; simp [hPO] at h
          | panic s => unfold takenOf rightSide at hPO; simp [hPO] at h
          | timeout => unfold takenOf rightSide at hPO; simp [hPO] at h
          | ok po =>
            refine ⟨ΓR, po, rfl, hPO, ?_⟩
            have hPO' := hPO
            unfold takenOf rightSide at hPO'
            simp only [hPO', Outcome.ok_bind] at h
            have hasm := assemble_gen t left ugAss ΓR hroles
            unfold rightSide at hasm
            simp only [hasm, Outcome.ok_bind] at h
            injection h with h
            rw [← h, hug]
            rfl
    cases hspec : t.specification with
    | inl PL =>
      simp only [hspec] at h
      cases hL : theoryTranslate t (mkPlaceholderMap t.userGuide.placeholders) fuel PL with
      | err e => simp [hL] at h
      | panic s => simp [hL] at h
      | timeout => simp [hL] at h
      | ok ΓL =>
        simp only [hL, Outcome.ok_bind, Outcome.pure_eq] at h
        have hroles : RolesAS (controlTranslate t.userGuide.publicPreds ΓL) :=
          rolesAS_of_univ fun a ha => ((controlTranslate_spec _ ΓL).1 a ha).2
        obtain ⟨ΓR, po, hR, hPO, hps⟩ := tail _ hroles h
        exact ⟨_, ΓR, po, hroles, ⟨ΓL, hL, rfl⟩, hR, hPO, hps⟩
    | inr S =>
      simp only [hspec, Outcome.pure_eq, Outcome.ok_bind] at h
      have hS : RolesAS S := (precheck_spec t S hspec hpre).2
      have hroles := rolesAS_map_replace t.phMap hS
      obtain ⟨ΓR, po, hR, hPO, hps⟩ := tail _ hroles h
      exact ⟨_, ΓR, po, hroles, rfl, hR, hPO, hps⟩

/-- the user-guide assumptions mention input predicates only -/
theorem ugAss_preds (t : ExternalTask) (hpre : precheck t = none) :
    ∀ a ∈ t.ugAss, ∀ q ∈ a.formula.preds, q ∈ t.userGuide.inputs := by
  have hA : assumptionError t [] t.userGuide.formulas = none := by
    cases hA : assumptionError t [] t.userGuide.formulas with
    | none => rfl
    | some e =>
      exfalso
      have h := hpre
      unfold precheck at h
      simp only [hA] at h
      repeat (first | cases h | split at h)
  intro a ha q hq
  unfold ExternalTask.ugAss at ha
  obtain ⟨a0, ha0, rfl⟩ := List.mem_map.mp ha
  simp only [List.mem_filter, decide_eq_true_eq] at ha0
  simp only [SAnn.replacePlaceholders, Formula.replacePlaceholders_eq, Formula.preds_substSym] at hq
  unfold assumptionError at hA
  split at hA
  · cases hA
  · rename_i hany
    have : ¬ (decide (a0.role = .assumption) && a0.formula.preds.any (· ∉ ext [] t.userGuide.inputs)) = true := by
      intro hc
      exact hany (List.any_eq_true.mpr ⟨a0, ha0.1, hc⟩)
    simp only [ha0.2, decide_true, Bool.true_and, List.any_eq_true, decide_eq_true_eq, not_exists, not_and,
      Classical.not_not] at this
    have := this q hq
    rcases mem_ext.mp this with h0 | h0
    · cases h0
    · exact h0

/-- **C02 with a proof outline (and placeholders): soundness.** For an accepted task: if none of the
    emitted problems - outline problems and final problems - is refuted by any interpretation, then no
    interpretation that satisfies the user-guide assumptions witnesses a difference between the two
    sides in a requested direction (the right-hand side of `assembled_refutes`, i.e. of the theorems for
    tasks without an outline). -/
theorem external_outline_sound (t : ExternalTask) (hbyp : t.bypassTightness = false) (fuel : Nat) (ps : List Problem)
    (h : externalProblems t fuel = .ok ps) :
    ∃ (left : List SAnn) (ΓR : Theory) (po : ProofOutline),
      (match t.specification with
        | .inl PL => ∃ ΓL, theoryTranslate t t.phMap fuel PL = .ok ΓL ∧ left = controlTranslate t.userGuide.publicPreds ΓL
        | .inr S => left = S.map (SAnn.replacePlaceholders t.phMap)) ∧
      theoryTranslate t t.phMap fuel t.program = .ok ΓR ∧
      (NoConflictAll (assembledGen t left t.ugAss ΓR) ((rightSide t ΓR).filter isSpec) (left.filter lBwdConc) t.breakEq po →
        (∀ P ∈ ps, ∀ J ρ, ¬ Refutes J ρ P) →
        ∀ (J : Interp) (ρ : Asg),
          ¬ ((∀ a ∈ t.ugAss, sat J a.formula ρ) ∧
            (∀ a ∈ left, lStable a = true → sat J a.formula ρ) ∧
            (∀ a ∈ rightSide t ΓR, a.role = .assumption → sat J a.formula ρ) ∧
            (((t.direction = .universal ∨ t.direction = .forward) ∧
                (∀ a ∈ left, lFwdPrem a = true → sat J a.formula ρ) ∧
                ¬ (Stable (t.program.substSym (phNu t.phMap J.fc)) t.userGuide.inputs
                  (restrictTo (ext t.program.preds t.userGuide.inputs)
                    (renamedInterp t.clashMap J.pred)) J.fc ∧
                  OutputsEmpty t t.program (renamedInterp t.clashMap J.pred))) ∨
             ((t.direction = .universal ∨ t.direction = .backward) ∧
                (Stable (t.program.substSym (phNu t.phMap J.fc)) t.userGuide.inputs
                  (restrictTo (ext t.program.preds t.userGuide.inputs)
                    (renamedInterp t.clashMap J.pred)) J.fc ∧
                  OutputsEmpty t t.program (renamedInterp t.clashMap J.pred)) ∧
                ∃ a ∈ left, lBwdConc a = true ∧ ¬ sat J a.formula ρ)))) := by
  obtain ⟨hpre, left, ΓR, po, hroles, hleft, hR, hPO, hps⟩ := externalProblems_outline t fuel ps h
  refine ⟨left, ΓR, po, hleft, hR, fun hnc hvalid J ρ hwit => ?_⟩
  have hbase : ∀ a ∈ t.ugAss ++ left ++ rightSide t ΓR, ∀ q ∈ a.formula.preds, q ∈ takenOf t left ΓR := by
    intro a ha q hq
    unfold takenOf
    rw [mem_foldl_ext, mem_foldl_ext]
    simp only [List.mem_append] at ha
    rcases ha with (ha | ha) | ha
    · exact Or.inl (Or.inl (ugAss_preds t hpre a ha q hq))
    · exact Or.inl (Or.inr ⟨a, ha, hq⟩)
    · exact Or.inr ⟨a, ha, hq⟩
  have hplain := assembled_outline_sound t left t.ugAss ΓR po (takenOf t left ΓR)
    (proofOutlineFrom_good _ _ _ po hPO) (proofOutlineFrom_defsExt _ _ _ po hPO) hbase hnc (by rw [← hps]; exact hvalid)
  have hncGen : NoSymbolConflictGen (assembledGen t left t.ugAss ΓR) := ⟨hnc.fwd0, hnc.bwd0⟩
  have href := (assembled_refutes t left t.ugAss ΓR hncGen J ρ _ (rightSide_stable_ph t hbyp hpre fuel ΓR hR J ρ)).mpr hwit
  obtain ⟨P, hP, hr⟩ := href
  exact hplain P hP J ρ hr

end Anthem.Outline
