/-
  C02 at the level of the two programs ("hence if every emitted problem is a theorem the claimed
  relation holds"): for a program-vs-program task without placeholders, outline and simplification,
  if no interpretation refutes an emitted problem then, in a requested direction, every stable
  model of one program (under the user-guide assumptions) has the same public part as some stable
  model of the other. Combines the refutation characterisation (`external_refutes_programs_ph`),
  the existence of private extents (`private_extents_exist`) and the faithfulness of the private
  renaming (`joint_reading`).
-/
import AnthemModel.Proofs.ExternalSemPh
import AnthemModel.Proofs.ExternalOutlineTask
import AnthemModel.Proofs.PrivateExist
import AnthemModel.Proofs.RenameFresh
import AnthemModel.Props.C11
namespace Anthem
open Asp C11

/-! ## every completed definition of `completion(tau*(P))` means `DefHolds` -/

theorem headPredicate_quantify (F : Formula) (vs : List Var) :
    headPredicate (F.quantify .all vs) = headPredicate F := by
  unfold Formula.quantify
  split
  · rfl
  · rfl

theorem headPredicate_mem_preds : ∀ (F : Formula) (p : Pred), headPredicate F = some p → p ∈ F.preds := by
  intro F
  induction F with
  | atomic a => intro p h; simp [headPredicate] at h
  | not f _ => intro p h; simp [headPredicate] at h
  | bin c l r _ _ =>
    intro p h
    cases c <;> try (simp [headPredicate] at h)
    cases l with
    | atomic a =>
      cases a with
      | atom a =>
        simp only [headPredicate, Option.some.injEq] at h
        subst h
        simp only [Formula.preds, AtomicF.preds]
        exact mem_ext.mpr (Or.inl (by simp))
      | _ => simp [headPredicate] at h
    | _ => simp [headPredicate] at h
  | quant q vs f ih =>
    intro p h
    cases q
    · simp only [headPredicate] at h; exact ih p h
    · simp [headPredicate] at h

/-- every formula of the completion with a head predicate is that predicate's completed definition -/
theorem completion_defs_sem (P : Program) (ins : List Pred) (hp : globalsPanic P = false) (Γ : Theory)
    (hΓ : completion (tauStar P) ins = some Γ) (F : Formula) (hF : F ∈ Γ) (q : Pred)
    (hhead : headPredicate F = some q) :
    ∀ (T : PredI) (fc : FcI) (ρ : Asg), sat ⟨T, fc⟩ F ρ ↔ DefHolds P T fc q.symbol q.arity := by
  obtain ⟨hn, hfresh, hglen⟩ := chooseFreshGlobals_spec P hp
  have hcomp := components_tauStar P hp
  obtain ⟨hspec, hcons⟩ := collect_spec (P.map fun r => ruleComponent r (chooseFreshGlobals P)) ([], [])
    (fun _ _ => False) ⟨List.nodup_nil, by simp⟩
  simp only [false_or, List.not_mem_nil] at hspec hcons
  have hne := collect_nonempty (P.map fun r => ruleComponent r (chooseFreshGlobals P)) ([], []) (by simp)
  have hla : ∀ r ∈ P, ∀ a ch, HeadOf r a ch → a.args.length ≤ (chooseFreshGlobals P).length := by
    intro r hr a ch hh
    rw [hglen, ← headOf_arity hh]; exact arity_le_maxHeadArity P r hr
  have hentry : ∀ e ∈ (collect (P.map fun r => ruleComponent r (chooseFreshGlobals P)) ([], [])).1,
      ∃ r ∈ P, ∃ a ch, HeadOf r a ch ∧ e.1 = tauHeadAtom a (chooseFreshGlobals P) := by
    intro e he
    obtain ⟨f, hf⟩ := List.exists_mem_of_ne_nil _ (hne e he)
    obtain ⟨r, hr, a, ch, hh, _, hA⟩ := (mem_comps_partialDef P _ f e.1).mp ((hspec.2 e.1 f).mp ⟨e.2, he, hf⟩)
    exact ⟨r, hr, a, ch, hh, hA⟩
  have hkeys : ∀ e ∈ (collect (P.map fun r => ruleComponent r (chooseFreshGlobals P)) ([], [])).1,
      ∀ e' ∈ (collect (P.map fun r => ruleComponent r (chooseFreshGlobals P)) ([], [])).1,
      e.1.predicate = e'.1.predicate → e.1 = e'.1 := by
    intro e he e' he' hpe
    obtain ⟨r, hr, a, ch, hh, hA⟩ := hentry e he
    obtain ⟨r', hr', a', ch', hh', hA'⟩ := hentry e' he'
    rw [hA, hA'] at hpe ⊢
    rw [tauHeadAtom_predicate a _ (hla r hr a ch hh), tauHeadAtom_predicate a' _ (hla r' hr' a' ch' hh')] at hpe
    simp only [Asp.Atom.predicate, Pred.mk.injEq] at hpe
    exact (tauHeadAtom_eq (hla r hr a ch hh) (hla r' hr' a' ch' hh')).mpr hpe
  obtain ⟨Γ', hΓ', hmem⟩ := completion_formulas (tauStar P) ins _ _ hcomp hkeys
  rw [hΓ] at hΓ'
  injection hΓ' with hΓ'
  subst hΓ'
  intro T fc ρ
  rcases (hmem F).mp hF with ⟨c, hc, rfl⟩ | ⟨e, he, hnot, rfl⟩ | ⟨p, hp', hpi, hno, rfl⟩
  · -- a constraint has no head predicate
    exfalso
    obtain hc' := (hcons c).mp hc
    obtain ⟨r, hr, hcr⟩ := List.mem_map.mp hc'
    unfold ruleComponent at hcr
    split at hcr
    · injection hcr with hcr
      subst hcr
      unfold Formula.universalClosure at hhead
      rw [headPredicate_quantify] at hhead
      simp [headPredicate] at hhead
    · cases hcr
    · cases hcr
  · obtain ⟨r, hr, a, ch, hh, hA⟩ := hentry e he
    rw [headPredicate_completeDefinition] at hhead
    injection hhead with hhead
    have hqa : q = a.predicate := by rw [← hhead, hA, tauHeadAtom_predicate a _ (hla r hr a ch hh)]
    rw [hqa]
    exact entry_sem P hp T fc ρ e.1 e.2 (by rw [show e = (e.1, e.2) from rfl] at he; exact he) a (hla r hr a ch hh) hA
  · rw [headPredicate_completeDefinition, atomFromPred_predicate] at hhead
    injection hhead with hhead
    subst hhead
    rw [emptyDefinition_sem]
    unfold DefHolds
    refine forall_congr' fun ds => imp_congr_right fun hds => ?_
    constructor
    · intro hnT
      refine ⟨fun hT => absurd hT hnT, ?_⟩
      rintro ⟨r, hr, a, ch, hh, hpa, hla', _⟩
      exfalso
      obtain ⟨fs, hfs, _⟩ := (hspec.2 _ _).mpr ((mem_comps_partialDef P _ _ _).mpr ⟨r, hr, a, ch, hh, rfl, rfl⟩)
      refine hno _ hfs ?_
      rw [tauHeadAtom_predicate a _ (hla r hr a ch hh)]
      obtain ⟨qs, qn⟩ := p
      simp only [Asp.Atom.predicate, Pred.mk.injEq]
      exact ⟨hpa, hla'⟩
    · intro h hT
      obtain ⟨r, hr, a, ch, hh, hpa, hla', _⟩ := h.mp hT
      obtain ⟨fs, hfs, _⟩ := (hspec.2 _ _).mpr ((mem_comps_partialDef P _ _ _).mpr ⟨r, hr, a, ch, hh, rfl, rfl⟩)
      refine hno _ hfs ?_
      rw [tauHeadAtom_predicate a _ (hla r hr a ch hh)]
      obtain ⟨qs, qn⟩ := p
      simp only [Asp.Atom.predicate, Pred.mk.injEq]
      exact ⟨hpa, hla'⟩

/-! ## `DefHolds` reads the interpretation on the program's predicates only -/

theorem defHolds_congr (P : Program) (T1 T2 : PredI) (fc : FcI) (q : Pred) (hq : q ∈ P.preds)
    (h : ∀ b ∈ P.preds, ∀ ds : List Dom, ds.length = b.arity → (T1 b.symbol ds ↔ T2 b.symbol ds)) :
    DefHolds P T1 fc q.symbol q.arity ↔ DefHolds P T2 fc q.symbol q.arity := by
  unfold DefHolds
  refine forall_congr' fun ds => imp_congr_right fun hds => ?_
  have hq12 := h q hq ds hds
  rw [hq12]
  refine iff_congr Iff.rfl ?_
  refine exists_congr fun r => and_congr_right fun hr => exists_congr fun a => exists_congr fun ch =>
    and_congr_right fun hh => and_congr_right fun hpa => and_congr_right fun hla =>
    exists_congr fun σ => and_congr_right fun hv => ?_
  refine and_congr ?_ Iff.rfl
  refine bodySat_congr_preds T1 T2 fc .there σ r.body ?_
  intro b hb ds' hds'
  refine h b (mem_program_preds.mpr ⟨r, hr, ?_⟩) ds' hds'
  unfold Rule.preds; rw [mem_ext]; exact Or.inr hb

/-! ## the assumptions of `control_translate` are the definitions with a non-public head -/

theorem controlTranslate_roles (pub : List Pred) : ∀ (th : Theory) (init : Specification × Nat),
    ∀ a ∈ (th.foldl (controlStep pub) init).1, a ∈ init.1 ∨
      (a.formula ∈ th ∧ (a.role = .assumption → ∃ p, headPredicate a.formula = some p ∧ p ∉ pub)) := by
  intro th
  induction th with
  | nil => intro init a ha; exact Or.inl ha
  | cons f th ih =>
    intro init a ha
    simp only [List.foldl_cons] at ha
    rcases ih (controlStep pub init f) a ha with h | ⟨h1, h2⟩
    · unfold controlStep at h
      split at h
      · rename_i p hp
        split at h
        · rcases List.mem_append.mp h with h | h
          · exact Or.inl h
          · simp only [List.mem_singleton] at h; subst h
            exact Or.inr ⟨List.mem_cons_self, fun hr => by cases hr⟩
        · rename_i hnp
          rcases List.mem_append.mp h with h | h
          · exact Or.inl h
          · simp only [List.mem_singleton] at h; subst h
            exact Or.inr ⟨List.mem_cons_self, fun _ => ⟨p, hp, hnp⟩⟩
      · rcases List.mem_append.mp h with h | h
        · exact Or.inl h
        · simp only [List.mem_singleton] at h; subst h
          exact Or.inr ⟨List.mem_cons_self, fun hr => by cases hr⟩
    · exact Or.inr ⟨List.mem_cons_of_mem _ h1, h2⟩

/-! ## `theory_translate` without placeholders and simplification -/

theorem theoryTranslate_nosimp (t : ExternalTask) (fuel : Nat) (p : Program) (th : Theory)
    (hsimp : t.simplify = false) (h : theoryTranslate t [] fuel p = .ok th) :
    ∃ Γ, completion (tauStar p) t.userGuide.inputs = some Γ ∧
      th = Γ ++ (missingOutputs t p).map fun q => completeDefinition (atomFromPred q) [] := by
  unfold theoryTranslate at h
  split at h
  · cases h
  · have hmap : (tauStar p).map (Formula.replacePlaceholders []) = tauStar p := by
      conv => rhs; rw [← List.map_id (tauStar p)]
      exact List.map_congr_left fun F _ => replacePlaceholders_nil F
    simp only [hmap, hsimp, Bool.false_eq_true, if_false] at h
    cases hc : completion (tauStar p) t.userGuide.inputs with
    | none => simp [hc] at h
    | some Γ => simp only [hc] at h; injection h with h; exact ⟨Γ, rfl, h.symm⟩

/-! ## the program-level statement -/

theorem restrictTo_congr (sig : List Pred) (T1 T2 : PredI)
    (h : ∀ (q : String) (ds : List Dom), (⟨q, ds.length⟩ : Pred) ∈ sig → (T1 q ds ↔ T2 q ds)) :
    restrictTo sig T1 = restrictTo sig T2 := by
  funext q ds
  unfold restrictTo
  exact propext ⟨fun ⟨a, b⟩ => ⟨(h q ds b).mp a, b⟩, fun ⟨a, b⟩ => ⟨(h q ds b).mpr a, b⟩⟩

theorem precheck_disjoint (t : ExternalTask) (h : precheck t = none) :
    ∀ q ∈ t.userGuide.inputs, q ∉ t.userGuide.outputs := by
  unfold precheck at h
  simp only at h
  split at h
  · cases h
  · split at h
    · cases h
    · rename_i hov
      intro q hq ho
      apply hov
      simp only [List.any_eq_true, decide_eq_true_eq]
      exact ⟨q, hq, ho⟩

theorem specPrivate_programs (t : ExternalTask) (PL : Program) (hspec : t.specification = .inl PL) :
    t.specPrivate = PL.preds.filter (· ∉ t.userGuide.publicPreds) := by
  unfold ExternalTask.specPrivate
  rw [hspec]

/-- **C02 at the level of the programs, forward direction** (program against program, no
    placeholders, no proof outline, tightness not bypassed, simplification off; any decomposition and
    eq-break setting). If no interpretation refutes an emitted problem - in particular if every
    emitted problem is a theorem - then every stable model `TL` of the specification program, for
    input facts and constants that satisfy the user-guide assumptions, has the same public part as
    some stable model of the program. -/
theorem external_forward_sound_programs (t : ExternalTask) (PL : Program)
    (hspec : t.specification = .inl PL) (hph : t.userGuide.placeholders = []) (hpo : t.proofOutline = [])
    (hbyp : t.bypassTightness = false) (hsimp : t.simplify = false)
    (fuel : Nat) (ps : List Problem) (h : externalProblems t fuel = .ok ps)
    (hdir : t.direction = .universal ∨ t.direction = .forward)
    (hnc : ∀ ΓL ΓR, theoryTranslate t t.phMap fuel PL = .ok ΓL → theoryTranslate t t.phMap fuel t.program = .ok ΓR →
      NoSymbolConflictGen (assembledGen t (leftSide t ΓL) t.ugAss ΓR))
    (hvalid : ∀ (J : Interp) (ρ : Asg), ¬ ∃ P ∈ ps, Refutes J ρ P) :
    ∀ (TL : PredI) (fc : FcI) (ρ : Asg),
      (∀ a ∈ t.userGuide.formulas, a.role = .assumption → sat ⟨TL, fc⟩ a.formula ρ) →
      Stable PL t.userGuide.inputs TL fc →
      ∃ TR : PredI, Stable t.program t.userGuide.inputs TR fc ∧
        ∀ (q : String) (ds : List Dom), (⟨q, ds.length⟩ : Pred) ∈ t.userGuide.publicPreds → (TR q ds ↔ TL q ds) := by
  obtain ⟨ΓL, ΓR, hL, hR, hmain⟩ := external_refutes_programs_ph t PL hspec hpo hbyp fuel ps h
  have hpre : precheck t = none := (externalProblems_ph t hpo fuel ps h).1
  have hm : t.phMap = [] := phMap_nil t hph
  obtain ⟨hperrR, hperrL⟩ := precheck_programs t PL hspec hpre
  obtain ⟨_, hrecR, hinsR⟩ := C11.programError_none hperrR
  have hdisj := precheck_disjoint t hpre
  intro TL fc ρ hug hstL
  -- vocabulary facts
  have hinpub : ∀ q ∈ t.userGuide.inputs, q ∈ t.userGuide.publicPreds := fun q hq => mem_ext.mpr (Or.inl hq)
  have houtpub : ∀ q ∈ t.userGuide.outputs, q ∈ t.userGuide.publicPreds := fun q hq => mem_ext.mpr (Or.inr hq)
  have hvocL : ∀ q ∈ ext PL.preds t.userGuide.inputs, q ∈ ext t.userGuide.publicPreds t.specPrivate := by
    intro q hq
    rcases mem_ext.mp hq with hq | hq
    · by_cases hp : q ∈ t.userGuide.publicPreds
      · exact mem_ext.mpr (Or.inl hp)
      · refine mem_ext.mpr (Or.inr ?_)
        rw [specPrivate_programs t PL hspec]
        exact List.mem_filter.mpr ⟨hq, by simpa using hp⟩
    · exact mem_ext.mpr (Or.inl (hinpub q hq))
  have hvocR : ∀ q ∈ ext t.program.preds t.userGuide.inputs, q ∈ ext t.userGuide.publicPreds t.progPrivate := by
    intro q hq
    rcases mem_ext.mp hq with hq | hq
    · by_cases hp : q ∈ t.userGuide.publicPreds
      · exact mem_ext.mpr (Or.inl hp)
      · refine mem_ext.mpr (Or.inr ?_)
        unfold ExternalTask.progPrivate
        exact List.mem_filter.mpr ⟨hq, by simpa using hp⟩
    · exact mem_ext.mpr (Or.inl (hinpub q hq))
  have hpubpriv : ∀ q, q ∈ t.userGuide.publicPreds → q ∉ t.progPrivate := by
    intro q hq hp
    unfold ExternalTask.progPrivate at hp
    simp only [List.mem_filter, decide_eq_true_eq] at hp
    exact hp.2 hq
  -- private extents of the program for the public part of `TL`, and one interpretation for both
  obtain ⟨TR0, hTR0agree, hTR0def⟩ := private_extents_exist t.program t.progPrivate hrecR TL fc
  obtain ⟨T, hTL, hTR⟩ := joint_reading t TL TR0 (fun q a hq => (hTR0agree q a (hpubpriv _ hq)).symm)
  have hiff := hmain (hnc ΓL ΓR hL hR) ⟨T, fc⟩ ρ
  rw [hm] at hiff hR
  simp only [phNu_nil, Program.substSym_id, replacePlaceholders_nil] at hiff
  -- (i) the user-guide assumptions
  have hugT : ∀ a ∈ t.userGuide.formulas, a.role = .assumption → sat ⟨T, fc⟩ a.formula ρ := by
    intro a ha hrole
    refine (sat_congr_preds fc T TL a.formula ρ ?_).mpr (hug a ha hrole)
    intro q hq ds hds
    have hqi : q ∈ t.userGuide.inputs := by
      have hmem : a.replacePlaceholders t.phMap ∈ t.ugAss := by
        unfold ExternalTask.ugAss
        exact List.mem_map.mpr ⟨a, List.mem_filter.mpr ⟨ha, by simpa using hrole⟩, rfl⟩
      refine Outline.ugAss_preds t hpre _ hmem q ?_
      rw [hm]
      simp only [SAnn.replacePlaceholders, replacePlaceholders_nil]
      exact hq
    have : (⟨q.symbol, ds.length⟩ : Pred) = q := by rw [hds]
    exact hTL q.symbol ds (by rw [this]; exact mem_ext.mpr (Or.inl (hinpub q hqi)))
  -- (ii) the specification program produces `T`
  have hsigL := stable_sig PL t.userGuide.inputs TL fc hstL
  have hrestrL : restrictTo (ext PL.preds t.userGuide.inputs) T = TL := by
    rw [restrictTo_congr _ T TL fun q ds hq => hTL q ds (hvocL _ hq)]
    funext q ds
    unfold restrictTo
    exact propext ⟨fun hh => hh.1, fun hh => ⟨hh, hsigL q ds hh⟩⟩
  have hoeL : OutputsEmpty t PL T := by
    intro q hq ds hds hT
    unfold missingOutputs at hq
    simp only [List.mem_filter, decide_eq_true_eq] at hq
    have hq' : (⟨q.symbol, ds.length⟩ : Pred) = q := by rw [hds]
    have hTLq : TL q.symbol ds := (hTL q.symbol ds (by rw [hq']; exact mem_ext.mpr (Or.inl (houtpub q hq.1)))).mp hT
    have := hsigL q.symbol ds hTLq
    rw [hq'] at this
    rcases mem_ext.mp this with h1 | h1
    · exact hq.2 h1
    · exact hdisj q h1 hq.1
  -- (iv) the private definitions of the program hold
  obtain ⟨Γ, hΓ, hΓR⟩ := theoryTranslate_nosimp t fuel t.program ΓR hsimp hR
  have hpP : globalsPanic t.program = false := (theoryTranslate_ok t fuel t.program ΓR hR).1
  have hright : ∀ a ∈ rightSide t ΓR, a.role = .assumption → sat ⟨T, fc⟩ a.formula ρ := by
    intro a ha hrole
    unfold rightSide at ha
    obtain ⟨a0, ha0, rfl⟩ := List.mem_map.mp ha
    simp only at hrole ⊢
    unfold controlTranslate at ha0
    rcases controlTranslate_roles t.userGuide.publicPreds ΓR ([], 0) a0 ha0 with hnil | ⟨hmemΓR, hroleinfo⟩
    · cases hnil
    obtain ⟨p, hp, hnp⟩ := hroleinfo hrole
    rw [sat_renamePreds]
    rw [hΓR] at hmemΓR
    rcases List.mem_append.mp hmemΓR with hin | hin
    · have hpP' : p ∈ t.program.preds :=
        completion_preds _ _ hpP Γ hΓ _ hin p (headPredicate_mem_preds _ p hp)
      rw [completion_defs_sem t.program t.userGuide.inputs hpP Γ hΓ _ hin p hp]
      have hpriv : p ∈ t.progPrivate := by
        unfold ExternalTask.progPrivate
        exact List.mem_filter.mpr ⟨hpP', by simpa using hnp⟩
      refine (defHolds_congr t.program _ TR0 fc p hpP' ?_).mpr (hTR0def p hpriv)
      intro b hb ds hds
      have hb' : (⟨b.symbol, ds.length⟩ : Pred) = b := by rw [hds]
      exact hTR b.symbol ds (by rw [hb']; exact hvocR b (mem_ext.mpr (Or.inl hb)))
    · exfalso
      obtain ⟨q, hq, hqF⟩ := List.mem_map.mp hin
      rw [← hqF, headPredicate_completeDefinition, atomFromPred_predicate] at hp
      injection hp with hp
      subst hp
      unfold missingOutputs at hq
      simp only [List.mem_filter, decide_eq_true_eq] at hq
      exact hnp (houtpub q hq.1)
  -- (v) not refuted, hence produced by the program
  have hnot := hvalid ⟨T, fc⟩ ρ
  rw [hiff] at hnot
  by_cases hPR : Stable t.program t.userGuide.inputs
      (restrictTo (ext t.program.preds t.userGuide.inputs) (renamedInterp t.clashMap T)) fc ∧
      OutputsEmpty t t.program (renamedInterp t.clashMap T)
  · refine ⟨_, hPR.1, ?_⟩
    intro q ds hq
    have hnpriv := hpubpriv _ hq
    by_cases hin : (⟨q, ds.length⟩ : Pred) ∈ ext t.program.preds t.userGuide.inputs
    · unfold restrictTo
      rw [and_iff_left hin, hTR q ds (mem_ext.mpr (Or.inl hq))]
      exact hTR0agree q ds hnpriv
    · unfold restrictTo
      constructor
      · intro hh; exact absurd hh.2 hin
      · intro hTLq
        exfalso
        have hout : (⟨q, ds.length⟩ : Pred) ∈ t.userGuide.outputs := by
          rcases mem_ext.mp hq with h1 | h1
          · exact absurd (mem_ext.mpr (Or.inr h1)) hin
          · exact h1
        have hmiss : (⟨q, ds.length⟩ : Pred) ∈ missingOutputs t t.program := by
          unfold missingOutputs
          exact List.mem_filter.mpr ⟨hout, by simpa using fun hp => hin (mem_ext.mpr (Or.inl hp))⟩
        apply hPR.2 _ hmiss ds rfl
        exact (hTR q ds (mem_ext.mpr (Or.inl hq))).mpr ((hTR0agree q ds hnpriv).mpr hTLq)
  · exfalso
    apply hnot
    refine ⟨hugT, Or.inl ⟨hdir, ⟨?_, hoeL⟩, hright, hPR⟩⟩
    rw [hrestrL]
    exact hstL


/-- **C02 at the level of the programs, backward direction**: under the same conditions, if no
    interpretation refutes an emitted problem then every stable model `TR` of the program, for input
    facts and constants that satisfy the user-guide assumptions, has the same public part as some
    stable model of the specification program. -/
theorem external_backward_sound_programs (t : ExternalTask) (PL : Program)
    (hspec : t.specification = .inl PL) (hph : t.userGuide.placeholders = []) (hpo : t.proofOutline = [])
    (hbyp : t.bypassTightness = false) (hsimp : t.simplify = false)
    (fuel : Nat) (ps : List Problem) (h : externalProblems t fuel = .ok ps)
    (hdir : t.direction = .universal ∨ t.direction = .backward)
    (hnc : ∀ ΓL ΓR, theoryTranslate t t.phMap fuel PL = .ok ΓL → theoryTranslate t t.phMap fuel t.program = .ok ΓR →
      NoSymbolConflictGen (assembledGen t (leftSide t ΓL) t.ugAss ΓR))
    (hvalid : ∀ (J : Interp) (ρ : Asg), ¬ ∃ P ∈ ps, Refutes J ρ P) :
    ∀ (TR : PredI) (fc : FcI) (ρ : Asg),
      (∀ a ∈ t.userGuide.formulas, a.role = .assumption → sat ⟨TR, fc⟩ a.formula ρ) →
      Stable t.program t.userGuide.inputs TR fc →
      ∃ TL : PredI, Stable PL t.userGuide.inputs TL fc ∧
        ∀ (q : String) (ds : List Dom), (⟨q, ds.length⟩ : Pred) ∈ t.userGuide.publicPreds → (TL q ds ↔ TR q ds) := by
  obtain ⟨ΓL, ΓR, hL, hR, hmain⟩ := external_refutes_programs_ph t PL hspec hpo hbyp fuel ps h
  have hpre : precheck t = none := (externalProblems_ph t hpo fuel ps h).1
  have hm : t.phMap = [] := phMap_nil t hph
  obtain ⟨hperrR, hperrL⟩ := precheck_programs t PL hspec hpre
  obtain ⟨_, hrecL, hinsL⟩ := C11.programError_none hperrL
  have hdisj := precheck_disjoint t hpre
  intro TR fc ρ hug hstR
  have hinpub : ∀ q ∈ t.userGuide.inputs, q ∈ t.userGuide.publicPreds := fun q hq => mem_ext.mpr (Or.inl hq)
  have houtpub : ∀ q ∈ t.userGuide.outputs, q ∈ t.userGuide.publicPreds := fun q hq => mem_ext.mpr (Or.inr hq)
  have hvocL : ∀ q ∈ ext PL.preds t.userGuide.inputs, q ∈ ext t.userGuide.publicPreds t.specPrivate := by
    intro q hq
    rcases mem_ext.mp hq with hq | hq
    · by_cases hp : q ∈ t.userGuide.publicPreds
      · exact mem_ext.mpr (Or.inl hp)
      · refine mem_ext.mpr (Or.inr ?_)
        rw [specPrivate_programs t PL hspec]
        exact List.mem_filter.mpr ⟨hq, by simpa using hp⟩
    · exact mem_ext.mpr (Or.inl (hinpub q hq))
  have hvocR : ∀ q ∈ ext t.program.preds t.userGuide.inputs, q ∈ ext t.userGuide.publicPreds t.progPrivate := by
    intro q hq
    rcases mem_ext.mp hq with hq | hq
    · by_cases hp : q ∈ t.userGuide.publicPreds
      · exact mem_ext.mpr (Or.inl hp)
      · refine mem_ext.mpr (Or.inr ?_)
        unfold ExternalTask.progPrivate
        exact List.mem_filter.mpr ⟨hq, by simpa using hp⟩
    · exact mem_ext.mpr (Or.inl (hinpub q hq))
  have hpubpriv : ∀ q, q ∈ t.userGuide.publicPreds → q ∉ t.specPrivate := by
    intro q hq hp
    rw [specPrivate_programs t PL hspec] at hp
    simp only [List.mem_filter, decide_eq_true_eq] at hp
    exact hp.2 hq
  -- private extents of the specification program for the public part of `TR`
  obtain ⟨TL0, hTL0agree, hTL0def⟩ := private_extents_exist PL t.specPrivate hrecL TR fc
  obtain ⟨T, hTL, hTR⟩ := joint_reading t TL0 TR (fun q a hq => hTL0agree q a (hpubpriv _ hq))
  have hiff := hmain (hnc ΓL ΓR hL hR) ⟨T, fc⟩ ρ
  rw [hm] at hiff hL
  simp only [phNu_nil, Program.substSym_id, replacePlaceholders_nil] at hiff
  have hTpub : ∀ (q : String) (ds : List Dom), (⟨q, ds.length⟩ : Pred) ∈ t.userGuide.publicPreds → (T q ds ↔ TR q ds) := by
    intro q ds hq
    rw [hTL q ds (mem_ext.mpr (Or.inl hq))]
    exact hTL0agree q ds (hpubpriv _ hq)
  -- (i) the user-guide assumptions
  have hugT : ∀ a ∈ t.userGuide.formulas, a.role = .assumption → sat ⟨T, fc⟩ a.formula ρ := by
    intro a ha hrole
    refine (sat_congr_preds fc T TR a.formula ρ ?_).mpr (hug a ha hrole)
    intro q hq ds hds
    have hqi : q ∈ t.userGuide.inputs := by
      have hmem : a.replacePlaceholders t.phMap ∈ t.ugAss := by
        unfold ExternalTask.ugAss
        exact List.mem_map.mpr ⟨a, List.mem_filter.mpr ⟨ha, by simpa using hrole⟩, rfl⟩
      refine Outline.ugAss_preds t hpre _ hmem q ?_
      rw [hm]
      simp only [SAnn.replacePlaceholders, replacePlaceholders_nil]
      exact hq
    have : (⟨q.symbol, ds.length⟩ : Pred) = q := by rw [hds]
    exact hTpub q.symbol ds (by rw [this]; exact hinpub q hqi)
  -- (ii) the program produces `T` (read through the renaming)
  have hsigR := stable_sig t.program t.userGuide.inputs TR fc hstR
  have hrestrR : restrictTo (ext t.program.preds t.userGuide.inputs) (renamedInterp t.clashMap T) = TR := by
    rw [restrictTo_congr _ (renamedInterp t.clashMap T) TR fun q ds hq => hTR q ds (hvocR _ hq)]
    funext q ds
    unfold restrictTo
    exact propext ⟨fun hh => hh.1, fun hh => ⟨hh, hsigR q ds hh⟩⟩
  have hoeR : OutputsEmpty t t.program (renamedInterp t.clashMap T) := by
    intro q hq ds hds hT
    unfold missingOutputs at hq
    simp only [List.mem_filter, decide_eq_true_eq] at hq
    have hq' : (⟨q.symbol, ds.length⟩ : Pred) = q := by rw [hds]
    have hTRq : TR q.symbol ds :=
      (hTR q.symbol ds (by rw [hq']; exact mem_ext.mpr (Or.inl (houtpub q hq.1)))).mp hT
    have := hsigR q.symbol ds hTRq
    rw [hq'] at this
    rcases mem_ext.mp this with h1 | h1
    · exact hq.2 h1
    · exact hdisj q h1 hq.1
  -- (iv) the private definitions of the specification program hold
  obtain ⟨Γ, hΓ, hΓL⟩ := theoryTranslate_nosimp t fuel PL ΓL hsimp hL
  have hpP : globalsPanic PL = false := (theoryTranslate_ok t fuel PL ΓL hL).1
  have hleft : ∀ a ∈ leftSide t ΓL, a.role = .assumption → sat ⟨T, fc⟩ a.formula ρ := by
    intro a0 ha0 hrole
    unfold leftSide controlTranslate at ha0
    rcases controlTranslate_roles t.userGuide.publicPreds ΓL ([], 0) a0 ha0 with hnil | ⟨hmemΓL, hroleinfo⟩
    · cases hnil
    obtain ⟨p, hp, hnp⟩ := hroleinfo hrole
    rw [hΓL] at hmemΓL
    rcases List.mem_append.mp hmemΓL with hin | hin
    · have hpP' : p ∈ PL.preds :=
        completion_preds _ _ hpP Γ hΓ _ hin p (headPredicate_mem_preds _ p hp)
      rw [completion_defs_sem PL t.userGuide.inputs hpP Γ hΓ _ hin p hp]
      have hpriv : p ∈ t.specPrivate := by
        rw [specPrivate_programs t PL hspec]
        exact List.mem_filter.mpr ⟨hpP', by simpa using hnp⟩
      refine (defHolds_congr PL _ TL0 fc p hpP' ?_).mpr (hTL0def p hpriv)
      intro b hb ds hds
      have hb' : (⟨b.symbol, ds.length⟩ : Pred) = b := by rw [hds]
      exact hTL b.symbol ds (by rw [hb']; exact hvocL b (mem_ext.mpr (Or.inl hb)))
    · exfalso
      obtain ⟨q, hq, hqF⟩ := List.mem_map.mp hin
      rw [← hqF, headPredicate_completeDefinition, atomFromPred_predicate] at hp
      injection hp with hp
      subst hp
      unfold missingOutputs at hq
      simp only [List.mem_filter, decide_eq_true_eq] at hq
      exact hnp (houtpub q hq.1)
  -- (v) not refuted, hence produced by the specification program
  have hnot := hvalid ⟨T, fc⟩ ρ
  rw [hiff] at hnot
  by_cases hPL : Stable PL t.userGuide.inputs (restrictTo (ext PL.preds t.userGuide.inputs) T) fc ∧
      OutputsEmpty t PL T
  · refine ⟨_, hPL.1, ?_⟩
    intro q ds hq
    by_cases hin : (⟨q, ds.length⟩ : Pred) ∈ ext PL.preds t.userGuide.inputs
    · unfold restrictTo
      rw [and_iff_left hin]
      exact hTpub q ds hq
    · unfold restrictTo
      constructor
      · intro hh; exact absurd hh.2 hin
      · intro hTRq
        exfalso
        have hout : (⟨q, ds.length⟩ : Pred) ∈ t.userGuide.outputs := by
          rcases mem_ext.mp hq with h1 | h1
          · exact absurd (mem_ext.mpr (Or.inr h1)) hin
          · exact h1
        have hmiss : (⟨q, ds.length⟩ : Pred) ∈ missingOutputs t PL := by
          unfold missingOutputs
          exact List.mem_filter.mpr ⟨hout, by simpa using fun hp => hin (mem_ext.mpr (Or.inl hp))⟩
        apply hPL.2 _ hmiss ds rfl
        exact (hTpub q ds hq).mpr hTRq
  · exfalso
    apply hnot
    refine ⟨hugT, Or.inr ⟨hdir, ⟨?_, hoeR⟩, hleft, hPL⟩⟩
    rw [hrestrR]
    exact hstR

end Anthem
