/-
  C02 at the level of the two programs ("hence if every emitted problem is a theorem the claimed
  relation holds"): for a program-vs-program task without placeholders, outline and simplification,
  if no interpretation refutes an emitted problem then, in a requested direction, every stable
  model of one program (under the user-guide assumptions) has the same public part as some stable
  model of the other. Combines the refutation characterisation (`external_refutes_programs_ph`),
  the existence of private extents (`private_extents_exist`) and the faithfulness of the private
  renaming (`joint_reading`).
-/
import AnthemModel.Proofs.ExternalSemPh
import AnthemModel.Proofs.ExternalOutlineTask
import AnthemModel.Proofs.PrivateExist
import AnthemModel.Proofs.RenameFresh
import AnthemModel.Props.C11
import AnthemModel.Proofs.SimplifyShape
import AnthemModel.Proofs.ExternalValid
namespace Anthem
open Asp C11

/-! ## every completed definition of `completion(tau*(P))` means `DefHolds` -/

theorem headPredicate_quantify (F : Formula) (vs : List Var) :
    headPredicate (F.quantify .all vs) = headPredicate F := by
  unfold Formula.quantify
  split
  · rfl
  · rfl

theorem headPredicate_mem_preds : ∀ (F : Formula) (p : Pred), headPredicate F = some p → p ∈ F.preds := by
  intro F
  induction F with
  | atomic a => intro p h; simp [headPredicate] at h
  | not f _ => intro p h; simp [headPredicate] at h
  | bin c l r _ _ =>
    intro p h
    cases c <;> try (simp [headPredicate] at h)
    cases l with
    | atomic a =>
      cases a with
      | atom a =>
        simp only [headPredicate, Option.some.injEq] at h
        subst h
        simp only [Formula.preds, AtomicF.preds]
        exact mem_ext.mpr (Or.inl (by simp))
      | _ => simp [headPredicate] at h
    | _ => simp [headPredicate] at h
  | quant q vs f ih =>
    intro p h
    cases q
    · simp only [headPredicate] at h; exact ih p h
    · simp [headPredicate] at h

/-- every formula of the completion with a head predicate is that predicate's completed definition -/
theorem completion_defs_sem (P : Program) (ins : List Pred) (hp : globalsPanic P = false) (Γ : Theory)
    (hΓ : completion (tauStar P) ins = some Γ) (F : Formula) (hF : F ∈ Γ) (q : Pred)
    (hhead : headPredicate F = some q) :
    ∀ (T : PredI) (fc : FcI) (ρ : Asg), sat ⟨T, fc⟩ F ρ ↔ DefHolds P T fc q.symbol q.arity := by
  obtain ⟨hn, hfresh, hglen⟩ := chooseFreshGlobals_spec P hp
  have hcomp := components_tauStar P hp
  obtain ⟨hspec, hcons⟩ := collect_spec (P.map fun r => ruleComponent r (chooseFreshGlobals P)) ([], [])
    (fun _ _ => False) ⟨List.nodup_nil, by simp⟩
  simp only [false_or, List.not_mem_nil] at hspec hcons
  have hne := collect_nonempty (P.map fun r => ruleComponent r (chooseFreshGlobals P)) ([], []) (by simp)
  have hla : ∀ r ∈ P, ∀ a ch, HeadOf r a ch → a.args.length ≤ (chooseFreshGlobals P).length := by
    intro r hr a ch hh
    rw [hglen, ← headOf_arity hh]; exact arity_le_maxHeadArity P r hr
  have hentry : ∀ e ∈ (collect (P.map fun r => ruleComponent r (chooseFreshGlobals P)) ([], [])).1,
      ∃ r ∈ P, ∃ a ch, HeadOf r a ch ∧ e.1 = tauHeadAtom a (chooseFreshGlobals P) := by
    intro e he
    obtain ⟨f, hf⟩ := List.exists_mem_of_ne_nil _ (hne e he)
    obtain ⟨r, hr, a, ch, hh, _, hA⟩ := (mem_comps_partialDef P _ f e.1).mp ((hspec.2 e.1 f).mp ⟨e.2, he, hf⟩)
    exact ⟨r, hr, a, ch, hh, hA⟩
  have hkeys : ∀ e ∈ (collect (P.map fun r => ruleComponent r (chooseFreshGlobals P)) ([], [])).1,
      ∀ e' ∈ (collect (P.map fun r => ruleComponent r (chooseFreshGlobals P)) ([], [])).1,
      e.1.predicate = e'.1.predicate → e.1 = e'.1 := by
    intro e he e' he' hpe
    obtain ⟨r, hr, a, ch, hh, hA⟩ := hentry e he
    obtain ⟨r', hr', a', ch', hh', hA'⟩ := hentry e' he'
    rw [hA, hA'] at hpe ⊢
    rw [tauHeadAtom_predicate a _ (hla r hr a ch hh), tauHeadAtom_predicate a' _ (hla r' hr' a' ch' hh')] at hpe
    simp only [Asp.Atom.predicate, Pred.mk.injEq] at hpe
    exact (tauHeadAtom_eq (hla r hr a ch hh) (hla r' hr' a' ch' hh')).mpr hpe
  obtain ⟨Γ', hΓ', hmem⟩ := completion_formulas (tauStar P) ins _ _ hcomp hkeys
  rw [hΓ] at hΓ'
  injection hΓ' with hΓ'
  subst hΓ'
  intro T fc ρ
  rcases (hmem F).mp hF with ⟨c, hc, rfl⟩ | ⟨e, he, hnot, rfl⟩ | ⟨p, hp', hpi, hno, rfl⟩
  · -- a constraint has no head predicate
    exfalso
    obtain hc' := (hcons c).mp hc
    obtain ⟨r, hr, hcr⟩ := List.mem_map.mp hc'
    unfold ruleComponent at hcr
    split at hcr
    · injection hcr with hcr
      subst hcr
      unfold Formula.universalClosure at hhead
      rw [headPredicate_quantify] at hhead
      simp [headPredicate] at hhead
    · cases hcr
    · cases hcr
  · obtain ⟨r, hr, a, ch, hh, hA⟩ := hentry e he
    rw [headPredicate_completeDefinition] at hhead
    injection hhead with hhead
    have hqa : q = a.predicate := by rw [← hhead, hA, tauHeadAtom_predicate a _ (hla r hr a ch hh)]
    rw [hqa]
    exact entry_sem P hp T fc ρ e.1 e.2 (by rw [show e = (e.1, e.2) from rfl] at he; exact he) a (hla r hr a ch hh) hA
  · rw [headPredicate_completeDefinition, atomFromPred_predicate] at hhead
    injection hhead with hhead
    subst hhead
    rw [emptyDefinition_sem]
    unfold DefHolds
    refine forall_congr' fun ds => imp_congr_right fun hds => ?_
    constructor
    · intro hnT
      refine ⟨fun hT => absurd hT hnT, ?_⟩
      rintro ⟨r, hr, a, ch, hh, hpa, hla', _⟩
      exfalso
      obtain ⟨fs, hfs, _⟩ := (hspec.2 _ _).mpr ((mem_comps_partialDef P _ _ _).mpr ⟨r, hr, a, ch, hh, rfl, rfl⟩)
      refine hno _ hfs ?_
      rw [tauHeadAtom_predicate a _ (hla r hr a ch hh)]
      obtain ⟨qs, qn⟩ := p
      simp only [Asp.Atom.predicate, Pred.mk.injEq]
      exact ⟨hpa, hla'⟩
    · intro h hT
      obtain ⟨r, hr, a, ch, hh, hpa, hla', _⟩ := h.mp hT
      obtain ⟨fs, hfs, _⟩ := (hspec.2 _ _).mpr ((mem_comps_partialDef P _ _ _).mpr ⟨r, hr, a, ch, hh, rfl, rfl⟩)
      refine hno _ hfs ?_
      rw [tauHeadAtom_predicate a _ (hla r hr a ch hh)]
      obtain ⟨qs, qn⟩ := p
      simp only [Asp.Atom.predicate, Pred.mk.injEq]
      exact ⟨hpa, hla'⟩

/-! ## `DefHolds` reads the interpretation on the program's predicates only -/

theorem defHolds_congr (P : Program) (T1 T2 : PredI) (fc : FcI) (q : Pred) (hq : q ∈ P.preds)
    (h : ∀ b ∈ P.preds, ∀ ds : List Dom, ds.length = b.arity → (T1 b.symbol ds ↔ T2 b.symbol ds)) :
    DefHolds P T1 fc q.symbol q.arity ↔ DefHolds P T2 fc q.symbol q.arity := by
  unfold DefHolds
  refine forall_congr' fun ds => imp_congr_right fun hds => ?_
  have hq12 := h q hq ds hds
  rw [hq12]
  refine iff_congr Iff.rfl ?_
  refine exists_congr fun r => and_congr_right fun hr => exists_congr fun a => exists_congr fun ch =>
    and_congr_right fun hh => and_congr_right fun hpa => and_congr_right fun hla =>
    exists_congr fun σ => and_congr_right fun hv => ?_
  refine and_congr ?_ Iff.rfl
  refine bodySat_congr_preds T1 T2 fc .there σ r.body ?_
  intro b hb ds' hds'
  refine h b (mem_program_preds.mpr ⟨r, hr, ?_⟩) ds' hds'
  unfold Rule.preds; rw [mem_ext]; exact Or.inr hb

/-! ## the assumptions of `control_translate` are the definitions with a non-public head -/

theorem controlTranslate_roles (pub : List Pred) : ∀ (th : Theory) (init : Specification × Nat),
    ∀ a ∈ (th.foldl (controlStep pub) init).1, a ∈ init.1 ∨
      (a.formula ∈ th ∧ (a.role = .assumption → ∃ p, headPredicate a.formula = some p ∧ p ∉ pub)) := by
  intro th
  induction th with
  | nil => intro init a ha; exact Or.inl ha
  | cons f th ih =>
    intro init a ha
    simp only [List.foldl_cons] at ha
    rcases ih (controlStep pub init f) a ha with h | ⟨h1, h2⟩
    · unfold controlStep at h
      split at h
      · rename_i p hp
        split at h
        · rcases List.mem_append.mp h with h | h
          · exact Or.inl h
          · simp only [List.mem_singleton] at h; subst h
            exact Or.inr ⟨List.mem_cons_self, fun hr => by cases hr⟩
        · rename_i hnp
          rcases List.mem_append.mp h with h | h
          · exact Or.inl h
          · simp only [List.mem_singleton] at h; subst h
            exact Or.inr ⟨List.mem_cons_self, fun _ => ⟨p, hp, hnp⟩⟩
      · rcases List.mem_append.mp h with h | h
        · exact Or.inl h
        · simp only [List.mem_singleton] at h; subst h
          exact Or.inr ⟨List.mem_cons_self, fun hr => by cases hr⟩
    · exact Or.inr ⟨List.mem_cons_of_mem _ h1, h2⟩

/-! ## `theory_translate` without placeholders and simplification -/

theorem theoryTranslate_nosimp (t : ExternalTask) (fuel : Nat) (p : Program) (th : Theory)
    (hsimp : t.simplify = false) (h : theoryTranslate t [] fuel p = .ok th) :
    ∃ Γ, completion (tauStar p) t.userGuide.inputs = some Γ ∧
      th = Γ ++ (missingOutputs t p).map fun q => completeDefinition (atomFromPred q) [] := by
  unfold theoryTranslate at h
  split at h
  · cases h
  · have hmap : (tauStar p).map (Formula.replacePlaceholders []) = tauStar p := by
      conv => rhs; rw [← List.map_id (tauStar p)]
      exact List.map_congr_left fun F _ => replacePlaceholders_nil F
    simp only [hmap, hsimp, Bool.false_eq_true, if_false] at h
    cases hc : completion (tauStar p) t.userGuide.inputs with
    | none => simp [hc] at h
    | some Γ => simp only [hc] at h; injection h with h; exact ⟨Γ, rfl, h.symm⟩

/-! ## the formulas of `theory_translate`, with or without simplification -/

/-- the shapes of the formulas of `completion(tau*(P))`: a constraint `forall (body -> #false)` whose body
    has no implications, or a completed definition -/
theorem completion_shapes (P : Program) (ins : List Pred) (hp : globalsPanic P = false) (Γ : Theory)
    (hΓ : completion (tauStar P) ins = some Γ) : ∀ F ∈ Γ,
      (∃ X : Formula, X.pos = true ∧ F = (Formula.bin .imp X .fls).universalClosure) ∨
      (∃ A fs, F = completeDefinition A fs) := by
  obtain ⟨hn, hfresh, hglen⟩ := chooseFreshGlobals_spec P hp
  have hcomp := components_tauStar P hp
  obtain ⟨hspec, hcons⟩ := collect_spec (P.map fun r => ruleComponent r (chooseFreshGlobals P)) ([], [])
    (fun _ _ => False) ⟨List.nodup_nil, by simp⟩
  simp only [false_or, List.not_mem_nil] at hspec hcons
  have hne := collect_nonempty (P.map fun r => ruleComponent r (chooseFreshGlobals P)) ([], []) (by simp)
  have hla : ∀ r ∈ P, ∀ a ch, HeadOf r a ch → a.args.length ≤ (chooseFreshGlobals P).length := by
    intro r hr a ch hh
    rw [hglen, ← headOf_arity hh]; exact arity_le_maxHeadArity P r hr
  have hentry : ∀ e ∈ (collect (P.map fun r => ruleComponent r (chooseFreshGlobals P)) ([], [])).1,
      ∃ r ∈ P, ∃ a ch, HeadOf r a ch ∧ e.1 = tauHeadAtom a (chooseFreshGlobals P) := by
    intro e he
    obtain ⟨f, hf⟩ := List.exists_mem_of_ne_nil _ (hne e he)
    obtain ⟨r, hr, a, ch, hh, _, hA⟩ := (mem_comps_partialDef P _ f e.1).mp ((hspec.2 e.1 f).mp ⟨e.2, he, hf⟩)
    exact ⟨r, hr, a, ch, hh, hA⟩
  have hkeys : ∀ e ∈ (collect (P.map fun r => ruleComponent r (chooseFreshGlobals P)) ([], [])).1,
      ∀ e' ∈ (collect (P.map fun r => ruleComponent r (chooseFreshGlobals P)) ([], [])).1,
      e.1.predicate = e'.1.predicate → e.1 = e'.1 := by
    intro e he e' he' hpe
    obtain ⟨r, hr, a, ch, hh, hA⟩ := hentry e he
    obtain ⟨r', hr', a', ch', hh', hA'⟩ := hentry e' he'
    rw [hA, hA'] at hpe ⊢
    rw [tauHeadAtom_predicate a _ (hla r hr a ch hh), tauHeadAtom_predicate a' _ (hla r' hr' a' ch' hh')] at hpe
    simp only [Asp.Atom.predicate, Pred.mk.injEq] at hpe
    exact (tauHeadAtom_eq (hla r hr a ch hh) (hla r' hr' a' ch' hh')).mpr hpe
  obtain ⟨Γ', hΓ', hmem⟩ := completion_formulas (tauStar P) ins _ _ hcomp hkeys
  rw [hΓ] at hΓ'
  injection hΓ' with hΓ'
  subst hΓ'
  intro F hF
  rcases (hmem F).mp hF with ⟨c, hc, rfl⟩ | ⟨e, _, _, rfl⟩ | ⟨p, _, _, _, rfl⟩
  · left
    obtain hc' := (hcons c).mp hc
    obtain ⟨r, hr, hcr⟩ := List.mem_map.mp hc'
    unfold ruleComponent at hcr
    split at hcr
    · injection hcr with hcr
      subst hcr
      exact ⟨tauBody r.body, pos_tauBody r.body, rfl⟩
    · cases hcr
    · cases hcr
  · exact Or.inr ⟨_, _, rfl⟩
  · exact Or.inr ⟨_, _, rfl⟩

/-- simplification does not change the head predicate of a formula of the completion -/
theorem headPredicate_simplify_completion (P : Program) (ins : List Pred) (hp : globalsPanic P = false) (Γ : Theory)
    (hΓ : completion (tauStar P) ins = some Γ) (F : Formula) (hF : F ∈ Γ) (fuel : Nat) :
    headPredicate (simplifyWith .classic .fixpoint fuel F).1 = headPredicate F := by
  rcases completion_shapes P ins hp Γ hΓ F hF with ⟨X, hX, rfl⟩ | ⟨A, fs, rfl⟩
  · rw [headPredicate_pos _ (pos_simplify_constraint X hX fuel)]
    unfold Formula.universalClosure
    rw [headPredicate_quantify]
    rfl
  · rw [headPredicate_simplify_completeDefinition, headPredicate_completeDefinition]

/-! ### placeholders: `replace_placeholders` is a substitution for symbolic constants -/

theorem headPredicate_substSym (θ : String → GTerm) : ∀ F : Formula, headPredicate (F.substSym θ) = headPredicate F := by
  intro F
  induction F with
  | atomic a => rfl
  | not f _ => rfl
  | bin c l r _ _ =>
    cases c <;> try rfl
    cases l with
    | atomic a =>
      cases a with
      | atom a => simp [Formula.substSym, AtomicF.substSym, headPredicate, Atom.predicate]
      | _ => rfl
    | _ => rfl
  | quant q vs f ih =>
    cases q
    · simp only [Formula.substSym, headPredicate]; exact ih
    · rfl

theorem pos_substSym (θ : String → GTerm) : ∀ F : Formula, (F.substSym θ).pos = F.pos := by
  intro F
  induction F with
  | atomic a => rfl
  | not f ih => simp only [Formula.substSym, Formula.pos]; exact ih
  | bin c l r ihl ihr => simp only [Formula.substSym, Formula.pos, ihl, ihr]
  | quant q vs f ih => simp only [Formula.substSym, Formula.pos]; exact ih

theorem iffRoot_substSym (θ : String → GTerm) (A : Atom) (F : Formula) (h : IffRoot (.atomic (.atom A)) F) :
    IffRoot (.atomic (.atom ⟨A.pred, A.args.map (GTerm.substSym θ)⟩)) (F.substSym θ) := by
  rcases h with ⟨r, rfl⟩ | ⟨vs, r, rfl⟩
  · exact Or.inl ⟨_, rfl⟩
  · exact Or.inr ⟨_, _, rfl⟩

/-- the head predicate of a formula of the completion survives the placeholder substitution followed by
    simplification -/
theorem headPredicate_simplify_substSym_completion (P : Program) (ins : List Pred) (hp : globalsPanic P = false)
    (Γ : Theory) (hΓ : completion (tauStar P) ins = some Γ) (F : Formula) (hF : F ∈ Γ)
    {θ : String → GTerm} (hθ : ClosedSubst θ) (fuel : Nat) :
    headPredicate (simplifyWith .classic .fixpoint fuel (F.substSym θ)).1 = headPredicate F := by
  rcases completion_shapes P ins hp Γ hΓ F hF with ⟨X, hX, rfl⟩ | ⟨A, fs, rfl⟩
  · rw [universalClosure_substSym hθ]
    have : (Formula.bin .imp X .fls).substSym θ = Formula.bin .imp (X.substSym θ) .fls := rfl
    rw [this, headPredicate_pos _ (pos_simplify_constraint _ (by rw [pos_substSym]; exact hX) fuel)]
    unfold Formula.universalClosure
    rw [headPredicate_quantify]
    rfl
  · have hroot := iffRoot_substSym θ A _ (iffRoot_completeDefinition A fs)
    show headPredicate (applyFixpointFuel (compose Portfolio.classic.rewrites) fuel _).1 = _
    rw [headPredicate_iffRoot _ _ (applyFixpointFuel_iffRoot _ (keepsIff_compose _ keepsIff_classic) _ fuel _ hroot),
      headPredicate_completeDefinition]
    simp [Atom.predicate]

/-- the formulas `theory_translate` returns: those of the completion with the placeholders replaced, and
    the empty definitions of the missing output predicates, each simplified or not according to the task -/
theorem theoryTranslate_members (t : ExternalTask) (m : PlaceholderMap) (fuel : Nat) (p : Program) (th : Theory)
    (h : theoryTranslate t m fuel p = .ok th) :
    ∃ Γ, completion (tauStar p) t.userGuide.inputs = some Γ ∧ ∀ F' ∈ th,
      ∃ F ∈ Γ.map (Formula.substSym (phTheta m)) ++
          (missingOutputs t p).map (fun q => completeDefinition (atomFromPred q) []),
        F' = F ∨ F' = (simplifyWith .classic .fixpoint fuel F).1 := by
  unfold theoryTranslate at h
  split at h
  · cases h
  · rw [map_replacePlaceholders_eq] at h
    simp only at h
    rw [completion_substSym (phTheta_closed m)] at h
    cases hc : completion (tauStar p) t.userGuide.inputs with
    | none => simp [hc] at h
    | some Γ =>
      refine ⟨Γ, rfl, ?_⟩
      simp only [hc, Option.map_some] at h
      split at h
      · cases hs : simplifyTheory .classic fuel
            (Γ.map (Formula.substSym (phTheta m)) ++
              (missingOutputs t p).map fun q => completeDefinition (atomFromPred q) []) with
        | none => simp [hs] at h
        | some th' =>
          simp only [hs] at h
          injection h with h
          subst h
          intro F' hF'
          rw [simplifyTheory_some hs] at hF'
          obtain ⟨F, hF, rfl⟩ := List.mem_map.mp hF'
          exact ⟨F, hF, Or.inr rfl⟩
      · injection h with h
        subst h
        intro F' hF'
        exact ⟨F', hF', Or.inl rfl⟩

/-- **the assumptions of a translated program hold wherever its private definitions hold**: if an
    interpretation satisfies the reference form of the completed definition of every non-public predicate
    of the program (read with the placeholder values the interpretation gives), it satisfies every formula
    that `control_translate` marks as an assumption - whether or not the theory was simplified -/
theorem side_assumptions_hold (t : ExternalTask) (m : PlaceholderMap) (fuel : Nat) (p : Program) (th : Theory)
    (h : theoryTranslate t m fuel p = .ok th) (R : PredI) (fc : FcI) (ρ : Asg)
    (hdef : ∀ q ∈ p.preds, q ∉ t.userGuide.publicPreds →
      DefHolds (p.substSym (phNu m fc)) R fc q.symbol q.arity) :
    ∀ a ∈ controlTranslate t.userGuide.publicPreds th, a.role = .assumption → sat ⟨R, fc⟩ a.formula ρ := by
  obtain ⟨Γ, hΓ, hmem⟩ := theoryTranslate_members t m fuel p th h
  have hpP : globalsPanic p = false := (theoryTranslate_ok_ph t m fuel p th h).1
  -- the completion of the program with the placeholder values put in
  have hΓν : completion (tauStar (p.substSym (phNu m fc))) t.userGuide.inputs =
      some (Γ.map (Formula.substSym (thetaOf (phNu m fc)))) := by
    rw [tauStar_substSym, completion_substSym (thetaOf_closed _), hΓ]; rfl
  intro a0 ha0 hrole
  unfold controlTranslate at ha0
  rcases controlTranslate_roles t.userGuide.publicPreds th ([], 0) a0 ha0 with hnil | ⟨hmemth, hroleinfo⟩
  · cases hnil
  obtain ⟨q, hq, hnq⟩ := hroleinfo hrole
  obtain ⟨F, hF, hFF⟩ := hmem _ hmemth
  rcases List.mem_append.mp hF with hin | hin
  · -- a formula of the completion, placeholders replaced
    obtain ⟨F0, hF0, rfl⟩ := List.mem_map.mp hin
    have hq' : headPredicate F0 = some q := by
      rcases hFF with e | e
      · rw [← headPredicate_substSym (phTheta m), ← e]; exact hq
      · rw [← headPredicate_simplify_substSym_completion p _ hpP Γ hΓ F0 hF0 (phTheta_closed m) fuel, ← e]; exact hq
    have hsat : sat ⟨R, fc⟩ a0.formula ρ ↔ sat ⟨R, fc⟩ (F0.substSym (thetaOf (phNu m fc))) ρ := by
      have h1 : sat ⟨R, fc⟩ a0.formula ρ ↔ sat ⟨R, fc⟩ (F0.substSym (phTheta m)) ρ := by
        rcases hFF with e | e
        · rw [e]
        · rw [e]; exact C07.portfolio_sound_classic .fixpoint fuel _ ⟨R, fc⟩ ρ
      rw [h1]
      exact sat_substSym_congr ⟨R, fc⟩ _ _ (fun s ρ' => phTheta_eval m fc s ρ') F0 ρ
    rw [hsat, completion_defs_sem (p.substSym (phNu m fc)) t.userGuide.inputs
      (by rw [globalsPanic_substSym]; exact hpP) _ hΓν _ (List.mem_map.mpr ⟨F0, hF0, rfl⟩) q
      (by rw [headPredicate_substSym]; exact hq')]
    exact hdef q (completion_preds _ _ hpP Γ hΓ _ hF0 q (headPredicate_mem_preds _ q hq')) hnq
  · -- the empty definition of a missing output predicate has a public head
    exfalso
    obtain ⟨o, ho, hoF⟩ := List.mem_map.mp hin
    have hq' : q = o := by
      have : headPredicate a0.formula = some o := by
        rcases hFF with e | e
        · rw [e, ← hoF, headPredicate_completeDefinition, atomFromPred_predicate]
        · rw [e, ← hoF, headPredicate_simplify_completeDefinition, atomFromPred_predicate]
      rw [hq] at this
      injection this
    subst hq'
    unfold missingOutputs at ho
    simp only [List.mem_filter, decide_eq_true_eq] at ho
    exact hnq (mem_ext.mpr (Or.inr ho.1))

/-! ## the program-level statement -/

theorem restrictTo_congr (sig : List Pred) (T1 T2 : PredI)
    (h : ∀ (q : String) (ds : List Dom), (⟨q, ds.length⟩ : Pred) ∈ sig → (T1 q ds ↔ T2 q ds)) :
    restrictTo sig T1 = restrictTo sig T2 := by
  funext q ds
  unfold restrictTo
  exact propext ⟨fun ⟨a, b⟩ => ⟨(h q ds b).mp a, b⟩, fun ⟨a, b⟩ => ⟨(h q ds b).mpr a, b⟩⟩

theorem precheck_disjoint (t : ExternalTask) (h : precheck t = none) :
    ∀ q ∈ t.userGuide.inputs, q ∉ t.userGuide.outputs := by
  unfold precheck at h
  simp only at h
  split at h
  · cases h
  · split at h
    · cases h
    · rename_i hov
      intro q hq ho
      apply hov
      simp only [List.any_eq_true, decide_eq_true_eq]
      exact ⟨q, hq, ho⟩

theorem specPrivate_programs (t : ExternalTask) (PL : Program) (hspec : t.specification = .inl PL) :
    t.specPrivate = PL.preds.filter (· ∉ t.userGuide.publicPreds) := by
  unfold ExternalTask.specPrivate
  rw [hspec]

/-- what makes an interpretation a difference witness for a program-vs-program task (the right-hand
    side of `external_refutes_programs_ph`) -/
def WitnessPrograms (t : ExternalTask) (PL : Program) (ΓL ΓR : Theory) (J : Interp) (ρ : Asg) : Prop :=
  (∀ a ∈ t.userGuide.formulas, a.role = .assumption → sat J (a.formula.replacePlaceholders t.phMap) ρ) ∧
  (((t.direction = .universal ∨ t.direction = .forward) ∧
      (Stable (PL.substSym (phNu t.phMap J.fc)) t.userGuide.inputs
        (restrictTo (ext PL.preds t.userGuide.inputs) J.pred) J.fc ∧ OutputsEmpty t PL J.pred) ∧
      (∀ a ∈ rightSide t ΓR, a.role = .assumption → sat J a.formula ρ) ∧
      ¬ (Stable (t.program.substSym (phNu t.phMap J.fc)) t.userGuide.inputs
        (restrictTo (ext t.program.preds t.userGuide.inputs)
          (renamedInterp t.clashMap J.pred)) J.fc ∧
        OutputsEmpty t t.program (renamedInterp t.clashMap J.pred))) ∨
   ((t.direction = .universal ∨ t.direction = .backward) ∧
      (Stable (t.program.substSym (phNu t.phMap J.fc)) t.userGuide.inputs
        (restrictTo (ext t.program.preds t.userGuide.inputs)
          (renamedInterp t.clashMap J.pred)) J.fc ∧
        OutputsEmpty t t.program (renamedInterp t.clashMap J.pred)) ∧
      (∀ a ∈ leftSide t ΓL, a.role = .assumption → sat J a.formula ρ) ∧
      ¬ (Stable (PL.substSym (phNu t.phMap J.fc)) t.userGuide.inputs
        (restrictTo (ext PL.preds t.userGuide.inputs) J.pred) J.fc ∧ OutputsEmpty t PL J.pred)))

/-- the same for a specification-vs-program task (the right-hand side of `external_refutes_spec_ph`) -/
def WitnessSpec (t : ExternalTask) (S : Specification) (ΓR : Theory) (J : Interp) (ρ : Asg) : Prop :=
  (∀ a ∈ t.userGuide.formulas, a.role = .assumption → sat J (a.formula.replacePlaceholders t.phMap) ρ) ∧
  (∀ a ∈ S, lStable a = true → sat J (a.formula.replacePlaceholders t.phMap) ρ) ∧
  (∀ a ∈ rightSide t ΓR, a.role = .assumption → sat J a.formula ρ) ∧
  (((t.direction = .universal ∨ t.direction = .forward) ∧
      (∀ a ∈ S, lFwdPrem a = true → sat J (a.formula.replacePlaceholders t.phMap) ρ) ∧
      ¬ (Stable (t.program.substSym (phNu t.phMap J.fc)) t.userGuide.inputs
        (restrictTo (ext t.program.preds t.userGuide.inputs)
          (renamedInterp t.clashMap J.pred)) J.fc ∧
        OutputsEmpty t t.program (renamedInterp t.clashMap J.pred))) ∨
   ((t.direction = .universal ∨ t.direction = .backward) ∧
      (Stable (t.program.substSym (phNu t.phMap J.fc)) t.userGuide.inputs
        (restrictTo (ext t.program.preds t.userGuide.inputs)
          (renamedInterp t.clashMap J.pred)) J.fc ∧
        OutputsEmpty t t.program (renamedInterp t.clashMap J.pred)) ∧
      ∃ a ∈ S, lBwdConc a = true ∧ ¬ sat J (a.formula.replacePlaceholders t.phMap) ρ))

/-- **C02 at the level of the programs, forward direction** (program against program, no
    placeholders, no proof outline, tightness not bypassed; any simplification, decomposition and
    eq-break setting). If no interpretation refutes an emitted problem - in particular if every
    emitted problem is a theorem - then every stable model `TL` of the specification program, for
    input facts and constants that satisfy the user-guide assumptions, has the same public part as
    some stable model of the program. -/
theorem external_forward_sound_programs_core (t : ExternalTask) (PL : Program)
    (hspec : t.specification = .inl PL) (hbyp : t.bypassTightness = false) (hpre : precheck t = none)
    (fuel : Nat) (ΓL ΓR : Theory) (hL : theoryTranslate t t.phMap fuel PL = .ok ΓL)
    (hR : theoryTranslate t t.phMap fuel t.program = .ok ΓR)
    (hdir : t.direction = .universal ∨ t.direction = .forward)
    (hsound : ∀ (J : Interp) (ρ : Asg), ¬ WitnessPrograms t PL ΓL ΓR J ρ) :
    ∀ (TL : PredI) (fc : FcI) (ρ : Asg),
      (∀ a ∈ t.userGuide.formulas, a.role = .assumption → sat ⟨TL, fc⟩ (a.formula.replacePlaceholders t.phMap) ρ) →
      Stable (PL.substSym (phNu t.phMap fc)) t.userGuide.inputs TL fc →
      ∃ TR : PredI, Stable (t.program.substSym (phNu t.phMap fc)) t.userGuide.inputs TR fc ∧
        ∀ (q : String) (ds : List Dom), (⟨q, ds.length⟩ : Pred) ∈ t.userGuide.publicPreds → (TR q ds ↔ TL q ds) := by
  obtain ⟨hperrR, hperrL⟩ := precheck_programs t PL hspec hpre
  obtain ⟨_, hrecR, hinsR⟩ := C11.programError_none hperrR
  have hdisj := precheck_disjoint t hpre
  intro TL fc ρ hug hstL
  -- vocabulary facts
  have hinpub : ∀ q ∈ t.userGuide.inputs, q ∈ t.userGuide.publicPreds := fun q hq => mem_ext.mpr (Or.inl hq)
  have houtpub : ∀ q ∈ t.userGuide.outputs, q ∈ t.userGuide.publicPreds := fun q hq => mem_ext.mpr (Or.inr hq)
  have hvocL : ∀ q ∈ ext PL.preds t.userGuide.inputs, q ∈ ext t.userGuide.publicPreds t.specPrivate := by
    intro q hq
    rcases mem_ext.mp hq with hq | hq
    · by_cases hp : q ∈ t.userGuide.publicPreds
      · exact mem_ext.mpr (Or.inl hp)
      · refine mem_ext.mpr (Or.inr ?_)
        rw [specPrivate_programs t PL hspec]
        exact List.mem_filter.mpr ⟨hq, by simpa using hp⟩
    · exact mem_ext.mpr (Or.inl (hinpub q hq))
  have hvocR : ∀ q ∈ ext t.program.preds t.userGuide.inputs, q ∈ ext t.userGuide.publicPreds t.progPrivate := by
    intro q hq
    rcases mem_ext.mp hq with hq | hq
    · by_cases hp : q ∈ t.userGuide.publicPreds
      · exact mem_ext.mpr (Or.inl hp)
      · refine mem_ext.mpr (Or.inr ?_)
        unfold ExternalTask.progPrivate
        exact List.mem_filter.mpr ⟨hq, by simpa using hp⟩
    · exact mem_ext.mpr (Or.inl (hinpub q hq))
  have hpubpriv : ∀ q, q ∈ t.userGuide.publicPreds → q ∉ t.progPrivate := by
    intro q hq hp
    unfold ExternalTask.progPrivate at hp
    simp only [List.mem_filter, decide_eq_true_eq] at hp
    exact hp.2 hq
  -- private extents of the program for the public part of `TL`, and one interpretation for both
  obtain ⟨TR0, hTR0agree, hTR0def⟩ := private_extents_exist (t.program.substSym (phNu t.phMap fc)) t.progPrivate
    (by rw [hasPrivateRecursion_substSym]; exact hrecR) TL fc
  obtain ⟨T, hTL, hTR⟩ := joint_reading t TL TR0 (fun q a hq => (hTR0agree q a (hpubpriv _ hq)).symm)
  -- (i) the user-guide assumptions
  have hugT : ∀ a ∈ t.userGuide.formulas, a.role = .assumption → sat ⟨T, fc⟩ (a.formula.replacePlaceholders t.phMap) ρ := by
    intro a ha hrole
    refine (sat_congr_preds fc T TL _ ρ ?_).mpr (hug a ha hrole)
    intro q hq ds hds
    have hqi : q ∈ t.userGuide.inputs := by
      have hmem : a.replacePlaceholders t.phMap ∈ t.ugAss := by
        unfold ExternalTask.ugAss
        exact List.mem_map.mpr ⟨a, List.mem_filter.mpr ⟨ha, by simpa using hrole⟩, rfl⟩
      exact Outline.ugAss_preds t hpre _ hmem q hq
    have : (⟨q.symbol, ds.length⟩ : Pred) = q := by rw [hds]
    exact hTL q.symbol ds (by rw [this]; exact mem_ext.mpr (Or.inl (hinpub q hqi)))
  -- (ii) the specification program produces `T`
  have hsigL : ∀ q ds, TL q ds → (⟨q, ds.length⟩ : Pred) ∈ ext PL.preds t.userGuide.inputs := by
    have := stable_sig _ t.userGuide.inputs TL fc hstL
    rwa [Program.preds_substSym] at this
  have hrestrL : restrictTo (ext PL.preds t.userGuide.inputs) T = TL := by
    rw [restrictTo_congr _ T TL fun q ds hq => hTL q ds (hvocL _ hq)]
    funext q ds
    unfold restrictTo
    exact propext ⟨fun hh => hh.1, fun hh => ⟨hh, hsigL q ds hh⟩⟩
  have hoeL : OutputsEmpty t PL T := by
    intro q hq ds hds hT
    unfold missingOutputs at hq
    simp only [List.mem_filter, decide_eq_true_eq] at hq
    have hq' : (⟨q.symbol, ds.length⟩ : Pred) = q := by rw [hds]
    have hTLq : TL q.symbol ds := (hTL q.symbol ds (by rw [hq']; exact mem_ext.mpr (Or.inl (houtpub q hq.1)))).mp hT
    have := hsigL q.symbol ds hTLq
    rw [hq'] at this
    rcases mem_ext.mp this with h1 | h1
    · exact hq.2 h1
    · exact hdisj q h1 hq.1
  -- (iv) the private definitions of the program hold
  have hdefR : ∀ q ∈ t.program.preds, q ∉ t.userGuide.publicPreds →
      DefHolds (t.program.substSym (phNu t.phMap fc)) (renamedInterp t.clashMap T) fc q.symbol q.arity := by
    intro q hqP hnq
    have hpriv : q ∈ t.progPrivate := by
      unfold ExternalTask.progPrivate
      exact List.mem_filter.mpr ⟨hqP, by simpa using hnq⟩
    refine (defHolds_congr _ _ TR0 fc q (by rw [Program.preds_substSym]; exact hqP) ?_).mpr (hTR0def q hpriv)
    intro b hb ds hds
    rw [Program.preds_substSym] at hb
    have hb' : (⟨b.symbol, ds.length⟩ : Pred) = b := by rw [hds]
    exact hTR b.symbol ds (by rw [hb']; exact hvocR b (mem_ext.mpr (Or.inl hb)))
  have hright : ∀ a ∈ rightSide t ΓR, a.role = .assumption → sat ⟨T, fc⟩ a.formula ρ := by
    intro a ha hrole
    unfold rightSide at ha
    obtain ⟨a0, ha0, rfl⟩ := List.mem_map.mp ha
    simp only at hrole ⊢
    rw [sat_renamePreds]
    exact side_assumptions_hold t t.phMap fuel t.program ΓR hR _ fc ρ hdefR a0 ha0 hrole
  -- (v) not refuted, hence produced by the program
  have hnot := hsound ⟨T, fc⟩ ρ
  unfold WitnessPrograms at hnot
  by_cases hPR : Stable (t.program.substSym (phNu t.phMap fc)) t.userGuide.inputs
      (restrictTo (ext t.program.preds t.userGuide.inputs) (renamedInterp t.clashMap T)) fc ∧
      OutputsEmpty t t.program (renamedInterp t.clashMap T)
  · refine ⟨_, hPR.1, ?_⟩
    intro q ds hq
    have hnpriv := hpubpriv _ hq
    by_cases hin : (⟨q, ds.length⟩ : Pred) ∈ ext t.program.preds t.userGuide.inputs
    · unfold restrictTo
      rw [and_iff_left hin, hTR q ds (mem_ext.mpr (Or.inl hq))]
      exact hTR0agree q ds hnpriv
    · unfold restrictTo
      constructor
      · intro hh; exact absurd hh.2 hin
      · intro hTLq
        exfalso
        have hout : (⟨q, ds.length⟩ : Pred) ∈ t.userGuide.outputs := by
          rcases mem_ext.mp hq with h1 | h1
          · exact absurd (mem_ext.mpr (Or.inr h1)) hin
          · exact h1
        have hmiss : (⟨q, ds.length⟩ : Pred) ∈ missingOutputs t t.program := by
          unfold missingOutputs
          exact List.mem_filter.mpr ⟨hout, by simpa using fun hp => hin (mem_ext.mpr (Or.inl hp))⟩
        apply hPR.2 _ hmiss ds rfl
        exact (hTR q ds (mem_ext.mpr (Or.inl hq))).mpr ((hTR0agree q ds hnpriv).mpr hTLq)
  · exfalso
    apply hnot
    refine ⟨hugT, Or.inl ⟨hdir, ⟨?_, hoeL⟩, hright, hPR⟩⟩
    rw [hrestrL]
    exact hstL


/-- **C02 at the level of the programs, backward direction**: under the same conditions, if no
    interpretation refutes an emitted problem then every stable model `TR` of the program, for input
    facts and constants that satisfy the user-guide assumptions, has the same public part as some
    stable model of the specification program. -/
theorem external_backward_sound_programs_core (t : ExternalTask) (PL : Program)
    (hspec : t.specification = .inl PL) (hbyp : t.bypassTightness = false) (hpre : precheck t = none)
    (fuel : Nat) (ΓL ΓR : Theory) (hL : theoryTranslate t t.phMap fuel PL = .ok ΓL)
    (hR : theoryTranslate t t.phMap fuel t.program = .ok ΓR)
    (hdir : t.direction = .universal ∨ t.direction = .backward)
    (hsound : ∀ (J : Interp) (ρ : Asg), ¬ WitnessPrograms t PL ΓL ΓR J ρ) :
    ∀ (TR : PredI) (fc : FcI) (ρ : Asg),
      (∀ a ∈ t.userGuide.formulas, a.role = .assumption → sat ⟨TR, fc⟩ (a.formula.replacePlaceholders t.phMap) ρ) →
      Stable (t.program.substSym (phNu t.phMap fc)) t.userGuide.inputs TR fc →
      ∃ TL : PredI, Stable (PL.substSym (phNu t.phMap fc)) t.userGuide.inputs TL fc ∧
        ∀ (q : String) (ds : List Dom), (⟨q, ds.length⟩ : Pred) ∈ t.userGuide.publicPreds → (TL q ds ↔ TR q ds) := by
  obtain ⟨hperrR, hperrL⟩ := precheck_programs t PL hspec hpre
  obtain ⟨_, hrecL, hinsL⟩ := C11.programError_none hperrL
  have hdisj := precheck_disjoint t hpre
  intro TR fc ρ hug hstR
  have hinpub : ∀ q ∈ t.userGuide.inputs, q ∈ t.userGuide.publicPreds := fun q hq => mem_ext.mpr (Or.inl hq)
  have houtpub : ∀ q ∈ t.userGuide.outputs, q ∈ t.userGuide.publicPreds := fun q hq => mem_ext.mpr (Or.inr hq)
  have hvocL : ∀ q ∈ ext PL.preds t.userGuide.inputs, q ∈ ext t.userGuide.publicPreds t.specPrivate := by
    intro q hq
    rcases mem_ext.mp hq with hq | hq
    · by_cases hp : q ∈ t.userGuide.publicPreds
      · exact mem_ext.mpr (Or.inl hp)
      · refine mem_ext.mpr (Or.inr ?_)
        rw [specPrivate_programs t PL hspec]
        exact List.mem_filter.mpr ⟨hq, by simpa using hp⟩
    · exact mem_ext.mpr (Or.inl (hinpub q hq))
  have hvocR : ∀ q ∈ ext t.program.preds t.userGuide.inputs, q ∈ ext t.userGuide.publicPreds t.progPrivate := by
    intro q hq
    rcases mem_ext.mp hq with hq | hq
    · by_cases hp : q ∈ t.userGuide.publicPreds
      · exact mem_ext.mpr (Or.inl hp)
      · refine mem_ext.mpr (Or.inr ?_)
        unfold ExternalTask.progPrivate
        exact List.mem_filter.mpr ⟨hq, by simpa using hp⟩
    · exact mem_ext.mpr (Or.inl (hinpub q hq))
  have hpubpriv : ∀ q, q ∈ t.userGuide.publicPreds → q ∉ t.specPrivate := by
    intro q hq hp
    rw [specPrivate_programs t PL hspec] at hp
    simp only [List.mem_filter, decide_eq_true_eq] at hp
    exact hp.2 hq
  -- private extents of the specification program for the public part of `TR`
  obtain ⟨TL0, hTL0agree, hTL0def⟩ := private_extents_exist (PL.substSym (phNu t.phMap fc)) t.specPrivate
    (by rw [hasPrivateRecursion_substSym]; exact hrecL) TR fc
  obtain ⟨T, hTL, hTR⟩ := joint_reading t TL0 TR (fun q a hq => hTL0agree q a (hpubpriv _ hq))
  have hTpub : ∀ (q : String) (ds : List Dom), (⟨q, ds.length⟩ : Pred) ∈ t.userGuide.publicPreds → (T q ds ↔ TR q ds) := by
    intro q ds hq
    rw [hTL q ds (mem_ext.mpr (Or.inl hq))]
    exact hTL0agree q ds (hpubpriv _ hq)
  -- (i) the user-guide assumptions
  have hugT : ∀ a ∈ t.userGuide.formulas, a.role = .assumption → sat ⟨T, fc⟩ (a.formula.replacePlaceholders t.phMap) ρ := by
    intro a ha hrole
    refine (sat_congr_preds fc T TR _ ρ ?_).mpr (hug a ha hrole)
    intro q hq ds hds
    have hqi : q ∈ t.userGuide.inputs := by
      have hmem : a.replacePlaceholders t.phMap ∈ t.ugAss := by
        unfold ExternalTask.ugAss
        exact List.mem_map.mpr ⟨a, List.mem_filter.mpr ⟨ha, by simpa using hrole⟩, rfl⟩
      exact Outline.ugAss_preds t hpre _ hmem q hq
    have : (⟨q.symbol, ds.length⟩ : Pred) = q := by rw [hds]
    exact hTpub q.symbol ds (by rw [this]; exact hinpub q hqi)
  -- (ii) the program produces `T` (read through the renaming)
  have hsigR : ∀ q ds, TR q ds → (⟨q, ds.length⟩ : Pred) ∈ ext t.program.preds t.userGuide.inputs := by
    have := stable_sig _ t.userGuide.inputs TR fc hstR
    rwa [Program.preds_substSym] at this
  have hrestrR : restrictTo (ext t.program.preds t.userGuide.inputs) (renamedInterp t.clashMap T) = TR := by
    rw [restrictTo_congr _ (renamedInterp t.clashMap T) TR fun q ds hq => hTR q ds (hvocR _ hq)]
    funext q ds
    unfold restrictTo
    exact propext ⟨fun hh => hh.1, fun hh => ⟨hh, hsigR q ds hh⟩⟩
  have hoeR : OutputsEmpty t t.program (renamedInterp t.clashMap T) := by
    intro q hq ds hds hT
    unfold missingOutputs at hq
    simp only [List.mem_filter, decide_eq_true_eq] at hq
    have hq' : (⟨q.symbol, ds.length⟩ : Pred) = q := by rw [hds]
    have hTRq : TR q.symbol ds :=
      (hTR q.symbol ds (by rw [hq']; exact mem_ext.mpr (Or.inl (houtpub q hq.1)))).mp hT
    have := hsigR q.symbol ds hTRq
    rw [hq'] at this
    rcases mem_ext.mp this with h1 | h1
    · exact hq.2 h1
    · exact hdisj q h1 hq.1
  -- (iv) the private definitions of the specification program hold
  have hdefL : ∀ q ∈ PL.preds, q ∉ t.userGuide.publicPreds →
      DefHolds (PL.substSym (phNu t.phMap fc)) T fc q.symbol q.arity := by
    intro q hqP hnq
    have hpriv : q ∈ t.specPrivate := by
      rw [specPrivate_programs t PL hspec]
      exact List.mem_filter.mpr ⟨hqP, by simpa using hnq⟩
    refine (defHolds_congr _ _ TL0 fc q (by rw [Program.preds_substSym]; exact hqP) ?_).mpr (hTL0def q hpriv)
    intro b hb ds hds
    rw [Program.preds_substSym] at hb
    have hb' : (⟨b.symbol, ds.length⟩ : Pred) = b := by rw [hds]
    exact hTL b.symbol ds (by rw [hb']; exact hvocL b (mem_ext.mpr (Or.inl hb)))
  have hleft : ∀ a ∈ leftSide t ΓL, a.role = .assumption → sat ⟨T, fc⟩ a.formula ρ := by
    intro a0 ha0 hrole
    unfold leftSide at ha0
    exact side_assumptions_hold t t.phMap fuel PL ΓL hL _ fc ρ hdefL a0 ha0 hrole
  -- (v) not refuted, hence produced by the specification program
  have hnot := hsound ⟨T, fc⟩ ρ
  unfold WitnessPrograms at hnot
  by_cases hPL : Stable (PL.substSym (phNu t.phMap fc)) t.userGuide.inputs (restrictTo (ext PL.preds t.userGuide.inputs) T) fc ∧
      OutputsEmpty t PL T
  · refine ⟨_, hPL.1, ?_⟩
    intro q ds hq
    by_cases hin : (⟨q, ds.length⟩ : Pred) ∈ ext PL.preds t.userGuide.inputs
    · unfold restrictTo
      rw [and_iff_left hin]
      exact hTpub q ds hq
    · unfold restrictTo
      constructor
      · intro hh; exact absurd hh.2 hin
      · intro hTRq
        exfalso
        have hout : (⟨q, ds.length⟩ : Pred) ∈ t.userGuide.outputs := by
          rcases mem_ext.mp hq with h1 | h1
          · exact absurd (mem_ext.mpr (Or.inr h1)) hin
          · exact h1
        have hmiss : (⟨q, ds.length⟩ : Pred) ∈ missingOutputs t PL := by
          unfold missingOutputs
          exact List.mem_filter.mpr ⟨hout, by simpa using fun hp => hin (mem_ext.mpr (Or.inl hp))⟩
        apply hPL.2 _ hmiss ds rfl
        exact (hTpub q ds hq).mpr hTRq
  · exfalso
    apply hnot
    refine ⟨hugT, Or.inr ⟨hdir, ⟨?_, hoeR⟩, hleft, hPL⟩⟩
    rw [hrestrR]
    exact hstR

/-! ## specification against program -/

theorem specPrivate_spec (t : ExternalTask) (S : Specification) (hspec : t.specification = .inr S) :
    t.specPrivate = (specPreds S).filter (· ∉ t.userGuide.publicPreds) := by
  unfold ExternalTask.specPrivate
  rw [hspec]

theorem spec_vocabulary (t : ExternalTask) (S : Specification) (hspec : t.specification = .inr S) :
    ∀ a ∈ S, ∀ q ∈ a.formula.preds, q ∈ ext t.userGuide.publicPreds t.specPrivate := by
  intro a ha q hq
  by_cases hp : q ∈ t.userGuide.publicPreds
  · exact mem_ext.mpr (Or.inl hp)
  · refine mem_ext.mpr (Or.inr ?_)
    rw [specPrivate_spec t S hspec]
    refine List.mem_filter.mpr ⟨?_, by simpa using hp⟩
    unfold specPreds
    exact (mem_foldl_ext (fun a : SAnn => a.preds) S [] q).mpr (Or.inr ⟨a, ha, hq⟩)

/-- **C02 at the level of specification and program, backward direction** (no placeholders, no proof
    outline, tightness not bypassed; simplification, decomposition and eq-break arbitrary). If no
    interpretation refutes an emitted problem, then every stable model `TR` of the program, together with
    any extents `TL` for the specification's vocabulary that agree with it on the public predicates and
    satisfy the user-guide assumptions and the specification's universal assumptions, satisfies every
    universal or backward `spec` formula of the specification. -/
theorem external_backward_sound_specification_core (t : ExternalTask) (S : Specification)
    (hspec : t.specification = .inr S) (hbyp : t.bypassTightness = false) (hpre : precheck t = none)
    (fuel : Nat) (ΓR : Theory) (hR : theoryTranslate t t.phMap fuel t.program = .ok ΓR)
    (hdir : t.direction = .universal ∨ t.direction = .backward)
    (hsound : ∀ (J : Interp) (ρ : Asg), ¬ WitnessSpec t S ΓR J ρ) :
    ∀ (TL TR : PredI) (fc : FcI) (ρ : Asg),
      (∀ (q : String) (ds : List Dom), (⟨q, ds.length⟩ : Pred) ∈ t.userGuide.publicPreds → (TL q ds ↔ TR q ds)) →
      Stable (t.program.substSym (phNu t.phMap fc)) t.userGuide.inputs TR fc →
      (∀ a ∈ t.userGuide.formulas, a.role = .assumption → sat ⟨TL, fc⟩ (a.formula.replacePlaceholders t.phMap) ρ) →
      (∀ a ∈ S, lStable a = true → sat ⟨TL, fc⟩ (a.formula.replacePlaceholders t.phMap) ρ) →
      ∀ a ∈ S, lBwdConc a = true → sat ⟨TL, fc⟩ (a.formula.replacePlaceholders t.phMap) ρ := by
  have hdisj := precheck_disjoint t hpre
  intro TL TR fc ρ hagree hstR hug hstab a0 ha0 hconc
  have hinpub : ∀ q ∈ t.userGuide.inputs, q ∈ t.userGuide.publicPreds := fun q hq => mem_ext.mpr (Or.inl hq)
  have houtpub : ∀ q ∈ t.userGuide.outputs, q ∈ t.userGuide.publicPreds := fun q hq => mem_ext.mpr (Or.inr hq)
  have hvocR : ∀ q ∈ ext t.program.preds t.userGuide.inputs, q ∈ ext t.userGuide.publicPreds t.progPrivate := by
    intro q hq
    rcases mem_ext.mp hq with hq | hq
    · by_cases hp : q ∈ t.userGuide.publicPreds
      · exact mem_ext.mpr (Or.inl hp)
      · refine mem_ext.mpr (Or.inr ?_)
        unfold ExternalTask.progPrivate
        exact List.mem_filter.mpr ⟨hq, by simpa using hp⟩
    · exact mem_ext.mpr (Or.inl (hinpub q hq))
  obtain ⟨T, hTL, hTR⟩ := joint_reading t TL TR hagree
  have hSsat : ∀ a ∈ S, (sat ⟨T, fc⟩ (a.formula.replacePlaceholders t.phMap) ρ ↔
      sat ⟨TL, fc⟩ (a.formula.replacePlaceholders t.phMap) ρ) := by
    intro a ha
    refine sat_congr_preds fc T TL _ ρ ?_
    intro q hq ds hds
    simp only [Formula.replacePlaceholders_eq, Formula.preds_substSym] at hq
    have : (⟨q.symbol, ds.length⟩ : Pred) = q := by rw [hds]
    exact hTL q.symbol ds (by rw [this]; exact spec_vocabulary t S hspec a ha q hq)
  have hugT : ∀ a ∈ t.userGuide.formulas, a.role = .assumption → sat ⟨T, fc⟩ (a.formula.replacePlaceholders t.phMap) ρ := by
    intro a ha hrole
    refine (sat_congr_preds fc T TL _ ρ ?_).mpr (hug a ha hrole)
    intro q hq ds hds
    have hqi : q ∈ t.userGuide.inputs := by
      have hmem : a.replacePlaceholders t.phMap ∈ t.ugAss := by
        unfold ExternalTask.ugAss
        exact List.mem_map.mpr ⟨a, List.mem_filter.mpr ⟨ha, by simpa using hrole⟩, rfl⟩
      exact Outline.ugAss_preds t hpre _ hmem q hq
    have : (⟨q.symbol, ds.length⟩ : Pred) = q := by rw [hds]
    exact hTL q.symbol ds (by rw [this]; exact mem_ext.mpr (Or.inl (hinpub q hqi)))
  -- the program produces `T` (read through the renaming)
  have hsigR : ∀ q ds, TR q ds → (⟨q, ds.length⟩ : Pred) ∈ ext t.program.preds t.userGuide.inputs := by
    have := stable_sig _ t.userGuide.inputs TR fc hstR
    rwa [Program.preds_substSym] at this
  have hrestrR : restrictTo (ext t.program.preds t.userGuide.inputs) (renamedInterp t.clashMap T) = TR := by
    rw [restrictTo_congr _ (renamedInterp t.clashMap T) TR fun q ds hq => hTR q ds (hvocR _ hq)]
    funext q ds
    unfold restrictTo
    exact propext ⟨fun hh => hh.1, fun hh => ⟨hh, hsigR q ds hh⟩⟩
  have hoeR : OutputsEmpty t t.program (renamedInterp t.clashMap T) := by
    intro q hq ds hds hT
    unfold missingOutputs at hq
    simp only [List.mem_filter, decide_eq_true_eq] at hq
    have hq' : (⟨q.symbol, ds.length⟩ : Pred) = q := by rw [hds]
    have hTRq : TR q.symbol ds :=
      (hTR q.symbol ds (by rw [hq']; exact mem_ext.mpr (Or.inl (houtpub q hq.1)))).mp hT
    have := hsigR q.symbol ds hTRq
    rw [hq'] at this
    rcases mem_ext.mp this with h1 | h1
    · exact hq.2 h1
    · exact hdisj q h1 hq.1
  have hPR : Stable (t.program.substSym (phNu t.phMap fc)) t.userGuide.inputs
      (restrictTo (ext t.program.preds t.userGuide.inputs) (renamedInterp t.clashMap T)) fc ∧
      OutputsEmpty t t.program (renamedInterp t.clashMap T) := ⟨by rw [hrestrR]; exact hstR, hoeR⟩
  -- every formula of the program side holds, in particular its assumptions
  have hall := (rightSide_stable_ph t hbyp hpre fuel ΓR hR ⟨T, fc⟩ ρ).mpr hPR
  have hnot := hsound ⟨T, fc⟩ ρ
  unfold WitnessSpec at hnot
  refine (hSsat a0 ha0).mp ?_
  refine Classical.byContradiction fun hns => hnot ?_
  refine ⟨hugT, fun a ha hs => (hSsat a ha).mpr (hstab a ha hs), fun a ha _ => hall a ha,
    Or.inr ⟨hdir, hPR, a0, ha0, hconc, hns⟩⟩

/-- **C02 at the level of specification and program, forward direction** (no placeholders, no proof
    outline, tightness not bypassed; simplification on or off). If no interpretation refutes an emitted problem,
    then for every family of extents `TL` (of the input, output and specification-private predicates) that
    satisfies the user-guide assumptions, the specification's assumptions and its universal or forward
    `spec` formulas, the program has a stable model with the same public part. -/
theorem external_forward_sound_specification_core (t : ExternalTask) (S : Specification)
    (hspec : t.specification = .inr S) (hbyp : t.bypassTightness = false) (hpre : precheck t = none)
    (fuel : Nat) (ΓR : Theory) (hR : theoryTranslate t t.phMap fuel t.program = .ok ΓR)
    (hdir : t.direction = .universal ∨ t.direction = .forward)
    (hsound : ∀ (J : Interp) (ρ : Asg), ¬ WitnessSpec t S ΓR J ρ) :
    ∀ (TL : PredI) (fc : FcI) (ρ : Asg),
      (∀ a ∈ t.userGuide.formulas, a.role = .assumption → sat ⟨TL, fc⟩ (a.formula.replacePlaceholders t.phMap) ρ) →
      (∀ a ∈ S, lStable a = true → sat ⟨TL, fc⟩ (a.formula.replacePlaceholders t.phMap) ρ) →
      (∀ a ∈ S, lFwdPrem a = true → sat ⟨TL, fc⟩ (a.formula.replacePlaceholders t.phMap) ρ) →
      ∃ TR : PredI, Stable (t.program.substSym (phNu t.phMap fc)) t.userGuide.inputs TR fc ∧
        ∀ (q : String) (ds : List Dom), (⟨q, ds.length⟩ : Pred) ∈ t.userGuide.publicPreds → (TR q ds ↔ TL q ds) := by
  have hperrR : programError t t.program t.progPrivate = none := by
    cases hP : programError t t.program t.progPrivate with
    | none => rfl
    | some e =>
      exfalso
      have hpre' := hpre
      unfold precheck at hpre'
      simp only [hP] at hpre'
      split at hpre'
      · cases hpre'
      · split at hpre' <;> cases hpre'
  obtain ⟨_, hrecR, hinsR⟩ := C11.programError_none hperrR
  intro TL fc ρ hug hstab hprem
  have hinpub : ∀ q ∈ t.userGuide.inputs, q ∈ t.userGuide.publicPreds := fun q hq => mem_ext.mpr (Or.inl hq)
  have houtpub : ∀ q ∈ t.userGuide.outputs, q ∈ t.userGuide.publicPreds := fun q hq => mem_ext.mpr (Or.inr hq)
  have hvocR : ∀ q ∈ ext t.program.preds t.userGuide.inputs, q ∈ ext t.userGuide.publicPreds t.progPrivate := by
    intro q hq
    rcases mem_ext.mp hq with hq | hq
    · by_cases hp : q ∈ t.userGuide.publicPreds
      · exact mem_ext.mpr (Or.inl hp)
      · refine mem_ext.mpr (Or.inr ?_)
        unfold ExternalTask.progPrivate
        exact List.mem_filter.mpr ⟨hq, by simpa using hp⟩
    · exact mem_ext.mpr (Or.inl (hinpub q hq))
  have hpubpriv : ∀ q, q ∈ t.userGuide.publicPreds → q ∉ t.progPrivate := by
    intro q hq hp
    unfold ExternalTask.progPrivate at hp
    simp only [List.mem_filter, decide_eq_true_eq] at hp
    exact hp.2 hq
  obtain ⟨TR0, hTR0agree, hTR0def⟩ := private_extents_exist (t.program.substSym (phNu t.phMap fc)) t.progPrivate
    (by rw [hasPrivateRecursion_substSym]; exact hrecR) TL fc
  obtain ⟨T, hTL, hTR⟩ := joint_reading t TL TR0 (fun q a hq => (hTR0agree q a (hpubpriv _ hq)).symm)
  have hSsat : ∀ a ∈ S, (sat ⟨T, fc⟩ (a.formula.replacePlaceholders t.phMap) ρ ↔
      sat ⟨TL, fc⟩ (a.formula.replacePlaceholders t.phMap) ρ) := by
    intro a ha
    refine sat_congr_preds fc T TL _ ρ ?_
    intro q hq ds hds
    simp only [Formula.replacePlaceholders_eq, Formula.preds_substSym] at hq
    have : (⟨q.symbol, ds.length⟩ : Pred) = q := by rw [hds]
    exact hTL q.symbol ds (by rw [this]; exact spec_vocabulary t S hspec a ha q hq)
  have hugT : ∀ a ∈ t.userGuide.formulas, a.role = .assumption → sat ⟨T, fc⟩ (a.formula.replacePlaceholders t.phMap) ρ := by
    intro a ha hrole
    refine (sat_congr_preds fc T TL _ ρ ?_).mpr (hug a ha hrole)
    intro q hq ds hds
    have hqi : q ∈ t.userGuide.inputs := by
      have hmem : a.replacePlaceholders t.phMap ∈ t.ugAss := by
        unfold ExternalTask.ugAss
        exact List.mem_map.mpr ⟨a, List.mem_filter.mpr ⟨ha, by simpa using hrole⟩, rfl⟩
      exact Outline.ugAss_preds t hpre _ hmem q hq
    have : (⟨q.symbol, ds.length⟩ : Pred) = q := by rw [hds]
    exact hTL q.symbol ds (by rw [this]; exact mem_ext.mpr (Or.inl (hinpub q hqi)))
  -- the private definitions of the program hold
  have hdefR : ∀ q ∈ t.program.preds, q ∉ t.userGuide.publicPreds →
      DefHolds (t.program.substSym (phNu t.phMap fc)) (renamedInterp t.clashMap T) fc q.symbol q.arity := by
    intro q hqP hnq
    have hpriv : q ∈ t.progPrivate := by
      unfold ExternalTask.progPrivate
      exact List.mem_filter.mpr ⟨hqP, by simpa using hnq⟩
    refine (defHolds_congr _ _ TR0 fc q (by rw [Program.preds_substSym]; exact hqP) ?_).mpr (hTR0def q hpriv)
    intro b hb ds hds
    rw [Program.preds_substSym] at hb
    have hb' : (⟨b.symbol, ds.length⟩ : Pred) = b := by rw [hds]
    exact hTR b.symbol ds (by rw [hb']; exact hvocR b (mem_ext.mpr (Or.inl hb)))
  have hright : ∀ a ∈ rightSide t ΓR, a.role = .assumption → sat ⟨T, fc⟩ a.formula ρ := by
    intro a ha hrole
    unfold rightSide at ha
    obtain ⟨a0, ha0, rfl⟩ := List.mem_map.mp ha
    simp only at hrole ⊢
    rw [sat_renamePreds]
    exact side_assumptions_hold t t.phMap fuel t.program ΓR hR _ fc ρ hdefR a0 ha0 hrole
  have hnot := hsound ⟨T, fc⟩ ρ
  unfold WitnessSpec at hnot
  by_cases hPR : Stable (t.program.substSym (phNu t.phMap fc)) t.userGuide.inputs
      (restrictTo (ext t.program.preds t.userGuide.inputs) (renamedInterp t.clashMap T)) fc ∧
      OutputsEmpty t t.program (renamedInterp t.clashMap T)
  · refine ⟨_, hPR.1, ?_⟩
    intro q ds hq
    have hnpriv := hpubpriv _ hq
    by_cases hin : (⟨q, ds.length⟩ : Pred) ∈ ext t.program.preds t.userGuide.inputs
    · unfold restrictTo
      rw [and_iff_left hin, hTR q ds (mem_ext.mpr (Or.inl hq))]
      exact hTR0agree q ds hnpriv
    · unfold restrictTo
      constructor
      · intro hh; exact absurd hh.2 hin
      · intro hTLq
        exfalso
        have hout : (⟨q, ds.length⟩ : Pred) ∈ t.userGuide.outputs := by
          rcases mem_ext.mp hq with h1 | h1
          · exact absurd (mem_ext.mpr (Or.inr h1)) hin
          · exact h1
        have hmiss : (⟨q, ds.length⟩ : Pred) ∈ missingOutputs t t.program := by
          unfold missingOutputs
          exact List.mem_filter.mpr ⟨hout, by simpa using fun hp => hin (mem_ext.mpr (Or.inl hp))⟩
        apply hPR.2 _ hmiss ds rfl
        exact (hTR q ds (mem_ext.mpr (Or.inl hq))).mpr ((hTR0agree q ds hnpriv).mpr hTLq)
  · exfalso
    apply hnot
    exact ⟨hugT, fun a ha hs => (hSsat a ha).mpr (hstab a ha hs), hright,
      Or.inl ⟨hdir, fun a ha hs => (hSsat a ha).mpr (hprem a ha hs), hPR⟩⟩

theorem external_forward_sound_programs (t : ExternalTask) (PL : Program)
    (hspec : t.specification = .inl PL) (hpo : t.proofOutline = [])
    (hbyp : t.bypassTightness = false)
    (fuel : Nat) (ps : List Problem) (h : externalProblems t fuel = .ok ps)
    (hdir : t.direction = .universal ∨ t.direction = .forward)
    (hnc : ∀ ΓL ΓR, theoryTranslate t t.phMap fuel PL = .ok ΓL → theoryTranslate t t.phMap fuel t.program = .ok ΓR →
      NoSymbolConflictGen (assembledGen t (leftSide t ΓL) t.ugAss ΓR))
    (hvalid : ∀ (J : Interp) (ρ : Asg), ¬ ∃ P ∈ ps, Refutes J ρ P) :
    ∀ (TL : PredI) (fc : FcI) (ρ : Asg),
      (∀ a ∈ t.userGuide.formulas, a.role = .assumption → sat ⟨TL, fc⟩ (a.formula.replacePlaceholders t.phMap) ρ) →
      Stable (PL.substSym (phNu t.phMap fc)) t.userGuide.inputs TL fc →
      ∃ TR : PredI, Stable (t.program.substSym (phNu t.phMap fc)) t.userGuide.inputs TR fc ∧
        ∀ (q : String) (ds : List Dom), (⟨q, ds.length⟩ : Pred) ∈ t.userGuide.publicPreds → (TR q ds ↔ TL q ds) := by
  obtain ⟨ΓL, ΓR, hL, hR, hmain⟩ := external_refutes_programs_ph t PL hspec hpo hbyp fuel ps h
  have hpre : precheck t = none := (externalProblems_ph t hpo fuel ps h).1
  exact external_forward_sound_programs_core t PL hspec hbyp hpre fuel ΓL ΓR hL hR hdir
    (fun J ρ hw => hvalid J ρ ((hmain (hnc ΓL ΓR hL hR) J ρ).mpr hw))

theorem external_backward_sound_programs (t : ExternalTask) (PL : Program)
    (hspec : t.specification = .inl PL) (hpo : t.proofOutline = [])
    (hbyp : t.bypassTightness = false)
    (fuel : Nat) (ps : List Problem) (h : externalProblems t fuel = .ok ps)
    (hdir : t.direction = .universal ∨ t.direction = .backward)
    (hnc : ∀ ΓL ΓR, theoryTranslate t t.phMap fuel PL = .ok ΓL → theoryTranslate t t.phMap fuel t.program = .ok ΓR →
      NoSymbolConflictGen (assembledGen t (leftSide t ΓL) t.ugAss ΓR))
    (hvalid : ∀ (J : Interp) (ρ : Asg), ¬ ∃ P ∈ ps, Refutes J ρ P) :
    ∀ (TR : PredI) (fc : FcI) (ρ : Asg),
      (∀ a ∈ t.userGuide.formulas, a.role = .assumption → sat ⟨TR, fc⟩ (a.formula.replacePlaceholders t.phMap) ρ) →
      Stable (t.program.substSym (phNu t.phMap fc)) t.userGuide.inputs TR fc →
      ∃ TL : PredI, Stable (PL.substSym (phNu t.phMap fc)) t.userGuide.inputs TL fc ∧
        ∀ (q : String) (ds : List Dom), (⟨q, ds.length⟩ : Pred) ∈ t.userGuide.publicPreds → (TL q ds ↔ TR q ds) := by
  obtain ⟨ΓL, ΓR, hL, hR, hmain⟩ := external_refutes_programs_ph t PL hspec hpo hbyp fuel ps h
  have hpre : precheck t = none := (externalProblems_ph t hpo fuel ps h).1
  exact external_backward_sound_programs_core t PL hspec hbyp hpre fuel ΓL ΓR hL hR hdir
    (fun J ρ hw => hvalid J ρ ((hmain (hnc ΓL ΓR hL hR) J ρ).mpr hw))

theorem external_backward_sound_specification (t : ExternalTask) (S : Specification)
    (hspec : t.specification = .inr S) (hpo : t.proofOutline = [])
    (hbyp : t.bypassTightness = false)
    (fuel : Nat) (ps : List Problem) (h : externalProblems t fuel = .ok ps)
    (hdir : t.direction = .universal ∨ t.direction = .backward)
    (hnc : ∀ ΓR, theoryTranslate t t.phMap fuel t.program = .ok ΓR →
      NoSymbolConflictGen (assembledGen t (S.map (SAnn.replacePlaceholders t.phMap)) t.ugAss ΓR))
    (hvalid : ∀ (J : Interp) (ρ : Asg), ¬ ∃ P ∈ ps, Refutes J ρ P) :
    ∀ (TL TR : PredI) (fc : FcI) (ρ : Asg),
      (∀ (q : String) (ds : List Dom), (⟨q, ds.length⟩ : Pred) ∈ t.userGuide.publicPreds → (TL q ds ↔ TR q ds)) →
      Stable (t.program.substSym (phNu t.phMap fc)) t.userGuide.inputs TR fc →
      (∀ a ∈ t.userGuide.formulas, a.role = .assumption → sat ⟨TL, fc⟩ (a.formula.replacePlaceholders t.phMap) ρ) →
      (∀ a ∈ S, lStable a = true → sat ⟨TL, fc⟩ (a.formula.replacePlaceholders t.phMap) ρ) →
      ∀ a ∈ S, lBwdConc a = true → sat ⟨TL, fc⟩ (a.formula.replacePlaceholders t.phMap) ρ := by
  obtain ⟨ΓR, hR, hmain⟩ := external_refutes_spec_ph t S hspec hpo hbyp fuel ps h
  have hpre : precheck t = none := (externalProblems_ph t hpo fuel ps h).1
  exact external_backward_sound_specification_core t S hspec hbyp hpre fuel ΓR hR hdir
    (fun J ρ hw => hvalid J ρ ((hmain (hnc ΓR hR) J ρ).mpr hw))

theorem external_forward_sound_specification (t : ExternalTask) (S : Specification)
    (hspec : t.specification = .inr S) (hpo : t.proofOutline = [])
    (hbyp : t.bypassTightness = false)
    (fuel : Nat) (ps : List Problem) (h : externalProblems t fuel = .ok ps)
    (hdir : t.direction = .universal ∨ t.direction = .forward)
    (hnc : ∀ ΓR, theoryTranslate t t.phMap fuel t.program = .ok ΓR →
      NoSymbolConflictGen (assembledGen t (S.map (SAnn.replacePlaceholders t.phMap)) t.ugAss ΓR))
    (hvalid : ∀ (J : Interp) (ρ : Asg), ¬ ∃ P ∈ ps, Refutes J ρ P) :
    ∀ (TL : PredI) (fc : FcI) (ρ : Asg),
      (∀ a ∈ t.userGuide.formulas, a.role = .assumption → sat ⟨TL, fc⟩ (a.formula.replacePlaceholders t.phMap) ρ) →
      (∀ a ∈ S, lStable a = true → sat ⟨TL, fc⟩ (a.formula.replacePlaceholders t.phMap) ρ) →
      (∀ a ∈ S, lFwdPrem a = true → sat ⟨TL, fc⟩ (a.formula.replacePlaceholders t.phMap) ρ) →
      ∃ TR : PredI, Stable (t.program.substSym (phNu t.phMap fc)) t.userGuide.inputs TR fc ∧
        ∀ (q : String) (ds : List Dom), (⟨q, ds.length⟩ : Pred) ∈ t.userGuide.publicPreds → (TR q ds ↔ TL q ds) := by
  obtain ⟨ΓR, hR, hmain⟩ := external_refutes_spec_ph t S hspec hpo hbyp fuel ps h
  have hpre : precheck t = none := (externalProblems_ph t hpo fuel ps h).1
  exact external_forward_sound_specification_core t S hspec hbyp hpre fuel ΓR hR hdir
    (fun J ρ hw => hvalid J ρ ((hmain (hnc ΓR hR) J ρ).mpr hw))

/-! ## every accepted task, proof outlines included -/

/-- "all formulas of the specification program's side are true" is "stable model of that program with
    the placeholders replaced by their values" (the counterpart of `rightSide_stable_ph`) -/
theorem leftSide_stable_ph (t : ExternalTask) (PL : Program) (hspec : t.specification = .inl PL)
    (hbyp : t.bypassTightness = false) (hpre : precheck t = none)
    (fuel : Nat) (ΓL : Theory) (hL : theoryTranslate t t.phMap fuel PL = .ok ΓL) (J : Interp) (ρ : Asg) :
    (∀ a ∈ leftSide t ΓL, sat J a.formula ρ) ↔
      Stable (PL.substSym (phNu t.phMap J.fc)) t.userGuide.inputs
        (restrictTo (ext PL.preds t.userGuide.inputs) J.pred) J.fc ∧ OutputsEmpty t PL J.pred := by
  obtain ⟨_, hlerr⟩ := precheck_programs t PL hspec hpre
  obtain ⟨htL, _, hinsL⟩ := C11.programError_none hlerr
  have htL' : isTight PL = true := htL.resolve_right (by simp [hbyp])
  obtain ⟨hpL, hsem⟩ := theoryTranslate_ok_ph t t.phMap fuel PL ΓL hL
  obtain ⟨Γ, hΓ, hsemL⟩ := hsem J
  have hst := completion_stable (PL.substSym (phNu t.phMap J.fc)) t.userGuide.inputs
    (by rw [isTight_substSym]; exact htL') (by rw [globalsPanic_substSym]; exact hpL)
    (by rw [Program.headPreds_substSym]; exact hinsL) Γ hΓ J.pred J.fc ρ
  rw [Program.preds_substSym] at hst
  rw [← hst, ← hsemL ρ]
  unfold leftSide
  constructor
  · intro hh F hF
    obtain ⟨a, ha, rfl⟩ := (controlTranslate_spec _ ΓL).2 F hF
    exact hh a ha
  · intro hh a ha
    exact hh _ ((controlTranslate_spec _ ΓL).1 a ha).1

/-- the difference-witness condition of `external_outline_sound`, for a given specification side -/
def WitnessOutline (t : ExternalTask) (left : List SAnn) (ΓR : Theory) (J : Interp) (ρ : Asg) : Prop :=
  (∀ a ∈ t.ugAss, sat J a.formula ρ) ∧
  (∀ a ∈ left, lStable a = true → sat J a.formula ρ) ∧
  (∀ a ∈ rightSide t ΓR, a.role = .assumption → sat J a.formula ρ) ∧
  (((t.direction = .universal ∨ t.direction = .forward) ∧
      (∀ a ∈ left, lFwdPrem a = true → sat J a.formula ρ) ∧
      ¬ (Stable (t.program.substSym (phNu t.phMap J.fc)) t.userGuide.inputs
        (restrictTo (ext t.program.preds t.userGuide.inputs)
          (renamedInterp t.clashMap J.pred)) J.fc ∧
        OutputsEmpty t t.program (renamedInterp t.clashMap J.pred))) ∨
   ((t.direction = .universal ∨ t.direction = .backward) ∧
      (Stable (t.program.substSym (phNu t.phMap J.fc)) t.userGuide.inputs
        (restrictTo (ext t.program.preds t.userGuide.inputs)
          (renamedInterp t.clashMap J.pred)) J.fc ∧
        OutputsEmpty t t.program (renamedInterp t.clashMap J.pred)) ∧
      ∃ a ∈ left, lBwdConc a = true ∧ ¬ sat J a.formula ρ))

theorem ugAss_sat (t : ExternalTask) (J : Interp) (ρ : Asg)
    (h : ∀ a ∈ t.userGuide.formulas, a.role = .assumption → sat J (a.formula.replacePlaceholders t.phMap) ρ) :
    ∀ a ∈ t.ugAss, sat J a.formula ρ := by
  intro a ha
  unfold ExternalTask.ugAss at ha
  obtain ⟨a0, ha0, rfl⟩ := List.mem_map.mp ha
  simp only [List.mem_filter, decide_eq_true_eq] at ha0
  exact h a0 ha0.1 ha0.2

theorem witnessOutline_of_programs (t : ExternalTask) (PL : Program) (hspec : t.specification = .inl PL)
    (hbyp : t.bypassTightness = false) (hpre : precheck t = none)
    (fuel : Nat) (ΓL ΓR : Theory) (hL : theoryTranslate t t.phMap fuel PL = .ok ΓL)
    (hR : theoryTranslate t t.phMap fuel t.program = .ok ΓR) (J : Interp) (ρ : Asg)
    (hw : WitnessPrograms t PL ΓL ΓR J ρ) : WitnessOutline t (leftSide t ΓL) ΓR J ρ := by
  obtain ⟨hug, hcases⟩ := hw
  have huL : UnivSA (leftSide t ΓL) := fun a ha => ((controlTranslate_spec _ ΓL).1 a ha).2
  rcases hcases with ⟨hdir, hPL, hra, hnPR⟩ | ⟨hdir, hPR, hla, hnPL⟩
  · have hall := (leftSide_stable_ph t PL hspec hbyp hpre fuel ΓL hL J ρ).mpr hPL
    exact ⟨ugAss_sat t J ρ hug, fun a ha _ => hall a ha, hra, Or.inl ⟨hdir, fun a ha _ => hall a ha, hnPR⟩⟩
  · have hallR := (rightSide_stable_ph t hbyp hpre fuel ΓR hR J ρ).mpr hPR
    refine ⟨ugAss_sat t J ρ hug, ?_, fun a ha _ => hallR a ha, Or.inr ⟨hdir, hPR, ?_⟩⟩
    · intro a ha hs
      refine hla a ha ?_
      simp only [lStable, Bool.and_eq_true, decide_eq_true_eq] at hs
      exact hs.1
    · have hnall : ¬ ∀ a ∈ leftSide t ΓL, sat J a.formula ρ :=
        fun hall => hnPL ((leftSide_stable_ph t PL hspec hbyp hpre fuel ΓL hL J ρ).mp hall)
      refine Classical.byContradiction fun hne => hnall fun a ha => ?_
      refine Classical.byContradiction fun hs => hne ⟨a, ha, ?_, hs⟩
      obtain ⟨hd, hr⟩ := huL a ha
      rcases hr with hr | hr
      · simp [lBwdConc, hd, hr]
      · exact absurd (hla a ha hr) hs

theorem witnessOutline_of_spec (t : ExternalTask) (S : Specification) (ΓR : Theory) (J : Interp) (ρ : Asg)
    (hw : WitnessSpec t S ΓR J ρ) : WitnessOutline t (S.map (SAnn.replacePlaceholders t.phMap)) ΓR J ρ := by
  obtain ⟨hug, hst, hra, hcases⟩ := hw
  refine ⟨ugAss_sat t J ρ hug, ?_, hra, ?_⟩
  · intro a ha hs
    obtain ⟨a0, ha0, rfl⟩ := List.mem_map.mp ha
    exact hst a0 ha0 hs
  · rcases hcases with ⟨hdir, hfp, hn⟩ | ⟨hdir, hPR, a0, ha0, hc, hns⟩
    · refine Or.inl ⟨hdir, ?_, hn⟩
      intro a ha hs
      obtain ⟨a0, ha0, rfl⟩ := List.mem_map.mp ha
      exact hfp a0 ha0 hs
    · exact Or.inr ⟨hdir, hPR, a0.replacePlaceholders t.phMap, List.mem_map.mpr ⟨a0, ha0, rfl⟩, hc, hns⟩

/-- **C02 at the level of the programs, for every accepted program-vs-program task - placeholders,
    simplification, proof outline and all, with no side condition.** If no emitted problem (outline
    problems and final problems) has a countermodel, then in each requested direction every stable model
    of one program, for input facts and constants that satisfy the user-guide assumptions, has the same
    public part as some stable model of the other. -/
theorem programs_equivalent_of_valid_problems (t : ExternalTask) (PL : Program)
    (hspec : t.specification = .inl PL) (hbyp : t.bypassTightness = false)
    (fuel : Nat) (ps : List Problem) (h : externalProblems t fuel = .ok ps) :
    (∀ P ∈ ps, ∀ J ρ, ¬ Refutes J ρ P) →
        ((t.direction = .universal ∨ t.direction = .forward) →
          ∀ (TL : PredI) (fc : FcI) (ρ : Asg),
            (∀ a ∈ t.userGuide.formulas, a.role = .assumption → sat ⟨TL, fc⟩ (a.formula.replacePlaceholders t.phMap) ρ) →
            Stable (PL.substSym (phNu t.phMap fc)) t.userGuide.inputs TL fc →
            ∃ TR : PredI, Stable (t.program.substSym (phNu t.phMap fc)) t.userGuide.inputs TR fc ∧
              ∀ (q : String) (ds : List Dom), (⟨q, ds.length⟩ : Pred) ∈ t.userGuide.publicPreds → (TR q ds ↔ TL q ds)) ∧
        ((t.direction = .universal ∨ t.direction = .backward) →
          ∀ (TR : PredI) (fc : FcI) (ρ : Asg),
            (∀ a ∈ t.userGuide.formulas, a.role = .assumption → sat ⟨TR, fc⟩ (a.formula.replacePlaceholders t.phMap) ρ) →
            Stable (t.program.substSym (phNu t.phMap fc)) t.userGuide.inputs TR fc →
            ∃ TL : PredI, Stable (PL.substSym (phNu t.phMap fc)) t.userGuide.inputs TL fc ∧
              ∀ (q : String) (ds : List Dom), (⟨q, ds.length⟩ : Pred) ∈ t.userGuide.publicPreds → (TL q ds ↔ TR q ds)) := by
  have hpre : precheck t = none := (Outline.externalProblems_outline t fuel ps h).1
  obtain ⟨left, ΓR, hleft, hR, himp⟩ := Outline.external_outline_sound_valid t hbyp fuel ps h
  simp only [hspec] at hleft
  obtain ⟨ΓL, hL, rfl⟩ := hleft
  intro hvalid
  have hsO := himp hvalid
  have hsound : ∀ (J : Interp) (ρ : Asg), ¬ WitnessPrograms t PL ΓL ΓR J ρ :=
    fun J ρ hw => hsO J ρ (witnessOutline_of_programs t PL hspec hbyp hpre fuel ΓL ΓR hL hR J ρ hw)
  exact ⟨fun hdir => external_forward_sound_programs_core t PL hspec hbyp hpre fuel ΓL ΓR hL hR hdir hsound,
    fun hdir => external_backward_sound_programs_core t PL hspec hbyp hpre fuel ΓL ΓR hL hR hdir hsound⟩

/-- **The same for every accepted specification-vs-program task.** -/
theorem specification_met_of_valid_problems (t : ExternalTask) (S : Specification)
    (hspec : t.specification = .inr S) (hbyp : t.bypassTightness = false)
    (fuel : Nat) (ps : List Problem) (h : externalProblems t fuel = .ok ps) :
    (∀ P ∈ ps, ∀ J ρ, ¬ Refutes J ρ P) →
        ((t.direction = .universal ∨ t.direction = .backward) →
          ∀ (TL TR : PredI) (fc : FcI) (ρ : Asg),
            (∀ (q : String) (ds : List Dom), (⟨q, ds.length⟩ : Pred) ∈ t.userGuide.publicPreds → (TL q ds ↔ TR q ds)) →
            Stable (t.program.substSym (phNu t.phMap fc)) t.userGuide.inputs TR fc →
            (∀ a ∈ t.userGuide.formulas, a.role = .assumption → sat ⟨TL, fc⟩ (a.formula.replacePlaceholders t.phMap) ρ) →
            (∀ a ∈ S, lStable a = true → sat ⟨TL, fc⟩ (a.formula.replacePlaceholders t.phMap) ρ) →
            ∀ a ∈ S, lBwdConc a = true → sat ⟨TL, fc⟩ (a.formula.replacePlaceholders t.phMap) ρ) ∧
        ((t.direction = .universal ∨ t.direction = .forward) →
          ∀ (TL : PredI) (fc : FcI) (ρ : Asg),
            (∀ a ∈ t.userGuide.formulas, a.role = .assumption → sat ⟨TL, fc⟩ (a.formula.replacePlaceholders t.phMap) ρ) →
            (∀ a ∈ S, lStable a = true → sat ⟨TL, fc⟩ (a.formula.replacePlaceholders t.phMap) ρ) →
            (∀ a ∈ S, lFwdPrem a = true → sat ⟨TL, fc⟩ (a.formula.replacePlaceholders t.phMap) ρ) →
            ∃ TR : PredI, Stable (t.program.substSym (phNu t.phMap fc)) t.userGuide.inputs TR fc ∧
              ∀ (q : String) (ds : List Dom), (⟨q, ds.length⟩ : Pred) ∈ t.userGuide.publicPreds → (TR q ds ↔ TL q ds)) := by
  have hpre : precheck t = none := (Outline.externalProblems_outline t fuel ps h).1
  obtain ⟨left, ΓR, hleft, hR, himp⟩ := Outline.external_outline_sound_valid t hbyp fuel ps h
  simp only [hspec] at hleft
  subst hleft
  intro hvalid
  have hsO := himp hvalid
  have hsound : ∀ (J : Interp) (ρ : Asg), ¬ WitnessSpec t S ΓR J ρ :=
    fun J ρ hw => hsO J ρ (witnessOutline_of_spec t S ΓR J ρ hw)
  exact ⟨fun hdir => external_backward_sound_specification_core t S hspec hbyp hpre fuel ΓR hR hdir hsound,
    fun hdir => external_forward_sound_specification_core t S hspec hbyp hpre fuel ΓR hR hdir hsound⟩

end Anthem
