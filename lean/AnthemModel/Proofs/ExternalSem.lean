/-
  C02 (restricted form): what the emitted external-equivalence problems mean for a task that compares
  two programs, without placeholders and without a proof outline.
  Part 1: interpretations restricted to a signature; predicates of the completion of a tau* theory.
-/
import AnthemModel.Proofs.CompletionSem
import AnthemModel.Model.External
namespace Anthem
open Asp

/-! ## satisfaction depends only on the predicates that occur -/

theorem sat_congr_preds (fc : FcI) (T T' : PredI) : ∀ (F : Formula) (ρ : Asg),
    (∀ q ∈ F.preds, ∀ a : List Dom, a.length = q.arity → (T q.symbol a ↔ T' q.symbol a)) →
    (sat ⟨T, fc⟩ F ρ ↔ sat ⟨T', fc⟩ F ρ) := by
  intro F
  induction F with
  | atomic a =>
    intro ρ h
    cases a with
    | tru | fls | cmp _ _ => exact Iff.rfl
    | atom a =>
      simp only [sat, AtomicF.sat]
      exact h a.predicate (by simp [Formula.preds, AtomicF.preds]) _ (by simp [Anthem.Atom.predicate])
  | not f ih => intro ρ h; simp only [sat]; exact not_congr (ih ρ h)
  | bin c l r ihl ihr =>
    intro ρ h
    have hl := ihl ρ fun q hq => h q (by simp [Formula.preds, mem_ext, hq])
    have hr := ihr ρ fun q hq => h q (by simp [Formula.preds, mem_ext, hq])
    cases c <;> simp only [sat, hl, hr]
  | quant q vs f ih =>
    intro ρ h
    cases q
    · simp only [sat]; exact bindAll_congr (fun τ => ih τ h) ρ
    · simp only [sat]; exact bindEx_congr (fun τ => ih τ h) ρ

/-- an interpretation cut down to a signature -/
def restrictTo (sig : List Pred) (T : PredI) : PredI := fun q a => T q a ∧ (⟨q, a.length⟩ : Pred) ∈ sig

theorem sat_restrict (fc : FcI) (T : PredI) (sig : List Pred) (F : Formula) (ρ : Asg)
    (h : ∀ q ∈ F.preds, q ∈ sig) : sat ⟨restrictTo sig T, fc⟩ F ρ ↔ sat ⟨T, fc⟩ F ρ := by
  apply sat_congr_preds
  intro q hq a ha
  unfold restrictTo
  constructor
  · exact fun h' => h'.1
  · intro h'
    refine ⟨h', ?_⟩
    have : (⟨q.symbol, a.length⟩ : Pred) = q := by rw [ha]
    rw [this]; exact h q hq

/-! ## the tau* theory mentions only predicates of the program -/

theorem preds_cmp1 (l : GTerm) (r : Rel) (t : GTerm) : (cmp1 l r t).preds = [] := rfl

theorem no_preds_conjoin {fs : List Formula} (h : ∀ f ∈ fs, f.preds = []) : (conjoin fs).preds = [] := by
  cases fs with
  | nil => rfl
  | cons f fs =>
    simp only [conjoin]
    suffices hs : ∀ (l : List Formula) (acc : Formula), acc.preds = [] → (∀ g ∈ l, g.preds = []) →
        (l.foldl (fun acc e => Formula.bin .and acc e) acc).preds = [] from
      hs fs f (h f List.mem_cons_self) fun g hg => h g (List.mem_cons_of_mem _ hg)
    intro l
    induction l with
    | nil => intro acc h _; exact h
    | cons e l ih =>
      intro acc hacc hl
      apply ih
      · simp [Formula.preds, hacc, hl e List.mem_cons_self, ext]
      · exact fun g hg => hl g (List.mem_cons_of_mem _ hg)

theorem val_preds : ∀ (t : Term) (z : Var), (val t z).preds = [] := by
  intro t
  induction t with
  | pre p => intro z; rfl
  | var x => intro z; rfl
  | neg a ih =>
    intro z
    simp [val, totalFunction, Formula.preds, preds_cmp1, ih, ext]
  | bin op l r ihl ihr =>
    intro z
    cases op <;>
      simp [val, totalFunction, partialFunction, intervalFormula, Formula.preds, AtomicF.preds, preds_cmp1, ihl, ihr, ext]

theorem mem_preds_conjoin {fs : List Formula} {q : Pred} (h : q ∈ (conjoin fs).preds) : ∃ f ∈ fs, q ∈ f.preds := by
  cases fs with
  | nil => simp [conjoin, Formula.tru, Formula.preds, AtomicF.preds] at h
  | cons f fs =>
    simp only [conjoin] at h
    suffices hs : ∀ (l : List Formula) (acc : Formula),
        q ∈ (l.foldl (fun acc e => Formula.bin .and acc e) acc).preds → q ∈ acc.preds ∨ ∃ g ∈ l, q ∈ g.preds by
      rcases hs fs f h with h | ⟨g, hg, h⟩
      · exact ⟨f, List.mem_cons_self, h⟩
      · exact ⟨g, List.mem_cons_of_mem _ hg, h⟩
    intro l
    induction l with
    | nil => intro acc h; exact Or.inl h
    | cons e l ih =>
      intro acc h
      rcases ih _ h with h | ⟨g, hg, h⟩
      · simp only [Formula.preds, mem_ext] at h
        rcases h with h | h
        · exact Or.inl h
        · exact Or.inr ⟨e, List.mem_cons_self, h⟩
      · exact Or.inr ⟨g, List.mem_cons_of_mem _ hg, h⟩

theorem valsConj_preds (args : List Term) (zs : List String) :
    (conjoin ((args.zip zs).map fun (t, z) => val t ⟨z, .general⟩)).preds = [] := by
  apply no_preds_conjoin
  intro f hf
  obtain ⟨⟨t, z⟩, _, rfl⟩ := List.mem_map.mp hf
  exact val_preds t _

theorem tauB_preds_sub (f : BodyAtom) (q : Pred) (h : q ∈ (tauB f).preds) : q ∈ f.preds := by
  cases f with
  | cmp rel l r =>
    unfold tauB at h
    simp [Formula.preds, val_preds, preds_cmp1, ext] at h
  | lit l =>
    obtain ⟨s, a⟩ := l
    unfold tauB at h
    simp only at h
    split at h
    · simp only [Formula.preds, mem_ext, valsConj_preds, preds_signed, AtomicF.preds, List.not_mem_nil, false_or,
        List.mem_singleton] at h
      rw [h]
      simp [BodyAtom.preds, Anthem.Atom.predicate, Asp.Atom.predicate,
        (chooseFresh_spec (BodyAtom.lit ⟨s, a⟩).vars "Z" a.args.length).2.2]
    · rename_i hpos
      have h0 : a.args.length = 0 := by omega
      simp only [preds_signed, Formula.preds, AtomicF.preds, List.mem_singleton] at h
      rw [h]
      simp [BodyAtom.preds, Anthem.Atom.predicate, Asp.Atom.predicate, h0]

theorem tauBody_preds_sub (b : List BodyAtom) (q : Pred) (h : q ∈ (tauBody b).preds) : q ∈ bodyPreds b := by
  obtain ⟨F, hF, hq⟩ := mem_preds_conjoin h
  obtain ⟨f, hf, rfl⟩ := List.mem_map.mp hF
  exact mem_bodyPreds.mpr ⟨f, hf, tauB_preds_sub f q hq⟩

theorem tauRuleBody_preds_sub (ch : Bool) (a : Asp.Atom) (r : Rule) (globals : List String)
    (hh : HeadOf r a ch) (hlen : a.args.length ≤ globals.length) (q : Pred)
    (h : q ∈ (tauRuleBody ch a r globals).preds) : q ∈ r.preds := by
  have hbody : ∀ q, q ∈ (tauBody r.body).preds → q ∈ r.preds := by
    intro q hq
    unfold Rule.preds; rw [mem_ext]; exact Or.inr (tauBody_preds_sub r.body q hq)
  have hhead : ∀ q, q ∈ (Formula.atomic (.atom (tauHeadAtom a globals))).preds → q ∈ r.preds := by
    intro q hq
    simp only [Formula.preds, AtomicF.preds, List.mem_singleton] at hq
    rw [tauHeadAtom_predicate a globals hlen] at hq
    unfold Rule.preds
    rw [mem_ext, headOf_predicate hh, hq]
    exact Or.inl (by simp)
  have hcore : ∀ q, q ∈ (if a.args.length > 0 then
      Formula.bin .and (conjoin ((a.args.zip (globals.take a.args.length)).map fun (t, v) => val t ⟨v, .general⟩))
        (tauBody r.body) else tauBody r.body).preds → q ∈ r.preds := by
    intro q hq
    split at hq
    · simp only [Formula.preds, mem_ext, valsConj_preds, List.not_mem_nil, false_or] at hq
      exact hbody q hq
    · exact hbody q hq
  unfold tauRuleBody at h
  cases ch with
  | false => simp only [Bool.false_eq_true, if_false] at h; exact hcore q h
  | true =>
    simp only [if_true, Formula.preds, mem_ext] at h
    rcases h with h | h
    · exact hcore q h
    · exact hhead q h

theorem preds_quantify (f : Formula) (qt : Quant) (vs : List Var) : (f.quantify qt vs).preds = f.preds := by
  unfold Formula.quantify; split <;> rfl

theorem mem_preds_disjoin {fs : List Formula} {q : Pred} (h : q ∈ (disjoin fs).preds) : ∃ f ∈ fs, q ∈ f.preds := by
  cases fs with
  | nil => simp [disjoin, Formula.fls, Formula.preds, AtomicF.preds] at h
  | cons f fs =>
    simp only [disjoin] at h
    suffices hs : ∀ (l : List Formula) (acc : Formula),
        q ∈ (l.foldl (fun acc e => Formula.bin .or acc e) acc).preds → q ∈ acc.preds ∨ ∃ g ∈ l, q ∈ g.preds by
      rcases hs fs f h with h | ⟨g, hg, h⟩
      · exact ⟨f, List.mem_cons_self, h⟩
      · exact ⟨g, List.mem_cons_of_mem _ hg, h⟩
    intro l
    induction l with
    | nil => intro acc h; exact Or.inl h
    | cons e l ih =>
      intro acc h
      rcases ih _ h with h | ⟨g, hg, h⟩
      · simp only [Formula.preds, mem_ext] at h
        rcases h with h | h
        · exact Or.inl h
        · exact Or.inr ⟨e, List.mem_cons_self, h⟩
      · exact Or.inr ⟨g, List.mem_cons_of_mem _ hg, h⟩

theorem completeDefinition_preds (A : Anthem.Atom) (fs : List Formula) (q : Pred)
    (h : q ∈ (completeDefinition A fs).preds) : q = A.predicate ∨ ∃ f ∈ fs, q ∈ f.preds := by
  unfold completeDefinition at h
  simp only [preds_quantify, Formula.preds, mem_ext, AtomicF.preds, List.mem_singleton] at h
  rcases h with h | h
  · exact Or.inl h
  · obtain ⟨F, hF, hq⟩ := mem_preds_disjoin h
    obtain ⟨f, hf, rfl⟩ := List.mem_map.mp hF
    rw [preds_quantify] at hq
    exact Or.inr ⟨f, hf, hq⟩

theorem headRuleFormula_preds_sub (ch : Bool) (a : Asp.Atom) (r : Rule) (globals : List String)
    (hh : HeadOf r a ch) (hlen : a.args.length ≤ globals.length) (q : Pred)
    (h : q ∈ (headRuleFormula ch a r globals).preds) : q ∈ r.preds := by
  have hbody : ∀ q, q ∈ (tauBody r.body).preds → q ∈ r.preds := by
    intro q hq
    unfold Rule.preds; rw [mem_ext]; exact Or.inr (tauBody_preds_sub r.body q hq)
  have hheadp : a.predicate ∈ r.preds := by
    unfold Rule.preds
    rw [mem_ext, headOf_predicate hh]
    exact Or.inl (by simp)
  unfold headRuleFormula at h
  split at h
  · simp only [Formula.preds, mem_ext] at h
    have hhead : ∀ q, q ∈ (Formula.atomic (.atom ⟨a.pred, (globals.take a.args.length).map GTerm.var⟩)).preds →
        q ∈ r.preds := by
      intro q hq
      have := tauHeadAtom_predicate a globals hlen
      unfold tauHeadAtom at this
      simp only [Formula.preds, AtomicF.preds, List.mem_singleton] at hq
      rw [hq, this]; exact hheadp
    rcases h with h | h
    · split at h
      · simp only [Formula.preds, mem_ext, valsConj_preds, List.not_mem_nil, false_or] at h
        rcases h with h | h
        · exact hbody q h
        · exact hhead q h
      · simp only [Formula.preds, mem_ext, valsConj_preds, List.not_mem_nil, false_or] at h
        exact hbody q h
    · exact hhead q h
  · rename_i hpos
    have h0 : a.args.length = 0 := by omega
    have hhead : ∀ q, q ∈ (Formula.atomic (.atom ⟨a.pred, []⟩)).preds → q ∈ r.preds := by
      intro q hq
      simp only [Formula.preds, AtomicF.preds, List.mem_singleton] at hq
      rw [hq]
      have : (Anthem.Atom.predicate ⟨a.pred, []⟩) = a.predicate := by
        simp [Anthem.Atom.predicate, Asp.Atom.predicate, h0]
      rw [this]; exact hheadp
    have h' : q ∈ (Formula.bin .imp (if ch = true then
        Formula.bin .and (tauBody r.body) (.not (.not (.atomic (.atom ⟨a.pred, []⟩)))) else tauBody r.body)
        (.atomic (.atom ⟨a.pred, []⟩))).preds := by
      simp only at h
      by_cases he : (sortedGeneral r.vars).isEmpty = true
      · rw [if_pos he] at h; exact h
      · rw [if_neg he] at h; exact h
    simp only [Formula.preds, mem_ext] at h'
    rcases h' with h' | h'
    · split at h'
      · simp only [Formula.preds, mem_ext] at h'
        rcases h' with h' | h'
        · exact hbody q h'
        · exact hhead q h'
      · exact hbody q h'
    · exact hhead q h'

/-- **the completion of the tau\* theory mentions only predicates of the program** -/
theorem completion_preds (P : Program) (ins : List Pred) (hp : globalsPanic P = false) (Γ : Theory)
    (hΓ : completion (tauStar P) ins = some Γ) : ∀ F ∈ Γ, ∀ q ∈ F.preds, q ∈ P.preds := by
  obtain ⟨hn, hfresh, hglen⟩ := chooseFreshGlobals_spec P hp
  have hcomp := components_tauStar P hp
  obtain ⟨hspec, hcons⟩ := collect_spec (P.map fun r => ruleComponent r (chooseFreshGlobals P)) ([], [])
    (fun _ _ => False) ⟨List.nodup_nil, by simp⟩
  simp only [false_or, List.not_mem_nil] at hspec hcons
  have hne := collect_nonempty (P.map fun r => ruleComponent r (chooseFreshGlobals P)) ([], []) (by simp)
  have hla : ∀ r ∈ P, ∀ a ch, HeadOf r a ch → a.args.length ≤ (chooseFreshGlobals P).length := by
    intro r hr a ch hh
    rw [hglen, ← headOf_arity hh]; exact arity_le_maxHeadArity P r hr
  have hentry : ∀ e ∈ (collect (P.map fun r => ruleComponent r (chooseFreshGlobals P)) ([], [])).1,
      ∃ r ∈ P, ∃ a ch, HeadOf r a ch ∧ e.1 = tauHeadAtom a (chooseFreshGlobals P) := by
    intro e he
    obtain ⟨f, hf⟩ := List.exists_mem_of_ne_nil _ (hne e he)
    obtain ⟨r, hr, a, ch, hh, _, hA⟩ := (mem_comps_partialDef P _ f e.1).mp ((hspec.2 e.1 f).mp ⟨e.2, he, hf⟩)
    exact ⟨r, hr, a, ch, hh, hA⟩
  have hkeys : ∀ e ∈ (collect (P.map fun r => ruleComponent r (chooseFreshGlobals P)) ([], [])).1,
      ∀ e' ∈ (collect (P.map fun r => ruleComponent r (chooseFreshGlobals P)) ([], [])).1,
      e.1.predicate = e'.1.predicate → e.1 = e'.1 := by
    intro e he e' he' hpe
    obtain ⟨r, hr, a, ch, hh, hA⟩ := hentry e he
    obtain ⟨r', hr', a', ch', hh', hA'⟩ := hentry e' he'
    rw [hA, hA'] at hpe ⊢
    rw [tauHeadAtom_predicate a _ (hla r hr a ch hh), tauHeadAtom_predicate a' _ (hla r' hr' a' ch' hh')] at hpe
    simp only [Asp.Atom.predicate, Pred.mk.injEq] at hpe
    exact (tauHeadAtom_eq (hla r hr a ch hh) (hla r' hr' a' ch' hh')).mpr hpe
  obtain ⟨Γ', hΓ', hmem⟩ := completion_formulas (tauStar P) ins _ _ hcomp hkeys
  rw [hΓ] at hΓ'
  injection hΓ' with hΓ'
  subst hΓ'
  have hrule : ∀ r ∈ P, ∀ q ∈ r.preds, q ∈ P.preds := fun r hr q hq => mem_program_preds.mpr ⟨r, hr, hq⟩
  intro F hF q hq
  rcases (hmem F).mp hF with ⟨c, hc, rfl⟩ | ⟨e, he, _, rfl⟩ | ⟨p, hpm, _, _, rfl⟩
  · obtain ⟨r, hr, hh, rfl⟩ := (mem_comps_constraint P _ c).mp ((hcons c).mp hc)
    unfold Formula.universalClosure at hq
    rw [preds_quantify] at hq
    simp only [Formula.preds, mem_ext, Formula.fls, AtomicF.preds, List.not_mem_nil, or_false] at hq
    refine hrule r hr q ?_
    unfold Rule.preds; rw [mem_ext]; exact Or.inr (tauBody_preds_sub r.body q hq)
  · rcases completeDefinition_preds e.1 e.2 q hq with rfl | ⟨f, hf, hqf⟩
    · obtain ⟨r, hr, a, ch, hh, hA⟩ := hentry e he
      rw [hA, tauHeadAtom_predicate a _ (hla r hr a ch hh)]
      refine hrule r hr _ ?_
      unfold Rule.preds; rw [mem_ext, headOf_predicate hh]; exact Or.inl (by simp)
    · obtain ⟨r, hr, a, ch, hh, rfl, _⟩ := (mem_comps_partialDef P _ f e.1).mp ((hspec.2 e.1 f).mp ⟨e.2, he, hf⟩)
      exact hrule r hr q (tauRuleBody_preds_sub ch a r _ hh (hla r hr a ch hh) q hqf)
  · rcases completeDefinition_preds _ _ q hq with rfl | ⟨f, hf, _⟩
    · rw [atomFromPred_predicate]
      -- p is a predicate of the tau* theory
      unfold Theory.preds at hpm
      rw [mem_foldl_ext] at hpm
      simp only [List.not_mem_nil, false_or] at hpm
      obtain ⟨F', hF', hp'⟩ := hpm
      obtain ⟨r, hr, rfl⟩ := List.mem_map.mp hF'
      refine hrule r hr _ ?_
      -- the formula of a rule mentions only predicates of the rule
      cases hh : r.head with
      | falsity =>
        unfold tauStarRule at hp'
        simp only [hh] at hp'
        have : p ∈ (Formula.bin .imp (tauBody r.body) .fls).preds := by
          split at hp' <;> exact hp'
        simp only [Formula.preds, mem_ext, Formula.fls, AtomicF.preds, List.not_mem_nil, or_false] at this
        unfold Rule.preds; rw [mem_ext]; exact Or.inr (tauBody_preds_sub r.body p this)
      | basic a | choice a =>
        all_goals
          first
            | (rw [tauStarRule_basic r a _ hh] at hp'
               exact headRuleFormula_preds_sub false a r _ (Or.inl ⟨hh, rfl⟩) (hla r hr a false (Or.inl ⟨hh, rfl⟩)) p hp')
            | (rw [tauStarRule_choice r a _ hh] at hp'
               exact headRuleFormula_preds_sub true a r _ (Or.inr ⟨hh, rfl⟩) (hla r hr a true (Or.inr ⟨hh, rfl⟩)) p hp')
    · cases hf

/-- `completion_tight` for an arbitrary interpretation, cut down to the program's signature -/
theorem completion_stable (P : Program) (ins : List Pred) (htight : isTight P = true)
    (hp : globalsPanic P = false) (hins : ∀ q ∈ ins, q ∉ P.headPreds) (Γ : Theory)
    (hΓ : completion (tauStar P) ins = some Γ) (T : PredI) (fc : FcI) (ρ : Asg) :
    (∀ F ∈ Γ, sat ⟨T, fc⟩ F ρ) ↔ Stable P ins (restrictTo (ext P.preds ins) T) fc := by
  obtain ⟨Γ', h1, h2⟩ := completion_tight P ins htight hp hins
  rw [hΓ] at h1
  injection h1 with h1
  subst h1
  rw [← h2 (restrictTo (ext P.preds ins) T) fc ρ (fun q a h => h.2)]
  refine forall_congr' fun F => imp_congr_right fun hF => ?_
  exact (sat_restrict fc T _ F ρ fun q hq => mem_ext.mpr (Or.inl (completion_preds P ins hp Γ hΓ F hF q hq))).symm

/-! ## renaming of private predicates -/

/-- read the predicates in `clash` through their `_p` copies -/
def renamedInterp (clash : List Pred) (T : PredI) : PredI :=
  fun q a => if (⟨q, a.length⟩ : Pred) ∈ clash then T (q ++ "_p") a else T q a

theorem sat_renamePreds (clash : List Pred) (T : PredI) (fc : FcI) : ∀ (F : Formula) (ρ : Asg),
    sat ⟨T, fc⟩ (F.renamePreds clash) ρ ↔ sat ⟨renamedInterp clash T, fc⟩ F ρ := by
  intro F
  induction F with
  | atomic a =>
    intro ρ
    cases a with
    | tru | fls | cmp _ _ => exact Iff.rfl
    | atom a =>
      simp only [Formula.renamePreds]
      split
      · rename_i hm
        simp only [sat, AtomicF.sat, renamedInterp, List.length_map]
        rw [if_pos (show (⟨a.pred, a.args.length⟩ : Pred) ∈ clash from hm)]
      · rename_i hm
        simp only [sat, AtomicF.sat, renamedInterp, List.length_map]
        rw [if_neg (show (⟨a.pred, a.args.length⟩ : Pred) ∉ clash from hm)]
  | not f ih => intro ρ; simp only [Formula.renamePreds, sat, ih]
  | bin c l r ihl ihr => intro ρ; cases c <;> simp only [Formula.renamePreds, sat, ihl, ihr]
  | quant q vs f ih =>
    intro ρ
    cases q
    · simp only [Formula.renamePreds, sat]; exact bindAll_congr (fun τ => ih τ) ρ
    · simp only [Formula.renamePreds, sat]; exact bindEx_congr (fun τ => ih τ) ρ

/-! ## `replace_placeholders` without placeholders -/

theorem replacePlaceholders_nil : ∀ F : Formula, F.replacePlaceholders [] = F := by
  have hg : ∀ t : GTerm, t.replacePlaceholders [] = t := by
    intro t
    cases t with
    | symb st => cases st <;> rfl
    | inf | sup | fc _ | var _ | int _ => rfl
  intro F
  induction F with
  | atomic a =>
    cases a with
    | tru | fls => rfl
    | atom a =>
      simp only [Formula.replacePlaceholders, AtomicF.replacePlaceholders]
      congr
      conv => rhs; rw [← List.map_id a.args]
      exact List.map_congr_left fun t _ => hg t
    | cmp t gs =>
      simp only [Formula.replacePlaceholders, AtomicF.replacePlaceholders, hg]
      congr
      conv => rhs; rw [← List.map_id gs]
      exact List.map_congr_left fun g _ => by simp [hg]
  | not f ih => simp [Formula.replacePlaceholders, ih]
  | bin c l r ihl ihr => simp [Formula.replacePlaceholders, ihl, ihr]
  | quant q vs f ih => simp [Formula.replacePlaceholders, ih]

end Anthem
