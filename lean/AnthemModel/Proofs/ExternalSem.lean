/-
  C02 (restricted form): what the emitted external-equivalence problems mean for a task that compares
  two programs, without placeholders and without a proof outline.
  Part 1: interpretations restricted to a signature; predicates of the completion of a tau* theory.
-/
import AnthemModel.Proofs.CompletionSem
import AnthemModel.Model.External
import AnthemModel.Props.C11
namespace Anthem
open Asp

/-! ## satisfaction depends only on the predicates that occur -/

theorem sat_congr_preds (fc : FcI) (T T' : PredI) : ∀ (F : Formula) (ρ : Asg),
    (∀ q ∈ F.preds, ∀ a : List Dom, a.length = q.arity → (T q.symbol a ↔ T' q.symbol a)) →
    (sat ⟨T, fc⟩ F ρ ↔ sat ⟨T', fc⟩ F ρ) := by
  intro F
  induction F with
  | atomic a =>
    intro ρ h
    cases a with
    | tru | fls | cmp _ _ => exact Iff.rfl
    | atom a =>
      simp only [sat, AtomicF.sat]
      exact h a.predicate (by simp [Formula.preds, AtomicF.preds]) _ (by simp [Anthem.Atom.predicate])
  | not f ih => intro ρ h; simp only [sat]; exact not_congr (ih ρ h)
  | bin c l r ihl ihr =>
    intro ρ h
    have hl := ihl ρ fun q hq => h q (by simp [Formula.preds, mem_ext, hq])
    have hr := ihr ρ fun q hq => h q (by simp [Formula.preds, mem_ext, hq])
    cases c <;> simp only [sat, hl, hr]
  | quant q vs f ih =>
    intro ρ h
    cases q
    · simp only [sat]; exact bindAll_congr (fun τ => ih τ h) ρ
    · simp only [sat]; exact bindEx_congr (fun τ => ih τ h) ρ

/-- an interpretation cut down to a signature -/
def restrictTo (sig : List Pred) (T : PredI) : PredI := fun q a => T q a ∧ (⟨q, a.length⟩ : Pred) ∈ sig

theorem sat_restrict (fc : FcI) (T : PredI) (sig : List Pred) (F : Formula) (ρ : Asg)
    (h : ∀ q ∈ F.preds, q ∈ sig) : sat ⟨restrictTo sig T, fc⟩ F ρ ↔ sat ⟨T, fc⟩ F ρ := by
  apply sat_congr_preds
  intro q hq a ha
  unfold restrictTo
  constructor
  · exact fun h' => h'.1
  · intro h'
    refine ⟨h', ?_⟩
    have : (⟨q.symbol, a.length⟩ : Pred) = q := by rw [ha]
    rw [this]; exact h q hq

/-! ## the tau* theory mentions only predicates of the program -/

theorem preds_cmp1 (l : GTerm) (r : Rel) (t : GTerm) : (cmp1 l r t).preds = [] := rfl

theorem no_preds_conjoin {fs : List Formula} (h : ∀ f ∈ fs, f.preds = []) : (conjoin fs).preds = [] := by
  cases fs with
  | nil => rfl
  | cons f fs =>
    simp only [conjoin]
    suffices hs : ∀ (l : List Formula) (acc : Formula), acc.preds = [] → (∀ g ∈ l, g.preds = []) →
        (l.foldl (fun acc e => Formula.bin .and acc e) acc).preds = [] from
      hs fs f (h f List.mem_cons_self) fun g hg => h g (List.mem_cons_of_mem _ hg)
    intro l
    induction l with
    | nil => intro acc h _; exact h
    | cons e l ih =>
      intro acc hacc hl
      apply ih
      · simp [Formula.preds, hacc, hl e List.mem_cons_self, ext]
      · exact fun g hg => hl g (List.mem_cons_of_mem _ hg)

theorem val_preds : ∀ (t : Term) (z : Var), (val t z).preds = [] := by
  intro t
  induction t with
  | pre p => intro z; rfl
  | var x => intro z; rfl
  | neg a ih =>
    intro z
    simp [val, totalFunction, Formula.preds, preds_cmp1, ih, ext]
  | bin op l r ihl ihr =>
    intro z
    cases op <;>
      simp [val, totalFunction, partialFunction, intervalFormula, Formula.preds, AtomicF.preds, preds_cmp1, ihl, ihr, ext]

theorem mem_preds_conjoin {fs : List Formula} {q : Pred} (h : q ∈ (conjoin fs).preds) : ∃ f ∈ fs, q ∈ f.preds := by
  cases fs with
  | nil => simp [conjoin, Formula.tru, Formula.preds, AtomicF.preds] at h
  | cons f fs =>
    simp only [conjoin] at h
    suffices hs : ∀ (l : List Formula) (acc : Formula),
        q ∈ (l.foldl (fun acc e => Formula.bin .and acc e) acc).preds → q ∈ acc.preds ∨ ∃ g ∈ l, q ∈ g.preds by
      rcases hs fs f h with h | ⟨g, hg, h⟩
      · exact ⟨f, List.mem_cons_self, h⟩
      · exact ⟨g, List.mem_cons_of_mem _ hg, h⟩
    intro l
    induction l with
    | nil => intro acc h; exact Or.inl h
    | cons e l ih =>
      intro acc h
      rcases ih _ h with h | ⟨g, hg, h⟩
      · simp only [Formula.preds, mem_ext] at h
        rcases h with h | h
        · exact Or.inl h
        · exact Or.inr ⟨e, List.mem_cons_self, h⟩
      · exact Or.inr ⟨g, List.mem_cons_of_mem _ hg, h⟩

theorem valsConj_preds (args : List Term) (zs : List String) :
    (conjoin ((args.zip zs).map fun (t, z) => val t ⟨z, .general⟩)).preds = [] := by
  apply no_preds_conjoin
  intro f hf
  obtain ⟨⟨t, z⟩, _, rfl⟩ := List.mem_map.mp hf
  exact val_preds t _

theorem tauB_preds_sub (f : BodyAtom) (q : Pred) (h : q ∈ (tauB f).preds) : q ∈ f.preds := by
  cases f with
  | cmp rel l r =>
    unfold tauB at h
    simp [Formula.preds, val_preds, preds_cmp1, ext] at h
  | lit l =>
    obtain ⟨s, a⟩ := l
    unfold tauB at h
    simp only at h
    split at h
    · simp only [Formula.preds, mem_ext, valsConj_preds, preds_signed, AtomicF.preds, List.not_mem_nil, false_or,
        List.mem_singleton] at h
      rw [h]
      simp [BodyAtom.preds, Anthem.Atom.predicate, Asp.Atom.predicate,
        (chooseFresh_spec (BodyAtom.lit ⟨s, a⟩).vars "Z" a.args.length).2.2]
    · rename_i hpos
      have h0 : a.args.length = 0 := by omega
      simp only [preds_signed, Formula.preds, AtomicF.preds, List.mem_singleton] at h
      rw [h]
      simp [BodyAtom.preds, Anthem.Atom.predicate, Asp.Atom.predicate, h0]

theorem tauBody_preds_sub (b : List BodyAtom) (q : Pred) (h : q ∈ (tauBody b).preds) : q ∈ bodyPreds b := by
  obtain ⟨F, hF, hq⟩ := mem_preds_conjoin h
  obtain ⟨f, hf, rfl⟩ := List.mem_map.mp hF
  exact mem_bodyPreds.mpr ⟨f, hf, tauB_preds_sub f q hq⟩

theorem tauRuleBody_preds_sub (ch : Bool) (a : Asp.Atom) (r : Rule) (globals : List String)
    (hh : HeadOf r a ch) (hlen : a.args.length ≤ globals.length) (q : Pred)
    (h : q ∈ (tauRuleBody ch a r globals).preds) : q ∈ r.preds := by
  have hbody : ∀ q, q ∈ (tauBody r.body).preds → q ∈ r.preds := by
    intro q hq
    unfold Rule.preds; rw [mem_ext]; exact Or.inr (tauBody_preds_sub r.body q hq)
  have hhead : ∀ q, q ∈ (Formula.atomic (.atom (tauHeadAtom a globals))).preds → q ∈ r.preds := by
    intro q hq
    simp only [Formula.preds, AtomicF.preds, List.mem_singleton] at hq
    rw [tauHeadAtom_predicate a globals hlen] at hq
    unfold Rule.preds
    rw [mem_ext, headOf_predicate hh, hq]
    exact Or.inl (by simp)
  have hcore : ∀ q, q ∈ (if a.args.length > 0 then
      Formula.bin .and (conjoin ((a.args.zip (globals.take a.args.length)).map fun (t, v) => val t ⟨v, .general⟩))
        (tauBody r.body) else tauBody r.body).preds → q ∈ r.preds := by
    intro q hq
    split at hq
    · simp only [Formula.preds, mem_ext, valsConj_preds, List.not_mem_nil, false_or] at hq
      exact hbody q hq
    · exact hbody q hq
  unfold tauRuleBody at h
  cases ch with
  | false => simp only [Bool.false_eq_true, if_false] at h; exact hcore q h
  | true =>
    simp only [if_true, Formula.preds, mem_ext] at h
    rcases h with h | h
    · exact hcore q h
    · exact hhead q h

theorem preds_quantify (f : Formula) (qt : Quant) (vs : List Var) : (f.quantify qt vs).preds = f.preds := by
  unfold Formula.quantify; split <;> rfl

theorem mem_preds_disjoin {fs : List Formula} {q : Pred} (h : q ∈ (disjoin fs).preds) : ∃ f ∈ fs, q ∈ f.preds := by
  cases fs with
  | nil => simp [disjoin, Formula.fls, Formula.preds, AtomicF.preds] at h
  | cons f fs =>
    simp only [disjoin] at h
    suffices hs : ∀ (l : List Formula) (acc : Formula),
        q ∈ (l.foldl (fun acc e => Formula.bin .or acc e) acc).preds → q ∈ acc.preds ∨ ∃ g ∈ l, q ∈ g.preds by
      rcases hs fs f h with h | ⟨g, hg, h⟩
      · exact ⟨f, List.mem_cons_self, h⟩
      · exact ⟨g, List.mem_cons_of_mem _ hg, h⟩
    intro l
    induction l with
    | nil => intro acc h; exact Or.inl h
    | cons e l ih =>
      intro acc h
      rcases ih _ h with h | ⟨g, hg, h⟩
      · simp only [Formula.preds, mem_ext] at h
        rcases h with h | h
        · exact Or.inl h
        · exact Or.inr ⟨e, List.mem_cons_self, h⟩
      · exact Or.inr ⟨g, List.mem_cons_of_mem _ hg, h⟩

theorem completeDefinition_preds (A : Anthem.Atom) (fs : List Formula) (q : Pred)
    (h : q ∈ (completeDefinition A fs).preds) : q = A.predicate ∨ ∃ f ∈ fs, q ∈ f.preds := by
  unfold completeDefinition at h
  simp only [preds_quantify, Formula.preds, mem_ext, AtomicF.preds, List.mem_singleton] at h
  rcases h with h | h
  · exact Or.inl h
  · obtain ⟨F, hF, hq⟩ := mem_preds_disjoin h
    obtain ⟨f, hf, rfl⟩ := List.mem_map.mp hF
    rw [preds_quantify] at hq
    exact Or.inr ⟨f, hf, hq⟩

theorem headRuleFormula_preds_sub (ch : Bool) (a : Asp.Atom) (r : Rule) (globals : List String)
    (hh : HeadOf r a ch) (hlen : a.args.length ≤ globals.length) (q : Pred)
    (h : q ∈ (headRuleFormula ch a r globals).preds) : q ∈ r.preds := by
  have hbody : ∀ q, q ∈ (tauBody r.body).preds → q ∈ r.preds := by
    intro q hq
    unfold Rule.preds; rw [mem_ext]; exact Or.inr (tauBody_preds_sub r.body q hq)
  have hheadp : a.predicate ∈ r.preds := by
    unfold Rule.preds
    rw [mem_ext, headOf_predicate hh]
    exact Or.inl (by simp)
  unfold headRuleFormula at h
  split at h
  · simp only [Formula.preds, mem_ext] at h
    have hhead : ∀ q, q ∈ (Formula.atomic (.atom ⟨a.pred, (globals.take a.args.length).map GTerm.var⟩)).preds →
        q ∈ r.preds := by
      intro q hq
      have := tauHeadAtom_predicate a globals hlen
      unfold tauHeadAtom at this
      simp only [Formula.preds, AtomicF.preds, List.mem_singleton] at hq
      rw [hq, this]; exact hheadp
    rcases h with h | h
    · split at h
      · simp only [Formula.preds, mem_ext, valsConj_preds, List.not_mem_nil, false_or] at h
        rcases h with h | h
        · exact hbody q h
        · exact hhead q h
      · simp only [Formula.preds, mem_ext, valsConj_preds, List.not_mem_nil, false_or] at h
        exact hbody q h
    · exact hhead q h
  · rename_i hpos
    have h0 : a.args.length = 0 := by omega
    have hhead : ∀ q, q ∈ (Formula.atomic (.atom ⟨a.pred, []⟩)).preds → q ∈ r.preds := by
      intro q hq
      simp only [Formula.preds, AtomicF.preds, List.mem_singleton] at hq
      rw [hq]
      have : (Anthem.Atom.predicate ⟨a.pred, []⟩) = a.predicate := by
        simp [Anthem.Atom.predicate, Asp.Atom.predicate, h0]
      rw [this]; exact hheadp
    have h' : q ∈ (Formula.bin .imp (if ch = true then
        Formula.bin .and (tauBody r.body) (.not (.not (.atomic (.atom ⟨a.pred, []⟩)))) else tauBody r.body)
        (.atomic (.atom ⟨a.pred, []⟩))).preds := by
      simp only at h
      by_cases he : (sortedGeneral r.vars).isEmpty = true
      · rw [if_pos he] at h; exact h
      · rw [if_neg he] at h; exact h
    simp only [Formula.preds, mem_ext] at h'
    rcases h' with h' | h'
    · split at h'
      · simp only [Formula.preds, mem_ext] at h'
        rcases h' with h' | h'
        · exact hbody q h'
        · exact hhead q h'
      · exact hbody q h'
    · exact hhead q h'

/-- **the completion of the tau\* theory mentions only predicates of the program** -/
theorem completion_preds (P : Program) (ins : List Pred) (hp : globalsPanic P = false) (Γ : Theory)
    (hΓ : completion (tauStar P) ins = some Γ) : ∀ F ∈ Γ, ∀ q ∈ F.preds, q ∈ P.preds := by
  obtain ⟨hn, hfresh, hglen⟩ := chooseFreshGlobals_spec P hp
  have hcomp := components_tauStar P hp
  obtain ⟨hspec, hcons⟩ := collect_spec (P.map fun r => ruleComponent r (chooseFreshGlobals P)) ([], [])
    (fun _ _ => False) ⟨List.nodup_nil, by simp⟩
  simp only [false_or, List.not_mem_nil] at hspec hcons
  have hne := collect_nonempty (P.map fun r => ruleComponent r (chooseFreshGlobals P)) ([], []) (by simp)
  have hla : ∀ r ∈ P, ∀ a ch, HeadOf r a ch → a.args.length ≤ (chooseFreshGlobals P).length := by
    intro r hr a ch hh
    rw [hglen, ← headOf_arity hh]; exact arity_le_maxHeadArity P r hr
  have hentry : ∀ e ∈ (collect (P.map fun r => ruleComponent r (chooseFreshGlobals P)) ([], [])).1,
      ∃ r ∈ P, ∃ a ch, HeadOf r a ch ∧ e.1 = tauHeadAtom a (chooseFreshGlobals P) := by
    intro e he
    obtain ⟨f, hf⟩ := List.exists_mem_of_ne_nil _ (hne e he)
    obtain ⟨r, hr, a, ch, hh, _, hA⟩ := (mem_comps_partialDef P _ f e.1).mp ((hspec.2 e.1 f).mp ⟨e.2, he, hf⟩)
    exact ⟨r, hr, a, ch, hh, hA⟩
  have hkeys : ∀ e ∈ (collect (P.map fun r => ruleComponent r (chooseFreshGlobals P)) ([], [])).1,
      ∀ e' ∈ (collect (P.map fun r => ruleComponent r (chooseFreshGlobals P)) ([], [])).1,
      e.1.predicate = e'.1.predicate → e.1 = e'.1 := by
    intro e he e' he' hpe
    obtain ⟨r, hr, a, ch, hh, hA⟩ := hentry e he
    obtain ⟨r', hr', a', ch', hh', hA'⟩ := hentry e' he'
    rw [hA, hA'] at hpe ⊢
    rw [tauHeadAtom_predicate a _ (hla r hr a ch hh), tauHeadAtom_predicate a' _ (hla r' hr' a' ch' hh')] at hpe
    simp only [Asp.Atom.predicate, Pred.mk.injEq] at hpe
    exact (tauHeadAtom_eq (hla r hr a ch hh) (hla r' hr' a' ch' hh')).mpr hpe
  obtain ⟨Γ', hΓ', hmem⟩ := completion_formulas (tauStar P) ins _ _ hcomp hkeys
  rw [hΓ] at hΓ'
  injection hΓ' with hΓ'
  subst hΓ'
  have hrule : ∀ r ∈ P, ∀ q ∈ r.preds, q ∈ P.preds := fun r hr q hq => mem_program_preds.mpr ⟨r, hr, hq⟩
  intro F hF q hq
  rcases (hmem F).mp hF with ⟨c, hc, rfl⟩ | ⟨e, he, _, rfl⟩ | ⟨p, hpm, _, _, rfl⟩
  · obtain ⟨r, hr, hh, rfl⟩ := (mem_comps_constraint P _ c).mp ((hcons c).mp hc)
    unfold Formula.universalClosure at hq
    rw [preds_quantify] at hq
    simp only [Formula.preds, mem_ext, Formula.fls, AtomicF.preds, List.not_mem_nil, or_false] at hq
    refine hrule r hr q ?_
    unfold Rule.preds; rw [mem_ext]; exact Or.inr (tauBody_preds_sub r.body q hq)
  · rcases completeDefinition_preds e.1 e.2 q hq with rfl | ⟨f, hf, hqf⟩
    · obtain ⟨r, hr, a, ch, hh, hA⟩ := hentry e he
      rw [hA, tauHeadAtom_predicate a _ (hla r hr a ch hh)]
      refine hrule r hr _ ?_
      unfold Rule.preds; rw [mem_ext, headOf_predicate hh]; exact Or.inl (by simp)
    · obtain ⟨r, hr, a, ch, hh, rfl, _⟩ := (mem_comps_partialDef P _ f e.1).mp ((hspec.2 e.1 f).mp ⟨e.2, he, hf⟩)
      exact hrule r hr q (tauRuleBody_preds_sub ch a r _ hh (hla r hr a ch hh) q hqf)
  · rcases completeDefinition_preds _ _ q hq with rfl | ⟨f, hf, _⟩
    · rw [atomFromPred_predicate]
      -- p is a predicate of the tau* theory
      unfold Theory.preds at hpm
      rw [mem_foldl_ext] at hpm
      simp only [List.not_mem_nil, false_or] at hpm
      obtain ⟨F', hF', hp'⟩ := hpm
      obtain ⟨r, hr, rfl⟩ := List.mem_map.mp hF'
      refine hrule r hr _ ?_
      -- the formula of a rule mentions only predicates of the rule
      cases hh : r.head with
      | falsity =>
        unfold tauStarRule at hp'
        simp only [hh] at hp'
        have : p ∈ (Formula.bin .imp (tauBody r.body) .fls).preds := by
          split at hp' <;> exact hp'
        simp only [Formula.preds, mem_ext, Formula.fls, AtomicF.preds, List.not_mem_nil, or_false] at this
        unfold Rule.preds; rw [mem_ext]; exact Or.inr (tauBody_preds_sub r.body p this)
      | basic a | choice a =>
        all_goals
          first
            | (rw [tauStarRule_basic r a _ hh] at hp'
               exact headRuleFormula_preds_sub false a r _ (Or.inl ⟨hh, rfl⟩) (hla r hr a false (Or.inl ⟨hh, rfl⟩)) p hp')
            | (rw [tauStarRule_choice r a _ hh] at hp'
               exact headRuleFormula_preds_sub true a r _ (Or.inr ⟨hh, rfl⟩) (hla r hr a true (Or.inr ⟨hh, rfl⟩)) p hp')
    · cases hf

/-- `completion_tight` for an arbitrary interpretation, cut down to the program's signature -/
theorem completion_stable (P : Program) (ins : List Pred) (htight : isTight P = true)
    (hp : globalsPanic P = false) (hins : ∀ q ∈ ins, q ∉ P.headPreds) (Γ : Theory)
    (hΓ : completion (tauStar P) ins = some Γ) (T : PredI) (fc : FcI) (ρ : Asg) :
    (∀ F ∈ Γ, sat ⟨T, fc⟩ F ρ) ↔ Stable P ins (restrictTo (ext P.preds ins) T) fc := by
  obtain ⟨Γ', h1, h2⟩ := completion_tight P ins htight hp hins
  rw [hΓ] at h1
  injection h1 with h1
  subst h1
  rw [← h2 (restrictTo (ext P.preds ins) T) fc ρ (fun q a h => h.2)]
  refine forall_congr' fun F => imp_congr_right fun hF => ?_
  exact (sat_restrict fc T _ F ρ fun q hq => mem_ext.mpr (Or.inl (completion_preds P ins hp Γ hΓ F hF q hq))).symm

/-! ## renaming of private predicates -/

/-- read the predicates in `clash` through their renamed copies -/
def renamedInterp (clash : List (Pred × String)) (T : PredI) : PredI :=
  fun q a => match lookupExt clash ⟨q, a.length⟩ with
    | some e => T (q ++ "_" ++ e) a
    | none => T q a

theorem sat_renamePreds (clash : List (Pred × String)) (T : PredI) (fc : FcI) : ∀ (F : Formula) (ρ : Asg),
    sat ⟨T, fc⟩ (F.renamePreds clash) ρ ↔ sat ⟨renamedInterp clash T, fc⟩ F ρ := by
  intro F
  induction F with
  | atomic a =>
    intro ρ
    cases a with
    | tru | fls | cmp _ _ => exact Iff.rfl
    | atom a =>
      simp only [Formula.renamePreds, renameAtom, sat, AtomicF.sat, renamedInterp, List.length_map,
        Atom.predicate]
      cases lookupExt clash ⟨a.pred, a.args.length⟩ <;> exact Iff.rfl
  | not f ih => intro ρ; simp only [Formula.renamePreds, sat, ih]
  | bin c l r ihl ihr => intro ρ; cases c <;> simp only [Formula.renamePreds, sat, ihl, ihr]
  | quant q vs f ih =>
    intro ρ
    cases q
    · simp only [Formula.renamePreds, sat]; exact bindAll_congr (fun τ => ih τ) ρ
    · simp only [Formula.renamePreds, sat]; exact bindEx_congr (fun τ => ih τ) ρ

/-! ## `replace_placeholders` without placeholders -/

theorem replacePlaceholders_nil : ∀ F : Formula, F.replacePlaceholders [] = F := by
  have hg : ∀ t : GTerm, t.replacePlaceholders [] = t := by
    intro t
    cases t with
    | symb st => cases st <;> rfl
    | inf | sup | fc _ | var _ | int _ => rfl
  intro F
  induction F with
  | atomic a =>
    cases a with
    | tru | fls => rfl
    | atom a =>
      simp only [Formula.replacePlaceholders, AtomicF.replacePlaceholders]
      congr
      conv => rhs; rw [← List.map_id a.args]
      exact List.map_congr_left fun t _ => hg t
    | cmp t gs =>
      simp only [Formula.replacePlaceholders, AtomicF.replacePlaceholders, hg]
      congr
      conv => rhs; rw [← List.map_id gs]
      exact List.map_congr_left fun g _ => by simp [hg]
  | not f ih => simp [Formula.replacePlaceholders, ih]
  | bin c l r ihl ihr => simp [Formula.replacePlaceholders, ihl, ihr]
  | quant q vs f ih => simp [Formula.replacePlaceholders, ih]

/-! ## `control_translate` -/

theorem controlStep_mono (pub : List Pred) : ∀ (l : Theory) (st : Specification × Nat),
    ∀ a ∈ st.1, a ∈ (l.foldl (controlStep pub) st).1 := by
  intro l
  induction l with
  | nil => intro st a ha; exact ha
  | cons g l ihl =>
    intro st a ha
    simp only [List.foldl_cons]
    apply ihl
    unfold controlStep
    split
    · split <;> exact List.mem_append_left _ ha
    · exact List.mem_append_left _ ha

theorem controlTranslate_fold (pub : List Pred) : ∀ (th : Theory) (init : Specification × Nat),
    (∀ f ∈ th, ∃ a ∈ (th.foldl (controlStep pub) init).1, a.formula = f ∧ a.direction = .universal ∧
      (a.role = .spec ∨ a.role = .assumption)) ∧
    (∀ a ∈ (th.foldl (controlStep pub) init).1, a ∈ init.1 ∨
      (a.formula ∈ th ∧ a.direction = .universal ∧ (a.role = .spec ∨ a.role = .assumption))) := by
  intro th
  induction th with
  | nil =>
    intro init
    exact ⟨fun f hf => (by cases hf), fun a ha => Or.inl ha⟩
  | cons f th ih =>
    intro init
    simp only [List.foldl_cons]
    obtain ⟨ih2, ih3⟩ := ih (controlStep pub init f)
    have hstep : ∃ a, (controlStep pub init f).1 = init.1 ++ [a] ∧ a.formula = f ∧ a.direction = .universal ∧
        (a.role = .spec ∨ a.role = .assumption) := by
      unfold controlStep
      split
      · split
        · exact ⟨_, rfl, rfl, rfl, Or.inl rfl⟩
        · exact ⟨_, rfl, rfl, rfl, Or.inr rfl⟩
      · exact ⟨_, rfl, rfl, rfl, Or.inl rfl⟩
    obtain ⟨a0, ha0, hf0, hd0, hr0⟩ := hstep
    refine ⟨?_, ?_⟩
    · intro g hg
      rcases List.mem_cons.mp hg with rfl | hg
      · exact ⟨a0, controlStep_mono pub th _ a0 (by rw [ha0]; simp), hf0, hd0, hr0⟩
      · exact ih2 g hg
    · intro a ha
      rcases ih3 a ha with h | ⟨h1, h2, h3⟩
      · rw [ha0] at h
        rcases List.mem_append.mp h with h | h
        · exact Or.inl h
        · simp only [List.mem_singleton] at h; subst h
          exact Or.inr ⟨by rw [hf0]; exact List.mem_cons_self, hd0, hr0⟩
      · exact Or.inr ⟨List.mem_cons_of_mem _ h1, h2, h3⟩

/-- every formula of the theory appears once in `control_translate`'s output, as a universal `spec`
    or `assumption`, and nothing else appears -/
theorem controlTranslate_spec (pub : List Pred) (th : Theory) :
    (∀ a ∈ controlTranslate pub th, a.formula ∈ th ∧ a.direction = .universal ∧ (a.role = .spec ∨ a.role = .assumption)) ∧
    (∀ f ∈ th, ∃ a ∈ controlTranslate pub th, a.formula = f) := by
  obtain ⟨h2, h3⟩ := controlTranslate_fold pub th ([], 0)
  refine ⟨fun a ha => ?_, fun f hf => ?_⟩
  · rcases h3 a ha with h | h
    · cases h
    · exact h
  · obtain ⟨a, ha, hf', _⟩ := h2 f hf
    exact ⟨a, ha, hf'⟩

/-! ## `assemble` on universal specs and assumptions -/

def isAss (a : SAnn) : Bool := a.role = .assumption
def isSpec (a : SAnn) : Bool := a.role = .spec

def UnivSA (l : List SAnn) : Prop := ∀ a ∈ l, a.direction = .universal ∧ (a.role = .spec ∨ a.role = .assumption)

theorem foldl_stepL (brk : Bool) : ∀ (l : List SAnn) (s : Assembled), UnivSA l →
    l.foldl (assembleStepL brk) (.ok s) = .ok { s with
      stable := s.stable ++ (l.filter isAss).map (·.toProblem .axiom),
      fwdPremises := s.fwdPremises ++ (l.filter isSpec).map (·.toProblem .axiom),
      bwdConclusions := s.bwdConclusions ++ (l.filter isSpec).flatMap (conjOf brk) } := by
  intro l
  induction l with
  | nil => intro s _; simp
  | cons a l ih =>
    intro s h
    obtain ⟨hd, hr⟩ := h a List.mem_cons_self
    have hl : UnivSA l := fun x hx => h x (List.mem_cons_of_mem _ hx)
    simp only [List.foldl_cons]
    rcases hr with hr | hr
    · have e : assembleStepL brk (.ok s) a = .ok { s with
          fwdPremises := s.fwdPremises ++ [a.toProblem .axiom],
          bwdConclusions := s.bwdConclusions ++ conjOf brk a } := by
        simp [assembleStepL, hr, hd]
      rw [e, ih _ hl]
      simp [isAss, isSpec, hr, List.filter_cons, List.append_assoc]
    · have e : assembleStepL brk (.ok s) a = .ok { s with stable := s.stable ++ [a.toProblem .axiom] } := by
        simp [assembleStepL, hr, hd]
      rw [e, ih _ hl]
      simp [isAss, isSpec, hr, List.filter_cons, List.append_assoc]

theorem foldl_stepR (brk : Bool) : ∀ (l : List SAnn) (s : Assembled), UnivSA l →
    l.foldl (assembleStepR brk) (.ok s) = .ok { s with
      stable := s.stable ++ (l.filter isAss).map (·.toProblem .axiom),
      bwdPremises := s.bwdPremises ++ (l.filter isSpec).map (·.toProblem .axiom),
      fwdConclusions := s.fwdConclusions ++ (l.filter isSpec).flatMap (conjOf brk) } := by
  intro l
  induction l with
  | nil => intro s _; simp
  | cons a l ih =>
    intro s h
    obtain ⟨hd, hr⟩ := h a List.mem_cons_self
    have hl : UnivSA l := fun x hx => h x (List.mem_cons_of_mem _ hx)
    simp only [List.foldl_cons]
    rcases hr with hr | hr
    · have e : assembleStepR brk (.ok s) a = .ok { s with
          bwdPremises := s.bwdPremises ++ [a.toProblem .axiom],
          fwdConclusions := s.fwdConclusions ++ conjOf brk a } := by
        simp [assembleStepR, hr, hd]
      rw [e, ih _ hl]
      simp [isAss, isSpec, hr, List.filter_cons, List.append_assoc]
    · have e : assembleStepR brk (.ok s) a = .ok { s with stable := s.stable ++ [a.toProblem .axiom] } := by
        simp [assembleStepR, hr, hd]
      rw [e, ih _ hl]
      simp [isAss, isSpec, hr, List.filter_cons, List.append_assoc]

theorem assemble_ok (left right ug : List SAnn) (brk : Bool) (hl : UnivSA left) (hr : UnivSA right) :
    assemble left right ug brk = .ok {
      stable := ug.map (·.toProblem .axiom) ++ (left.filter isAss).map (·.toProblem .axiom) ++
        (right.filter isAss).map (·.toProblem .axiom),
      fwdPremises := (left.filter isSpec).map (·.toProblem .axiom),
      fwdConclusions := (right.filter isSpec).flatMap (conjOf brk),
      bwdPremises := (right.filter isSpec).map (·.toProblem .axiom),
      bwdConclusions := (left.filter isSpec).flatMap (conjOf brk) } := by
  unfold assemble
  simp only
  rw [foldl_stepL brk left _ hl, foldl_stepR brk right _ hr]
  simp

/-! ## `mkProblem` and the conjectures of a formula -/

def mkProblem0 (name : String) (parts : List (List AnnF)) : Problem :=
  parts.foldl (fun (p : Problem) fs => p.addAnnotated fs) ⟨name, []⟩

theorem mkProblem_eq (name : String) (parts : List (List AnnF)) :
    mkProblem name parts = (mkProblem0 name parts).renameConflictingSymbols.uniqueNames := rfl

theorem mkProblem0_role_forall (name : String) (role : PRole) (Q : Formula → Prop) : ∀ (parts : List (List AnnF)) (p : Problem),
    (∀ a ∈ (parts.foldl (fun (p : Problem) fs => p.addAnnotated fs) p).formulas, a.role = role → Q a.formula) ↔
      (∀ a ∈ p.formulas, a.role = role → Q a.formula) ∧ ∀ part ∈ parts, ∀ a ∈ part, a.role = role → Q a.formula := by
  intro parts
  induction parts with
  | nil => intro p; simp
  | cons part parts ih =>
    intro p
    simp only [List.foldl_cons, ih, List.forall_mem_cons]
    have : (∀ a ∈ (p.addAnnotated part).formulas, a.role = role → Q a.formula) ↔
        (∀ a ∈ p.formulas, a.role = role → Q a.formula) ∧ ∀ a ∈ part, a.role = role → Q a.formula := by
      unfold Problem.addAnnotated
      simp only [List.mem_append, List.mem_map]
      constructor
      · intro h
        exact ⟨fun a ha => h a (Or.inl ha), fun a ha => h { a with name := fixName a.name } (Or.inr ⟨a, ha, rfl⟩)⟩
      · rintro ⟨h1, h2⟩ a (ha | ⟨a0, ha0, rfl⟩)
        · exact h1 a ha
        · exact h2 a0 ha0
    rw [this, and_assoc]

theorem mk_refutes (J : Interp) (ρ : Asg) (name : String) (parts : List (List AnnF)) (d : Decomposition)
    (hnc : (mkProblem0 name parts).renameConflictingSymbols = mkProblem0 name parts) :
    (∃ P ∈ (mkProblem name parts).decompose d, Refutes J ρ P) ↔
      (∀ part ∈ parts, ∀ a ∈ part, a.role = .axiom → sat J a.formula ρ) ∧
      ¬ ∀ part ∈ parts, ∀ a ∈ part, a.role = .conjecture → sat J a.formula ρ := by
  have key : (∃ P ∈ (mkProblem name parts).decompose d, Refutes J ρ P) ↔
      (∀ a ∈ (mkProblem name parts).axioms, sat J a.formula ρ) ∧
      ∃ c ∈ (mkProblem name parts).conjectures, ¬ sat J c.formula ρ := by
    cases d
    · exact C19.independent_refutes J ρ _
    · exact C19.sequential_refutes J ρ _
  rw [key]
  have hall : ∀ role, (∀ a ∈ (mkProblem name parts).formulas, a.role = role → sat J a.formula ρ) ↔
      ∀ part ∈ parts, ∀ a ∈ part, a.role = role → sat J a.formula ρ := by
    intro role
    rw [mkProblem_eq, hnc]
    refine (uniqueNames_role_forall (mkProblem0 name parts) role (fun F => sat J F ρ)).trans ?_
    unfold mkProblem0
    rw [mkProblem0_role_forall name role (fun F => sat J F ρ) parts ⟨name, []⟩]
    simp
  have hax : (∀ a ∈ (mkProblem name parts).axioms, sat J a.formula ρ) ↔
      ∀ part ∈ parts, ∀ a ∈ part, a.role = .axiom → sat J a.formula ρ := by
    rw [← hall .axiom]
    simp only [Problem.axioms, List.mem_filter, decide_eq_true_eq, and_imp]
  have hcj : (∃ c ∈ (mkProblem name parts).conjectures, ¬ sat J c.formula ρ) ↔
      ¬ ∀ part ∈ parts, ∀ a ∈ part, a.role = .conjecture → sat J a.formula ρ := by
    rw [← hall .conjecture]
    simp only [Problem.conjectures, List.mem_filter, decide_eq_true_eq]
    constructor
    · rintro ⟨c, ⟨hc, hr⟩, hn⟩ hall'; exact hn (hall' c hc hr)
    · intro hn
      refine Classical.byContradiction fun hne => hn fun a ha hr => ?_
      exact Classical.byContradiction fun hs => hne ⟨a, ⟨ha, hr⟩, hs⟩
  rw [hax, hcj]

theorem conjOf_sem (J : Interp) (ρ : Asg) (brk : Bool) (a : SAnn) :
    (∀ c ∈ conjOf brk a, c.role = .conjecture) ∧
    ((∀ c ∈ conjOf brk a, sat J c.formula ρ) ↔ sat J a.formula ρ) := by
  unfold conjOf
  cases brk with
  | false =>
    simp only [Bool.false_eq_true, if_false, List.mem_singleton, forall_eq]
    exact ⟨rfl, Iff.rfl⟩
  | true =>
    simp only [if_true, List.mem_map, forall_exists_index, and_imp, forall_apply_eq_imp_iff₂]
    refine ⟨fun _ _ => rfl, ?_⟩
    rw [← break_equiv J a.formula ρ]
    unfold breakAnnotated
    simp only [List.mem_map, Prod.exists, forall_exists_index, and_imp]
    constructor
    · intro h G hG
      obtain ⟨i, hi⟩ := (mem_indexFrom (k := 0)).mp hG
      exact h _ i G hi rfl
    · rintro h x i G hi rfl
      exact h G ((mem_indexFrom (k := 0)).mpr ⟨i, hi⟩)

/-! ## the pipeline for a task that compares two programs, without placeholders and outline -/

/-- the output predicates that the program does not mention are empty -/
def OutputsEmpty (t : ExternalTask) (p : Program) (T : PredI) : Prop :=
  ∀ q ∈ missingOutputs t p, ∀ ds : List Dom, ds.length = q.arity → ¬ T q.symbol ds

theorem emptyDefs_sat (t : ExternalTask) (p : Program) (J : Interp) (ρ : Asg) :
    (∀ F ∈ (missingOutputs t p).map (fun q => completeDefinition (atomFromPred q) []), sat J F ρ) ↔
      OutputsEmpty t p J.pred := by
  simp only [List.mem_map, forall_exists_index, and_imp, forall_apply_eq_imp_iff₂, OutputsEmpty]
  exact forall_congr' fun q => imp_congr_right fun _ => emptyDefinition_sem J.pred J.fc q ρ

theorem theoryTranslate_ok (t : ExternalTask) (fuel : Nat) (p : Program) (th : Theory)
    (h : theoryTranslate t [] fuel p = .ok th) :
    globalsPanic p = false ∧ ∃ Γ, completion (tauStar p) t.userGuide.inputs = some Γ ∧
      ∀ (J : Interp) (ρ : Asg), (∀ F ∈ th, sat J F ρ) ↔ (∀ F ∈ Γ, sat J F ρ) ∧ OutputsEmpty t p J.pred := by
  unfold theoryTranslate at h
  split at h
  · cases h
  · rename_i hp
    have hmap : (tauStar p).map (Formula.replacePlaceholders []) = tauStar p := by
      conv => rhs; rw [← List.map_id (tauStar p)]
      exact List.map_congr_left fun F _ => replacePlaceholders_nil F
    simp only [hmap] at h
    refine ⟨by simpa using hp, ?_⟩
    cases hc : completion (tauStar p) t.userGuide.inputs with
    | none => simp [hc] at h
    | some Γ =>
      simp only [hc] at h
      refine ⟨Γ, rfl, fun J ρ => ?_⟩
      have hsplit : (∀ F ∈ Γ ++ (missingOutputs t p).map (fun q => completeDefinition (atomFromPred q) []), sat J F ρ) ↔
          (∀ F ∈ Γ, sat J F ρ) ∧ OutputsEmpty t p J.pred := by
        rw [List.forall_mem_append, emptyDefs_sat]
      split at h
      · cases hs : simplifyTheory .classic fuel (Γ ++ (missingOutputs t p).map (fun q => completeDefinition (atomFromPred q) [])) with
        | none => simp [hs] at h
        | some th' =>
          simp only [hs] at h
          injection h with h
          subst h
          rw [simplifyTheory_some hs, allTrue_simplify_classic]
          exact hsplit
      · injection h with h
        subst h
        exact hsplit

theorem ugAss_fold (ug : UserGuide) : ∀ (l : List SAnn) (acc : List SAnn) (res : List SAnn),
    l.foldl (ugAssStep ug []) (.ok acc) = .ok res → res = acc ++ l.filter (fun f => f.role = .assumption) := by
  intro l
  induction l with
  | nil => intro acc res h; simp at h; simp [h]
  | cons f l ih =>
    intro acc res h
    simp only [List.foldl_cons] at h
    have habs : ∀ (l : List SAnn) (e : TaskError), l.foldl (ugAssStep ug []) (.err e) = .err e := by
      intro l
      induction l with
      | nil => intro e; rfl
      | cons g l ihl => intro e; simp only [List.foldl_cons]; exact ihl e
    by_cases hr : f.role = .assumption
    · by_cases hany : f.formula.preds.any (· ∈ ug.outputs) = true
      · have : ugAssStep ug [] (.ok acc) f = .err .outputPredicateInUserGuideAssumption := by
          simp [ugAssStep, hr, hany]
        rw [this, habs] at h; cases h
      · have hf : f.replacePlaceholders [] = f := by
          cases f; simp [SAnn.replacePlaceholders, replacePlaceholders_nil]
        have : ugAssStep ug [] (.ok acc) f = .ok (acc ++ [f]) := by
          simp [ugAssStep, hr, hany, hf]
        rw [this] at h
        rw [ih _ _ h]
        simp [List.filter_cons, hr]
    · have : ugAssStep ug [] (.ok acc) f = .ok acc := by simp [ugAssStep, hr]
      rw [this] at h
      rw [ih _ _ h]
      simp [List.filter_cons, hr]

@[simp] theorem Outcome.ok_bind {α β} (a : α) (f : α → Outcome β) : (Outcome.ok a >>= f) = f a := rfl
@[simp] theorem Outcome.err_bind {α β} (e : TaskError) (f : α → Outcome β) : (Outcome.err e >>= f) = .err e := rfl
@[simp] theorem Outcome.panic_bind {α β} (s : String) (f : α → Outcome β) : (Outcome.panic s >>= f) = .panic s := rfl
@[simp] theorem Outcome.timeout_bind {α β} (f : α → Outcome β) : (Outcome.timeout >>= f) = .timeout := rfl
@[simp] theorem Outcome.pure_eq {α} (a : α) : (pure a : Outcome α) = .ok a := rfl

/-- the program side after `control_translate` and renaming of clashing private predicates -/
def rightSide (t : ExternalTask) (ΓR : Theory) : List SAnn :=
  (controlTranslate t.userGuide.publicPreds ΓR).map fun a =>
    { a with formula := a.formula.renamePreds t.clashMap }

/-- what `assemble` yields for two translated programs -/
def assembledPrograms (t : ExternalTask) (ΓL ΓR : Theory) : Assembled :=
  let left := controlTranslate t.userGuide.publicPreds ΓL
  let right := rightSide t ΓR
  let ug := t.userGuide.formulas.filter fun f => f.role = .assumption
  { stable := ug.map (·.toProblem .axiom) ++ (left.filter isAss).map (·.toProblem .axiom) ++
      (right.filter isAss).map (·.toProblem .axiom),
    fwdPremises := (left.filter isSpec).map (·.toProblem .axiom),
    fwdConclusions := (right.filter isSpec).flatMap (conjOf t.breakEq),
    bwdPremises := (right.filter isSpec).map (·.toProblem .axiom),
    bwdConclusions := (left.filter isSpec).flatMap (conjOf t.breakEq) }

theorem rightSide_univ (t : ExternalTask) (ΓR : Theory) : UnivSA (rightSide t ΓR) := by
  intro a ha
  obtain ⟨a0, ha0, rfl⟩ := List.mem_map.mp ha
  exact ((controlTranslate_spec _ ΓR).1 a0 ha0).2

theorem externalProblems_programs (t : ExternalTask) (PL : Program) (hspec : t.specification = .inl PL)
    (hph : t.userGuide.placeholders = []) (hpo : t.proofOutline = []) (fuel : Nat) (ps : List Problem)
    (h : externalProblems t fuel = .ok ps) :
    precheck t = none ∧ ∃ ΓL ΓR, theoryTranslate t [] fuel PL = .ok ΓL ∧ theoryTranslate t [] fuel t.program = .ok ΓR ∧
      ps = assembledProblems (assembledPrograms t ΓL ΓR) {} t.decomposition t.direction := by
  unfold externalProblems at h
  cases hpre : precheck t with
  | some e => simp [hpre] at h
  | none =>
    refine ⟨rfl, ?_⟩
    simp only [hpre, hspec, hph, hpo] at h
    have hm : mkPlaceholderMap [] = [] := rfl
    simp only [hm] at h
    cases hL : theoryTranslate t [] fuel PL with
    | err e => simp [hL] at h
    | panic s => simp [hL] at h
    | timeout => simp [hL] at h
    | ok ΓL =>
      cases hR : theoryTranslate t [] fuel t.program with
      | err e => simp [hL, hR] at h
      | panic s => simp [hL, hR] at h
      | timeout => simp [hL, hR] at h
      | ok ΓR =>
        refine ⟨ΓL, ΓR, rfl, rfl, ?_⟩
        simp only [hL, hR, Outcome.ok_bind, Outcome.pure_eq] at h
        -- the user-guide assumptions
        cases hU : t.userGuide.formulas.foldl (ugAssStep t.userGuide []) (.ok []) with
        | err e => simp [hU] at h
        | panic s => simp [hU] at h
        | timeout => simp [hU] at h
        | ok ugAss =>
          have hug := ugAss_fold t.userGuide _ [] ugAss hU
          simp only [List.nil_append] at hug
          simp only [hU, Outcome.ok_bind] at h
          have hpoF : ∀ taken, proofOutlineFrom [] taken [] = .ok {} := fun _ => rfl
          simp only [hpoF, Outcome.ok_bind] at h
          have hasm := assemble_ok (controlTranslate t.userGuide.publicPreds ΓL) (rightSide t ΓR) ugAss t.breakEq
            (fun a ha => ((controlTranslate_spec _ ΓL).1 a ha).2) (rightSide_univ t ΓR)
          unfold rightSide at hasm
          simp only [hasm, Outcome.ok_bind] at h
          injection h with h
          rw [← h, hug]
          rfl

theorem precheck_programs (t : ExternalTask) (PL : Program) (hspec : t.specification = .inl PL)
    (h : precheck t = none) :
    programError t t.program t.progPrivate = none ∧ programError t PL t.specPrivate = none := by
  unfold precheck at h
  simp only [hspec] at h
  split at h
  · cases h
  · split at h
    · cases h
    · cases hP : programError t t.program t.progPrivate with
      | some e => simp [hP] at h
      | none =>
        simp only [hP] at h
        split at h
        · cases h
        · cases hA : assumptionError t [] t.userGuide.formulas with
          | some e => simp [hA] at h
          | none =>
            simp only [hA] at h
            exact ⟨rfl, h⟩

/-- the specification side after `control_translate` -/
def leftSide (t : ExternalTask) (ΓL : Theory) : List SAnn := controlTranslate t.userGuide.publicPreds ΓL

/-- `rename_conflicting_symbols` leaves the two assembled problems unchanged -/
def NoSymbolConflictExt (t : ExternalTask) (ΓL ΓR : Theory) : Prop :=
  let a := assembledPrograms t ΓL ΓR
  (mkProblem0 "forward_problem" [a.stable, a.fwdPremises, [], a.fwdConclusions]).renameConflictingSymbols =
    mkProblem0 "forward_problem" [a.stable, a.fwdPremises, [], a.fwdConclusions] ∧
  (mkProblem0 "backward_problem" [a.stable, a.bwdPremises, [], a.bwdConclusions]).renameConflictingSymbols =
    mkProblem0 "backward_problem" [a.stable, a.bwdPremises, [], a.bwdConclusions]

theorem side_allTrue (J : Interp) (ρ : Asg) (l : List SAnn) (hu : UnivSA l) :
    (∀ a ∈ l, sat J a.formula ρ) ↔
      (∀ a ∈ l, a.role = .assumption → sat J a.formula ρ) ∧ (∀ a ∈ l, a.role = .spec → sat J a.formula ρ) := by
  constructor
  · intro h; exact ⟨fun a ha _ => h a ha, fun a ha _ => h a ha⟩
  · rintro ⟨h1, h2⟩ a ha
    rcases (hu a ha).2 with hr | hr
    · exact h2 a ha hr
    · exact h1 a ha hr

end Anthem
