/-
  C02, the generic core: the model-theoretic reading of the problems assembled from an arbitrary
  specification side (annotated formulas with roles assumption/spec and any direction), the
  translated program side and the user-guide assumptions. Instantiated for programs and
  specifications, with and without placeholders.
-/
import AnthemModel.Proofs.ExternalSemSpec
namespace Anthem
open Asp

/-- what `assemble` yields for a specification side `left`, the translated program and the
    user-guide assumptions `ugAss` -/
def assembledGen (t : ExternalTask) (left ugAss : List SAnn) (ΓR : Theory) : Assembled :=
  let right := rightSide t ΓR
  { stable := ugAss.map (·.toProblem .axiom) ++ (left.filter lStable).map (·.toProblem .axiom) ++
      (right.filter isAss).map (·.toProblem .axiom),
    fwdPremises := (left.filter lFwdPrem).map (·.toProblem .axiom),
    fwdConclusions := (right.filter isSpec).flatMap (conjOf t.breakEq),
    bwdPremises := (right.filter isSpec).map (·.toProblem .axiom),
    bwdConclusions := (left.filter lBwdConc).flatMap (conjOf t.breakEq) }

theorem assemble_gen (t : ExternalTask) (left ugAss : List SAnn) (ΓR : Theory) (hl : RolesAS left) :
    assemble left (rightSide t ΓR) ugAss t.breakEq = .ok (assembledGen t left ugAss ΓR) :=
  assemble_ok_spec left (rightSide t ΓR) ugAss t.breakEq hl (rightSide_univ t ΓR)

def NoSymbolConflictGen (a : Assembled) : Prop :=
  (mkProblem0 "forward_problem" [a.stable, a.fwdPremises, [], a.fwdConclusions]).renameConflictingSymbols =
    mkProblem0 "forward_problem" [a.stable, a.fwdPremises, [], a.fwdConclusions] ∧
  (mkProblem0 "backward_problem" [a.stable, a.bwdPremises, [], a.bwdConclusions]).renameConflictingSymbols =
    mkProblem0 "backward_problem" [a.stable, a.bwdPremises, [], a.bwdConclusions]

/-- the generic reading: `SR` is whatever "all formulas of the program side are true" means -/
theorem assembled_refutes (t : ExternalTask) (left ugAss : List SAnn) (ΓR : Theory)
    (hnc : NoSymbolConflictGen (assembledGen t left ugAss ΓR)) (J : Interp) (ρ : Asg) (SR : Prop)
    (hStR : (∀ a ∈ rightSide t ΓR, sat J a.formula ρ) ↔ SR) :
    ((∃ P ∈ assembledProblems (assembledGen t left ugAss ΓR) {} t.decomposition t.direction, Refutes J ρ P) ↔
      (∀ a ∈ ugAss, sat J a.formula ρ) ∧
      (∀ a ∈ left, lStable a = true → sat J a.formula ρ) ∧
      (∀ a ∈ rightSide t ΓR, a.role = .assumption → sat J a.formula ρ) ∧
      (((t.direction = .universal ∨ t.direction = .forward) ∧
          (∀ a ∈ left, lFwdPrem a = true → sat J a.formula ρ) ∧ ¬ SR) ∨
       ((t.direction = .universal ∨ t.direction = .backward) ∧ SR ∧
          ∃ a ∈ left, lBwdConc a = true ∧ ¬ sat J a.formula ρ))) := by
  obtain ⟨hncF, hncB⟩ := hnc
  have huR := rightSide_univ t ΓR
  -- conjectures of a filtered side
  have hconj : ∀ (l : List SAnn) (p : SAnn → Bool), (∀ c ∈ (l.filter p).flatMap (conjOf t.breakEq), c.role = .conjecture →
      sat J c.formula ρ) ↔ ∀ a ∈ l, p a = true → sat J a.formula ρ := by
    intro l p
    simp only [List.mem_flatMap, List.mem_filter, forall_exists_index, and_imp]
    constructor
    · intro hh a ha hp
      refine ((conjOf_sem J ρ t.breakEq a).2).mp fun c hc => ?_
      exact hh c a ha hp hc ((conjOf_sem J ρ t.breakEq a).1 c hc)
    · intro hh c a ha hs hc _
      exact ((conjOf_sem J ρ t.breakEq a).2).mpr (hh a ha hs) c hc
  have hnoconj : ∀ (l : List AnnF), (∀ a ∈ l, a.role = .axiom) →
      (∀ a ∈ l, a.role = .conjecture → sat J a.formula ρ) := by
    intro l hl a ha hr
    rw [hl a ha] at hr; cases hr
  have hnoax : ∀ (l : List SAnn) (p : SAnn → Bool), ∀ c ∈ (l.filter p).flatMap (conjOf t.breakEq), c.role = .axiom →
      sat J c.formula ρ := by
    intro l p c hc hr
    simp only [List.mem_flatMap] at hc
    obtain ⟨a, _, hc⟩ := hc
    rw [(conjOf_sem J ρ t.breakEq a).1 c hc] at hr; cases hr
  have haxmap : ∀ (l : List SAnn), (∀ a ∈ l.map (·.toProblem .axiom), a.role = .axiom → sat J a.formula ρ) ↔
      ∀ a ∈ l, sat J a.formula ρ := by
    intro l
    simp [SAnn.toProblem]
  have haxroles : ∀ (l : List SAnn), ∀ a ∈ l.map (·.toProblem .axiom), a.role = .axiom := by
    intro l a ha
    obtain ⟨a0, _, rfl⟩ := List.mem_map.mp ha
    rfl
  have hfiltP : ∀ (l : List SAnn) (p : SAnn → Bool),
      ((∀ a ∈ l.filter p, sat J a.formula ρ) ↔ ∀ a ∈ l, p a = true → sat J a.formula ρ) := by
    intro l p
    simp only [List.mem_filter, and_imp]
  have hisA : ∀ a : SAnn, isAss a = true ↔ a.role = .assumption := fun a => by simp [isAss]
  have hisS : ∀ a : SAnn, isSpec a = true ↔ a.role = .spec := fun a => by simp [isSpec]
  have hF := mk_refutes J ρ "forward_problem" _ t.decomposition hncF
  have hB := mk_refutes J ρ "backward_problem" _ t.decomposition hncB
  have hsplitR := side_allTrue J ρ (rightSide t ΓR) huR
  have hstable : (∀ a ∈ (assembledGen t left ugAss ΓR).stable, a.role = .axiom → sat J a.formula ρ) ↔
      (∀ a ∈ ugAss, sat J a.formula ρ) ∧
      (∀ a ∈ left, lStable a = true → sat J a.formula ρ) ∧
      (∀ a ∈ rightSide t ΓR, a.role = .assumption → sat J a.formula ρ) := by
    unfold assembledGen
    simp only [List.forall_mem_append, haxmap, hfiltP, and_assoc, hisA]
  have hstableC : ∀ a ∈ (assembledGen t left ugAss ΓR).stable, a.role = .conjecture → sat J a.formula ρ := by
    apply hnoconj
    unfold assembledGen
    simp only [List.forall_mem_append]
    exact ⟨⟨haxroles _, haxroles _⟩, haxroles _⟩
  have hRspec : (∀ a ∈ rightSide t ΓR, isSpec a = true → sat J a.formula ρ) ↔
      ∀ a ∈ rightSide t ΓR, a.role = .spec → sat J a.formula ρ :=
    forall_congr' fun a => imp_congr_right fun _ => by rw [hisS a]
  have famF : (∃ P ∈ (mkProblem "forward_problem" [(assembledGen t left ugAss ΓR).stable,
        (assembledGen t left ugAss ΓR).fwdPremises, [], (assembledGen t left ugAss ΓR).fwdConclusions]).decompose
        t.decomposition, Refutes J ρ P) ↔
      (∀ a ∈ ugAss, sat J a.formula ρ) ∧
      (∀ a ∈ left, lStable a = true → sat J a.formula ρ) ∧
      (∀ a ∈ rightSide t ΓR, a.role = .assumption → sat J a.formula ρ) ∧
      (∀ a ∈ left, lFwdPrem a = true → sat J a.formula ρ) ∧
      ¬ SR := by
    rw [hF]
    simp only [List.forall_mem_cons, List.not_mem_nil, false_imp_iff, implies_true, and_true, true_and]
    rw [hstable]
    have h1 : (∀ a ∈ (assembledGen t left ugAss ΓR).fwdPremises, a.role = .axiom → sat J a.formula ρ) ↔
        ∀ a ∈ left, lFwdPrem a = true → sat J a.formula ρ := by
      unfold assembledGen
      simp only [haxmap, hfiltP]
    have h2 : ∀ a ∈ (assembledGen t left ugAss ΓR).fwdConclusions, a.role = .axiom → sat J a.formula ρ :=
      hnoax (rightSide t ΓR) isSpec
    have h3 : ∀ a ∈ (assembledGen t left ugAss ΓR).fwdPremises, a.role = .conjecture → sat J a.formula ρ :=
      hnoconj _ (haxroles _)
    have h4 : (∀ a ∈ (assembledGen t left ugAss ΓR).fwdConclusions, a.role = .conjecture → sat J a.formula ρ) ↔
        ∀ a ∈ rightSide t ΓR, a.role = .spec → sat J a.formula ρ := (hconj (rightSide t ΓR) isSpec).trans hRspec
    rw [h1, h4]
    rw [← hStR, hsplitR]
    constructor
    · rintro ⟨⟨⟨hu, hla, hra⟩, hls, _⟩, hn⟩
      exact ⟨hu, hla, hra, hls, fun hall => hn ⟨hstableC, h3, hall.2⟩⟩
    · rintro ⟨hu, hla, hra, hls, hn⟩
      exact ⟨⟨⟨hu, hla, hra⟩, hls, h2⟩, fun hall => hn ⟨hra, hall.2.2⟩⟩
  have famB : (∃ P ∈ (mkProblem "backward_problem" [(assembledGen t left ugAss ΓR).stable,
        (assembledGen t left ugAss ΓR).bwdPremises, [], (assembledGen t left ugAss ΓR).bwdConclusions]).decompose
        t.decomposition, Refutes J ρ P) ↔
      (∀ a ∈ ugAss, sat J a.formula ρ) ∧
      (∀ a ∈ left, lStable a = true → sat J a.formula ρ) ∧
      (∀ a ∈ rightSide t ΓR, a.role = .assumption → sat J a.formula ρ) ∧
      SR ∧
      ∃ a ∈ left, lBwdConc a = true ∧ ¬ sat J a.formula ρ := by
    rw [hB]
    simp only [List.forall_mem_cons, List.not_mem_nil, false_imp_iff, implies_true, and_true, true_and]
    rw [hstable]
    have h1 : (∀ a ∈ (assembledGen t left ugAss ΓR).bwdPremises, a.role = .axiom → sat J a.formula ρ) ↔
        ∀ a ∈ rightSide t ΓR, a.role = .spec → sat J a.formula ρ := by
      unfold assembledGen
      simp only [haxmap, hfiltP]
      exact hRspec
    have h2 : ∀ a ∈ (assembledGen t left ugAss ΓR).bwdConclusions, a.role = .axiom → sat J a.formula ρ :=
      hnoax left lBwdConc
    have h3 : ∀ a ∈ (assembledGen t left ugAss ΓR).bwdPremises, a.role = .conjecture → sat J a.formula ρ :=
      hnoconj _ (haxroles _)
    have h4 : (∀ a ∈ (assembledGen t left ugAss ΓR).bwdConclusions, a.role = .conjecture → sat J a.formula ρ) ↔
        ∀ a ∈ left, lBwdConc a = true → sat J a.formula ρ := hconj left lBwdConc
    rw [h1, h4]
    rw [← hStR, hsplitR]
    constructor
    · rintro ⟨⟨⟨hu, hla, hra⟩, hrs, _⟩, hn⟩
      refine ⟨hu, hla, hra, ⟨hra, hrs⟩, ?_⟩
      refine Classical.byContradiction fun hne => hn ⟨hstableC, h3, fun a ha hp => ?_⟩
      exact Classical.byContradiction fun hs => hne ⟨a, ha, hp, hs⟩
    · rintro ⟨hu, hla, hra, ⟨_, hrs⟩, ⟨a, ha, hp, hs⟩⟩
      exact ⟨⟨⟨hu, hla, hra⟩, hrs, h2⟩, fun hall => hs (hall.2.2 a ha hp)⟩
  have hmemP : ∀ P, P ∈ assembledProblems (assembledGen t left ugAss ΓR) {} t.decomposition t.direction ↔
      ((t.direction = .universal ∨ t.direction = .forward) ∧
        P ∈ (mkProblem "forward_problem" [(assembledGen t left ugAss ΓR).stable,
          (assembledGen t left ugAss ΓR).fwdPremises, [], (assembledGen t left ugAss ΓR).fwdConclusions]).decompose t.decomposition) ∨
      ((t.direction = .universal ∨ t.direction = .backward) ∧
        P ∈ (mkProblem "backward_problem" [(assembledGen t left ugAss ΓR).stable,
          (assembledGen t left ugAss ΓR).bwdPremises, [], (assembledGen t left ugAss ΓR).bwdConclusions]).decompose t.decomposition) := by
    intro P
    unfold assembledProblems
    simp only [List.mem_append]
    have e1 : ∀ ax, outlineProblems "forward" ax ({} : ProofOutline).forwardLemmas = [] := fun _ => rfl
    have e2 : ∀ ax, outlineProblems "backward" ax ({} : ProofOutline).backwardLemmas = [] := fun _ => rfl
    constructor
    · rintro (hP | hP)
      · split at hP
        · rename_i hd
          rw [e1] at hP
          exact Or.inl ⟨hd, by simpa using hP⟩
        · cases hP
      · split at hP
        · rename_i hd
          rw [e2] at hP
          exact Or.inr ⟨hd, by simpa using hP⟩
        · cases hP
    · rintro (⟨hd, hP⟩ | ⟨hd, hP⟩)
      · left; rw [if_pos hd, e1]; simpa using hP
      · right; rw [if_pos hd, e2]; simpa using hP
  constructor
  · rintro ⟨P, hP, href⟩
    rcases (hmemP P).mp hP with ⟨hd, hP⟩ | ⟨hd, hP⟩
    · obtain ⟨hu, h1, h2, h3, h4⟩ := famF.mp ⟨P, hP, href⟩
      exact ⟨hu, h1, h2, Or.inl ⟨hd, h3, h4⟩⟩
    · obtain ⟨hu, h1, h2, h3, h4⟩ := famB.mp ⟨P, hP, href⟩
      exact ⟨hu, h1, h2, Or.inr ⟨hd, h3, h4⟩⟩
  · rintro ⟨hu, h1, h2, ⟨hd, h3, h4⟩ | ⟨hd, h3, h4⟩⟩
    · obtain ⟨P, hP, href⟩ := famF.mpr ⟨hu, h1, h2, h3, h4⟩
      exact ⟨P, (hmemP P).mpr (Or.inl ⟨hd, hP⟩), href⟩
    · obtain ⟨P, hP, href⟩ := famB.mpr ⟨hu, h1, h2, h3, h4⟩
      exact ⟨P, (hmemP P).mpr (Or.inr ⟨hd, hP⟩), href⟩


end Anthem
