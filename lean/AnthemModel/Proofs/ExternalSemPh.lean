/-
  C02 with placeholders: external-equivalence tasks (program or specification against a program)
  whose user guide declares placeholders, no proof outline. A program with placeholders is read as
  the reference semantics prescribes: every placeholder is replaced by the precomputed term the
  interpretation assigns to it (`p.substSym (phNu m J.fc)`).
-/
import AnthemModel.Proofs.ExternalSemGen
import AnthemModel.Proofs.PhProgram
namespace Anthem
open Asp

theorem ugAss_fold_ph (ug : UserGuide) (m : PlaceholderMap) : ∀ (l : List SAnn) (acc : List SAnn) (res : List SAnn),
    l.foldl (ugAssStep ug m) (.ok acc) = .ok res →
      res = acc ++ (l.filter (fun f => f.role = .assumption)).map (SAnn.replacePlaceholders m) := by
  intro l
  induction l with
  | nil => intro acc res h; simp at h; simp [h]
  | cons f l ih =>
    intro acc res h
    simp only [List.foldl_cons] at h
    have habs : ∀ (l : List SAnn) (e : TaskError), l.foldl (ugAssStep ug m) (.err e) = .err e := by
      intro l
      induction l with
      | nil => intro e; rfl
      | cons g l ihl => intro e; simp only [List.foldl_cons]; exact ihl e
    by_cases hr : f.role = .assumption
    · by_cases hany : f.formula.preds.any (· ∈ ug.outputs) = true
      · have : ugAssStep ug m (.ok acc) f = .err .outputPredicateInUserGuideAssumption := by
          simp [ugAssStep, hr, hany]
        rw [this, habs] at h; cases h
      · have : ugAssStep ug m (.ok acc) f = .ok (acc ++ [f.replacePlaceholders m]) := by
          simp [ugAssStep, hr, hany]
        rw [this] at h
        rw [ih _ _ h]
        simp [List.filter_cons, hr]
    · have : ugAssStep ug m (.ok acc) f = .ok acc := by simp [ugAssStep, hr]
      rw [this] at h
      rw [ih _ _ h]
      simp [List.filter_cons, hr]

/-- the placeholder map of a task -/
def ExternalTask.phMap (t : ExternalTask) : PlaceholderMap := mkPlaceholderMap t.userGuide.placeholders

/-- the user-guide assumptions as they enter the problems -/
def ExternalTask.ugAss (t : ExternalTask) : List SAnn :=
  (t.userGuide.formulas.filter fun f => f.role = .assumption).map (SAnn.replacePlaceholders t.phMap)

theorem rolesAS_of_univ {l : List SAnn} (h : UnivSA l) : RolesAS l := fun a ha => (h a ha).2

theorem rolesAS_map_replace (m : PlaceholderMap) {l : List SAnn} (h : RolesAS l) :
    RolesAS (l.map (SAnn.replacePlaceholders m)) := by
  intro a ha
  obtain ⟨a0, ha0, rfl⟩ := List.mem_map.mp ha
  exact h a0 ha0

/-- the pipeline for a task without a proof outline (placeholders allowed): the left side is the
    control-translated theory of the specification program, or the specification with its
    placeholders replaced -/
theorem externalProblems_ph (t : ExternalTask) (hpo : t.proofOutline = []) (fuel : Nat) (ps : List Problem)
    (h : externalProblems t fuel = .ok ps) :
    precheck t = none ∧ ∃ (left : List SAnn) (ΓR : Theory), RolesAS left ∧
      (match t.specification with
        | .inl PL => ∃ ΓL, theoryTranslate t t.phMap fuel PL = .ok ΓL ∧ left = controlTranslate t.userGuide.publicPreds ΓL
        | .inr S => left = S.map (SAnn.replacePlaceholders t.phMap)) ∧
      theoryTranslate t t.phMap fuel t.program = .ok ΓR ∧
      ps = assembledProblems (assembledGen t left t.ugAss ΓR) {} t.decomposition t.direction := by
  unfold externalProblems at h
  cases hpre : precheck t with
  | some e => simp [hpre] at h
  | none =>
    refine ⟨rfl, ?_⟩
    simp only [hpre, hpo] at h
    -- the common tail, for a given left side
    have tail : ∀ (left : List SAnn), RolesAS left →
        (do
          let rightTh ← theoryTranslate t t.phMap fuel t.program
          let right := (controlTranslate t.userGuide.publicPreds rightTh).map fun a =>
            { a with formula := a.formula.renamePreds t.clashMap }
          let ugAss ← t.userGuide.formulas.foldl (ugAssStep t.userGuide t.phMap) (.ok [])
          let taken := right.foldl (fun acc a => ext acc a.formula.preds)
            (left.foldl (fun acc a => ext acc a.formula.preds) t.userGuide.inputs)
          let po ← proofOutlineFrom [] taken t.phMap
          let asm ← assemble left right ugAss t.breakEq
          pure (assembledProblems asm po t.decomposition t.direction)) = Outcome.ok ps →
        ∃ ΓR, theoryTranslate t t.phMap fuel t.program = .ok ΓR ∧
          ps = assembledProblems (assembledGen t left t.ugAss ΓR) {} t.decomposition t.direction := by
      intro left hroles h
      cases hR : theoryTranslate t t.phMap fuel t.program with
      | err e => simp [hR] at h
      | panic s => simp [hR] at h
      | timeout => simp [hR] at h
      | ok ΓR =>
        refine ⟨ΓR, rfl, ?_⟩
        simp only [hR, Outcome.ok_bind, Outcome.pure_eq] at h
        cases hU : t.userGuide.formulas.foldl (ugAssStep t.userGuide t.phMap) (.ok []) with
        | err e => simp [hU] at h
        | panic s => simp [hU] at h
        | timeout => simp [hU] at h
        | ok ugAss =>
          have hug := ugAss_fold_ph t.userGuide t.phMap _ [] ugAss hU
          simp only [List.nil_append] at hug
          simp only [hU, Outcome.ok_bind] at h
          have hpoF : ∀ taken m, proofOutlineFrom [] taken m = .ok {} := fun _ _ => rfl
          simp only [hpoF, Outcome.ok_bind] at h
          have hasm := assemble_gen t left ugAss ΓR hroles
          unfold rightSide at hasm
          simp only [hasm, Outcome.ok_bind] at h
          injection h with h
          rw [← h, hug]
          rfl
    cases hspec : t.specification with
    | inl PL =>
      simp only [hspec] at h
      cases hL : theoryTranslate t (mkPlaceholderMap t.userGuide.placeholders) fuel PL with
      | err e => simp [hL] at h
      | panic s => simp [hL] at h
      | timeout => simp [hL] at h
      | ok ΓL =>
        simp only [hL, Outcome.ok_bind, Outcome.pure_eq] at h
        have hroles : RolesAS (controlTranslate t.userGuide.publicPreds ΓL) :=
          rolesAS_of_univ fun a ha => ((controlTranslate_spec _ ΓL).1 a ha).2
        obtain ⟨ΓR, hR, hps⟩ := tail _ hroles h
        exact ⟨_, ΓR, hroles, ⟨ΓL, hL, rfl⟩, hR, hps⟩
    | inr S =>
      simp only [hspec, Outcome.pure_eq, Outcome.ok_bind] at h
      have hS : RolesAS S := by
        have := precheck_spec t S hspec hpre
        exact this.2
      have hroles := rolesAS_map_replace t.phMap hS
      obtain ⟨ΓR, hR, hps⟩ := tail _ hroles h
      exact ⟨_, ΓR, hroles, rfl, hR, hps⟩

/-- "all formulas of the program side are true" is "stable model of the program with the
    placeholders replaced by their values" -/
theorem rightSide_stable_ph (t : ExternalTask) (hbyp : t.bypassTightness = false) (hpre : precheck t = none)
    (fuel : Nat) (ΓR : Theory) (hR : theoryTranslate t t.phMap fuel t.program = .ok ΓR) (J : Interp) (ρ : Asg) :
    (∀ a ∈ rightSide t ΓR, sat J a.formula ρ) ↔
      Stable (t.program.substSym (phNu t.phMap J.fc)) t.userGuide.inputs
        (restrictTo (ext t.program.preds t.userGuide.inputs)
          (renamedInterp t.clashMap J.pred)) J.fc ∧
      OutputsEmpty t t.program (renamedInterp t.clashMap J.pred) := by
  have hperr : programError t t.program t.progPrivate = none := by
    cases hP : programError t t.program t.progPrivate with
    | none => rfl
    | some e =>
      exfalso
      unfold precheck at hpre
      simp only [hP] at hpre
      split at hpre
      · cases hpre
      · split at hpre <;> cases hpre
  obtain ⟨htR, _, hinsR⟩ := C11.programError_none hperr
  have htR' : isTight t.program = true := htR.resolve_right (by simp [hbyp])
  obtain ⟨hpR, hsem⟩ := theoryTranslate_ok_ph t t.phMap fuel t.program ΓR hR
  obtain ⟨Γ, hΓ, hsemR⟩ := hsem ⟨renamedInterp t.clashMap J.pred, J.fc⟩
  have hst := completion_stable (t.program.substSym (phNu t.phMap J.fc)) t.userGuide.inputs
    (by rw [isTight_substSym]; exact htR') (by rw [globalsPanic_substSym]; exact hpR)
    (by rw [Program.headPreds_substSym]; exact hinsR) Γ hΓ
    (renamedInterp t.clashMap J.pred) J.fc ρ
  rw [Program.preds_substSym] at hst
  rw [← hst, ← hsemR ρ]
  unfold rightSide
  simp only [List.mem_map, forall_exists_index, and_imp, forall_apply_eq_imp_iff₂]
  constructor
  · intro hh F hF
    obtain ⟨a, ha, rfl⟩ := (controlTranslate_spec _ ΓR).2 F hF
    exact (sat_renamePreds _ J.pred J.fc a.formula ρ).mp (hh a ha)
  · intro hh a ha
    exact (sat_renamePreds _ J.pred J.fc a.formula ρ).mpr (hh _ ((controlTranslate_spec _ ΓR).1 a ha).1)

/-- **C02, specification against program, with placeholders** (no proof outline, tightness not
    bypassed). -/
theorem external_refutes_spec_ph (t : ExternalTask) (S : Specification) (hspec : t.specification = .inr S)
    (hpo : t.proofOutline = []) (hbyp : t.bypassTightness = false)
    (fuel : Nat) (ps : List Problem) (h : externalProblems t fuel = .ok ps) :
    ∃ ΓR, theoryTranslate t t.phMap fuel t.program = .ok ΓR ∧
      (NoSymbolConflictGen (assembledGen t (S.map (SAnn.replacePlaceholders t.phMap)) t.ugAss ΓR) →
        ∀ (J : Interp) (ρ : Asg),
        ((∃ P ∈ ps, Refutes J ρ P) ↔
          (∀ a ∈ t.userGuide.formulas, a.role = .assumption → sat J (a.formula.replacePlaceholders t.phMap) ρ) ∧
          (∀ a ∈ S, lStable a = true → sat J (a.formula.replacePlaceholders t.phMap) ρ) ∧
          (∀ a ∈ rightSide t ΓR, a.role = .assumption → sat J a.formula ρ) ∧
          (((t.direction = .universal ∨ t.direction = .forward) ∧
              (∀ a ∈ S, lFwdPrem a = true → sat J (a.formula.replacePlaceholders t.phMap) ρ) ∧
              ¬ (Stable (t.program.substSym (phNu t.phMap J.fc)) t.userGuide.inputs
                (restrictTo (ext t.program.preds t.userGuide.inputs)
                  (renamedInterp t.clashMap J.pred)) J.fc ∧
                OutputsEmpty t t.program (renamedInterp t.clashMap J.pred))) ∨
           ((t.direction = .universal ∨ t.direction = .backward) ∧
              (Stable (t.program.substSym (phNu t.phMap J.fc)) t.userGuide.inputs
                (restrictTo (ext t.program.preds t.userGuide.inputs)
                  (renamedInterp t.clashMap J.pred)) J.fc ∧
                OutputsEmpty t t.program (renamedInterp t.clashMap J.pred)) ∧
              ∃ a ∈ S, lBwdConc a = true ∧ ¬ sat J (a.formula.replacePlaceholders t.phMap) ρ)))) := by
  obtain ⟨hpre, left, ΓR, _, hleft, hR, hps⟩ := externalProblems_ph t hpo fuel ps h
  simp only [hspec] at hleft
  subst hleft
  refine ⟨ΓR, hR, fun hnc J ρ => ?_⟩
  rw [hps, assembled_refutes t _ _ ΓR hnc J ρ _ (rightSide_stable_ph t hbyp hpre fuel ΓR hR J ρ)]
  have hmapAll : ∀ (p : SAnn → Bool), (∀ a, p (a.replacePlaceholders t.phMap) = p a) →
      ((∀ a ∈ S.map (SAnn.replacePlaceholders t.phMap), p a = true → sat J a.formula ρ) ↔
        ∀ a ∈ S, p a = true → sat J (a.formula.replacePlaceholders t.phMap) ρ) := by
    intro p hp
    simp only [List.mem_map, forall_exists_index, and_imp, forall_apply_eq_imp_iff₂, hp]
    rfl
  have hmapEx : (∃ a ∈ S.map (SAnn.replacePlaceholders t.phMap), lBwdConc a = true ∧ ¬ sat J a.formula ρ) ↔
      ∃ a ∈ S, lBwdConc a = true ∧ ¬ sat J (a.formula.replacePlaceholders t.phMap) ρ := by
    simp only [List.mem_map]
    constructor
    · rintro ⟨a, ⟨a0, ha0, rfl⟩, hp, hs⟩; exact ⟨a0, ha0, hp, hs⟩
    · rintro ⟨a0, ha0, hp, hs⟩; exact ⟨_, ⟨a0, ha0, rfl⟩, hp, hs⟩
  have hug : (∀ a ∈ t.ugAss, sat J a.formula ρ) ↔
      ∀ a ∈ t.userGuide.formulas, a.role = .assumption → sat J (a.formula.replacePlaceholders t.phMap) ρ := by
    unfold ExternalTask.ugAss
    simp only [List.mem_map, List.mem_filter, decide_eq_true_eq, forall_exists_index, and_imp]
    constructor
    · intro hh a ha hr; exact hh _ a ha hr rfl
    · rintro hh a x hx hr rfl; exact hh x hx hr
  rw [hmapAll lStable (fun _ => rfl), hmapAll lFwdPrem (fun _ => rfl), hmapEx, hug]

/-- **C02, program against program, with placeholders** (no proof outline, tightness not bypassed):
    the statement of `external_refutes_programs` with each program read through the values the
    interpretation gives to the placeholders. -/
theorem external_refutes_programs_ph (t : ExternalTask) (PL : Program) (hspec : t.specification = .inl PL)
    (hpo : t.proofOutline = []) (hbyp : t.bypassTightness = false)
    (fuel : Nat) (ps : List Problem) (h : externalProblems t fuel = .ok ps) :
    ∃ ΓL ΓR, theoryTranslate t t.phMap fuel PL = .ok ΓL ∧ theoryTranslate t t.phMap fuel t.program = .ok ΓR ∧
      (NoSymbolConflictGen (assembledGen t (leftSide t ΓL) t.ugAss ΓR) → ∀ (J : Interp) (ρ : Asg),
        ((∃ P ∈ ps, Refutes J ρ P) ↔
          (∀ a ∈ t.userGuide.formulas, a.role = .assumption → sat J (a.formula.replacePlaceholders t.phMap) ρ) ∧
          (((t.direction = .universal ∨ t.direction = .forward) ∧
              (Stable (PL.substSym (phNu t.phMap J.fc)) t.userGuide.inputs
                (restrictTo (ext PL.preds t.userGuide.inputs) J.pred) J.fc ∧ OutputsEmpty t PL J.pred) ∧
              (∀ a ∈ rightSide t ΓR, a.role = .assumption → sat J a.formula ρ) ∧
              ¬ (Stable (t.program.substSym (phNu t.phMap J.fc)) t.userGuide.inputs
                (restrictTo (ext t.program.preds t.userGuide.inputs)
                  (renamedInterp t.clashMap J.pred)) J.fc ∧
                OutputsEmpty t t.program (renamedInterp t.clashMap J.pred))) ∨
           ((t.direction = .universal ∨ t.direction = .backward) ∧
              (Stable (t.program.substSym (phNu t.phMap J.fc)) t.userGuide.inputs
                (restrictTo (ext t.program.preds t.userGuide.inputs)
                  (renamedInterp t.clashMap J.pred)) J.fc ∧
                OutputsEmpty t t.program (renamedInterp t.clashMap J.pred)) ∧
              (∀ a ∈ leftSide t ΓL, a.role = .assumption → sat J a.formula ρ) ∧
              ¬ (Stable (PL.substSym (phNu t.phMap J.fc)) t.userGuide.inputs
                (restrictTo (ext PL.preds t.userGuide.inputs) J.pred) J.fc ∧ OutputsEmpty t PL J.pred))))) := by
  obtain ⟨hpre, left, ΓR, _, hleft, hR, hps⟩ := externalProblems_ph t hpo fuel ps h
  simp only [hspec] at hleft
  obtain ⟨ΓL, hL, hleft⟩ := hleft
  subst hleft
  refine ⟨ΓL, ΓR, hL, hR, fun hnc J ρ => ?_⟩
  have hStR := rightSide_stable_ph t hbyp hpre fuel ΓR hR J ρ
  unfold leftSide at hnc
  rw [hps, assembled_refutes t _ _ ΓR hnc J ρ _ hStR]
  -- the left program
  obtain ⟨_, hlerr⟩ := precheck_programs t PL hspec hpre
  obtain ⟨htL, _, hinsL⟩ := C11.programError_none hlerr
  have htL' : isTight PL = true := htL.resolve_right (by simp [hbyp])
  obtain ⟨hpL, hsem⟩ := theoryTranslate_ok_ph t t.phMap fuel PL ΓL hL
  obtain ⟨Γ, hΓ, hsemL⟩ := hsem J
  have hst := completion_stable (PL.substSym (phNu t.phMap J.fc)) t.userGuide.inputs
    (by rw [isTight_substSym]; exact htL') (by rw [globalsPanic_substSym]; exact hpL)
    (by rw [Program.headPreds_substSym]; exact hinsL) Γ hΓ J.pred J.fc ρ
  rw [Program.preds_substSym] at hst
  have huL : UnivSA (controlTranslate t.userGuide.publicPreds ΓL) := fun a ha => ((controlTranslate_spec _ ΓL).1 a ha).2
  have hStL : (∀ a ∈ controlTranslate t.userGuide.publicPreds ΓL, sat J a.formula ρ) ↔
      Stable (PL.substSym (phNu t.phMap J.fc)) t.userGuide.inputs
        (restrictTo (ext PL.preds t.userGuide.inputs) J.pred) J.fc ∧ OutputsEmpty t PL J.pred := by
    rw [← hst, ← hsemL ρ]
    constructor
    · intro hh F hF
      obtain ⟨a, ha, rfl⟩ := (controlTranslate_spec _ ΓL).2 F hF
      exact hh a ha
    · intro hh a ha
      exact hh _ ((controlTranslate_spec _ ΓL).1 a ha).1
  have hsplitL := side_allTrue J ρ _ huL
  have hsplitR := side_allTrue J ρ (rightSide t ΓR) (rightSide_univ t ΓR)
  -- on a universal side the three selectors are the roles
  have hLA : (∀ a ∈ controlTranslate t.userGuide.publicPreds ΓL, lStable a = true → sat J a.formula ρ) ↔
      ∀ a ∈ controlTranslate t.userGuide.publicPreds ΓL, a.role = .assumption → sat J a.formula ρ := by
    refine forall_congr' fun a => forall_congr' fun ha => ?_
    have hd := (huL a ha).1
    simp [lStable, hd]
  have hLS : (∀ a ∈ controlTranslate t.userGuide.publicPreds ΓL, lFwdPrem a = true → sat J a.formula ρ) ↔
      ∀ a ∈ controlTranslate t.userGuide.publicPreds ΓL, a.role = .spec → sat J a.formula ρ := by
    refine forall_congr' fun a => forall_congr' fun ha => ?_
    have hd := (huL a ha).1
    simp [lFwdPrem, hd]
  have hLC : (∃ a ∈ controlTranslate t.userGuide.publicPreds ΓL, lBwdConc a = true ∧ ¬ sat J a.formula ρ) ↔
      ¬ ∀ a ∈ controlTranslate t.userGuide.publicPreds ΓL, a.role = .spec → sat J a.formula ρ := by
    constructor
    · rintro ⟨a, ha, hp, hs⟩ hall
      have hd := (huL a ha).1
      simp only [lBwdConc, hd, Bool.and_eq_true, decide_eq_true_eq] at hp
      exact hs (hall a ha hp.1)
    · intro hn
      refine Classical.byContradiction fun hne => hn fun a ha hr => ?_
      refine Classical.byContradiction fun hs => hne ⟨a, ha, ?_, hs⟩
      have hd := (huL a ha).1
      simp [lBwdConc, hd, hr]
  have hug : (∀ a ∈ t.ugAss, sat J a.formula ρ) ↔
      ∀ a ∈ t.userGuide.formulas, a.role = .assumption → sat J (a.formula.replacePlaceholders t.phMap) ρ := by
    unfold ExternalTask.ugAss
    simp only [List.mem_map, List.mem_filter, decide_eq_true_eq, forall_exists_index, and_imp]
    constructor
    · intro hh a ha hr; exact hh _ a ha hr rfl
    · rintro hh a x hx hr rfl; exact hh x hx hr
  rw [hug, hLA, hLS, hLC]
  unfold leftSide
  rw [← hStL, ← hStR, hsplitL, hsplitR]
  constructor
  · rintro ⟨hu, hla, hra, ⟨hd, hls, hn⟩ | ⟨hd, hr, hn⟩⟩
    · exact ⟨hu, Or.inl ⟨hd, ⟨hla, hls⟩, hra, hn⟩⟩
    · exact ⟨hu, Or.inr ⟨hd, hr, hla, fun hall => hn hall.2⟩⟩
  · rintro ⟨hu, ⟨hd, ⟨hla, hls⟩, hra, hn⟩ | ⟨hd, hr, hla, hn⟩⟩
    · exact ⟨hu, hla, hra, Or.inl ⟨hd, hls, hn⟩⟩
    · exact ⟨hu, hla, hr.1, Or.inr ⟨hd, hr, fun hls => hn ⟨hla, hls⟩⟩⟩

/-! ## without placeholders -/

theorem Term.substSym_id : ∀ t : Term, t.substSym (fun s => .sym s) = t := by
  intro t
  induction t with
  | pre p => cases p <;> rfl
  | var x => rfl
  | neg t ih => simp only [Term.substSym, ih]
  | bin op l r ihl ihr => simp only [Term.substSym, ihl, ihr]

theorem Program.substSym_id (p : Program) : p.substSym (fun s => .sym s) = p := by
  have hargs : ∀ l : List Term, l.map (Term.substSym fun s => .sym s) = l := by
    intro l
    conv => rhs; rw [← List.map_id l]
    exact List.map_congr_left fun t _ => Term.substSym_id t
  have hatom : ∀ a : Asp.Atom, a.substSym (fun s => .sym s) = a := by
    intro a; cases a; simp [Asp.Atom.substSym, hargs]
  unfold Asp.Program.substSym
  conv => rhs; rw [← List.map_id p]
  apply List.map_congr_left
  intro r _
  obtain ⟨h, b⟩ := r
  have hb : b.map (BodyAtom.substSym fun s => .sym s) = b := by
    conv => rhs; rw [← List.map_id b]
    apply List.map_congr_left
    intro f _
    cases f with
    | lit l => cases l; simp [BodyAtom.substSym, hatom]
    | cmp rel l r => simp [BodyAtom.substSym, Term.substSym_id]
  cases h <;> simp [Asp.Rule.substSym, Asp.Head.substSym, hatom, hb]

theorem phNu_nil (fc : FcI) : phNu [] fc = fun s => .sym s := rfl

theorem phMap_nil (t : ExternalTask) (hph : t.userGuide.placeholders = []) : t.phMap = [] := by
  unfold ExternalTask.phMap
  rw [hph]; rfl

end Anthem
