/-
  C02, specification side: an external-equivalence task that compares a *specification*
  (annotated formulas) with a program, without placeholders and without a proof outline.
  The assembly of premises and conclusions by role and direction annotation, and the
  model-theoretic reading of the emitted problems.
-/
import AnthemModel.Proofs.ExternalSem
namespace Anthem
open Asp

/-! ## the specification side of `assemble`, with every direction annotation -/

/-- a universal assumption of the specification: an axiom of both directions -/
def lStable (a : SAnn) : Bool := a.role = .assumption && a.direction = .universal
/-- premises of the forward direction: forward assumptions, universal and forward spec formulas -/
def lFwdPrem (a : SAnn) : Bool :=
  (a.role = .assumption && a.direction = .forward) ||
    (a.role = .spec && (a.direction = .universal || a.direction = .forward))
/-- conclusions of the backward direction: universal and backward spec formulas -/
def lBwdConc (a : SAnn) : Bool := a.role = .spec && (a.direction = .universal || a.direction = .backward)

def RolesAS (l : List SAnn) : Prop := ∀ a ∈ l, a.role = .spec ∨ a.role = .assumption

theorem foldl_stepL_gen (brk : Bool) : ∀ (l : List SAnn) (s : Assembled), RolesAS l →
    l.foldl (assembleStepL brk) (.ok s) = .ok { s with
      stable := s.stable ++ (l.filter lStable).map (·.toProblem .axiom),
      fwdPremises := s.fwdPremises ++ (l.filter lFwdPrem).map (·.toProblem .axiom),
      bwdConclusions := s.bwdConclusions ++ (l.filter lBwdConc).flatMap (conjOf brk) } := by
  intro l
  induction l with
  | nil => intro s _; simp
  | cons a l ih =>
    intro s h
    have hr := h a List.mem_cons_self
    have hl : RolesAS l := fun x hx => h x (List.mem_cons_of_mem _ hx)
    simp only [List.foldl_cons]
    rcases hr with hr | hr
    · cases hd : a.direction with
      | universal =>
        have e : assembleStepL brk (.ok s) a = .ok { s with
            fwdPremises := s.fwdPremises ++ [a.toProblem .axiom],
            bwdConclusions := s.bwdConclusions ++ conjOf brk a } := by
          simp [assembleStepL, hr, hd]
        rw [e, ih _ hl]
        simp [lStable, lFwdPrem, lBwdConc, hr, hd, List.filter_cons, List.append_assoc]
      | forward =>
        have e : assembleStepL brk (.ok s) a = .ok { s with fwdPremises := s.fwdPremises ++ [a.toProblem .axiom] } := by
          simp [assembleStepL, hr, hd]
        rw [e, ih _ hl]
        simp [lStable, lFwdPrem, lBwdConc, hr, hd, List.filter_cons, List.append_assoc]
      | backward =>
        have e : assembleStepL brk (.ok s) a = .ok { s with bwdConclusions := s.bwdConclusions ++ conjOf brk a } := by
          simp [assembleStepL, hr, hd]
        rw [e, ih _ hl]
        simp [lStable, lFwdPrem, lBwdConc, hr, hd, List.filter_cons, List.append_assoc]
    · cases hd : a.direction with
      | universal =>
        have e : assembleStepL brk (.ok s) a = .ok { s with stable := s.stable ++ [a.toProblem .axiom] } := by
          simp [assembleStepL, hr, hd]
        rw [e, ih _ hl]
        simp [lStable, lFwdPrem, lBwdConc, hr, hd, List.filter_cons, List.append_assoc]
      | forward =>
        have e : assembleStepL brk (.ok s) a = .ok { s with fwdPremises := s.fwdPremises ++ [a.toProblem .axiom] } := by
          simp [assembleStepL, hr, hd]
        rw [e, ih _ hl]
        simp [lStable, lFwdPrem, lBwdConc, hr, hd, List.filter_cons, List.append_assoc]
      | backward =>
        have e : assembleStepL brk (.ok s) a = .ok s := by
          simp [assembleStepL, hr, hd]
        rw [e, ih _ hl]
        simp [lStable, lFwdPrem, lBwdConc, hr, hd, List.filter_cons]

theorem assemble_ok_spec (left right ug : List SAnn) (brk : Bool) (hl : RolesAS left) (hr : UnivSA right) :
    assemble left right ug brk = .ok {
      stable := ug.map (·.toProblem .axiom) ++ (left.filter lStable).map (·.toProblem .axiom) ++
        (right.filter isAss).map (·.toProblem .axiom),
      fwdPremises := (left.filter lFwdPrem).map (·.toProblem .axiom),
      fwdConclusions := (right.filter isSpec).flatMap (conjOf brk),
      bwdPremises := (right.filter isSpec).map (·.toProblem .axiom),
      bwdConclusions := (left.filter lBwdConc).flatMap (conjOf brk) } := by
  unfold assemble
  simp only
  rw [foldl_stepL_gen brk left _ hl, foldl_stepR brk right _ hr]
  simp

/-- what `assemble` yields for a specification and a translated program -/
def assembledSpec (t : ExternalTask) (S : Specification) (ΓR : Theory) : Assembled :=
  let right := rightSide t ΓR
  let ug := t.userGuide.formulas.filter fun f => f.role = .assumption
  { stable := ug.map (·.toProblem .axiom) ++ (S.filter lStable).map (·.toProblem .axiom) ++
      (right.filter isAss).map (·.toProblem .axiom),
    fwdPremises := (S.filter lFwdPrem).map (·.toProblem .axiom),
    fwdConclusions := (right.filter isSpec).flatMap (conjOf t.breakEq),
    bwdPremises := (right.filter isSpec).map (·.toProblem .axiom),
    bwdConclusions := (S.filter lBwdConc).flatMap (conjOf t.breakEq) }

theorem map_replacePlaceholders_nil (S : Specification) : S.map (SAnn.replacePlaceholders []) = S := by
  conv => rhs; rw [← List.map_id S]
  exact List.map_congr_left fun a _ => by cases a; simp [SAnn.replacePlaceholders, replacePlaceholders_nil]

/-- what the applicability checks give for a specification task -/
theorem precheck_spec (t : ExternalTask) (S : Specification) (hspec : t.specification = .inr S)
    (h : precheck t = none) :
    programError t t.program t.progPrivate = none ∧ RolesAS S := by
  unfold precheck at h
  simp only [hspec] at h
  split at h
  · cases h
  · split at h
    · cases h
    · cases hP : programError t t.program t.progPrivate with
      | some e => simp [hP] at h
      | none =>
        simp only [hP] at h
        refine ⟨rfl, ?_⟩
        split at h
        · cases h
        · cases hA : assumptionError t [] t.userGuide.formulas with
          | some e => simp [hA] at h
          | none =>
            simp only [hA] at h
            split at h
            · cases h
            · cases hB : assumptionError t t.progPrivate S with
              | some e => simp [hB] at h
              | none =>
                simp only [hB] at h
                split at h
                · cases h
                · rename_i hroles
                  intro a ha
                  have : ¬ (!(decide (a.role = .assumption) || decide (a.role = .spec))) = true := by
                    intro hc
                    exact hroles (List.any_eq_true.mpr ⟨a, ha, hc⟩)
                  by_cases h1 : a.role = .assumption
                  · exact Or.inr h1
                  · by_cases h2 : a.role = .spec
                    · exact Or.inl h2
                    · exact absurd (by simp [h1, h2]) this

theorem externalProblems_spec (t : ExternalTask) (S : Specification) (hspec : t.specification = .inr S)
    (hph : t.userGuide.placeholders = []) (hpo : t.proofOutline = []) (fuel : Nat) (ps : List Problem)
    (h : externalProblems t fuel = .ok ps) :
    precheck t = none ∧ ∃ ΓR, theoryTranslate t [] fuel t.program = .ok ΓR ∧
      ps = assembledProblems (assembledSpec t S ΓR) {} t.decomposition t.direction := by
  have h0 := h
  unfold externalProblems at h
  cases hpre : precheck t with
  | some e => simp [hpre] at h
  | none =>
    refine ⟨rfl, ?_⟩
    obtain ⟨_, hroles⟩ := precheck_spec t S hspec hpre
    simp only [hpre, hspec, hph, hpo] at h
    have hm : mkPlaceholderMap [] = [] := rfl
    simp only [hm, map_replacePlaceholders_nil, Outcome.pure_eq, Outcome.ok_bind] at h
    cases hR : theoryTranslate t [] fuel t.program with
    | err e => simp [hR] at h
    | panic s => simp [hR] at h
    | timeout => simp [hR] at h
    | ok ΓR =>
      refine ⟨ΓR, rfl, ?_⟩
      simp only [hR, Outcome.ok_bind, Outcome.pure_eq] at h
      cases hU : t.userGuide.formulas.foldl (ugAssStep t.userGuide []) (.ok []) with
      | err e => simp [hU] at h
      | panic s => simp [hU] at h
      | timeout => simp [hU] at h
      | ok ugAss =>
        have hug := ugAss_fold t.userGuide _ [] ugAss hU
        simp only [List.nil_append] at hug
        simp only [hU, Outcome.ok_bind] at h
        have hpoF : ∀ taken, proofOutlineFrom [] taken [] = .ok {} := fun _ => rfl
        simp only [hpoF, Outcome.ok_bind] at h
        have hasm := assemble_ok_spec S (rightSide t ΓR) ugAss t.breakEq hroles (rightSide_univ t ΓR)
        unfold rightSide at hasm
        simp only [hasm, Outcome.ok_bind] at h
        injection h with h
        rw [← h, hug]
        rfl

/-- `rename_conflicting_symbols` leaves the two assembled problems unchanged -/
def NoSymbolConflictSpec (t : ExternalTask) (S : Specification) (ΓR : Theory) : Prop :=
  let a := assembledSpec t S ΓR
  (mkProblem0 "forward_problem" [a.stable, a.fwdPremises, [], a.fwdConclusions]).renameConflictingSymbols =
    mkProblem0 "forward_problem" [a.stable, a.fwdPremises, [], a.fwdConclusions] ∧
  (mkProblem0 "backward_problem" [a.stable, a.bwdPremises, [], a.bwdConclusions]).renameConflictingSymbols =
    mkProblem0 "backward_problem" [a.stable, a.bwdPremises, [], a.bwdConclusions]

/-- **C02 for a specification against a program** (no placeholders, no proof outline, tightness not
    bypassed, every flag combination and every direction annotation). Some emitted problem is refuted
    by a classical interpretation `J` iff `J` satisfies the user-guide assumptions, the universal
    assumptions of the specification and the completed definitions of the program's private
    predicates, and
    * (forward) satisfies the specification's forward premises - its forward assumptions and its
      universal / forward `spec` formulas - without being a stable model of the program, or
    * (backward) is a stable model of the program (on the program's vocabulary, with `J`'s own input
      facts) and falsifies one of the specification's universal / backward `spec` formulas. -/
theorem external_refutes_spec (t : ExternalTask) (S : Specification) (hspec : t.specification = .inr S)
    (hph : t.userGuide.placeholders = []) (hpo : t.proofOutline = []) (hbyp : t.bypassTightness = false)
    (fuel : Nat) (ps : List Problem) (h : externalProblems t fuel = .ok ps) :
    ∃ ΓR, theoryTranslate t [] fuel t.program = .ok ΓR ∧
      (NoSymbolConflictSpec t S ΓR → ∀ (J : Interp) (ρ : Asg),
        ((∃ P ∈ ps, Refutes J ρ P) ↔
          (∀ a ∈ t.userGuide.formulas, a.role = .assumption → sat J a.formula ρ) ∧
          (∀ a ∈ S, lStable a = true → sat J a.formula ρ) ∧
          (∀ a ∈ rightSide t ΓR, a.role = .assumption → sat J a.formula ρ) ∧
          (((t.direction = .universal ∨ t.direction = .forward) ∧
              (∀ a ∈ S, lFwdPrem a = true → sat J a.formula ρ) ∧
              ¬ (Stable t.program t.userGuide.inputs
                (restrictTo (ext t.program.preds t.userGuide.inputs)
                  (renamedInterp t.clashMap J.pred)) J.fc ∧
                OutputsEmpty t t.program (renamedInterp t.clashMap J.pred))) ∨
           ((t.direction = .universal ∨ t.direction = .backward) ∧
              (Stable t.program t.userGuide.inputs
                (restrictTo (ext t.program.preds t.userGuide.inputs)
                  (renamedInterp t.clashMap J.pred)) J.fc ∧
                OutputsEmpty t t.program (renamedInterp t.clashMap J.pred)) ∧
              ∃ a ∈ S, lBwdConc a = true ∧ ¬ sat J a.formula ρ)))) := by
  obtain ⟨hpre, ΓR, hR, hps⟩ := externalProblems_spec t S hspec hph hpo fuel ps h
  refine ⟨ΓR, hR, fun hnc J ρ => ?_⟩
  obtain ⟨hncF, hncB⟩ := hnc
  obtain ⟨hperr, _⟩ := precheck_spec t S hspec hpre
  obtain ⟨htR, _, hinsR⟩ := C11.programError_none hperr
  have htR' : isTight t.program = true := htR.resolve_right (by simp [hbyp])
  obtain ⟨hpR, ΓR0, hcR, hsemR⟩ := theoryTranslate_ok t fuel t.program ΓR hR
  have huR := rightSide_univ t ΓR
  have hStR : (∀ a ∈ rightSide t ΓR, sat J a.formula ρ) ↔
      Stable t.program t.userGuide.inputs (restrictTo (ext t.program.preds t.userGuide.inputs)
        (renamedInterp t.clashMap J.pred)) J.fc ∧
      OutputsEmpty t t.program (renamedInterp t.clashMap J.pred) := by
    rw [← completion_stable t.program _ htR' hpR hinsR ΓR0 hcR _ J.fc ρ,
      ← hsemR ⟨renamedInterp t.clashMap J.pred, J.fc⟩ ρ]
    unfold rightSide
    simp only [List.mem_map, forall_exists_index, and_imp, forall_apply_eq_imp_iff₂]
    constructor
    · intro hh F hF
      obtain ⟨a, ha, rfl⟩ := (controlTranslate_spec _ ΓR).2 F hF
      exact (sat_renamePreds _ J.pred J.fc a.formula ρ).mp (hh a ha)
    · intro hh a ha
      exact (sat_renamePreds _ J.pred J.fc a.formula ρ).mpr (hh _ ((controlTranslate_spec _ ΓR).1 a ha).1)
  -- conjectures of a filtered side
  have hconj : ∀ (l : List SAnn) (p : SAnn → Bool), (∀ c ∈ (l.filter p).flatMap (conjOf t.breakEq), c.role = .conjecture →
      sat J c.formula ρ) ↔ ∀ a ∈ l, p a = true → sat J a.formula ρ := by
    intro l p
    simp only [List.mem_flatMap, List.mem_filter, forall_exists_index, and_imp]
    constructor
    · intro hh a ha hp
      refine ((conjOf_sem J ρ t.breakEq a).2).mp fun c hc => ?_
      exact hh c a ha hp hc ((conjOf_sem J ρ t.breakEq a).1 c hc)
    · intro hh c a ha hs hc _
      exact ((conjOf_sem J ρ t.breakEq a).2).mpr (hh a ha hs) c hc
  have hnoconj : ∀ (l : List AnnF), (∀ a ∈ l, a.role = .axiom) →
      (∀ a ∈ l, a.role = .conjecture → sat J a.formula ρ) := by
    intro l hl a ha hr
    rw [hl a ha] at hr; cases hr
  have hnoax : ∀ (l : List SAnn) (p : SAnn → Bool), ∀ c ∈ (l.filter p).flatMap (conjOf t.breakEq), c.role = .axiom →
      sat J c.formula ρ := by
    intro l p c hc hr
    simp only [List.mem_flatMap] at hc
    obtain ⟨a, _, hc⟩ := hc
    rw [(conjOf_sem J ρ t.breakEq a).1 c hc] at hr; cases hr
  have haxmap : ∀ (l : List SAnn), (∀ a ∈ l.map (·.toProblem .axiom), a.role = .axiom → sat J a.formula ρ) ↔
      ∀ a ∈ l, sat J a.formula ρ := by
    intro l
    simp [SAnn.toProblem]
  have haxroles : ∀ (l : List SAnn), ∀ a ∈ l.map (·.toProblem .axiom), a.role = .axiom := by
    intro l a ha
    obtain ⟨a0, _, rfl⟩ := List.mem_map.mp ha
    rfl
  have hfiltP : ∀ (l : List SAnn) (p : SAnn → Bool),
      ((∀ a ∈ l.filter p, sat J a.formula ρ) ↔ ∀ a ∈ l, p a = true → sat J a.formula ρ) := by
    intro l p
    simp only [List.mem_filter, and_imp]
  have hisA : ∀ a : SAnn, isAss a = true ↔ a.role = .assumption := fun a => by simp [isAss]
  have hisS : ∀ a : SAnn, isSpec a = true ↔ a.role = .spec := fun a => by simp [isSpec]
  have hF := mk_refutes J ρ "forward_problem" _ t.decomposition hncF
  have hB := mk_refutes J ρ "backward_problem" _ t.decomposition hncB
  have hsplitR := side_allTrue J ρ (rightSide t ΓR) huR
  have hug : (∀ a ∈ (t.userGuide.formulas.filter fun f => f.role = .assumption), sat J a.formula ρ) ↔
      ∀ a ∈ t.userGuide.formulas, a.role = .assumption → sat J a.formula ρ := by
    simp only [List.mem_filter, decide_eq_true_eq, and_imp]
  have hstable : (∀ a ∈ (assembledSpec t S ΓR).stable, a.role = .axiom → sat J a.formula ρ) ↔
      (∀ a ∈ t.userGuide.formulas, a.role = .assumption → sat J a.formula ρ) ∧
      (∀ a ∈ S, lStable a = true → sat J a.formula ρ) ∧
      (∀ a ∈ rightSide t ΓR, a.role = .assumption → sat J a.formula ρ) := by
    unfold assembledSpec
    simp only [List.forall_mem_append, haxmap, hfiltP, hug, and_assoc, hisA, decide_eq_true_eq]
  have hstableC : ∀ a ∈ (assembledSpec t S ΓR).stable, a.role = .conjecture → sat J a.formula ρ := by
    apply hnoconj
    unfold assembledSpec
    simp only [List.forall_mem_append]
    exact ⟨⟨haxroles _, haxroles _⟩, haxroles _⟩
  have hRspec : (∀ a ∈ rightSide t ΓR, isSpec a = true → sat J a.formula ρ) ↔
      ∀ a ∈ rightSide t ΓR, a.role = .spec → sat J a.formula ρ :=
    forall_congr' fun a => imp_congr_right fun _ => by rw [hisS a]
  have famF : (∃ P ∈ (mkProblem "forward_problem" [(assembledSpec t S ΓR).stable,
        (assembledSpec t S ΓR).fwdPremises, [], (assembledSpec t S ΓR).fwdConclusions]).decompose
        t.decomposition, Refutes J ρ P) ↔
      (∀ a ∈ t.userGuide.formulas, a.role = .assumption → sat J a.formula ρ) ∧
      (∀ a ∈ S, lStable a = true → sat J a.formula ρ) ∧
      (∀ a ∈ rightSide t ΓR, a.role = .assumption → sat J a.formula ρ) ∧
      (∀ a ∈ S, lFwdPrem a = true → sat J a.formula ρ) ∧
      ¬ (Stable t.program t.userGuide.inputs (restrictTo (ext t.program.preds t.userGuide.inputs)
        (renamedInterp t.clashMap J.pred)) J.fc ∧
        OutputsEmpty t t.program (renamedInterp t.clashMap J.pred)) := by
    rw [hF]
    simp only [List.forall_mem_cons, List.not_mem_nil, false_imp_iff, implies_true, and_true, true_and]
    rw [hstable]
    have h1 : (∀ a ∈ (assembledSpec t S ΓR).fwdPremises, a.role = .axiom → sat J a.formula ρ) ↔
        ∀ a ∈ S, lFwdPrem a = true → sat J a.formula ρ := by
      unfold assembledSpec
      simp only [haxmap, hfiltP]
    have h2 : ∀ a ∈ (assembledSpec t S ΓR).fwdConclusions, a.role = .axiom → sat J a.formula ρ :=
      hnoax (rightSide t ΓR) isSpec
    have h3 : ∀ a ∈ (assembledSpec t S ΓR).fwdPremises, a.role = .conjecture → sat J a.formula ρ :=
      hnoconj _ (haxroles _)
    have h4 : (∀ a ∈ (assembledSpec t S ΓR).fwdConclusions, a.role = .conjecture → sat J a.formula ρ) ↔
        ∀ a ∈ rightSide t ΓR, a.role = .spec → sat J a.formula ρ := (hconj (rightSide t ΓR) isSpec).trans hRspec
    rw [h1, h4]
    rw [← hStR, hsplitR]
    constructor
    · rintro ⟨⟨⟨hu, hla, hra⟩, hls, _⟩, hn⟩
      exact ⟨hu, hla, hra, hls, fun hall => hn ⟨hstableC, h3, hall.2⟩⟩
    · rintro ⟨hu, hla, hra, hls, hn⟩
      exact ⟨⟨⟨hu, hla, hra⟩, hls, h2⟩, fun hall => hn ⟨hra, hall.2.2⟩⟩
  have famB : (∃ P ∈ (mkProblem "backward_problem" [(assembledSpec t S ΓR).stable,
        (assembledSpec t S ΓR).bwdPremises, [], (assembledSpec t S ΓR).bwdConclusions]).decompose
        t.decomposition, Refutes J ρ P) ↔
      (∀ a ∈ t.userGuide.formulas, a.role = .assumption → sat J a.formula ρ) ∧
      (∀ a ∈ S, lStable a = true → sat J a.formula ρ) ∧
      (∀ a ∈ rightSide t ΓR, a.role = .assumption → sat J a.formula ρ) ∧
      (Stable t.program t.userGuide.inputs (restrictTo (ext t.program.preds t.userGuide.inputs)
        (renamedInterp t.clashMap J.pred)) J.fc ∧
        OutputsEmpty t t.program (renamedInterp t.clashMap J.pred)) ∧
      ∃ a ∈ S, lBwdConc a = true ∧ ¬ sat J a.formula ρ := by
    rw [hB]
    simp only [List.forall_mem_cons, List.not_mem_nil, false_imp_iff, implies_true, and_true, true_and]
    rw [hstable]
    have h1 : (∀ a ∈ (assembledSpec t S ΓR).bwdPremises, a.role = .axiom → sat J a.formula ρ) ↔
        ∀ a ∈ rightSide t ΓR, a.role = .spec → sat J a.formula ρ := by
      unfold assembledSpec
      simp only [haxmap, hfiltP]
      exact hRspec
    have h2 : ∀ a ∈ (assembledSpec t S ΓR).bwdConclusions, a.role = .axiom → sat J a.formula ρ :=
      hnoax S lBwdConc
    have h3 : ∀ a ∈ (assembledSpec t S ΓR).bwdPremises, a.role = .conjecture → sat J a.formula ρ :=
      hnoconj _ (haxroles _)
    have h4 : (∀ a ∈ (assembledSpec t S ΓR).bwdConclusions, a.role = .conjecture → sat J a.formula ρ) ↔
        ∀ a ∈ S, lBwdConc a = true → sat J a.formula ρ := hconj S lBwdConc
    rw [h1, h4]
    rw [← hStR, hsplitR]
    constructor
    · rintro ⟨⟨⟨hu, hla, hra⟩, hrs, _⟩, hn⟩
      refine ⟨hu, hla, hra, ⟨hra, hrs⟩, ?_⟩
      refine Classical.byContradiction fun hne => hn ⟨hstableC, h3, fun a ha hp => ?_⟩
      exact Classical.byContradiction fun hs => hne ⟨a, ha, hp, hs⟩
    · rintro ⟨hu, hla, hra, ⟨_, hrs⟩, ⟨a, ha, hp, hs⟩⟩
      exact ⟨⟨⟨hu, hla, hra⟩, hrs, h2⟩, fun hall => hs (hall.2.2 a ha hp)⟩
  rw [hps]
  have hmemP : ∀ P, P ∈ assembledProblems (assembledSpec t S ΓR) {} t.decomposition t.direction ↔
      ((t.direction = .universal ∨ t.direction = .forward) ∧
        P ∈ (mkProblem "forward_problem" [(assembledSpec t S ΓR).stable,
          (assembledSpec t S ΓR).fwdPremises, [], (assembledSpec t S ΓR).fwdConclusions]).decompose t.decomposition) ∨
      ((t.direction = .universal ∨ t.direction = .backward) ∧
        P ∈ (mkProblem "backward_problem" [(assembledSpec t S ΓR).stable,
          (assembledSpec t S ΓR).bwdPremises, [], (assembledSpec t S ΓR).bwdConclusions]).decompose t.decomposition) := by
    intro P
    unfold assembledProblems
    simp only [List.mem_append]
    have e1 : ∀ ax, outlineProblems "forward" ax ({} : ProofOutline).forwardLemmas = [] := fun _ => rfl
    have e2 : ∀ ax, outlineProblems "backward" ax ({} : ProofOutline).backwardLemmas = [] := fun _ => rfl
    constructor
    · rintro (hP | hP)
      · split at hP
        · rename_i hd
          rw [e1] at hP
          exact Or.inl ⟨hd, by simpa using hP⟩
        · cases hP
      · split at hP
        · rename_i hd
          rw [e2] at hP
          exact Or.inr ⟨hd, by simpa using hP⟩
        · cases hP
    · rintro (⟨hd, hP⟩ | ⟨hd, hP⟩)
      · left; rw [if_pos hd, e1]; simpa using hP
      · right; rw [if_pos hd, e2]; simpa using hP
  constructor
  · rintro ⟨P, hP, href⟩
    rcases (hmemP P).mp hP with ⟨hd, hP⟩ | ⟨hd, hP⟩
    · obtain ⟨hu, h1, h2, h3, h4⟩ := famF.mp ⟨P, hP, href⟩
      exact ⟨hu, h1, h2, Or.inl ⟨hd, h3, h4⟩⟩
    · obtain ⟨hu, h1, h2, h3, h4⟩ := famB.mp ⟨P, hP, href⟩
      exact ⟨hu, h1, h2, Or.inr ⟨hd, h3, h4⟩⟩
  · rintro ⟨hu, h1, h2, ⟨hd, h3, h4⟩ | ⟨hd, h3, h4⟩⟩
    · obtain ⟨P, hP, href⟩ := famF.mpr ⟨hu, h1, h2, h3, h4⟩
      exact ⟨P, (hmemP P).mpr (Or.inl ⟨hd, hP⟩), href⟩
    · obtain ⟨P, hP, href⟩ := famB.mpr ⟨hu, h1, h2, h3, h4⟩
      exact ⟨P, (hmemP P).mpr (Or.inr ⟨hd, hP⟩), href⟩

end Anthem
